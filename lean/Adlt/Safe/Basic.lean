/-! Rust panics as values: slicing, `unwrap`, checked `usize` subtraction. A model function whose Rust original can
    panic returns `R α`; panic-freedom is then the ordinary theorem `∃ r, f x = .ok r`. -/
namespace Safe

inductive Panic where
  | sliceOOB       -- `&p[a..b]` with `a > b` or `b > len`
  | unwrapNone     -- `.unwrap()` on `None`
  | arith          -- `usize` subtraction below zero (debug: panic; release: wrap-around followed by nonsense)
  | indexOOB       -- `p[i]` with `i >= len`
deriving Repr, DecidableEq

abbrev R := Except Panic
abbrev Bytes := List UInt8

/-- `&p[a..b]` -/
def slice (p : Bytes) (a b : Nat) : R Bytes :=
  if a ≤ b ∧ b ≤ p.length then .ok ((p.drop a).take (b - a)) else .error .sliceOOB

/-- `p.get(a..b)` -/
def get (p : Bytes) (a b : Nat) : Option Bytes :=
  if a ≤ b ∧ b ≤ p.length then some ((p.drop a).take (b - a)) else none

def unwrap {α} : Option α → R α
  | some a => .ok a
  | none => .error .unwrapNone

/-- `a - b` on `usize` -/
def sub (a b : Nat) : R Nat := if b ≤ a then .ok (a - b) else .error .arith

/-- `p[i]` -/
def index (p : Bytes) (i : Nat) : R UInt8 :=
  match p[i]? with
  | some x => .ok x
  | none => .error .indexOOB

def leNat (b : Bytes) : Nat := b.foldr (fun x acc => x.toNat + 256 * acc) 0
def beNat (b : Bytes) : Nat := leNat b.reverse
def rdNat (be : Bool) (b : Bytes) : Nat := if be then beNat b else leNat b

@[simp] theorem slice_ok (p : Bytes) (a b : Nat) (h1 : a ≤ b) (h2 : b ≤ p.length) :
    slice p a b = .ok ((p.drop a).take (b - a)) := by simp [slice, h1, h2]
@[simp] theorem get_some (p : Bytes) (a b : Nat) (h1 : a ≤ b) (h2 : b ≤ p.length) :
    get p a b = some ((p.drop a).take (b - a)) := by simp [get, h1, h2]
@[simp] theorem sub_ok (a b : Nat) (h : b ≤ a) : sub a b = .ok (a - b) := by simp [sub, h]
@[simp] theorem unwrap_some {α} (a : α) : unwrap (some a) = .ok a := rfl

end Safe
