import Adlt.Safe.Ctrl
/-! Panic-freedom of the control-message payload parsers, for every payload: each slice / unwrap / subtraction is
    covered by the length check that precedes it, via the invariant `offset + avail = payload.len()`. -/
namespace Safe

def Inv (p : Bytes) (c : Cur) : Prop := c.offset + c.avail = p.length

theorem parseInt_total (be : Bool) (p : Bytes) (off n : Nat) : ∃ r, parseInt be p off n = .ok r := by
  unfold parseInt
  split
  · exact ⟨_, rfl⟩
  · rename_i h
    have h2 : off + n ≤ p.length := by omega
    rw [get_some p off (off + n) (by omega) h2]
    exact ⟨_, rfl⟩

theorem parseInt_some (be : Bool) (p : Bytes) (off n : Nat) (h : off + n ≤ p.length) :
    ∃ v, parseInt be p off n = .ok (some v) := by
  unfold parseInt
  have : ¬ p.length < off + n := by omega
  simp only [this, if_false]
  rw [get_some p off (off + n) (by omega) h]
  exact ⟨_, rfl⟩

theorem advance_ok (p : Bytes) (c : Cur) (n : Nat) (hn : n ≤ c.avail) (hi : Inv p c) :
    ∃ c', advance c n = .ok c' ∧ Inv p c' ∧ c'.offset = c.offset + n ∧ c'.avail = c.avail - n := by
  unfold advance
  rw [sub_ok _ _ hn]
  refine ⟨_, rfl, ?_, rfl, rfl⟩
  unfold Inv at *
  simp only
  omega

theorem swVersion_safe (be : Bool) (p : Bytes) : ∃ r, swVersion be p = .ok r := by
  unfold swVersion
  split
  · rename_i h
    rw [get_some p 0 4 (by omega) (by omega)]
    simp only [unwrap_some]
    rw [slice_ok p 4 p.length (by omega) (by omega)]
    simp only
    split
    · rename_i h2
      rw [slice_ok _ 0 _ (by omega) h2]
      exact ⟨_, rfl⟩
    · exact ⟨_, rfl⟩
  · exact ⟨_, rfl⟩

theorem unregisterContext_safe (p : Bytes) : ∃ r, unregisterContext p = .ok r := by
  unfold unregisterContext
  split
  · rename_i h
    rw [slice_ok p 0 4 (by omega) (by omega), slice_ok p 4 8 (by omega) (by omega), slice_ok p 8 12 (by omega) (by omega)]
    exact ⟨_, rfl⟩
  · exact ⟨_, rfl⟩

theorem index_ok (p : Bytes) (i : Nat) (h : i < p.length) : ∃ x, index p i = .ok x := by
  unfold index
  rw [List.getElem?_eq_getElem h]
  exact ⟨_, rfl⟩

theorem connectionInfo_safe (p : Bytes) : ∃ r, connectionInfo p = .ok r := by
  unfold connectionInfo
  split
  · rename_i h
    obtain ⟨x, hx⟩ := index_ok p 0 (by omega)
    rw [hx, slice_ok p 1 5 (by omega) (by omega)]
    exact ⟨_, rfl⟩
  · exact ⟨_, rfl⟩

theorem timezone_safe (be : Bool) (p : Bytes) : ∃ r, timezone be p = .ok r := by
  unfold timezone
  split
  · rename_i h
    obtain ⟨v, hv⟩ := parseInt_some be p 0 4 (by omega)
    obtain ⟨x, hx⟩ := index_ok p 4 (by omega)
    rw [hv]
    simp only [unwrap_some, hx]
    exact ⟨_, rfl⟩
  · exact ⟨_, rfl⟩

theorem descBlock_ok (be : Bool) (p : Bytes) (c : Cur) (hi : Inv p c) :
    ∃ r, descBlock be p c = .ok r ∧ ∀ d c', r = some (d, c') → Inv p c' := by
  unfold descBlock
  split
  · rename_i h
    have hlen : c.offset + 2 ≤ p.length := by unfold Inv at hi; omega
    obtain ⟨len, hv⟩ := parseInt_some be p c.offset 2 hlen
    obtain ⟨c1, hc1, hi1, ho1, ha1⟩ := advance_ok p c 2 h hi
    rw [hv]
    simp only [unwrap_some, hc1]
    split
    · rename_i h2
      have hs : c1.offset + len ≤ p.length := by unfold Inv at hi1; omega
      obtain ⟨c2, hc2, hi2, _, _⟩ := advance_ok p c1 len h2.2 hi1
      rw [slice_ok p c1.offset (c1.offset + len) (by omega) hs, hc2]
      refine ⟨_, rfl, ?_⟩
      intro d c' hd
      simp only [Option.some.injEq, Prod.mk.injEq] at hd
      rw [← hd.2]; exact hi2
    · refine ⟨_, rfl, ?_⟩
      intro d c' hd
      simp only [Option.some.injEq, Prod.mk.injEq] at hd
      rw [← hd.2]; exact hi1
  · exact ⟨_, rfl, by intro d c' hd; cases hd⟩

theorem byteField_ok (be : Bool) (p : Bytes) (present : Bool) (c : Cur) (hi : Inv p c) :
    ∃ r, byteField be p present c = .ok r ∧ ∀ v c', r = some (v, c') → Inv p c' := by
  unfold byteField
  split
  · split
    · exact ⟨_, rfl, by intro v c' hd; cases hd⟩
    · rename_i h
      have h1 : 1 ≤ c.avail := by omega
      obtain ⟨r, hr⟩ := parseInt_total be p c.offset 1
      obtain ⟨c1, hc1, hi1, _, _⟩ := advance_ok p c 1 h1 hi
      rw [hr, hc1]
      refine ⟨_, rfl, ?_⟩
      intro v c' hd
      simp only [Option.some.injEq, Prod.mk.injEq] at hd
      rw [← hd.2]; exact hi1
  · refine ⟨_, rfl, ?_⟩
    intro v c' hd
    simp only [Option.some.injEq, Prod.mk.injEq] at hd
    rw [← hd.2]; exact hi

theorem ctidEntry_ok (be : Bool) (p : Bytes) (a b d : Bool) (c : Cur) (hi : Inv p c) :
    ∃ r, ctidEntry be p a b d c = .ok r ∧ ∀ x c', r = some (x, c') → Inv p c' := by
  unfold ctidEntry
  split
  · exact ⟨_, rfl, by intro v c' hd; cases hd⟩
  · rename_i h
    have h4 : 4 ≤ c.avail := by omega
    have hlen : c.offset + 4 ≤ p.length := by unfold Inv at hi; omega
    obtain ⟨c1, hc1, hi1, _, _⟩ := advance_ok p c 4 h4 hi
    rw [get_some p c.offset (c.offset + 4) (by omega) hlen, hc1]
    simp only [unwrap_some]
    obtain ⟨r2, hr2, hn2⟩ := byteField_ok be p a c1 hi1
    rw [hr2]
    cases r2 with
    | none => exact ⟨_, rfl, by intro v c' hd; cases hd⟩
    | some x2 =>
      obtain ⟨ll, c2⟩ := x2
      have hi2 := hn2 ll c2 rfl
      simp only
      obtain ⟨r3, hr3, hn3⟩ := byteField_ok be p b c2 hi2
      rw [hr3]
      cases r3 with
      | none => exact ⟨_, rfl, by intro v c' hd; cases hd⟩
      | some x3 =>
        obtain ⟨ts, c3⟩ := x3
        have hi3 := hn3 ts c3 rfl
        simp only
        split
        · obtain ⟨r4, hr4, hn4⟩ := descBlock_ok be p c3 hi3
          rw [hr4]
          cases r4 with
          | none => exact ⟨_, rfl, by intro v c' hd; cases hd⟩
          | some x4 =>
            obtain ⟨dd, c4⟩ := x4
            refine ⟨_, rfl, ?_⟩
            intro v c' hd
            simp only [Option.some.injEq, Prod.mk.injEq] at hd
            rw [← hd.2]; exact hn4 dd c4 rfl
        · refine ⟨_, rfl, ?_⟩
          intro v c' hd
          simp only [Option.some.injEq, Prod.mk.injEq] at hd
          rw [← hd.2]; exact hi3

theorem ctidLoop_ok (be : Bool) (p : Bytes) (a b d : Bool) (n : Nat) :
    ∀ (c : Cur) (acc : List CtidInfo), Inv p c →
      ∃ r, ctidLoop be p a b d n c acc = .ok r ∧ ∀ l c', r = some (l, c') → Inv p c' := by
  induction n with
  | zero =>
    intro c acc hi
    refine ⟨_, rfl, ?_⟩
    intro l c' hd
    simp only [Option.some.injEq, Prod.mk.injEq] at hd
    rw [← hd.2]; exact hi
  | succ n ih =>
    intro c acc hi
    unfold ctidLoop
    obtain ⟨r, hr, hn⟩ := ctidEntry_ok be p a b d c hi
    rw [hr]
    cases r with
    | none => exact ⟨_, rfl, by intro v c' hd; cases hd⟩
    | some x =>
      obtain ⟨e, c1⟩ := x
      exact ih c1 _ (hn e c1 rfl)

theorem appEntry_ok (be : Bool) (p : Bytes) (a b d : Bool) (c : Cur) (hi : Inv p c) :
    ∃ r, appEntry be p a b d c = .ok r ∧ ∀ x c', r = .next x c' → Inv p c' := by
  unfold appEntry
  split
  · exact ⟨_, rfl, by intro v c' hd; cases hd⟩
  · rename_i h
    have h6 : 6 ≤ c.avail := by omega
    have hlen : c.offset + 4 ≤ p.length := by unfold Inv at hi; omega
    have hlen2 : c.offset + 4 + 2 ≤ p.length := by unfold Inv at hi; omega
    obtain ⟨cnt, hv⟩ := parseInt_some be p (c.offset + 4) 2 hlen2
    obtain ⟨c1, hc1, hi1, _, _⟩ := advance_ok p c 6 h6 hi
    rw [get_some p c.offset (c.offset + 4) (by omega) hlen]
    simp only [unwrap_some, hv, hc1]
    obtain ⟨r2, hr2, hn2⟩ := ctidLoop_ok be p a b d cnt c1 [] hi1
    rw [hr2]
    cases r2 with
    | none => exact ⟨_, rfl, by intro v c' hd; cases hd⟩
    | some x2 =>
      obtain ⟨ctids, c2⟩ := x2
      have hi2 := hn2 ctids c2 rfl
      simp only
      split
      · obtain ⟨r4, hr4, hn4⟩ := descBlock_ok be p c2 hi2
        rw [hr4]
        cases r4 with
        | none => exact ⟨_, rfl, by intro v c' hd; cases hd⟩
        | some x4 =>
          obtain ⟨dd, c4⟩ := x4
          refine ⟨_, rfl, ?_⟩
          intro v c' hd
          simp only [AppStep.next.injEq] at hd
          rw [← hd.2]; exact hn4 dd c4 rfl
      · refine ⟨_, rfl, ?_⟩
        intro v c' hd
        simp only [AppStep.next.injEq] at hd
        rw [← hd.2]; exact hi2

theorem appLoop_ok (be : Bool) (p : Bytes) (a b d : Bool) (n : Nat) :
    ∀ (c : Cur) (acc : List AppInfo), Inv p c → ∃ r, appLoop be p a b d n c acc = .ok r := by
  induction n with
  | zero => intro c acc _; exact ⟨_, rfl⟩
  | succ n ih =>
    intro c acc hi
    unfold appLoop
    obtain ⟨r, hr, hn⟩ := appEntry_ok be p a b d c hi
    rw [hr]
    cases r with
    | abort => exact ⟨_, rfl⟩
    | stop k => exact ⟨_, rfl⟩
    | next x c1 => exact ih c1 _ (hn x c1 rfl)

/-- `parse_ctrl_log_info_payload` cannot panic, whatever the status byte, byte order and payload -/
theorem logInfo_safe (status : Nat) (be : Bool) (p : Bytes) : ∃ r, logInfo status be p = .ok r := by
  unfold logInfo
  split
  · simp only
    split
    · rename_i h
      obtain ⟨cnt, hv⟩ := parseInt_some be p 0 2 (by omega)
      rw [hv, sub_ok p.length 2 h]
      simp only [unwrap_some]
      apply appLoop_ok
      unfold Inv; simp only; omega
    · exact ⟨_, rfl⟩
  · exact ⟨_, rfl⟩

end Safe
