import Adlt.Safe.Basic
import Adlt.Args.Model
/-! Checked, index-based model of `DltMessageArgIterator::next` (src/dlt/mod.rs): the iterator state is the byte
    index into the payload; every `payload[a..b]` is a possible panic. -/
namespace Safe
open Arg (DArg has tyleLen)

/-- the common tail: `if len > 0 && payload.len() >= index + len { Some(&payload[index..index+len]) } else { None }; index += len` -/
def fixedArg (p : Bytes) (ti idx len : Nat) : R (Option DArg × Nat) :=
  if len > 0 ∧ p.length ≥ idx + len then
    match slice p idx (idx + len) with
    | .ok raw => .ok (some { ti := ti, raw := raw }, idx + len)
    | .error e => .error e
  else .ok (none, idx + len)

/-- length-prefixed argument (STRG / RAWD) -/
def lenArg (be : Bool) (p : Bytes) (ti idx : Nat) : R (Option DArg × Nat) :=
  if p.length < idx + 2 then .ok (none, idx)
  else
    match slice p idx (idx + 2) with
    | .error e => .error e
    | .ok w =>
      let len := rdNat be w
      let idx := idx + 2
      if p.length ≥ idx + len then
        match slice p idx (idx + len) with
        | .ok raw => .ok (some { ti := ti, raw := raw }, idx + len)
        | .error e => .error e
      else .ok (none, idx + len)

/-- one call of `next()` on a verbose message: (argument or `None`, new index) -/
def argNext (be : Bool) (p : Bytes) (idx : Nat) : R (Option DArg × Nat) :=
  if p.length ≥ idx + 4 then
    match slice p idx (idx + 4) with
    | .error e => .error e
    | .ok w =>
      let ti := rdNat be w
      let idx := idx + 4
      let len := tyleLen ti
      if has ti Gen.tiVari then .ok (none, idx)
      else if has ti Gen.tiFixp then .ok (none, idx)
      else if has ti (Gen.tiAray + Gen.tiTrai + Gen.tiStru) then .ok (none, idx)
      else if has ti Gen.tiBool then
        (if len != 1 then (if Nat.land ti Gen.tiMaskTyle != 0 then .ok (none, idx) else fixedArg p ti idx 1) else fixedArg p ti idx len)
      else if has ti (Gen.tiSint + Gen.tiUint) then
        (if len < 1 then .ok (none, idx) else fixedArg p ti idx len)
      else if has ti Gen.tiFloa then
        (if len < 2 then .ok (none, idx) else fixedArg p ti idx len)
      else if has ti (Gen.tiStrg + Gen.tiRawd) then lenArg be p ti idx
      else .ok (none, idx)
  else .ok (none, idx)

/-- `for arg in &msg`: call `next()` until it returns `None` -/
def argIter (be : Bool) (p : Bytes) : Nat → Nat → List DArg → R (List DArg)
  | 0, _, acc => .ok acc
  | fuel + 1, idx, acc =>
    match argNext be p idx with
    | .error e => .error e
    | .ok (none, _) => .ok acc
    | .ok (some a, idx') => argIter be p fuel idx' (acc ++ [a])

/-- the non-verbose iterator: at most the 4-byte message id and the rest -/
def nonVerboseArgs (p : Bytes) : R (List Bytes) :=
  if p.length ≥ 4 then
    match slice p 0 4 with
    | .error e => .error e
    | .ok a =>
      if p.length > 4 then
        match slice p 4 p.length with
        | .ok b => .ok [a, b]
        | .error e => .error e
      else .ok [a]
  else .ok []

theorem fixedArg_safe (p : Bytes) (ti idx len : Nat) : ∃ r, fixedArg p ti idx len = .ok r := by
  unfold fixedArg
  split
  · rename_i h
    rw [slice_ok p idx (idx + len) (by omega) h.2]
    exact ⟨_, rfl⟩
  · exact ⟨_, rfl⟩

theorem lenArg_safe (be : Bool) (p : Bytes) (ti idx : Nat) : ∃ r, lenArg be p ti idx = .ok r := by
  unfold lenArg
  split
  · exact ⟨_, rfl⟩
  · rename_i h
    rw [slice_ok p idx (idx + 2) (by omega) (by omega)]
    simp only
    split
    · rename_i h2
      rw [slice_ok p _ _ (by omega) h2]
      exact ⟨_, rfl⟩
    · exact ⟨_, rfl⟩

/-- one step of the argument iterator cannot panic, wherever the index stands (also beyond the payload) -/
theorem argNext_safe (be : Bool) (p : Bytes) (idx : Nat) : ∃ r, argNext be p idx = .ok r := by
  unfold argNext
  split
  · rename_i h
    rw [slice_ok p idx (idx + 4) (by omega) h]
    simp only
    repeat' split
    all_goals first | exact ⟨_, rfl⟩ | exact fixedArg_safe _ _ _ _ | exact lenArg_safe _ _ _ _
  · exact ⟨_, rfl⟩

/-- iterating over all arguments cannot panic -/
theorem argIter_safe (be : Bool) (p : Bytes) (fuel : Nat) : ∀ idx acc, ∃ r, argIter be p fuel idx acc = .ok r := by
  induction fuel with
  | zero => intro _ _; exact ⟨_, rfl⟩
  | succ n ih =>
    intro idx acc
    unfold argIter
    obtain ⟨r, hr⟩ := argNext_safe be p idx
    rw [hr]
    obtain ⟨o, i'⟩ := r
    cases o with
    | none => exact ⟨_, rfl⟩
    | some a => exact ih _ _

theorem nonVerboseArgs_safe (p : Bytes) : ∃ r, nonVerboseArgs p = .ok r := by
  unfold nonVerboseArgs
  split
  · rename_i h
    rw [slice_ok p 0 4 (by omega) (by omega)]
    simp only
    split
    · rw [slice_ok p 4 p.length (by omega) (by omega)]
      exact ⟨_, rfl⟩
    · exact ⟨_, rfl⟩
  · exact ⟨_, rfl⟩

/-- the non-verbose iterator hands out a first argument of exactly 4 bytes (what `get(0..4).unwrap()` on it relies on) -/
theorem nonVerbose_first_is_4 (p : Bytes) (a : Bytes) (t : List Bytes) (h : nonVerboseArgs p = .ok (a :: t)) : a.length = 4 := by
  unfold nonVerboseArgs at h
  split at h
  · rename_i hl
    rw [slice_ok p 0 4 (by omega) (by omega)] at h
    simp only at h
    split at h
    · rw [slice_ok p 4 p.length (by omega) (by omega)] at h
      simp only [Except.ok.injEq, List.cons.injEq] at h
      rw [← h.1]; simp; omega
    · simp only [Except.ok.injEq, List.cons.injEq] at h
      rw [← h.1]; simp; omega
  · simp at h

end Safe
