import Adlt.Convert.Model
import Adlt.Lc.Listing
/-! C14 (file order): the two sorting steps of the input ordering are canonical - the files of one ECU set are read in the
    order of their first reception times, the streams are ranked by the reception time of their first message, whatever
    the order in which they were named - as long as those times are distinct. -/
namespace Cvt
open Lcm

/-- a list sorted (insertion, stable) by a numeric key -/
def leKey {α} (key : α → Nat) (a b : α) : Bool := key a ≤ key b

theorem leKey_total {α} (key : α → Nat) (S : List α) : TotalPreOn (leKey key) S := by
  refine ⟨?_, ?_⟩
  · intro a _ b _; simp only [leKey, decide_eq_true_eq]; omega
  · intro a _ b _ c _; simp only [leKey, decide_eq_true_eq]; omega

/-- **canonical order**: two permutations of each other whose keys are pairwise distinct are sorted to the same list -/
theorem isort_perm_invariant {α} (key : α → Nat) (l l' : List α) (hp : l.Perm l')
    (hinj : ∀ a ∈ l, ∀ b ∈ l, key a = key b → a = b) :
    isortStable (leKey key) l = isortStable (leKey key) l' := by
  have s1 := isortStable_sorted (leKey key) l (leKey_total key l)
  have s2 := isortStable_sorted (leKey key) l' (leKey_total key l')
  have p1 := isortStable_perm (leKey key) l
  have p2 := isortStable_perm (leKey key) l'
  apply List.Perm.eq_of_pairwise (le := fun a b => leKey key a b = true) _ s1 s2 (p1.trans (hp.trans p2.symm))
  intro a b ha hb hab hba
  have ha' : a ∈ l := p1.mem_iff.mp ha
  have hb' : b ∈ l := hp.mem_iff.mpr (p2.mem_iff.mp hb)
  simp only [leKey, decide_eq_true_eq] at hab hba
  exact hinj a ha' b hb' (by omega)

theorem insertByTime_eq (f : File) (l : List File) : insertByTime f l = insertBy (leKey File.firstRecv) f l := by
  induction l with
  | nil => rfl
  | cons g t ih =>
    simp only [insertByTime, insertBy, leKey]
    by_cases h : f.firstRecv < g.firstRecv
    · have : ¬ g.firstRecv ≤ f.firstRecv := by omega
      simp [h, this]
    · have : g.firstRecv ≤ f.firstRecv := by omega
      simp [h, this, ih]

theorem sortByTime_eq (l : List File) : sortByTime l = isortStable (leKey File.firstRecv) l := by
  unfold sortByTime isortStable
  congr 1
  funext acc f
  exact insertByTime_eq f acc

def headRecv (s : List FMsg) : Nat := (s.head?.map (·.recv)).getD 0

theorem insertStream_eq (s : List FMsg) (l : List (List FMsg)) : insertStream s l = insertBy (leKey headRecv) s l := by
  induction l with
  | nil => rfl
  | cons g t ih =>
    simp only [insertStream, insertBy, leKey, headRecv]
    by_cases h : (s.head?.map (·.recv)).getD 0 < (g.head?.map (·.recv)).getD 0
    · have : ¬ (g.head?.map (·.recv)).getD 0 ≤ (s.head?.map (·.recv)).getD 0 := by omega
      simp [h, this]
    · have : (g.head?.map (·.recv)).getD 0 ≤ (s.head?.map (·.recv)).getD 0 := by omega
      simp only [h, if_false, this, decide_true, if_true]
      rw [ih]

theorem rankStreams_eq (ss : List (List FMsg)) : rankStreams ss = isortStable (leKey headRecv) ss := by
  unfold rankStreams isortStable
  congr 1
  funext acc s
  exact insertStream_eq s acc

/-- the files of one ECU set are read in the same order however they were named, when their first reception times differ -/
theorem sortByTime_perm_invariant (l l' : List File) (hp : l.Perm l')
    (hd : ∀ a ∈ l, ∀ b ∈ l, a.firstRecv = b.firstRecv → a = b) : sortByTime l = sortByTime l' := by
  rw [sortByTime_eq, sortByTime_eq]; exact isort_perm_invariant _ l l' hp hd

/-- the streams are ranked the same however they were passed, when their first reception times differ -/
theorem rankStreams_perm_invariant (ss ss' : List (List FMsg)) (hp : ss.Perm ss')
    (hd : ∀ a ∈ ss, ∀ b ∈ ss, headRecv a = headRecv b → a = b) : rankStreams ss = rankStreams ss' := by
  rw [rankStreams_eq, rankStreams_eq]; exact isort_perm_invariant _ ss ss' hp hd

end Cvt
