import Adlt.Convert.Order
/-! C14 (file order), the grouping step: `addFile` puts a file into the group of its ECU set. Up to the order of the groups
    and the order of the files inside a group, the result does not depend on the order in which the files are added. -/
namespace Cvt

/-! ### `sameSet` is an equivalence -/

theorem sameSet_iff (a b : List Nat) : sameSet a b = true ↔ (∀ x ∈ a, x ∈ b) ∧ (∀ x ∈ b, x ∈ a) := by
  simp [sameSet, List.all_eq_true]

theorem sameSet_refl (a : List Nat) : sameSet a a = true := (sameSet_iff a a).mpr ⟨fun _ h => h, fun _ h => h⟩

theorem sameSet_symm (a b : List Nat) (h : sameSet a b = true) : sameSet b a = true := by
  rw [sameSet_iff] at h ⊢; exact ⟨h.2, h.1⟩

theorem sameSet_trans (a b c : List Nat) (h1 : sameSet a b = true) (h2 : sameSet b c = true) : sameSet a c = true := by
  rw [sameSet_iff] at h1 h2 ⊢
  exact ⟨fun x hx => h2.1 x (h1.1 x hx), fun x hx => h1.2 x (h2.2 x hx)⟩

theorem sameSet_congr_left (a a' b : List Nat) (h : sameSet a a' = true) : sameSet a b = sameSet a' b := by
  cases h1 : sameSet a b <;> cases h2 : sameSet a' b <;> try rfl
  · have := sameSet_trans a a' b h h2; rw [h1] at this; cases this
  · have := sameSet_trans a' a b (sameSet_symm _ _ h) h1; rw [h2] at this; cases this

/-! ### groups up to order -/

/-- the keys of the groups are pairwise different ECU sets -/
def Distinct (G : List Group) : Prop := G.Pairwise fun g h => sameSet g.1 h.1 = false

inductive GP : List Group → List Group → Prop
  | nil : GP [] []
  | cons (g g' : Group) (t t' : List Group) : sameSet g.1 g'.1 = true → g.2.Perm g'.2 → GP t t' → GP (g :: t) (g' :: t')
  | swap (a b : Group) (t : List Group) : GP (a :: b :: t) (b :: a :: t)
  | trans {a b c : List Group} : GP a b → GP b c → GP a c

theorem GP.refl (G : List Group) : GP G G := by
  induction G with
  | nil => exact .nil
  | cons g t ih => exact .cons g g t t (sameSet_refl _) (List.Perm.refl _) ih

/-- a key that matches none of the groups of `G` matches none of `G'` -/
theorem gp_nomatch {G G' : List Group} (h : GP G G') (k : List Nat) :
    (∀ g ∈ G, sameSet g.1 k = false) → ∀ g ∈ G', sameSet g.1 k = false := by
  induction h with
  | nil => intro _ g hg; cases hg
  | cons g g' t t' hk _ _ ih =>
    intro hn x hx
    rcases List.mem_cons.mp hx with rfl | hx
    · rw [← sameSet_congr_left g.1 _ k hk]; exact hn g (by simp)
    · exact ih (fun y hy => hn y (List.mem_cons_of_mem _ hy)) x hx
  | swap a b t =>
    intro hn x hx
    apply hn x
    simp only [List.mem_cons] at hx ⊢
    rcases hx with h | h | h
    · exact .inr (.inl h)
    · exact .inl h
    · exact .inr (.inr h)
  | trans _ _ ih1 ih2 => intro hn; exact ih2 (ih1 hn)

theorem gp_distinct {G G' : List Group} (h : GP G G') : Distinct G → Distinct G' := by
  induction h with
  | nil => intro _; exact List.Pairwise.nil
  | cons g g' t t' hk _ ht ih =>
    intro hd
    rw [Distinct, List.pairwise_cons] at hd ⊢
    refine ⟨?_, ih hd.2⟩
    intro x hx
    have h1 : ∀ y ∈ t, sameSet y.1 g'.1 = false := by
      intro y hy
      have := hd.1 y hy
      cases h2 : sameSet y.1 g'.1 with
      | false => rfl
      | true =>
        have := sameSet_trans g.1 g'.1 y.1 hk (sameSet_symm _ _ h2)
        rw [hd.1 y hy] at this; cases this
    have := gp_nomatch ht g'.1 h1 x hx
    cases h3 : sameSet g'.1 x.1 with
    | false => rfl
    | true => rw [sameSet_symm _ _ h3] at this; cases this
  | swap a b t =>
    intro hd
    rw [Distinct, List.pairwise_cons, List.pairwise_cons] at hd ⊢
    obtain ⟨ha, hb, ht⟩ := hd
    refine ⟨?_, ?_, ht⟩
    · intro x hx
      rcases List.mem_cons.mp hx with rfl | hx
      · have := ha b (by simp)
        cases h3 : sameSet b.1 x.1 with
        | false => rfl
        | true => rw [sameSet_symm _ _ h3] at this; cases this
      · exact hb x hx
    · intro x hx; exact ha x (List.mem_cons_of_mem _ hx)
  | trans _ _ ih1 ih2 => intro hd; exact ih2 (ih1 hd)

/-! ### adding a file -/

theorem addFile_distinct (G : List Group) (f : File) (hd : Distinct G) : Distinct (addFile G f) := by
  induction G with
  | nil => simp [addFile, Distinct]
  | cons g t ih =>
    obtain ⟨e, l⟩ := g
    rw [Distinct, List.pairwise_cons] at hd
    simp only [addFile]
    split
    · rw [Distinct, List.pairwise_cons]; exact hd
    · rename_i hm
      have hm' : sameSet e f.ecus = false := by simpa using hm
      rw [Distinct, List.pairwise_cons]
      refine ⟨?_, ih hd.2⟩
      -- the head key differs from every key of `addFile t f`: old ones by `hd`, a new one is `f.ecus`
      have key : ∀ (t : List Group), (∀ x ∈ t, sameSet e x.1 = false) → ∀ x ∈ addFile t f, sameSet e x.1 = false := by
        intro t
        induction t with
        | nil => intro _ x hx; simp only [addFile, List.mem_singleton] at hx; subst hx; exact hm'
        | cons h u ihu =>
          obtain ⟨e2, l2⟩ := h
          intro hh x hx
          simp only [addFile] at hx
          split at hx
          · rcases List.mem_cons.mp hx with rfl | hx
            · exact hh (e2, l2) (by simp)
            · exact hh x (List.mem_cons_of_mem _ hx)
          · rcases List.mem_cons.mp hx with rfl | hx
            · exact hh (e2, l2) (by simp)
            · exact ihu (fun y hy => hh y (List.mem_cons_of_mem _ hy)) x hx
      exact key t hd.1

theorem addFile_gp {G G' : List Group} (h : GP G G') (f : File) : Distinct G → GP (addFile G f) (addFile G' f) := by
  induction h with
  | nil => intro _; exact GP.refl _
  | cons g g' t t' hk hp ht ih =>
    intro hd
    obtain ⟨e, l⟩ := g
    obtain ⟨e', l'⟩ := g'
    have hkeq : sameSet e f.ecus = sameSet e' f.ecus := sameSet_congr_left e e' f.ecus hk
    rw [Distinct, List.pairwise_cons] at hd
    simp only [addFile]
    rw [← hkeq]
    split
    · exact .cons _ _ _ _ hk (hp.append_right _) ht
    · exact .cons _ _ _ _ hk hp (ih hd.2)
  | swap a b t =>
    intro hd
    obtain ⟨ea, la⟩ := a
    obtain ⟨eb, lb⟩ := b
    rw [Distinct, List.pairwise_cons] at hd
    have hab : sameSet ea eb = false := hd.1 (eb, lb) (by simp)
    simp only [addFile]
    by_cases ha : sameSet ea f.ecus = true
    · have hb : sameSet eb f.ecus = false := by
        cases h3 : sameSet eb f.ecus with
        | false => rfl
        | true =>
          have := sameSet_trans ea f.ecus eb ha (sameSet_symm _ _ h3)
          rw [hab] at this; cases this
      simp only [ha, hb, if_true, Bool.false_eq_true, if_false]
      exact .swap _ _ _
    · have ha' : sameSet ea f.ecus = false := by simpa using ha
      by_cases hb : sameSet eb f.ecus = true
      · simp only [ha', hb, if_true, Bool.false_eq_true, if_false]
        exact .swap _ _ _
      · have hb' : sameSet eb f.ecus = false := by simpa using hb
        simp only [ha', hb', Bool.false_eq_true, if_false]
        exact .swap _ _ _
  | trans h1 _ ih1 ih2 => intro hd; exact .trans (ih1 hd) (ih2 (gp_distinct h1 hd))

/-- adding two files in either order gives the same groups up to order -/
theorem addFile_comm (G : List Group) (x y : File) : GP (addFile (addFile G x) y) (addFile (addFile G y) x) := by
  induction G with
  | nil =>
    simp only [addFile]
    by_cases h : sameSet x.ecus y.ecus = true
    · have h' := sameSet_symm _ _ h
      simp only [h, h', if_true]
      exact .cons _ _ _ _ h (List.Perm.swap _ _ _).symm .nil
    · have h1 : sameSet x.ecus y.ecus = false := by simpa using h
      have h2 : sameSet y.ecus x.ecus = false := by
        cases h3 : sameSet y.ecus x.ecus with
        | false => rfl
        | true => rw [sameSet_symm _ _ h3] at h1; cases h1
      simp only [h1, h2, Bool.false_eq_true, if_false, addFile]
      exact .swap _ _ _
  | cons g t ih =>
    obtain ⟨e, l⟩ := g
    simp only [addFile]
    by_cases hx : sameSet e x.ecus = true <;> by_cases hy : sameSet e y.ecus = true
    · simp only [hx, hy, if_true, addFile]
      refine .cons _ _ _ _ (sameSet_refl _) ?_ (GP.refl _)
      simp only [List.append_assoc, List.cons_append, List.nil_append]
      exact List.Perm.append_left _ (List.Perm.swap _ _ _).symm
    · have hy' : sameSet e y.ecus = false := by simpa using hy
      simp only [hx, hy', if_true, Bool.false_eq_true, if_false, addFile]
      exact GP.refl _
    · have hx' : sameSet e x.ecus = false := by simpa using hx
      simp only [hx', hy, if_true, Bool.false_eq_true, if_false, addFile]
      exact GP.refl _
    · have hx' : sameSet e x.ecus = false := by simpa using hx
      have hy' : sameSet e y.ecus = false := by simpa using hy
      simp only [hx', hy', Bool.false_eq_true, if_false, addFile]
      exact .cons _ _ _ _ (sameSet_refl _) (List.Perm.refl _) ih

theorem foldl_addFile_distinct (l : List File) : ∀ G, Distinct G → Distinct (l.foldl addFile G) := by
  induction l with
  | nil => intro G h; exact h
  | cons f t ih => intro G h; exact ih _ (addFile_distinct G f h)

theorem foldl_addFile_gp (l : List File) : ∀ {G G' : List Group}, GP G G' → Distinct G → GP (l.foldl addFile G) (l.foldl addFile G') := by
  induction l with
  | nil => intro G G' h _; exact h
  | cons f t ih => intro G G' h hd; exact ih (addFile_gp h f hd) (addFile_distinct G f hd)

/-- **the grouping does not depend on the order of the files** (up to the order of the groups and inside them) -/
theorem foldl_addFile_perm {l l' : List File} (hp : l.Perm l') : ∀ G, Distinct G → GP (l.foldl addFile G) (l'.foldl addFile G) := by
  induction hp with
  | nil => intro G _; exact GP.refl _
  | cons x _ ih => intro G hd; exact ih _ (addFile_distinct G x hd)
  | swap x y l =>
    intro G hd
    simp only [List.foldl_cons]
    exact foldl_addFile_gp l (addFile_comm G y x) (addFile_distinct _ x (addFile_distinct G y hd))
  | trans _ _ ih1 ih2 => intro G hd; exact .trans (ih1 G hd) (ih2 G hd)

end Cvt
