import Adlt.Convert.Model
import Adlt.Filter.Drv
/-! glue for `adlt convert` (C14).
    case: `<opts> | <filters> | <file>#<file>… | <regex table>`
      opts: `b=<n>,e=<n>,lcs=<a+b>,sort=<0|1>,style=<a|x|s|n>,o=<0|1>,ff=<d|c|->,perm=<i+j+…>,eac=<hex>+<hex>`
      filters: abstract filters as in the `flt` area (rendered to a DLF document for `ff=d`, to the dlt-convert list for `ff=c`)
      file: `;`-separated items: message `ecu,recv,ts,apidhex,ctidhex,lvl,texthex,mcnt` or garbage `g<hex>`
    obs: `X:<exit unfiltered>:<exit> T:<id,ecu,n>+… L:<idx:ecu:apid:ctid:ts:mcnt[:texthex]>+… O:<ecu:apid:ctid:ts:mcnt:recv:texthex>+… W:<1|0|-> P:<1|0|->` -/
namespace Cvt
open Util Flt

structure COpts where
  o : Opts := {}
  style : String := "a"
  out : Bool := false
  ff : String := "-"
  perm : Option (List Nat) := none
  eac : List String := []

def parseFMsg (s : String) : Option FMsg :=
  match s.splitOn "," with
  | [e, r, t, a, c, l, x, k] =>
    let pad (b : List UInt8) : List UInt8 := let b := b.take 4; b ++ List.replicate (4 - b.length) 0
    some { ecu := nat! e, recv := nat! r, ts := nat! t, apid := pad (hexBytes a), ctid := pad (hexBytes c), lvl := nat! l,
           text := strOfHex x, mcnt := nat! k }
  | _ => none

def parseFile (i : Nat) (s : String) : File :=
  { id := i, msgs := (fields s ";").filterMap fun it => if it.startsWith "g" then none else parseFMsg it }

def parseCOpts (s : String) : COpts :=
  (parseKV s).foldl (fun c (k, v) =>
    match k with
    | "b" => { c with o := { c.o with first := nat! v } }
    | "e" => { c with o := { c.o with last := some (nat! v) } }
    | "lcs" => { c with o := { c.o with lcs := (fields v "+").map nat! } }
    | "sort" => { c with o := { c.o with sort := v == "1" } }
    | "style" => { c with style := v }
    | "o" => { c with out := v == "1" }
    | "ff" => { c with ff := v }
    | "perm" => { c with perm := some ((fields v "+").map nat!) }
    | "eac" => { c with eac := (fields v "+").map strOfHex }
    | _ => c) {}

def idText (b : List UInt8) : String := showId b

def ecuText (e : Nat) : String := s!"ECU{e}"

def lineOf (style : String) (p : PMsg) : String :=
  let base := s!"{p.index}:{ecuText p.m.ecu}:{idText p.m.apid}:{idText p.m.ctid}:{p.m.ts}:{p.m.mcnt}"
  if style == "a" then s!"{base}:{hexOf p.m.text.toUTF8.toList}" else base

def fileLineOf (p : PMsg) : String :=
  s!"{ecuText p.m.ecu}:{idText p.m.apid}:{idText p.m.ctid}:{p.m.ts}:{p.m.mcnt}:{p.m.recv}:{hexOf p.m.text.toUTF8.toList}"

/-- the dlt-convert list the harness renders for `ff=c` -/
def convBytes (afs : List AFilter) : List UInt8 :=
  afs.flatMap fun a =>
    let fld (s : Option String) : List UInt8 :=
      let b := ((s.getD "").toList.map fun c => UInt8.ofNat c.toNat).take 4
      b ++ List.replicate (4 - b.length) 45 ++ [32]
    fld a.apid ++ fld a.ctid

def sortStrs (l : List String) : List String := (l.toArray.qsort (fun a b => decide (a < b))).toList

def tok (obs : String) (pre : String) : String :=
  match (fields obs " ").find? (·.startsWith pre) with
  | some t => (t.drop pre.length).toString
  | none => ""

/-- canonical form of an observation: listing by id; printed / written messages as a sorted multiset under `--sort` -/
def canon (sort : Bool) (obs : String) : String :=
  if obs == "PANIC" || obs == "" then obs else
  let t := sortStrs (fields (tok obs "T:") "+")
  let l := fields (tok obs "L:") "+"
  let o := fields (tok obs "O:") "+"
  let l := if sort then sortStrs l else l
  let o := if sort then sortStrs o else o
  s!"X:{tok obs "X:"} T:{"+".intercalate t} L:{"+".intercalate l} O:{"+".intercalate o} W:{tok obs "W:"} P:{tok obs "P:"}"

def doLine (line : String) : String :=
  let (cs, impl) := match line.splitOn "\t" with
    | [c, i] => (c, i)
    | [c] => (c, "")
    | _ => ("", "")
  match cs.splitOn " | " with
  | [oS, fsS, flS, tbS] =>
    let c := parseCOpts oS
    let afs := (fields fsS ";").map parseAFilter
    let allFiles := (flS.splitOn "#").zipIdx.map fun (s, i) => parseFile i s
    let named := match c.perm with
      | some p => p.filterMap fun i => allFiles[i]?
      | none => allFiles
    let tbl := parseTbl tbS
    let re := tbl.re
    let reOk (p : String) : Bool := !tbl.bad.contains p
    let fileFilters : List Filter :=
      if c.ff == "d" then afs.map (fromDlf reOk)
      else if c.ff == "c" then (let b := convBytes afs; fromConvertFormat b.length b)
      else []
    let eacs := c.eac.map (fromEac reOk)
    let eacOk := eacs.all (·.isSome)
    let o : Opts := { c.o with filters := fileFilters ++ eacs.filterMap id }
    let seq := inputSeq named
    let lcOut := Lcm.observe (Lcm.run (lcInput seq))
    let table := lcOut.tbl.map fun t => s!"{t.id},{t.ecu},{t.n}"
    let render (sel : List PMsg) : String :=
      let l := if c.style == "n" then [] else sel.map (lineOf c.style)
      let w := if c.out then sel.map fileLineOf else []
      s!"X:0:{if eacOk then 0 else 2} T:{"+".intercalate table} L:{"+".intercalate l} O:{"+".intercalate w} W:{if c.out then "1" else "-"} P:{if named.length > 1 then "1" else "-"}"
    let sel := if eacOk then convert id (matchesImpl re) o named else []
    let mobs := canon o.sort (render sel)
    -- C14 evaluated on an observation: the emitted messages are exactly those satisfying all selections
    let want := if eacOk then (stageLc seq).filter (Spec.selected re o) else []
    let orc (obs : String) : String :=
      if obs == "PANIC" then "C14=FAIL:harness-panic" else
      let wantObs := canon o.sort (render want)
      let got := canon o.sort obs
      if tok got "X:" != tok wantObs "X:" then "C14=FAIL:exit-status"
      else if tok got "L:" != tok wantObs "L:" then "C14=FAIL:printed-messages-are-not-the-selected-ones"
      else if tok got "O:" != tok wantObs "O:" then "C14=FAIL:written-file-does-not-reread-to-the-selected-messages"
      else if tok got "W:" == "0" then "C14=FAIL:written-bytes-differ-from-the-selected-messages"
      else if tok got "P:" == "0" then "C14=FAIL:result-depends-on-the-order-of-the-file-arguments"
      else "C14=ok"
    let groups := orderInputs named
    let tags : List String :=
      (if c.o.first != 0 || c.o.last.isSome then ["window"] else []) ++ (if !c.o.lcs.isEmpty then ["lcs"] else []) ++
      (if !c.eac.isEmpty then ["eac"] else []) ++ (if c.ff == "d" then ["dlf"] else []) ++ (if c.ff == "c" then ["convert-list"] else []) ++
      (if o.sort then ["sort"] else []) ++ [s!"style-{c.style}"] ++ (if c.out then ["o"] else []) ++
      (if named.length > 1 then ["multi-file"] else []) ++ (if groups.length > 1 then ["multi-group"] else []) ++
      (if groups.any (·.length > 1) then ["chained-files"] else []) ++
      (if c.perm.isSome then ["perm"] else []) ++ (if named.length != (named.map (·.id)).eraseDups.length then ["same-file-twice"] else []) ++
      (if cs.contains ";g" || cs.contains "#g" || cs.contains "| g" then ["garbage"] else []) ++
      (if named.any (·.msgs.isEmpty) then ["empty-file"] else []) ++
      (if want.isEmpty then ["nothing-selected"] else if want.length < seq.length then ["proper-subset"] else ["everything"]) ++
      (if lcOut.tbl.length > 1 then ["multi-lc"] else []) ++
      (if o.filters.any (·.kind == .negative) then ["negative-filter"] else [])
    s!"{mobs}\t{if impl == "" then "-" else orc impl}\t{orc mobs}\t{",".intercalate tags}\t{canon o.sort impl}"
  | _ => "bad\tC14=FAIL:unparsable\tC14=FAIL:unparsable\t"

end Cvt
