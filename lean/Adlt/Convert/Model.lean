import Adlt.Lc.Spec
import Adlt.Filter.Front
/-! Model of `adlt convert` (src/bin/adlt/convert.rs): input ordering (grouping of the files by ECU set, ordering of each
    group by first reception time, de-duplication), merge of the groups by reception time, and the pipeline
    lifecycle detection -> [time sort] -> [filter stage] -> output stage (lifecycle-id set, index window), plus the
    front-ends that exist only in the binary (`ECU:APID:CTID` expressions) or only for convert (the dlt-convert
    APID/CTID list format, `filters_from_convert_format`). The stages themselves are the models of the other areas
    (`Lcm.run`, `Flt.matchesImpl`); the time sorter is a parameter (any permutation: C10). -/
namespace Cvt

/-- a message as it stands in an input file -/
structure FMsg where
  ecu : Nat                -- ECU id "ECU<n>"
  recv : Nat               -- reception time (us)
  ts : Nat                 -- timestamp (0.1 ms)
  apid : List UInt8
  ctid : List UInt8
  lvl : Nat                -- log level of a verbose log message
  text : String            -- payload text
  mcnt : Nat
deriving Repr, DecidableEq

structure File where
  id : Nat                 -- identity of the file (its canonical path)
  msgs : List FMsg
deriving Repr, DecidableEq

def File.firstRecv (f : File) : Nat := match f.msgs with | m :: _ => m.recv | [] => 0
def File.ecus (f : File) : List Nat := (f.msgs.map (·.ecu)).eraseDups
def sameSet (a b : List Nat) : Bool := a.all b.contains && b.all a.contains

/-- one "stream" of convert: the files recorded from one set of ECUs -/
abbrev Group := List Nat × List File

/-- `input_file_streams`: append to the first group with the same ECU set, else open a new group at the end -/
def addFile : List Group → File → List Group
  | [], f => [(f.ecus, [f])]
  | (e, l) :: t, f => if sameSet e f.ecus then (e, l ++ [f]) :: t else (e, l) :: addFile t f

/-- stable insertion by first reception time (`sort_by` on the time only) -/
def insertByTime (f : File) : List File → List File
  | [] => [f]
  | g :: t => if f.firstRecv < g.firstRecv then f :: g :: t else g :: insertByTime f t
def sortByTime (l : List File) : List File := l.foldl (fun acc f => insertByTime f acc) []

/-- `dedup()`: consecutive equal entries (same file named twice) collapse -/
def dedupFiles : List File → List File
  | [] => []
  | [f] => [f]
  | f :: g :: t => if f.id == g.id then dedupFiles (g :: t) else f :: dedupFiles (g :: t)

/-- files without any message are dropped; the rest is grouped, each group ordered and de-duplicated -/
def orderInputs (files : List File) : List (List File) :=
  ((files.filter fun f => !f.msgs.isEmpty).foldl addFile []).map fun g => dedupFiles (sortByTime g.2)

/-- a group is read as the concatenation of its files (`SequentialMultiIterator`) -/
def groupMsgs (g : List File) : List FMsg := (g.map (·.msgs)).flatten

/-- index of the stream whose head has the smallest reception time (first one among equals) -/
def minHead : List (List FMsg) → Option (Nat × FMsg)
  | [] => none
  | s :: t =>
    match s, minHead t with
    | [], none => none
    | [], some (i, m) => some (i + 1, m)
    | h :: _, none => some (0, h)
    | h :: _, some (i, m) => if m.recv < h.recv then some (i + 1, m) else some (0, h)

def popAt : List (List FMsg) → Nat → List (List FMsg)
  | [], _ => []
  | s :: t, 0 => s.tail :: t
  | s :: t, i + 1 => s :: popAt t i

/-- `SortingMultiReaderIterator`: repeatedly take the head with the smallest reception time -/
def mergeFuel : Nat → List (List FMsg) → List FMsg
  | 0, _ => []
  | fuel + 1, ss =>
    match minHead ss with
    | none => []
    | some (i, m) => m :: mergeFuel fuel (popAt ss i)

def merge (ss : List (List FMsg)) : List FMsg := mergeFuel (ss.map List.length).sum ss

/-- the merge ranks the streams by the reception time of their first message (stable), so that among heads with equal
    reception times the stream that started first wins - whatever the order the streams were passed in -/
def insertStream (s : List FMsg) : List (List FMsg) → List (List FMsg)
  | [] => [s]
  | g :: t => if (s.head?.map (·.recv)).getD 0 < (g.head?.map (·.recv)).getD 0 then s :: g :: t else g :: insertStream s t
def rankStreams (ss : List (List FMsg)) : List (List FMsg) := ss.foldl (fun acc s => insertStream s acc) []

/-- all messages of all named files in the order `convert` processes them; the position is the message index -/
def inputSeq (files : List File) : List FMsg :=
  merge (rankStreams (((orderInputs files).map groupMsgs).filter fun s => !s.isEmpty))

/-! ### pipeline -/

/-- a message inside the pipeline (after lifecycle detection) -/
structure PMsg where
  index : Nat
  lc : Nat
  m : FMsg
deriving Repr, DecidableEq

def toLc (m : FMsg) (i : Nat) : Lcm.Msg :=
  { index := i, recv := m.recv, ecu := m.ecu, tsDms := m.ts, hasTs := true, ctrlReq := false }

def lcInput (ms : List FMsg) : List Lcm.Msg := ms.zipIdx.map fun (m, i) => toLc m i

/-- lifecycle stage: what `parse_lifecycles_buffered_from_stream` forwards, rejoined with the message content by index -/
def stageLc (ms : List FMsg) : List PMsg :=
  (Lcm.observe (Lcm.run (lcInput ms))).out.filterMap fun o =>
    (ms[o.m.index]?).map fun m => { index := o.m.index, lc := o.lc, m := m }

def ecuBytes (e : Nat) : List UInt8 := [69, 67, 85, UInt8.ofNat (48 + e)]   -- "ECU<e>"

/-- verbose log message of level `lvl` -/
def vmmOf (lvl : Nat) : Nat := lvl * 16 + 1

def view (p : PMsg) : Flt.MsgView :=
  { ecu := ecuBytes p.m.ecu, ext := some (p.m.apid, p.m.ctid, vmmOf p.m.lvl), lifecycle := p.lc, text := p.m.text }

/-- the decision of `filter_as_streams` for one message -/
def keepImpl (mt : Flt.Filter → Flt.MsgView → Bool) (fs : List Flt.Filter) (v : Flt.MsgView) : Bool :=
  let pos := fs.filter fun f => f.enabled && f.kind == .positive
  let neg := fs.filter fun f => f.enabled && f.kind == .negative
  let a := if !pos.isEmpty then pos.any (fun f => mt f v) else true
  if a && !neg.isEmpty then !(neg.any fun f => mt f v) else a

structure Opts where
  first : Nat := 0
  last : Option Nat := none          -- `None` = no upper bound given
  lcs : List Nat := []
  filters : List Flt.Filter := []    -- filter file entries followed by the ECU:APID:CTID expressions
  sort : Bool := false
deriving Repr

/-- filter thread: only spawned when there is at least one filter -/
def stageFilter (mt : Flt.Filter → Flt.MsgView → Bool) (fs : List Flt.Filter) (l : List PMsg) : List PMsg :=
  if fs.isEmpty then l else l.filter fun p => keepImpl mt fs (view p)

def inWindow (o : Opts) (i : Nat) : Bool :=
  o.first ≤ i && (match o.last with | some e => i ≤ e | none => true)

def lcSelected (o : Opts) (lc : Nat) : Bool := o.lcs.isEmpty || o.lcs.contains lc

/-- output thread: lifecycle-id set first, then the index window on the original index -/
def stageOut (o : Opts) (l : List PMsg) : List PMsg :=
  l.filter fun p => if !o.lcs.isEmpty && !o.lcs.contains p.lc then false else inWindow o p.index

/-- the whole pipeline on the ordered input; `sorter` = the time-sort stage -/
def pipeline (sorter : List PMsg → List PMsg) (mt : Flt.Filter → Flt.MsgView → Bool) (o : Opts) (ms : List FMsg) : List PMsg :=
  let a := stageLc ms
  let b := if o.sort then sorter a else a
  stageOut o (stageFilter mt o.filters b)

def convert (sorter : List PMsg → List PMsg) (mt : Flt.Filter → Flt.MsgView → Bool) (o : Opts) (files : List File) : List PMsg :=
  pipeline sorter mt o (inputSeq files)

/-! ### front-ends that only convert has -/

/-- `EacFilter::from_str`: `ECU:APID:CTID`, empty parts ignored, each part a literal id or (auto-detected) a regex -/
def fromEac (reOk : String → Bool) (s : String) : Option Flt.Filter :=
  if s.isEmpty then none else
  let parts := s.splitOn ":"
  let part (k : Nat) : String := parts.getD k ""
  let crit (p : String) : Option (Option Flt.IdCrit) :=
    if p.isEmpty then some none else (Flt.idCrit reOk p (some (Flt.containsRegexChars p))).map some
  match crit (part 0), crit (part 1), crit (part 2) with
  | some e, some a, some c => some { kind := .positive, ecu := e, apid := a, ctid := c }
  | _, _, _ => none

/-- one 5-byte field of the dlt-convert list: up to 4 bytes, ended by the first `-`, zero padded -/
def convField (b : List UInt8) : List UInt8 :=
  let x := (b.take 4).takeWhile (· != 45)
  x ++ List.replicate (4 - x.length) 0

/-- `filters_from_convert_format`: 10 bytes per entry (`APID CTID `), an incomplete entry at the end is ignored -/
def fromConvertFormat (fuel : Nat) (b : List UInt8) : List Flt.Filter :=
  match fuel with
  | 0 => []
  | fuel + 1 =>
    if b.length < 10 then []
    else { kind := .positive, apid := some (.lit (convField b)), ctid := some (.lit (convField (b.drop 5))) }
           :: fromConvertFormat fuel (b.drop 10)

namespace Spec
/-- C14: what `convert` has to emit — the messages that satisfy *all* given selections -/
def selected (re : Flt.Re) (o : Opts) (p : PMsg) : Bool :=
  Flt.Spec.keepStream (Flt.Spec.decides re) o.filters (view p) && lcSelected o p.lc && inWindow o p.index
end Spec

end Cvt
