import Adlt.Convert.Group
/-! C14 (file order), assembly: naming the input files in a different order gives the same message sequence when the files'
    first reception times are distinct. -/
namespace Cvt
open Lcm

def canon (g : Group) : List FMsg := groupMsgs (dedupFiles (sortByTime g.2))
def streamsOf (G : List Group) : List (List FMsg) := G.map canon

theorem inputSeq_eq (files : List File) :
    inputSeq files = merge (rankStreams ((streamsOf ((files.filter fun f => !f.msgs.isEmpty).foldl addFile [])).filter fun s => !s.isEmpty)) := by
  unfold inputSeq orderInputs streamsOf canon
  rw [List.map_map]
  rfl

/-! ### members of the groups -/

theorem mem_addFile (G : List Group) (f : File) : ∀ g ∈ addFile G f, ∀ x ∈ g.2, x = f ∨ ∃ g0 ∈ G, x ∈ g0.2 := by
  induction G with
  | nil =>
    intro g hg x hx
    simp only [addFile, List.mem_singleton] at hg
    subst hg
    simp only [List.mem_singleton] at hx
    exact .inl hx
  | cons h t ih =>
    obtain ⟨e, l⟩ := h
    intro g hg x hx
    simp only [addFile] at hg
    split at hg
    · rcases List.mem_cons.mp hg with rfl | hg
      · simp only [List.mem_append, List.mem_singleton] at hx
        rcases hx with hx | hx
        · exact .inr ⟨(e, l), by simp, hx⟩
        · exact .inl hx
      · exact .inr ⟨g, List.mem_cons_of_mem _ hg, hx⟩
    · rcases List.mem_cons.mp hg with rfl | hg
      · exact .inr ⟨(e, l), by simp, hx⟩
      · rcases ih g hg x hx with h1 | ⟨g0, hg0, hx0⟩
        · exact .inl h1
        · exact .inr ⟨g0, List.mem_cons_of_mem _ hg0, hx0⟩

theorem mem_foldl_addFile (l : List File) : ∀ (G : List Group), ∀ g ∈ l.foldl addFile G, ∀ x ∈ g.2, x ∈ l ∨ ∃ g0 ∈ G, x ∈ g0.2 := by
  induction l with
  | nil => intro G g hg x hx; exact .inr ⟨g, hg, hx⟩
  | cons f t ih =>
    intro G g hg x hx
    rcases ih (addFile G f) g hg x hx with h1 | ⟨g0, hg0, hx0⟩
    · exact .inl (List.mem_cons_of_mem _ h1)
    · rcases mem_addFile G f g0 hg0 x hx0 with h2 | h2
      · exact .inl (by rw [h2]; simp)
      · exact .inr h2

/-- the key of a group is the ECU set of each of its files -/
def KeyOk (G : List Group) : Prop := ∀ g ∈ G, ∀ x ∈ g.2, sameSet g.1 x.ecus = true

theorem addFile_keyOk (G : List Group) (f : File) (h : KeyOk G) : KeyOk (addFile G f) := by
  induction G with
  | nil =>
    intro g hg x hx
    simp only [addFile, List.mem_singleton] at hg
    subst hg
    simp only [List.mem_singleton] at hx
    subst hx
    exact sameSet_refl _
  | cons hd t ih =>
    obtain ⟨e, l⟩ := hd
    intro g hg x hx
    simp only [addFile] at hg
    split at hg
    · rename_i hm
      rcases List.mem_cons.mp hg with rfl | hg
      · simp only [List.mem_append, List.mem_singleton] at hx
        rcases hx with hx | hx
        · exact h (e, l) (by simp) x hx
        · subst hx; exact hm
      · exact h g (List.mem_cons_of_mem _ hg) x hx
    · rcases List.mem_cons.mp hg with rfl | hg
      · exact h (e, l) (by simp) x hx
      · exact ih (fun g' hg' => h g' (List.mem_cons_of_mem _ hg')) g hg x hx

theorem foldl_addFile_keyOk (l : List File) : ∀ G, KeyOk G → KeyOk (l.foldl addFile G) := by
  induction l with
  | nil => intro G h; exact h
  | cons f t ih => intro G h; exact ih _ (addFile_keyOk G f h)

/-! ### the streams -/

theorem gp_streams {G G' : List Group} (h : GP G G') (U : List File)
    (hU : ∀ a ∈ U, ∀ b ∈ U, a.firstRecv = b.firstRecv → a = b) :
    (∀ g ∈ G, ∀ f ∈ g.2, f ∈ U) → (streamsOf G).Perm (streamsOf G') ∧ (∀ g ∈ G', ∀ f ∈ g.2, f ∈ U) := by
  induction h with
  | nil => intro _; exact ⟨List.Perm.refl _, by intro g hg; cases hg⟩
  | cons g g' t t' _ hp _ ih =>
    intro hin
    obtain ⟨i1, i2⟩ := ih (fun x hx => hin x (List.mem_cons_of_mem _ hx))
    have hg : ∀ f ∈ g.2, f ∈ U := hin g (by simp)
    have hc : canon g = canon g' := by
      unfold canon
      rw [sortByTime_perm_invariant g.2 g'.2 hp (fun a ha b hb => hU a (hg a ha) b (hg b hb))]
    refine ⟨?_, ?_⟩
    · simp only [streamsOf, List.map_cons, hc]
      exact List.Perm.cons _ i1
    · intro x hx f hf
      rcases List.mem_cons.mp hx with rfl | hx
      · exact hg f (hp.mem_iff.mpr hf)
      · exact i2 x hx f hf
  | swap a b t =>
    intro hin
    refine ⟨by simp only [streamsOf, List.map_cons]; exact List.Perm.swap _ _ _, ?_⟩
    intro x hx
    apply hin x
    simp only [List.mem_cons] at hx ⊢
    rcases hx with h | h | h
    · exact .inr (.inl h)
    · exact .inl h
    · exact .inr (.inr h)
  | trans _ _ ih1 ih2 =>
    intro hin
    obtain ⟨a1, a2⟩ := ih1 hin
    obtain ⟨b1, b2⟩ := ih2 a2
    exact ⟨a1.trans b1, b2⟩

/-! ### the first reception time of a stream -/

theorem insertBy_ne_nil {α} (le : α → α → Bool) (x : α) (l : List α) : insertBy le x l ≠ [] := by
  cases l with
  | nil => simp [insertBy]
  | cons y t => simp only [insertBy]; split <;> simp

theorem dedupFiles_head (l : List File) : (dedupFiles l).head? = l.head? ∨ ∃ f ∈ l, (dedupFiles l).head? = some f := by
  induction l with
  | nil => exact .inl rfl
  | cons f t ih =>
    cases t with
    | nil => exact .inl rfl
    | cons g u =>
      simp only [dedupFiles]
      split
      · rcases ih with h | ⟨x, hx, hh⟩
        · right
          refine ⟨g, by simp, ?_⟩
          rw [h]; rfl
        · exact .inr ⟨x, List.mem_cons_of_mem _ hx, hh⟩
      · exact .inl rfl

theorem dedupFiles_nonempty (l : List File) (h : l ≠ []) : dedupFiles l ≠ [] := by
  induction l with
  | nil => exact absurd rfl h
  | cons f t ih =>
    cases t with
    | nil => simp [dedupFiles]
    | cons g u =>
      simp only [dedupFiles]
      split
      · exact ih (by simp)
      · simp

/-- a non-empty group of non-empty files: its stream starts with the first message of one of its files -/
theorem canon_head (g : Group) (hne : g.2 ≠ []) (hfiles : ∀ f ∈ g.2, f.msgs ≠ []) :
    ∃ f ∈ g.2, headRecv (canon g) = f.firstRecv ∧ canon g ≠ [] := by
  have hperm : (sortByTime g.2).Perm g.2 := by rw [sortByTime_eq]; exact isortStable_perm _ _
  have hs : sortByTime g.2 ≠ [] := by
    intro hc
    have := hperm.length_eq
    rw [hc] at this
    cases hg : g.2 with
    | nil => exact hne hg
    | cons a t => rw [hg] at this; simp at this
  have hd := dedupFiles_nonempty _ hs
  -- the first file of the de-duplicated list
  cases hl : dedupFiles (sortByTime g.2) with
  | nil => exact absurd hl hd
  | cons f0 rest =>
    have hf0 : f0 ∈ g.2 := by
      have hmem : f0 ∈ sortByTime g.2 := by
        rcases dedupFiles_head (sortByTime g.2) with h | ⟨x, hx, hh⟩
        · rw [hl] at h
          cases hsl : sortByTime g.2 with
          | nil => exact absurd hsl hs
          | cons a t => rw [hsl] at h; simp at h; rw [h]; simp
        · rw [hl] at hh; simp at hh; rw [hh]; exact hx
      exact hperm.mem_iff.mp hmem
    have hm := hfiles f0 hf0
    refine ⟨f0, hf0, ?_, ?_⟩
    · unfold canon headRecv groupMsgs
      rw [hl]
      cases hmsgs : f0.msgs with
      | nil => exact absurd hmsgs hm
      | cons m t => simp [File.firstRecv, hmsgs]
    · unfold canon groupMsgs
      rw [hl]
      cases hmsgs : f0.msgs with
      | nil => exact absurd hmsgs hm
      | cons m t => simp [hmsgs]

theorem pairwise_same {α} (R : α → α → Prop) (l : List α) (h : l.Pairwise R) (a b : α) (ha : a ∈ l) (hb : b ∈ l)
    (hab : ¬ R a b) (hba : ¬ R b a) : a = b := by
  induction l with
  | nil => cases ha
  | cons x t ih =>
    rw [List.pairwise_cons] at h
    rcases List.mem_cons.mp ha with rfl | ha' <;> rcases List.mem_cons.mp hb with rfl | hb'
    · rfl
    · exact absurd (h.1 b hb') hab
    · exact absurd (h.1 a ha') hba
    · exact ih h.2 ha' hb'

/-- the streams of a distinct, well-keyed grouping of non-empty files with distinct first times start at distinct times -/
theorem streams_heads_distinct (G : List Group) (hd : Distinct G) (hk : KeyOk G) (U : List File)
    (hU : ∀ a ∈ U, ∀ b ∈ U, a.firstRecv = b.firstRecv → a = b) (hin : ∀ g ∈ G, ∀ f ∈ g.2, f ∈ U)
    (hne : ∀ g ∈ G, g.2 ≠ []) (hfiles : ∀ f ∈ U, f.msgs ≠ []) :
    ∀ a ∈ streamsOf G, ∀ b ∈ streamsOf G, headRecv a = headRecv b → a = b := by
  intro a ha b hb heq
  simp only [streamsOf, List.mem_map] at ha hb
  obtain ⟨g, hg, rfl⟩ := ha
  obtain ⟨h, hh, rfl⟩ := hb
  obtain ⟨f0, hf0, e0, _⟩ := canon_head g (hne g hg) (fun f hf => hfiles f (hin g hg f hf))
  obtain ⟨f1, hf1, e1, _⟩ := canon_head h (hne h hh) (fun f hf => hfiles f (hin h hh f hf))
  have hff : f0 = f1 := hU f0 (hin g hg f0 hf0) f1 (hin h hh f1 hf1) (by rw [← e0, ← e1]; exact heq)
  subst hff
  have s1 := hk g hg f0 hf0
  have s2 := hk h hh f0 hf1
  have s12 : sameSet g.1 h.1 = true := sameSet_trans _ _ _ s1 (sameSet_symm _ _ s2)
  have : g = h := pairwise_same _ G hd g h hg hh (by rw [s12]; simp) (by rw [sameSet_symm _ _ s12]; simp)
  rw [this]

theorem addFile_nonempty (G : List Group) (f : File) (h : ∀ g ∈ G, g.2 ≠ []) : ∀ g ∈ addFile G f, g.2 ≠ [] := by
  induction G with
  | nil => intro g hg; simp only [addFile, List.mem_singleton] at hg; subst hg; simp
  | cons hd t ih =>
    obtain ⟨e, l⟩ := hd
    intro g hg
    simp only [addFile] at hg
    split at hg
    · rcases List.mem_cons.mp hg with rfl | hg
      · simp
      · exact h g (List.mem_cons_of_mem _ hg)
    · rcases List.mem_cons.mp hg with rfl | hg
      · exact h (e, l) (by simp)
      · exact ih (fun g' hg' => h g' (List.mem_cons_of_mem _ hg')) g hg

theorem foldl_addFile_nonempty (l : List File) : ∀ G, (∀ g ∈ G, g.2 ≠ []) → ∀ g ∈ l.foldl addFile G, g.2 ≠ [] := by
  induction l with
  | nil => intro G h; exact h
  | cons f t ih => intro G h; exact ih _ (addFile_nonempty G f h)

/-- **file order**: naming the input files in a different order gives the same message sequence (hence the same indices,
    lifecycles and selection) when the first reception times of the non-empty files are distinct -/
theorem inputSeq_perm (files files' : List File) (hp : files.Perm files')
    (hdist : ∀ a ∈ files, ∀ b ∈ files, a.msgs ≠ [] → b.msgs ≠ [] → a.firstRecv = b.firstRecv → a = b) :
    inputSeq files' = inputSeq files := by
  rw [inputSeq_eq, inputSeq_eq]
  generalize hF : (files.filter fun f => !f.msgs.isEmpty) = F
  generalize hF' : (files'.filter fun f => !f.msgs.isEmpty) = F'
  have hpF : F.Perm F' := by rw [← hF, ← hF']; exact hp.filter _
  have hFmem : ∀ f ∈ F, f ∈ files ∧ f.msgs ≠ [] := by
    intro f hf
    rw [← hF] at hf
    simp only [List.mem_filter, Bool.not_eq_true', List.isEmpty_eq_false_iff] at hf
    exact ⟨hf.1, by simpa using hf.2⟩
  have hU : ∀ a ∈ F, ∀ b ∈ F, a.firstRecv = b.firstRecv → a = b := by
    intro a ha b hb h
    exact hdist a (hFmem a ha).1 b (hFmem b hb).1 (hFmem a ha).2 (hFmem b hb).2 h
  have hd0 : Distinct ([] : List Group) := List.Pairwise.nil
  have hgp := foldl_addFile_perm hpF [] hd0
  have hin : ∀ g ∈ F.foldl addFile [], ∀ f ∈ g.2, f ∈ F := by
    intro g hg f hf
    rcases mem_foldl_addFile F [] g hg f hf with h | ⟨g0, hg0, _⟩
    · exact h
    · cases hg0
  obtain ⟨hperm, _⟩ := gp_streams hgp F hU hin
  have hheads := streams_heads_distinct (F.foldl addFile []) (foldl_addFile_distinct F [] hd0)
    (foldl_addFile_keyOk F [] (by intro g hg; cases hg)) F hU hin
    (foldl_addFile_nonempty F [] (by intro g hg; cases hg)) (fun f hf => (hFmem f hf).2)
  have hpf := hperm.filter (fun s => !s.isEmpty)
  have hdF : ∀ a ∈ (streamsOf (F.foldl addFile [])).filter (fun s => !s.isEmpty),
      ∀ b ∈ (streamsOf (F.foldl addFile [])).filter (fun s => !s.isEmpty), headRecv a = headRecv b → a = b := by
    intro a ha b hb h
    exact hheads a (List.mem_filter.mp ha).1 b (List.mem_filter.mp hb).1 h
  rw [rankStreams_perm_invariant _ _ hpf hdF]

end Cvt
