import Adlt.Convert.Model
import Adlt.Filter.Proofs
import Adlt.Lc.Fifo
import Adlt.Lc.NoPanic
/-! Lemmas for C14: each stage of the convert pipeline is a `List.filter` by its own criterion (or keeps the list),
    the lifecycle stage numbers the input consecutively and keeps every message. -/
namespace Cvt
open Flt

theorem keepImpl_eq (mt : Filter → MsgView → Bool) (fs : List Filter) (v : MsgView) :
    keepImpl mt fs v = Flt.Spec.keepStream mt fs v := by
  unfold keepImpl Flt.Spec.keepStream
  simp only []
  generalize (fs.filter fun f => f.enabled && f.kind == Kind.positive) = pos
  generalize (fs.filter fun f => f.enabled && f.kind == Kind.negative) = neg
  cases hp : pos.isEmpty <;> cases hn : neg.isEmpty <;> cases pos.any (fun f => mt f v) <;>
    cases hna : neg.any (fun f => mt f v) <;> simp_all

/-- the decision function of the real filter stage: `filter_as_streams` keeps exactly what `keepImpl` keeps -/
theorem filterAsStreams_keepImpl (mt : Filter → MsgView → Bool) (fs : List Filter) (vs : List MsgView) :
    (filterAsStreams mt fs vs).1 = vs.filter (keepImpl mt fs) := by
  rw [(filterAsStreams_spec mt fs vs).1]
  congr 1
  funext v
  exact (keepImpl_eq mt fs v).symm

theorem keepStream_nil (mt : Filter → MsgView → Bool) (v : MsgView) : Flt.Spec.keepStream mt [] v = true := by
  simp [Flt.Spec.keepStream]

theorem stageFilter_eq (mt : Filter → MsgView → Bool) (fs : List Filter) (l : List PMsg) :
    stageFilter mt fs l = l.filter fun p => Flt.Spec.keepStream mt fs (view p) := by
  unfold stageFilter
  split
  · rename_i h
    have : fs = [] := by simpa using h
    subst this
    simp only [keepStream_nil]
    exact (List.filter_eq_self.mpr (fun _ _ => rfl)).symm
  · congr 1
    funext p
    exact keepImpl_eq mt fs (view p)

theorem stageOut_eq (o : Opts) (l : List PMsg) :
    stageOut o l = l.filter fun p => lcSelected o p.lc && inWindow o p.index := by
  unfold stageOut lcSelected
  congr 1
  funext p
  cases o.lcs.isEmpty <;> cases o.lcs.contains p.lc <;> simp

theorem matchesImpl_funext (re : Re) : matchesImpl re = Flt.Spec.decides re := by
  funext f m; exact matchesImpl_eq_spec re f m

/-! ### the lifecycle stage keeps and numbers the messages -/

theorem lcInput_erase (ms : List FMsg) (k : Nat) :
    ((ms.zipIdx k).map fun (m, i) => toLc m i).map Lcm.eraseLc = (ms.zipIdx k).map fun (m, i) => toLc m i := by
  simp [Lcm.eraseLc, toLc, Function.comp_def]

theorem stageLc_aux (all : List FMsg) :
    ∀ (suf pre : List FMsg) (outs : List Lcm.OutObs), all = pre ++ suf →
      outs.map (·.m) = (suf.zipIdx pre.length).map (fun (m, i) => toLc m i) →
      let r := outs.filterMap fun o => (all[o.m.index]?).map fun m => ({ index := o.m.index, lc := o.lc, m := m } : PMsg)
      r.map (·.m) = suf ∧ r.map (·.index) = List.range' pre.length suf.length ∧ r.map (·.lc) = outs.map (·.lc) := by
  intro suf
  induction suf with
  | nil =>
    intro pre outs _ ho
    have : outs = [] := by simpa using ho
    subst this
    simp
  | cons m t ih =>
    intro pre outs hall ho
    cases outs with
    | nil => simp at ho
    | cons o outs' =>
      simp only [List.zipIdx_cons, List.map_cons, List.cons.injEq] at ho
      obtain ⟨hom, hrest⟩ := ho
      have hidx : o.m.index = pre.length := by rw [hom]; rfl
      have hget : all[o.m.index]? = some m := by
        rw [hidx, hall]; simp
      have hall' : all = (pre ++ [m]) ++ t := by rw [hall]; simp
      have hrest' : outs'.map (·.m) = (t.zipIdx (pre ++ [m]).length).map (fun (m, i) => toLc m i) := by
        simpa using hrest
      have := ih (pre ++ [m]) outs' hall' hrest'
      simp only [List.length_append, List.length_cons, List.length_nil] at this
      obtain ⟨h1, h2, h3⟩ := this
      simp only [List.filterMap_cons, hget, Option.map_some]
      refine ⟨?_, ?_, ?_⟩
      · simp only [List.map_cons, h1]
      · simp only [List.map_cons, h2, hidx, List.length_cons, List.range'_succ]
      · simp only [List.map_cons, h3]

theorem lc_out_input (ms : List FMsg) :
    (Lcm.observe (Lcm.run (lcInput ms))).out.map (·.m) = lcInput ms := by
  have h := Lcm.C05_once_in_order (lcInput ms) (Lcm.run_not_panicked _)
  have he : Lcm.eraseLc = Lcm.erase := rfl
  simp only [Lcm.St.outSeq] at h
  simp only [Lcm.observe, List.map_map, List.map_reverse]
  have h2 : (lcInput ms).map Lcm.erase = lcInput ms := by
    rw [← he]; unfold lcInput; simpa using lcInput_erase ms 0
  rw [h2] at h
  have h3 : ((Lcm.run (lcInput ms)).out.reverse.map fun x => Lcm.erase x.m) = lcInput ms := by
    rw [List.map_reverse]; exact h
  simpa [Function.comp_def, he] using h3

/-- the lifecycle stage forwards every input message once, in order, numbered 0, 1, 2, … by its position -/
theorem stageLc_spec (ms : List FMsg) :
    (stageLc ms).map (·.m) = ms ∧ (stageLc ms).map (·.index) = List.range ms.length := by
  have h := stageLc_aux ms ms [] (Lcm.observe (Lcm.run (lcInput ms))).out (by simp)
    (by simpa [lcInput] using lc_out_input ms)
  simp only [List.length_nil] at h
  refine ⟨h.1, ?_⟩
  rw [List.range_eq_range']
  exact h.2.1

end Cvt
