/-! Model of the file-transfer reassembly state machine (`FileTransfer::add_flda/check_finished` and the
    per-(ecu, lifecycle, serial) bookkeeping of `FileTransferPlugin::process_msg`, src/plugins/file_transfer.rs). -/
namespace Ftm

inductive FtState where | missingStart | started | complete | incomplete
deriving Repr, DecidableEq

structure Ft where
  serial : Nat
  state : FtState
  fileSize : Nat
  nrPackages : Option Nat     -- `none` = not announced (the code stores u64::MAX; counters stay far below it)
  bufferSize : Nat
  nextPackage : Nat := 1
  recvdPackages : Nat := 0
  recvdPayload : Nat := 0
  keep : Bool
  data : List Nat := []       -- payload bytes appended
  accepted : List (Nat × List Nat) := []   -- ghost: accepted packages (number, payload), oldest first
deriving Repr

/-- `x > nr_packages` / `x >= nr_packages` / `x == nr_packages` against the announced number (never true when unknown) -/
def gtNr (nr : Option Nat) (x : Nat) : Bool := match nr with | some n => x > n | none => false
def geNr (nr : Option Nat) (x : Nat) : Bool := match nr with | some n => x ≥ n | none => false
def eqNr (nr : Option Nat) (x : Nat) : Bool := match nr with | some n => x == n | none => false

def Ft.checkFinished (t : Ft) (fromFlfi : Bool) : Ft :=
  if fromFlfi then
    if t.recvdPackages == t.nextPackage - 1 then
      if t.state == .missingStart then
        { t with state := .complete, fileSize := if t.fileSize == 0 then t.recvdPayload else t.fileSize }
      else t
    else { t with state := .incomplete }
  else if gtNr t.nrPackages t.nextPackage && t.fileSize == t.recvdPayload then
    { t with fileSize := t.recvdPayload, state := .complete }
  else if geNr t.nrPackages t.recvdPackages then { t with state := .incomplete }
  else t

/-- is this package the expected one and of consistent size? -/
def Ft.accepts (t : Ft) (pkg : Nat) (len : Nat) : Bool :=
  pkg == t.nextPackage && (len == t.bufferSize || (eqNr t.nrPackages t.nextPackage && len < t.bufferSize))

def Ft.learn (t : Ft) (pkg : Nat) (len : Nat) : Ft :=
  if pkg == 1 && t.bufferSize == 0 then { t with bufferSize := len } else t

def Ft.take (t : Ft) (pkg : Nat) (payload : List Nat) : Ft :=
  { t with nextPackage := t.nextPackage + 1, recvdPayload := t.recvdPayload + payload.length,
           data := if t.keep then t.data ++ payload else t.data, accepted := t.accepted ++ [(pkg, payload)] }

def Ft.active (t : Ft) : Bool := t.state == .started || t.state == .missingStart

def Ft.addFlda (t : Ft) (pkg : Nat) (payload : List Nat) : Ft :=
  let t := t.learn pkg payload.length
  if t.active then
    if pkg < t.nextPackage then t      -- duplicate of an already received package
    else
      let t := { t with recvdPackages := t.recvdPackages + 1 }
      let t := if t.accepts pkg payload.length then t.take pkg payload else t
      t.checkFinished false
  else t

inductive Ev where
  | flst (serial fileSize nrPackages bufferSize : Nat)
  | flda (serial pkg : Nat) (payload : List Nat)
  | flfi (serial : Nat)
  | other
deriving Repr

structure Plug where
  transfers : List Ft := []              -- in order of creation
  idx : List (Nat × Nat) := []           -- serial -> index (last wins)
deriving Repr

def idxGet (k : Nat) : List (Nat × Nat) → Option Nat
  | [] => none
  | (k', v) :: t => if k' == k then some v else idxGet k t
def idxSet (k v : Nat) : List (Nat × Nat) → List (Nat × Nat)
  | [] => [(k, v)]
  | (k', v') :: t => if k' == k then (k, v) :: t else (k', v') :: idxSet k v t

def Plug.update (p : Plug) (serial : Nat) (f : Ft → Ft) : Plug :=
  match idxGet serial p.idx with
  | some i =>
    match p.transfers[i]? with
    | some t => { p with transfers := p.transfers.set i (f t) }
    | none => p
  | none => p

def Plug.step (allowSave : Bool) (p : Plug) : Ev → Plug
  | .flst serial fileSize nr buf =>
    if nr > 0 && buf > 0 then
      let t : Ft := { serial, state := .started, fileSize, nrPackages := some nr, bufferSize := buf, keep := allowSave }
      { transfers := p.transfers ++ [t], idx := idxSet serial p.transfers.length p.idx }
    else p
  | .flda serial pkg payload =>
    match idxGet serial p.idx with
    | some _ => p.update serial (fun t => t.addFlda pkg payload)
    | none =>
      if pkg == 1 then
        let t : Ft := { serial, state := .missingStart, fileSize := 0, nrPackages := none, bufferSize := 0, keep := allowSave }
        { transfers := p.transfers ++ [t.addFlda pkg payload], idx := idxSet serial p.transfers.length p.idx }
      else p
  | .flfi serial => p.update serial (fun t => t.checkFinished true)
  | .other => p

def Plug.run (allowSave : Bool) (evs : List Ev) : Plug := evs.foldl (Plug.step allowSave) {}

end Ftm
