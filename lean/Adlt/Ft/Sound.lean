import Adlt.Ft.Model
/-! C17 soundness: a transfer reported complete has accepted exactly the packages 1, 2, …, k in this order,
    nothing else was counted in between, and the stored data is their concatenation. -/
namespace Ftm

/-- `slack = 0`: between two messages; `slack = 1`: inside `add_flda` after the package was counted -/
structure FInv (slack : Nat) (t : Ft) : Prop where
  nextPos : 1 ≤ t.nextPackage
  nums : t.accepted.map (·.1) = List.range' 1 (t.nextPackage - 1)
  data : t.keep = true → t.data = (t.accepted.map (·.2)).flatten
  payl : t.recvdPayload = ((t.accepted.map (·.2)).flatten).length
  cnt : t.nextPackage - 1 ≤ t.recvdPackages
  act : t.state = .started → ∃ n, t.nrPackages = some n ∧ t.recvdPackages < n + slack
  done : t.state = .complete → t.recvdPackages = t.nextPackage - 1
  doneAnn : t.state = .complete → ∀ n, t.nrPackages = some n → t.nextPackage = n + 1 ∧ t.fileSize = t.recvdPayload
  miss : t.state = .missingStart → t.nrPackages = none
  other : t.state = .started ∨ t.state = .missingStart ∨ t.state = .complete ∨ t.state = .incomplete

theorem learn_inv (t : Ft) (pkg len : Nat) (h : FInv 0 t) : FInv 0 (t.learn pkg len) := by
  unfold Ft.learn; split
  · exact { nextPos := h.nextPos, nums := h.nums, data := h.data, payl := h.payl, cnt := h.cnt, act := h.act,
            done := h.done, doneAnn := h.doneAnn, miss := h.miss, other := h.other }
  · exact h

theorem checkFinished_false_inv (t : Ft) (h : FInv 1 t) (hact : t.active = true) :
    FInv 0 (t.checkFinished false) := by
  have hstate : t.state = .started ∨ t.state = .missingStart := by
    simpa [Ft.active] using hact
  unfold Ft.checkFinished
  simp only [Bool.false_eq_true, if_false]
  split
  · rename_i hc
    simp only [Bool.and_eq_true] at hc
    have hn := h.cnt
    have hnp := h.nextPos
    cases hnr : t.nrPackages with
    | none => simp [gtNr, hnr] at hc
    | some n =>
      have hgt : t.nextPackage > n := by simpa [gtNr, hnr] using hc.1
      have hs : t.state = .started := by
        rcases hstate with hs | hs
        · exact hs
        · have := h.miss hs; rw [hnr] at this; cases this
      obtain ⟨n', hn', hlt⟩ := h.act hs
      have : n' = n := by rw [hnr] at hn'; cases hn'; rfl
      subst this
      refine { nextPos := h.nextPos, nums := h.nums, data := h.data, payl := h.payl, cnt := h.cnt,
               act := (by intro hs; cases hs), done := ?_, doneAnn := ?_, miss := (by intro hs; cases hs),
               other := Or.inr (Or.inr (Or.inl rfl)) }
      · intro _; show t.recvdPackages = t.nextPackage - 1; omega
      · intro _ m hm
        have : n' = m := by simpa using hm
        subst this
        exact ⟨by show t.nextPackage = n' + 1; omega, rfl⟩
  · split
    · exact { nextPos := h.nextPos, nums := h.nums, data := h.data, payl := h.payl, cnt := h.cnt,
              act := (by intro hs; cases hs), done := (by intro hs; cases hs), doneAnn := (by intro hs; cases hs),
              miss := (by intro hs; cases hs), other := Or.inr (Or.inr (Or.inr rfl)) }
    · rename_i h1 h2
      refine { nextPos := h.nextPos, nums := h.nums, data := h.data, payl := h.payl, cnt := h.cnt,
               act := ?_, done := h.done, doneAnn := h.doneAnn, miss := h.miss, other := h.other }
      intro hs
      obtain ⟨n, hn, _⟩ := h.act hs
      refine ⟨n, hn, ?_⟩
      have : ¬ t.recvdPackages ≥ n := by simpa [geNr, hn] using h2
      omega

theorem take_inv (t : Ft) (pkg : Nat) (payload : List Nat) (h : FInv 1 t) (hp : pkg = t.nextPackage)
    (hc : t.nextPackage ≤ t.recvdPackages) (hs : t.state ≠ .complete) :
    FInv 1 (t.take pkg payload) := by
  have hnp := h.nextPos
  refine { nextPos := ?_, nums := ?_, data := ?_, payl := ?_, cnt := ?_, act := h.act, done := ?_, doneAnn := ?_,
           miss := h.miss, other := h.other }
  · show 1 ≤ t.nextPackage + 1; omega
  · show (t.accepted ++ [(pkg, payload)]).map (·.1) = List.range' 1 (t.nextPackage + 1 - 1)
    rw [List.map_append, h.nums, hp]
    have : t.nextPackage + 1 - 1 = (t.nextPackage - 1) + 1 := by omega
    rw [this, List.range'_concat]
    simp; omega
  · intro hk
    have hk' : t.keep = true := hk
    show (if t.keep then t.data ++ payload else t.data) = ((t.accepted ++ [(pkg, payload)]).map (·.2)).flatten
    simp [hk', h.data hk']
  · show t.recvdPayload + payload.length = ((t.accepted ++ [(pkg, payload)]).map (·.2)).flatten.length
    simp [h.payl]
  · show t.nextPackage + 1 - 1 ≤ t.recvdPackages; omega
  · intro hc'; exact absurd hc' hs
  · intro hc'; exact absurd hc' hs

theorem addFlda_inv (t : Ft) (pkg : Nat) (payload : List Nat) (h : FInv 0 t) : FInv 0 (t.addFlda pkg payload) := by
  unfold Ft.addFlda
  have hl := learn_inv t pkg payload.length h
  generalize t.learn pkg payload.length = u at *
  simp only []
  split
  · rename_i hact
    have hnc : u.state ≠ .complete := by
      simp only [Ft.active, Bool.or_eq_true, beq_iff_eq] at hact
      rcases hact with hs | hs <;> rw [hs] <;> simp
    split
    · exact hl
    · rename_i hge
      have hcnt := hl.cnt
      have hnp := hl.nextPos
      -- the package is counted
      have h1 : FInv 1 { u with recvdPackages := u.recvdPackages + 1 } := by
        refine { nextPos := hl.nextPos, nums := hl.nums, data := hl.data, payl := hl.payl,
                 cnt := (by show u.nextPackage - 1 ≤ u.recvdPackages + 1; omega), act := ?_,
                 done := (by intro hc; exact absurd hc hnc), doneAnn := (by intro hc; exact absurd hc hnc),
                 miss := hl.miss, other := hl.other }
        intro hs
        obtain ⟨n, hn, hlt⟩ := hl.act hs
        exact ⟨n, hn, by show u.recvdPackages + 1 < n + 1; omega⟩
      generalize hv : ({ u with recvdPackages := u.recvdPackages + 1 } : Ft) = v at *
      have hvact : v.active = true := by subst hv; exact hact
      have hvnc : v.state ≠ .complete := by subst hv; exact hnc
      have hvnext : v.nextPackage ≤ v.recvdPackages := by
        subst hv; show u.nextPackage ≤ u.recvdPackages + 1; omega
      split
      · rename_i hacc
        have hp : pkg = v.nextPackage := by
          simp only [Ft.accepts, Bool.and_eq_true, beq_iff_eq] at hacc; exact hacc.1
        have h2 := take_inv v pkg payload h1 hp hvnext hvnc
        exact checkFinished_false_inv _ h2 (by simpa [Ft.take, Ft.active] using hvact)
      · exact checkFinished_false_inv _ h1 hvact
  · exact hl

theorem checkFinished_true_inv (t : Ft) (h : FInv 0 t) : FInv 0 (t.checkFinished true) := by
  unfold Ft.checkFinished
  simp only [if_true]
  split
  · rename_i heq
    have heq' : t.recvdPackages = t.nextPackage - 1 := by simpa using heq
    split
    · rename_i hm
      have hm' : t.state = .missingStart := by simpa using hm
      have hnone := h.miss hm'
      refine { nextPos := h.nextPos, nums := h.nums, data := h.data, payl := h.payl, cnt := h.cnt,
               act := (by intro hs; cases hs), done := (fun _ => heq'), doneAnn := ?_, miss := (by intro hs; cases hs),
               other := Or.inr (Or.inr (Or.inl rfl)) }
      intro _ n hn
      have hn' : t.nrPackages = some n := hn
      rw [hnone] at hn'; cases hn'
    · exact h
  · exact { nextPos := h.nextPos, nums := h.nums, data := h.data, payl := h.payl, cnt := h.cnt,
            act := (by intro hs; cases hs), done := (by intro hs; cases hs), doneAnn := (by intro hs; cases hs),
            miss := (by intro hs; cases hs), other := Or.inr (Or.inr (Or.inr rfl)) }

/-- a freshly announced transfer / a transfer recovered from its first package -/
theorem started_inv (serial fileSize nr buf : Nat) (keep : Bool) (hnr : 0 < nr) :
    FInv 0 { serial, state := .started, fileSize, nrPackages := some nr, bufferSize := buf, keep := keep } :=
  { nextPos := Nat.le_refl _, nums := rfl, data := fun _ => rfl, payl := rfl, cnt := Nat.zero_le _,
    act := fun _ => ⟨nr, rfl, hnr⟩, done := (by intro hs; cases hs), doneAnn := (by intro hs; cases hs),
    miss := (by intro hs; cases hs), other := Or.inl rfl }

theorem missing_inv (serial : Nat) (keep : Bool) :
    FInv 0 { serial, state := .missingStart, fileSize := 0, nrPackages := none, bufferSize := 0, keep := keep } :=
  { nextPos := Nat.le_refl _, nums := rfl, data := fun _ => rfl, payl := rfl, cnt := Nat.zero_le _,
    act := (by intro hs; cases hs), done := (by intro hs; cases hs), doneAnn := (by intro hs; cases hs),
    miss := fun _ => rfl, other := Or.inr (Or.inl rfl) }

/-! ### lifted to the plugin: every transfer of every reachable plugin state satisfies the invariant -/

theorem update_inv (p : Plug) (serial : Nat) (f : Ft → Ft) (hf : ∀ t, FInv 0 t → FInv 0 (f t))
    (hp : ∀ t ∈ p.transfers, FInv 0 t) : ∀ t ∈ (p.update serial f).transfers, FInv 0 t := by
  unfold Plug.update
  split
  · split
    · rename_i i _ t ht
      intro x hx
      simp only [] at hx
      rcases List.mem_or_eq_of_mem_set hx with h | h
      · exact hp x h
      · subst h
        exact hf t (hp t (List.mem_of_getElem? ht))
    · exact hp
  · exact hp

theorem step_inv (allowSave : Bool) (p : Plug) (e : Ev) (hp : ∀ t ∈ p.transfers, FInv 0 t) :
    ∀ t ∈ (p.step allowSave e).transfers, FInv 0 t := by
  cases e with
  | flst serial fileSize nr buf =>
    simp only [Plug.step]
    split
    · rename_i hc
      have hnr : 0 < nr := by simp only [Bool.and_eq_true, decide_eq_true_eq] at hc; exact hc.1
      intro t ht
      simp only [List.mem_append, List.mem_singleton] at ht
      rcases ht with h | h
      · exact hp t h
      · subst h; exact started_inv serial fileSize nr buf allowSave hnr
    · exact hp
  | flda serial pkg payload =>
    simp only [Plug.step]
    split
    · exact update_inv p serial _ (fun t h => addFlda_inv t pkg payload h) hp
    · split
      · intro t ht
        simp only [List.mem_append, List.mem_singleton] at ht
        rcases ht with h | h
        · exact hp t h
        · subst h; exact addFlda_inv _ pkg payload (missing_inv serial allowSave)
      · exact hp
  | flfi serial =>
    exact update_inv p serial _ (fun t h => checkFinished_true_inv t h) hp
  | other => exact hp

theorem run_inv (allowSave : Bool) (evs : List Ev) : ∀ t ∈ (Plug.run allowSave evs).transfers, FInv 0 t := by
  unfold Plug.run
  have : ∀ (p : Plug), (∀ t ∈ p.transfers, FInv 0 t) → ∀ t ∈ (evs.foldl (Plug.step allowSave) p).transfers, FInv 0 t := by
    induction evs with
    | nil => intro p hp; exact hp
    | cons e es ih => intro p hp; exact ih _ (step_inv allowSave p e hp)
  exact this {} (by simp)

end Ftm
