import Adlt.Ft.Model
/-! C17 completeness: all packages in order (already accepted ones may be repeated, anything may happen for
    other transfers) ⇒ the transfer is reported complete and the stored data is the original, byte for byte. -/
namespace Ftm

def feed (t : Ft) (evs : List (Nat × List Nat)) : Ft := evs.foldl (fun t e => t.addFlda e.1 e.2) t

/-- `evs` delivers the packages `pk` numbered `k, k+1, …` in this order; in between, packages with a number
    that was already accepted (`< k` at that moment) may be repeated with any content -/
inductive InOrder : Nat → List (List Nat) → List (Nat × List Nat) → Prop
  | done (k : Nat) : InOrder k [] []
  | dup (k : Nat) (pk : List (List Nat)) (evs : List (Nat × List Nat)) (j : Nat) (x : List Nat) :
      j < k → InOrder k pk evs → InOrder k pk ((j, x) :: evs)
  | next (k : Nat) (p : List Nat) (pk : List (List Nat)) (evs : List (Nat × List Nat)) :
      InOrder (k + 1) pk evs → InOrder k (p :: pk) ((k, p) :: evs)

/-- package sizes: all `buf` long, the last one at most `buf` -/
def SizesOk (buf : Nat) : List (List Nat) → Prop
  | [] => True
  | [p] => p.length ≤ buf
  | p :: q :: t => p.length = buf ∧ SizesOk buf (q :: t)

structure Good (n buf : Nat) (t : Ft) (k : Nat) (pk : List (List Nat)) (orig : List Nat) : Prop where
  hbuf : t.bufferSize = buf
  hbufpos : 0 < buf
  hnr : t.nrPackages = some n
  hnext : t.nextPackage = k
  hk : 1 ≤ k
  hcover : k + pk.length = n + 1
  hsizes : SizesOk buf pk
  hdata : t.keep = true → t.data ++ pk.flatten = orig
  running : pk ≠ [] → t.state = .started ∧ t.recvdPackages = k - 1 ∧
      t.fileSize = t.recvdPayload + pk.flatten.length
  finished : pk = [] → t.state = .complete

theorem learn_id (t : Ft) (pkg len : Nat) (h : t.bufferSize ≠ 0) : t.learn pkg len = t := by
  unfold Ft.learn
  have : (t.bufferSize == 0) = false := by simp [h]
  simp [this]

theorem addFlda_dup (n buf : Nat) (t : Ft) (k : Nat) (pk : List (List Nat)) (orig : List Nat)
    (g : Good n buf t k pk orig) (j : Nat) (x : List Nat) (hj : j < k) : t.addFlda j x = t := by
  unfold Ft.addFlda
  have hb : t.bufferSize ≠ 0 := by have := g.hbuf; have := g.hbufpos; omega
  rw [learn_id t j x.length hb]
  simp only []
  split
  · have : j < t.nextPackage := by rw [g.hnext]; exact hj
    simp [this]
  · rfl

theorem addFlda_next (n buf : Nat) (t : Ft) (k : Nat) (p : List Nat) (pk : List (List Nat)) (orig : List Nat)
    (g : Good n buf t k (p :: pk) orig) : Good n buf (t.addFlda k p) (k + 1) pk orig := by
  have hb : t.bufferSize ≠ 0 := by have := g.hbuf; have := g.hbufpos; omega
  obtain ⟨hst, hrec, hsz⟩ := g.running (by simp)
  have hcov := g.hcover
  simp only [List.length_cons] at hcov
  have hk := g.hk
  -- the size rule
  have hacc : ({ t with recvdPackages := t.recvdPackages + 1 } : Ft).accepts k p.length = true := by
    simp only [Ft.accepts, g.hnext, beq_self_eq_true, Bool.true_and, Bool.or_eq_true, beq_iff_eq, Bool.and_eq_true,
      decide_eq_true_eq, g.hbuf, g.hnr, eqNr]
    cases pk with
    | nil =>
      have hs : p.length ≤ buf := g.hsizes
      have hkn : k = n := by simp at hcov; omega
      rcases Nat.lt_or_eq_of_le hs with h | h
      · right; exact ⟨hkn, h⟩
      · left; exact h
    | cons q r =>
      have hs : p.length = buf ∧ _ := g.hsizes
      left; exact hs.1
  unfold Ft.addFlda
  rw [learn_id t k p.length hb]
  simp only []
  have hactive : t.active = true := by simp [Ft.active, hst]
  have hnlt : ¬ k < t.nextPackage := by rw [g.hnext]; omega
  simp only [hactive, if_true, hnlt, if_false, hacc]
  -- state after taking the package
  generalize hu : (({ t with recvdPackages := t.recvdPackages + 1 } : Ft).take k p) = u
  have u_state : u.state = .started := by subst hu; exact hst
  have u_nr : u.nrPackages = some n := by subst hu; exact g.hnr
  have u_next : u.nextPackage = k + 1 := by subst hu; show t.nextPackage + 1 = k + 1; rw [g.hnext]
  have u_recv : u.recvdPackages = k := by subst hu; show t.recvdPackages + 1 = k; omega
  have u_pay : u.recvdPayload = t.recvdPayload + p.length := by subst hu; rfl
  have u_fs : u.fileSize = t.fileSize := by subst hu; rfl
  have u_buf : u.bufferSize = buf := by subst hu; exact g.hbuf
  have u_keep : u.keep = t.keep := by subst hu; rfl
  have u_data : u.keep = true → u.data = t.data ++ p := by
    subst hu; intro hk'; have hk'' : t.keep = true := hk'
    show (if t.keep then t.data ++ p else t.data) = t.data ++ p
    simp [hk'']
  have hflat : (p :: pk).flatten.length = p.length + pk.flatten.length := by simp
  unfold Ft.checkFinished
  simp only [Bool.false_eq_true, if_false, u_nr, gtNr, geNr, u_next, u_recv]
  cases pk with
  | nil =>
    have hkn : k = n := by simp at hcov; omega
    have hgt : decide (k + 1 > n) = true := by simp; omega
    have hfs : (u.fileSize == u.recvdPayload) = true := by
      rw [u_fs, u_pay]
      simp only [beq_iff_eq]
      rw [hsz, hflat]; simp
    simp only [hgt, hfs, Bool.and_self, if_true]
    exact { hbuf := u_buf, hbufpos := g.hbufpos, hnr := rfl, hnext := rfl, hk := by omega,
            hcover := by simp; omega, hsizes := trivial,
            hdata := by
              intro hk'
              have hk'' : u.keep = true := hk'
              have := g.hdata (by rw [← u_keep]; exact hk'')
              show u.data ++ [].flatten = orig
              rw [u_data hk'']; simpa using this,
            running := by intro h; exact absurd rfl h, finished := fun _ => rfl }
  | cons q r =>
    have hklt : k < n := by simp at hcov; omega
    have hgt : decide (k + 1 > n) = false := by simp; omega
    have hge : decide (k ≥ n) = false := by simp; omega
    simp only [hgt, Bool.false_and, Bool.false_eq_true, if_false, hge]
    have hs : p.length = buf ∧ SizesOk buf (q :: r) := g.hsizes
    exact { hbuf := u_buf, hbufpos := g.hbufpos, hnr := u_nr, hnext := u_next, hk := by omega,
            hcover := by simp at hcov ⊢; omega, hsizes := hs.2,
            hdata := by
              intro hk'
              have := g.hdata (by rw [← u_keep]; exact hk')
              rw [u_data hk']; simpa using this,
            running := by
              intro _
              refine ⟨u_state, by rw [u_recv]; omega, ?_⟩
              rw [u_fs, u_pay, hsz, hflat]; omega,
            finished := by intro h; cases h }

theorem feed_inorder (n buf : Nat) (orig : List Nat) (k : Nat) (pk : List (List Nat)) (evs : List (Nat × List Nat))
    (ho : InOrder k pk evs) (t : Ft) (g : Good n buf t k pk orig) :
    (feed t evs).state = .complete ∧ ((feed t evs).keep = true → (feed t evs).data = orig) := by
  induction ho generalizing t with
  | done k =>
    refine ⟨g.finished rfl, ?_⟩
    intro hk; have := g.hdata hk; simpa [feed] using this
  | dup k pk evs j x hj _ ih =>
    simp only [feed, List.foldl_cons]
    rw [addFlda_dup n buf t k pk orig g j x hj]
    exact ih t g
  | next k p pk evs _ ih =>
    simp only [feed, List.foldl_cons]
    exact ih _ (addFlda_next n buf t k p pk orig g)

end Ftm
