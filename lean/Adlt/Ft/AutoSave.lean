import Adlt.Ft.Model
/-! Model of the automatic saving of completed transfers (`check_auto_save`, `base_name_for_filetransfer`,
    src/plugins/file_transfer.rs): a transfer that becomes complete with data and whose announced name matches the glob is
    written to `<dir>/<base name>` unless that file exists. File names are `List Char` so that the separator argument is provable. -/
namespace Ftm

abbrev Name := List Char

/-- the parts between `/` -/
def splitSlash : Name → List Name
  | [] => [[]]
  | c :: t =>
    if c == '/' then [] :: splitSlash t
    else match splitSlash t with
      | [] => [[c]]
      | h :: r => (c :: h) :: r

def isParent (p : Name) : Bool := p == ['.', '.']
def isSkipped (p : Name) : Bool := p == [] || p == ['.']

/-- `Path::file_name()`: the last component unless it is `..` (empty parts and `.` are no components) -/
def baseName (n : Name) : Option Name :=
  match ((splitSlash n).filter fun p => !isSkipped p).reverse with
  | [] => none
  | p :: _ => if isParent p then none else some p

def invalidName (serial : Nat) : Name := ("<invalid_filename serial " ++ toString serial ++ ">").toList

/-- `base_name_for_filetransfer` -/
def targetName (serial : Nat) (n : Name) : Name := (baseName n).getD (invalidName serial)

structure Saved where
  files : List (Name × List Nat)     -- what the directory contains, in order of creation (existing files first)
deriving Repr

def Saved.has (s : Saved) (n : Name) : Bool := s.files.any (·.1 == n)

/-- `check_auto_save` for a transfer that has just become complete -/
def autoSave (globOk : Name → Bool) (s : Saved) (serial : Nat) (name : Name) (data : List Nat) : Saved :=
  if globOk name then
    let t := targetName serial name
    if s.has t then s else { files := s.files ++ [(t, data)] }
  else s

/-- run the plugin over the events; after an FLDA / FLFI that makes its transfer complete, auto-save it -/
def runAuto (globOk : Name → Bool) (nameOf : Ft → Name) (evs : List Ev) (existing : Saved) : Plug × Saved :=
  evs.foldl (fun (ps : Plug × Saved) e =>
    let p := ps.1
    let p' := p.step true e
    let serialOf : Option Nat := match e with | .flda s _ _ => some s | .flfi s => some s | _ => none
    match serialOf with
    | none => (p', ps.2)
    | some s =>
      -- the transfer the event was routed to (index from the map *before* the step; a recovered transfer is new)
      match idxGet s p.idx with
      | some i =>
        (match p.transfers[i]?, p'.transfers[i]? with
          | some b, some a =>
            if a.state == .complete && b.state != .complete then (p', autoSave globOk ps.2 a.serial (nameOf a) a.data) else (p', ps.2)
          | _, _ => (p', ps.2))
      | none => (p', ps.2)) ({}, existing)

/-! ### confinement -/

theorem splitSlash_no_sep (n : Name) : ∀ p ∈ splitSlash n, '/' ∉ p := by
  induction n with
  | nil => intro p hp; simp [splitSlash] at hp; subst hp; simp
  | cons c t ih =>
    intro p hp
    unfold splitSlash at hp
    split at hp
    · rename_i hc
      simp only [List.mem_cons] at hp
      rcases hp with h | h
      · subst h; simp
      · exact ih p h
    · rename_i hc
      have hne : c ≠ '/' := by simpa using hc
      split at hp
      · simp only [List.mem_singleton] at hp; subst hp; simp [hne.symm]
      · rename_i h r heq
        simp only [List.mem_cons] at hp
        rcases hp with h1 | h1
        · subst h1
          have : '/' ∉ h := ih h (by rw [heq]; simp)
          simp [hne.symm, this]
        · exact ih p (by rw [heq]; simp [h1])

/-- the base name of any announced file name contains no separator and is neither empty, `.` nor `..`:
    `<dir>/<base name>` is a direct child of `<dir>` -/
theorem baseName_confined (n b : Name) (h : baseName n = some b) : '/' ∉ b ∧ b ≠ [] ∧ b ≠ ['.'] ∧ b ≠ ['.', '.'] := by
  unfold baseName at h
  split at h
  · simp at h
  · rename_i p rest heq
    split at h
    · simp at h
    · rename_i hpar
      simp only [Option.some.injEq] at h
      subst h
      have hmem : p ∈ (splitSlash n).filter fun p => !isSkipped p := by
        have : p ∈ ((splitSlash n).filter fun p => !isSkipped p).reverse := by rw [heq]; simp
        simpa using this
      simp only [List.mem_filter, Bool.not_eq_true', isSkipped, Bool.or_eq_false_iff, beq_eq_false_iff_ne, ne_eq] at hmem
      refine ⟨splitSlash_no_sep n p hmem.1, hmem.2.1, hmem.2.2, ?_⟩
      simpa [isParent] using hpar

end Ftm
