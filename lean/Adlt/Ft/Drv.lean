import Adlt.Ft.Model
import Adlt.Util.Parse
/-! glue. case: `<serial>,<nr>,<buf>,<last>,<label> … | S serial size nr buf;D serial pkg len fill;F serial;O …`
    (label: 0 = no fault, 1 = duplicates only, 2 = damaging fault (drop/swap/resize/renumber a data package), 3 = other)
    obs per transfer in creation order: `serial:state:len:hash` (len/hash of what `save` wrote; 0 when not complete) -/
namespace Ftm
open Util

def parseEv (s : String) : Option Ev :=
  match (s.trimAscii.toString.splitOn " ") with
  | ["S", a, b, c, d] => some (.flst (nat! a) (nat! b) (nat! c) (nat! d))
  | ["D", a, b, c, d] => some (.flda (nat! a) (nat! b) (List.replicate (nat! c) (nat! d)))
  | ["F", a] => some (.flfi (nat! a))
  | ["O"] => some .other
  | _ => none

def showSt : FtState → String
  | .missingStart => "M" | .started => "S" | .complete => "C" | .incomplete => "I"

def hashOf (l : List Nat) : Nat := l.foldl (fun h b => (h * 31 + b + 1) % 4294967291) 7

structure Meta where
  serial : Nat
  nr : Nat
  buf : Nat
  last : Nat
  label : Nat

def parseMeta (s : String) : Option Meta :=
  match (s.splitOn ",").map nat! with
  | [a, b, c, d, e] => some { serial := a, nr := b, buf := c, last := d, label := e }
  | _ => none

/-- the original file content of a generated transfer: package p is `len` times the byte (serial*16+p)&255 -/
def Meta.original (m : Meta) : List Nat :=
  (List.range m.nr).flatMap fun i =>
    let p := i + 1
    List.replicate (if p == m.nr then m.last else m.buf) ((m.serial * 16 + p) % 256)

structure TObs where
  serial : Nat
  state : String
  len : Nat
  hash : Nat
deriving Repr

def parseTObs (s : String) : Option TObs :=
  match s.splitOn ":" with
  | [a, st, l, h] => some { serial := nat! a, state := st, len := nat! l, hash := nat! h }
  | _ => none

/-- C17 on an observed run:
    * soundness, for every transfer reported complete whose serial is unique in the case: what was saved is
      byte-for-byte the original (so a missing / swapped / resized package can never have produced it),
    * a transfer whose packages all arrived in order (duplicates allowed) is reported complete,
    * a transfer with a dropped / swapped / resized / renumbered data package is not reported complete -/
def oracle (metas : List Meta) (obs : List TObs) : String :=
  let uniq (s : Nat) : Bool := (metas.filter (·.serial == s)).length == 1
  let bad := metas.filterMap fun m =>
    if !uniq m.serial then none else
    let os := obs.filter (·.serial == m.serial)
    let orig := m.original
    let completeOk (o : TObs) : Bool := o.len == orig.length && (o.hash == hashOf orig || orig.isEmpty)
    if m.label != 3 && os.any (fun o => o.state == "C" && !completeOk o) then some "FAIL:damaged-content-saved-as-complete"
    else if (m.label == 0 || m.label == 1) && !(os.any (fun o => o.state == "C")) then some "FAIL:in-order-transfer-not-complete"
    else if m.label == 2 && os.any (fun o => o.state == "C") then some "FAIL:faulty-transfer-reported-complete"
    else none
  if obs.any (fun o => o.state.startsWith "C!") then "C17=FAIL:list-entry-saves-content-of-another-transfer" else
  match bad with
  | [] => "C17=ok"
  | e :: _ => "C17=" ++ e

def doLine (line : String) : String :=
  let (cs, impl) := match line.splitOn "\t" with
    | [c, i] => (c, i)
    | [c] => (c, "")
    | _ => ("", "")
  match cs.splitOn " | " with
  | [ms, evs] =>
    let metas := (fields ms " ").filterMap parseMeta
    let evs := (fields evs ";").filterMap parseEv
    let p := Plug.run true evs
    let mo := p.transfers.map fun t =>
      let d := if t.state == .complete then t.data else []
      s!"{t.serial}:{showSt t.state}:{d.length}:{if t.state == .complete && !d.isEmpty then hashOf d else 0}"
    let mobs := " ".intercalate mo
    let orc (o : String) : String := if o == "PANIC" then "C17=FAIL:panic" else oracle metas ((fields o " ").filterMap parseTObs)
    let tags : List String :=
      (if p.transfers.any (·.state == .complete) then ["complete"] else []) ++
      (if p.transfers.any (·.state == .incomplete) then ["incomplete"] else []) ++
      (if p.transfers.any (·.state == .missingStart) then ["missing-flst"] else []) ++
      (if metas.any (·.label == 1) then ["duplicates"] else []) ++ (if metas.any (·.label == 2) then ["damaging-fault"] else []) ++
      (if metas.length > 1 then ["concurrent"] else [])
    s!"{mobs}\t{if impl == "" then "-" else orc impl}\t{orc mobs}\t{",".intercalate tags}"
  | _ => "bad\tC17=FAIL:unparsable\tC17=FAIL:unparsable\t"

end Ftm
