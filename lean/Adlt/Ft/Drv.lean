import Adlt.Ft.AutoSave
import Adlt.Util.Parse
/-! glue. case: `<serial>,<nr>,<buf>,<last>,<label> … | S serial size nr buf;D serial pkg len fill;F serial;O …`
    (label: 0 = no fault, 1 = duplicates only, 2 = damaging fault (drop/swap/resize/renumber a data package), 3 = other,
    4 = all packages in order but the announced size is not the size of the file)
    obs per transfer in creation order: `serial:state:len:hash` (len/hash of what `save` wrote; 0 when not complete) -/
namespace Ftm
open Util

def parseEv (s : String) : Option Ev :=
  match (s.trimAscii.toString.splitOn " ") with
  | ["S", a, b, c, d] => some (.flst (nat! a) (nat! b) (nat! c) (nat! d))
  | ["D", a, b, c, d] => some (.flda (nat! a) (nat! b) (List.replicate (nat! c) (nat! d)))
  | ["F", a] => some (.flfi (nat! a))
  | ["O"] => some .other
  | _ => none

def showSt : FtState → String
  | .missingStart => "M" | .started => "S" | .complete => "C" | .incomplete => "I"

def hashOf (l : List Nat) : Nat := l.foldl (fun h b => (h * 31 + b + 1) % 4294967291) 7

structure Meta where
  serial : Nat
  nr : Nat
  buf : Nat
  last : Nat
  label : Nat

def parseMeta (s : String) : Option Meta :=
  match (s.splitOn ",").map nat! with
  | [a, b, c, d, e] => some { serial := a, nr := b, buf := c, last := d, label := e }
  | _ => none

/-- the original file content of a generated transfer: package p is `len` times the byte (serial*16+p)&255 -/
def Meta.original (m : Meta) : List Nat :=
  (List.range m.nr).flatMap fun i =>
    let p := i + 1
    List.replicate (if p == m.nr then m.last else m.buf) ((m.serial * 16 + p) % 256)

structure TObs where
  serial : Nat
  state : String
  len : Nat
  hash : Nat
deriving Repr

def parseTObs (s : String) : Option TObs :=
  match s.splitOn ":" with
  | [a, st, l, h] => some { serial := nat! a, state := st, len := nat! l, hash := nat! h }
  | _ => none

/-- C17 on an observed run:
    * soundness, for every transfer reported complete whose serial is unique in the case: what was saved is
      byte-for-byte the original (so a missing / swapped / resized package can never have produced it),
    * a transfer whose packages all arrived in order (duplicates allowed) is reported complete,
    * a transfer with a dropped / swapped / resized / renumbered data package is not reported complete -/
def oracle (metas : List Meta) (obs : List TObs) : String :=
  let uniq (s : Nat) : Bool := (metas.filter (·.serial == s)).length == 1
  let bad := metas.filterMap fun m =>
    if !uniq m.serial then none else
    let os := obs.filter (·.serial == m.serial)
    let orig := m.original
    let completeOk (o : TObs) : Bool := o.len == orig.length && (o.hash == hashOf orig || orig.isEmpty)
    if m.label != 3 && os.any (fun o => o.state == "C" && !completeOk o) then some "FAIL:damaged-content-saved-as-complete"
    else if (m.label == 0 || m.label == 1) && !(os.any (fun o => o.state == "C")) then some "FAIL:in-order-transfer-not-complete"
    else if m.label == 2 && os.any (fun o => o.state == "C") then some "FAIL:faulty-transfer-reported-complete"
    else if m.label == 4 && os.any (fun o => o.state == "C") then some "FAIL:transfer-of-inconsistent-size-reported-complete"
    else none
  if obs.any (fun o => o.state.startsWith "C!") then "C17=FAIL:list-entry-saves-content-of-another-transfer" else
  if obs.any (fun o => o.state.startsWith "C?") then "C17=FAIL:complete-transfer-cannot-be-saved" else
  match bad with
  | [] => "C17=ok"
  | e :: _ => "C17=" ++ e

/-- the announced name of a generated transfer (same table as the harness) -/
def nameOfSerial (serial : Nat) : String :=
  let n := 99 - (serial % 100)
  match serial % 8 with
  | 0 => s!"/abs/g{n}.bin" | 1 => s!"../up{n}.bin" | 2 => s!"dir/f{n}.bin" | 3 => "plain.bin"
  | 4 => s!"a/../../b{n}.txt" | 5 => "dir/.." | 6 => "x/same.bin" | _ => "y/z/same.bin"

def nameOfFt (t : Ft) : Name := if t.nrPackages.isNone then "<missing_flst>".toList else (nameOfSerial t.serial).toList

def globOf (g : String) : Name → Bool :=
  if g == "*" then fun _ => true else fun n => (String.ofList n).endsWith ".bin"

def oldFile : Saved := { files := [("plain.bin".toList, [111, 108, 100])] }

def showSaved (s : Saved) : String :=
  let l := s.files.map fun (n, d) => s!"{hexOf (String.ofList n).toUTF8.toList}:{d.length}:{hashOf d}"
  "A:" ++ "+".intercalate ((l.toArray.qsort (fun a b => decide (a < b))).toList) ++ " X:0"

def doLine (line : String) : String :=
  let (cs, impl) := match line.splitOn "\t" with
    | [c, i] => (c, i)
    | [c] => (c, "")
    | _ => ("", "")
  let parts := cs.splitOn " | "
  let glob : Option String := (parts.getD 2 "").trimAscii.toString |> fun g => if g == "" then none else some g
  match parts.take 2 with
  | [ms, evs] =>
    let metas := (fields ms " ").filterMap parseMeta
    let evs := (fields evs ";").filterMap parseEv
    let p := Plug.run true evs
    let mo := p.transfers.map fun t =>
      let d := if t.state == .complete then t.data else []
      s!"{t.serial}:{showSt t.state}:{d.length}:{if t.state == .complete && !d.isEmpty then hashOf d else 0}"
    let auto := glob.map fun g => showSaved (runAuto (globOf g) nameOfFt evs oldFile).2
    let mobs := " ".intercalate mo ++ (match auto with | some a => " # " ++ a | none => "")
    let orc (o : String) : String :=
      if o == "PANIC" then "C17=FAIL:panic" else
      let main := ((o.splitOn " # ").headD "")
      let a := ((o.splitOn " # ").getD 1 "")
      let r := oracle metas ((fields main " ").filterMap parseTObs)
      if r != "C17=ok" || glob.isNone then r
      else if !(a.endsWith " X:0") then "C17=FAIL:auto-save-wrote-outside-the-configured-directory"
      else if !((fields ((a.drop 2).toString.splitOn " X:" |>.headD "") "+").contains s!"{hexOf "plain.bin".toUTF8.toList}:3:{hashOf [111, 108, 100]}") then "C17=FAIL:auto-save-overwrote-or-removed-an-existing-file"
      else r
    let tags : List String :=
      (if p.transfers.any (·.state == .complete) then ["complete"] else []) ++
      (if p.transfers.any (·.state == .incomplete) then ["incomplete"] else []) ++
      (if p.transfers.any (·.state == .missingStart) then ["missing-flst"] else []) ++
      (if metas.any (·.label == 1) then ["duplicates"] else []) ++ (if metas.any (·.label == 2) then ["damaging-fault"] else []) ++
      (if metas.length > 1 then ["concurrent"] else []) ++
      (match auto with | some a => (if (a.splitOn "+").length > 1 then ["auto-saved"] else ["auto-save-nothing"]) | none => [])
    s!"{mobs}\t{if impl == "" then "-" else orc impl}\t{orc mobs}\t{",".intercalate tags}"
  | _ => "bad\tC17=FAIL:unparsable\tC17=FAIL:unparsable\t"

end Ftm
