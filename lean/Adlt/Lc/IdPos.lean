import Adlt.Lc.Pub
import Adlt.Lc.Fifo
/-! C05 (non-zero id): ids are handed out from 1 upwards, so every lifecycle, every queued and every delivered message
    carries an id ≥ 1 - through assignment, merging (relabelling), confirmation, release and the final flush. -/
namespace Lcm

structure IdPos (s : St) : Prop where
  next : 1 ≤ s.nextId
  live : ∀ p ∈ s.ecuMap, ∀ lc ∈ p.2, 1 ≤ lc.id
  buf : ∀ m ∈ s.bufMsgs, 1 ≤ m.lc
  out : ∀ o ∈ s.out, 1 ≤ o.m.lc

theorem idpos_emit (s : St) (m : Msg) (h : IdPos s) (hm : 1 ≤ m.lc) : IdPos (s.emit m) :=
  ⟨h.next, h.live, h.buf, by
    intro o ho
    simp only [St.emit, List.mem_cons] at ho
    rcases ho with rfl | ho
    · exact hm
    · exact h.out o ho⟩

theorem idpos_mark (s : St) (i : Nat) (h : IdPos s) : IdPos (s.mark i) := by
  unfold St.mark; split
  · exact h
  · exact ⟨h.next, h.live, h.buf, h.out⟩

theorem idpos_flushAll_go (l : List Msg) : ∀ (s : St) (last : Nat), IdPos s → (∀ m ∈ l, 1 ≤ m.lc) →
    IdPos (St.flushAll.go s last l) := by
  induction l with
  | nil => intro s last h _; exact ⟨h.next, h.live, (by intro m hm; cases hm), h.out⟩
  | cons m t ih =>
    intro s last h hl
    rw [St.flushAll.go]
    apply ih
    · apply idpos_emit _ _ _ (hl m (by simp))
      split
      · exact idpos_mark s _ h
      · exact h
    · intro m' hm'; exact hl m' (by simp [hm'])

theorem idpos_flushAll (s : St) (h : IdPos s) : IdPos s.flushAll := idpos_flushAll_go s.bufMsgs s 0 h h.buf

theorem idpos_release_go (l : List Msg) : ∀ (s : St) (prune : Nat), IdPos s → (∀ m ∈ l, 1 ≤ m.lc) →
    IdPos (St.release.go s prune l) := by
  induction l with
  | nil => intro s p h _; exact ⟨h.next, h.live, (by intro m hm; cases hm), h.out⟩
  | cons m t ih =>
    intro s p h hl
    rw [St.release.go]
    have ht : ∀ m' ∈ t, 1 ≤ m'.lc := fun m' hm' => hl m' (by simp [hm'])
    split
    · exact ih _ _ (idpos_emit _ _ h (hl m (by simp))) ht
    · split
      · exact ih _ _ (idpos_emit _ _ (idpos_mark s _ h) (hl m (by simp))) ht
      · exact ⟨h.next, h.live, hl, h.out⟩

theorem idpos_confirmLc (s : St) (m : Msg) (x : Nat) (lc : Lc) (h : IdPos s) : IdPos (s.confirmLc m x lc) := by
  unfold St.confirmLc
  split
  · exact h
  · split
    · exact h
    · split
      · simp only []
        unfold St.release
        apply idpos_release_go
        · exact ⟨h.next, h.live, h.buf, h.out⟩
        · exact h.buf
      · exact h

theorem idpos_foldl {α} (f : St → α → St) (hf : ∀ s a, IdPos s → IdPos (f s a)) (l : List α) (s : St) (h : IdPos s) :
    IdPos (l.foldl f s) := by
  induction l generalizing s with
  | nil => exact h
  | cons a t ih => exact ih _ (hf s a h)

theorem idpos_confirm_folds (m : Msg) (x : Nat) (em : List (Nat × List Lc)) (s : St) (h : IdPos s) :
    IdPos (em.foldl (fun s (p : Nat × List Lc) => p.2.reverse.foldl (fun s lc => s.confirmLc m x lc) s) s) := by
  apply idpos_foldl _ _ _ _ h
  intro s' p hs'
  apply idpos_foldl _ _ _ _ hs'
  intro s'' lc hs''
  exact idpos_confirmLc s'' m _ lc hs''

theorem idpos_confirm (s : St) (m : Msg) (h : IdPos s) : IdPos (s.confirm m) := by
  unfold St.confirm
  split
  · split
    · have h2 := idpos_confirm_folds m (m.recv - (m.tsUs + maxDelay)) s.ecuMap s h
      exact ⟨h2.next, h2.live, h2.buf, h2.out⟩
    · exact ⟨h.next, h.live, h.buf, h.out⟩
  · exact h

theorem mem_assocSet_weak {α} (k : Nat) (v : α) (l : List (Nat × α)) (p : Nat × α) (h : p ∈ assocSet k v l) :
    p = (k, v) ∨ p ∈ l := by
  induction l with
  | nil => simp only [assocSet, List.mem_singleton] at h; exact Or.inl h
  | cons q t ih =>
    obtain ⟨a, b⟩ := q
    simp only [assocSet] at h
    split at h
    · simp only [List.mem_cons] at h
      rcases h with h | h
      · exact Or.inl h
      · exact Or.inr (List.mem_cons_of_mem _ h)
    · simp only [List.mem_cons] at h
      rcases h with h | h
      · exact Or.inr (by rw [h]; simp)
      · rcases ih h with h | h
        · exact Or.inl h
        · exact Or.inr (List.mem_cons_of_mem _ h)

theorem idpos_setEcu (s : St) (e : Nat) (lcs : List Lc) (h : IdPos s) (hl : ∀ lc ∈ lcs, 1 ≤ lc.id) : IdPos (setEcu s e lcs) :=
  ⟨h.next, by
    intro p hp lc hlc
    rcases mem_assocSet_weak e lcs s.ecuMap p hp with hp | hp
    · subst hp; exact hl lc hlc
    · exact h.live p hp lc hlc, h.buf, h.out⟩

theorem idpos_relabel (a b : Nat) (ms : List Msg) (hb : 1 ≤ b) (h : ∀ m ∈ ms, 1 ≤ m.lc) : ∀ m ∈ relabel a b ms, 1 ≤ m.lc := by
  intro m hm
  obtain ⟨m0, h0, rfl⟩ := mem_relabel a b ms m hm
  split
  · exact hb
  · exact h m0 h0

theorem idpos_mergeTail (s : St) (lc2Id prevId ecu : Nat) (lcs : List Lc) (h : IdPos s) (hp : 1 ≤ prevId)
    (hl : ∀ lc ∈ lcs, 1 ≤ lc.id) : IdPos (s.mergeTail lc2Id prevId ecu lcs) := by
  unfold St.mergeTail
  simp only []
  have h1 : IdPos ({ s with bufMsgs := relabel lc2Id prevId s.bufMsgs } : St) :=
    ⟨h.next, h.live, idpos_relabel _ _ _ hp h.buf, h.out⟩
  have h2 : IdPos (({ s with bufMsgs := relabel lc2Id prevId s.bufMsgs } : St).unpublishIfConfirmed lc2Id) := by
    unfold St.unpublishIfConfirmed
    split
    · exact h1
    · exact ⟨h1.next, h1.live, h1.buf, h1.out⟩
  generalize ({ s with bufMsgs := relabel lc2Id prevId s.bufMsgs } : St).unpublishIfConfirmed lc2Id = s2 at *
  have h3 : IdPos ({ s2 with bufLcs := s2.bufLcs.erase lc2Id } : St) := ⟨h2.next, h2.live, h2.buf, h2.out⟩
  have h4 := idpos_setEcu _ ecu lcs h3 hl
  unfold St.flushIfDrained
  split
  · exact idpos_flushAll _ h4
  · exact h4

theorem idpos_maybeMerge (s : St) (m' : Msg) (lc2 prev : Lc) (rest2Rev : List Lc) (h : IdPos s) (hm : 1 ≤ m'.lc)
    (hl : ∀ lc ∈ lc2 :: prev :: rest2Rev, 1 ≤ lc.id) :
    IdPos (s.maybeMerge m' lc2 prev rest2Rev).1 ∧ 1 ≤ (s.maybeMerge m' lc2 prev rest2Rev).2.lc := by
  have hprev : 1 ≤ prev.id := hl prev (by simp)
  have hmerged : ∀ lc ∈ (prev.merge lc2 :: rest2Rev).reverse, 1 ≤ lc.id := by
    intro lc hlc
    simp only [List.mem_reverse, List.mem_cons] at hlc
    rcases hlc with rfl | hlc
    · rw [(merge_facts prev lc2).1]; exact hprev
    · exact hl lc (by simp [hlc])
  have hkeep : ∀ lc ∈ (lc2 :: prev :: rest2Rev).reverse, 1 ≤ lc.id := by
    intro lc hlc
    simp only [List.mem_reverse] at hlc
    exact hl lc hlc
  unfold St.maybeMerge
  split
  · split
    · exact ⟨idpos_mergeTail s _ _ _ _ h hprev hmerged, hprev⟩
    · split
      · exact ⟨idpos_mergeTail s _ _ _ _ h hprev hmerged, hprev⟩
      · exact ⟨idpos_setEcu s _ _ h hkeep, hm⟩
  · exact ⟨idpos_setEcu s _ _ h hkeep, hm⟩

theorem idpos_assignExisting (s : St) (m : Msg) (last : Lc) (restRev : List Lc) (h : IdPos s)
    (hl : ∀ lc ∈ last :: restRev, 1 ≤ lc.id) :
    IdPos (s.assignExisting m last restRev).1 ∧ 1 ≤ (s.assignExisting m last restRev).2.lc := by
  unfold St.assignExisting
  simp only []
  obtain ⟨f1, _, _, f4⟩ := apply_facts last s.nextId m (last.classify m)
  have hu : last.update s.nextId m = last.apply s.nextId m (last.classify m) := rfl
  rw [← hu] at f1 f4
  generalize last.update s.nextId m = r at *
  have hlast : 1 ≤ last.id := hl last (by simp)
  have hrest : ∀ lc ∈ restRev, 1 ≤ lc.id := fun lc hlc => hl lc (by simp [hlc])
  have hn := h.next
  split
  · rename_i nl hnl
    rw [hnl] at f4
    obtain ⟨g1, g2, _, _⟩ := f4
    refine ⟨?_, by rw [g1]; exact hn⟩
    apply idpos_setEcu
    · exact ⟨by show 1 ≤ s.nextId + 1; omega, h.live, h.buf, h.out⟩
    · intro lc hlc
      simp only [List.mem_reverse, List.mem_cons] at hlc
      rcases hlc with rfl | rfl | hlc
      · rw [g2]; exact hn
      · rw [f1]; exact hlast
      · exact hrest lc hlc
  · rename_i hnone
    rw [hnone] at f4
    have f4' : r.2.1.lc = last.id := f4
    split
    · refine ⟨idpos_setEcu s _ _ h ?_, by rw [f4']; exact hlast⟩
      intro lc hlc
      simp only [List.mem_singleton] at hlc
      rw [hlc, f1]; exact hlast
    · rename_i prev rest2Rev
      apply idpos_maybeMerge s _ _ _ _ h (by rw [f4']; exact hlast)
      intro lc hlc
      simp only [List.mem_cons] at hlc
      rcases hlc with rfl | hlc
      · rw [f1]; exact hlast
      · exact hrest lc (by simpa using hlc)

theorem idpos_assignNew (s : St) (m : Msg) (h : IdPos s) : IdPos (s.assignNew m).1 ∧ 1 ≤ (s.assignNew m).2.lc := by
  unfold St.assignNew
  simp only []
  obtain ⟨n1, _, n3, _⟩ := new_facts s.nextId m
  have hn := h.next
  refine ⟨?_, by rw [n3]; exact hn⟩
  apply idpos_setEcu
  · exact ⟨by show 1 ≤ s.nextId + 1; omega, h.live, h.buf, h.out⟩
  · intro lc hlc
    simp only [List.mem_singleton] at hlc
    rw [hlc, n1]; exact hn

theorem idpos_assign (s : St) (m : Msg) (h : IdPos s) : IdPos (s.assign m).1 ∧ 1 ≤ (s.assign m).2.lc := by
  unfold St.assign
  split
  · exact idpos_assignNew s m h
  · rename_i last restRev heq
    apply idpos_assignExisting s m last restRev h
    intro lc hlc
    have hmem : lc ∈ ((assocGet m.ecu s.ecuMap).getD []).reverse := by rw [heq]; exact hlc
    simp only [List.mem_reverse] at hmem
    cases hg : assocGet m.ecu s.ecuMap with
    | none => rw [hg] at hmem; simp at hmem
    | some v =>
      rw [hg] at hmem
      exact h.live (m.ecu, v) (assocGet_mem _ _ _ hg) lc hmem

theorem idpos_deliver (s : St) (m : Msg) (h : IdPos s) (hm : 1 ≤ m.lc) : IdPos (s.deliver m) := by
  unfold St.deliver
  split
  · exact ⟨h.next, h.live, by
      intro m' hm'
      simp only [List.mem_append, List.mem_singleton] at hm'
      rcases hm' with hm' | rfl
      · exact h.buf m' hm'
      · exact hm, h.out⟩
  · exact idpos_emit _ _ (idpos_mark s _ h) hm

theorem idpos_step (s : St) (m : Msg) (h : IdPos s) : IdPos (s.step m) := by
  unfold St.step
  split
  · exact h
  · simp only []
    obtain ⟨a1, a2⟩ := idpos_assign s m h
    split
    · exact a1
    · exact idpos_deliver _ _ (idpos_confirm _ _ a1) a2

theorem idpos_steps (ms : List Msg) (s : St) (h : IdPos s) : IdPos (ms.foldl St.step s) :=
  idpos_foldl St.step (fun s m hs => idpos_step s m hs) ms s h

theorem idpos_init : IdPos ({} : St) :=
  ⟨Nat.le_refl 1, (by intro p hp; cases hp), (by intro m hm; cases hm), (by intro o ho; cases ho)⟩

theorem flushOne_fold_pos (l : List Msg) (x : St) (hv : ∀ o ∈ x.out, 1 ≤ o.m.lc) (hp : ∀ m ∈ l, 1 ≤ m.lc) :
    ∀ o ∈ (l.foldl St.flushOne x).out, 1 ≤ o.m.lc := by
  induction l generalizing x with
  | nil => exact hv
  | cons m t ih =>
    simp only [List.foldl_cons]
    apply ih
    · intro o ho
      unfold St.flushOne St.emit at ho
      simp only [List.mem_cons] at ho
      rcases ho with rfl | ho
      · exact hp m (by simp)
      · have : (x.mark m.lc).out = x.out := by unfold St.mark; split <;> rfl
        rw [this] at ho
        exact hv o ho
    · intro m' hm'; exact hp m' (by simp [hm'])

theorem finish_pos (s : St) (h : IdPos s) : ∀ o ∈ s.finish.out, 1 ≤ o.m.lc := by
  unfold St.finish
  split
  · exact h.out
  · simp only []
    have q1 := publishWhere_qsame (fun s lc => s.bufLcs.contains lc.id) s
    generalize hs1 : (s.publishWhere fun s lc => s.bufLcs.contains lc.id).refresh = s1
    have hout1 : s1.out = s.out := by subst hs1; exact q1.out
    have hbm1 : s1.bufMsgs = s.bufMsgs := by subst hs1; exact q1.buf
    have hv2 : ∀ o ∈ (s1.bufMsgs.foldl St.flushOne s1).out, 1 ≤ o.m.lc := by
      apply flushOne_fold_pos
      · rw [hout1]; exact h.out
      · rw [hbm1]; exact h.buf
    intro o ho
    apply hv2 o
    have ho' : o ∈ (St.publishWhere (fun s lc => s.toRefresh.contains lc.id)
        ({ s1.bufMsgs.foldl St.flushOne s1 with bufMsgs := [] } : St)).out := ho
    rw [publishWhere_out] at ho'
    exact ho'

/-- every delivered message carries a non-zero lifecycle id, for every stream -/
theorem C05_nonzero (ms : List Msg) : ∀ o ∈ (run ms).out, 1 ≤ o.m.lc := by
  unfold run
  exact finish_pos _ (idpos_steps ms {} idpos_init)

end Lcm
