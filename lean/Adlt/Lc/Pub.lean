import Adlt.Lc.Fifo
namespace Lcm

/-! Prototype: C06 — the lifecycle of every delivered message is already published. -/

/-! ### assoc list facts -/

def keys {α} (l : List (Nat × α)) : List Nat := l.map (·.1)

theorem assocGet_assocSet {α} (k k' : Nat) (v : α) (l : List (Nat × α)) :
    assocGet k' (assocSet k v l) = if k' = k then some v else assocGet k' l := by
  induction l with
  | nil =>
    simp only [assocSet, assocGet]
    by_cases h : k' = k
    · subst h; simp
    · have : (k == k') = false := by simp; exact fun x => h x.symm
      simp [h, this]
  | cons p t ih =>
    obtain ⟨a, b⟩ := p
    simp only [assocSet]
    by_cases hak : a = k
    · subst hak
      simp only [beq_self_eq_true, if_true, assocGet]
      by_cases h : k' = a
      · simp [h]
      · have : (a == k') = false := by simp; exact fun x => h x.symm
        simp [h, this]
    · have : (a == k) = false := by simp [hak]
      simp only [this, Bool.false_eq_true, if_false, assocGet]
      by_cases h : a = k'
      · subst h; simp [hak]
      · have h2 : (a == k') = false := by simp [h]
        simp only [h2, Bool.false_eq_true, if_false]; exact ih

theorem mem_assocSet {α} (k : Nat) (v : α) (l : List (Nat × α)) (hn : (keys l).Nodup) (p : Nat × α) :
    p ∈ assocSet k v l ↔ p = (k, v) ∨ (p ∈ l ∧ p.1 ≠ k) := by
  induction l with
  | nil => simp [assocSet]
  | cons q t ih =>
    obtain ⟨a, b⟩ := q
    simp only [keys, List.map_cons, List.nodup_cons] at hn
    simp only [assocSet]
    by_cases hak : a = k
    · subst hak
      simp only [beq_self_eq_true, if_true, List.mem_cons]
      constructor
      · rintro (h | h)
        · exact Or.inl h
        · right
          refine ⟨Or.inr h, ?_⟩
          intro hp
          apply hn.1
          simp only [List.mem_map]
          exact ⟨p, h, hp⟩
      · rintro (h | ⟨h | h, hne⟩)
        · exact Or.inl h
        · subst h; simp at hne
        · exact Or.inr h
    · have : (a == k) = false := by simp [hak]
      simp only [this, Bool.false_eq_true, if_false, List.mem_cons]
      rw [ih hn.2]
      constructor
      · rintro (h | h | ⟨h, hne⟩)
        · subst h; exact Or.inr ⟨Or.inl rfl, hak⟩
        · exact Or.inl h
        · exact Or.inr ⟨Or.inr h, hne⟩
      · rintro (h | ⟨h | h, hne⟩)
        · exact Or.inr (Or.inl h)
        · exact Or.inl h
        · exact Or.inr (Or.inr ⟨h, hne⟩)

theorem keys_assocSet_nodup {α} (k : Nat) (v : α) (l : List (Nat × α)) (hn : (keys l).Nodup) :
    (keys (assocSet k v l)).Nodup := by
  induction l with
  | nil => simp [assocSet, keys]
  | cons q t ih =>
    obtain ⟨a, b⟩ := q
    simp only [keys, List.map_cons, List.nodup_cons] at hn
    simp only [assocSet]
    by_cases hak : a = k
    · subst hak; simp only [beq_self_eq_true, if_true, keys, List.map_cons, List.nodup_cons]; exact hn
    · have : (a == k) = false := by simp [hak]
      simp only [this, Bool.false_eq_true, if_false, keys, List.map_cons, List.nodup_cons]
      refine ⟨?_, ih hn.2⟩
      intro hmem
      simp only [List.mem_map] at hmem
      obtain ⟨p, hp, hpa⟩ := hmem
      rw [mem_assocSet k v t hn.2] at hp
      rcases hp with h | ⟨h, _⟩
      · subst h; exact hak hpa.symm
      · apply hn.1; simp only [List.mem_map]; exact ⟨p, h, hpa⟩

theorem assocGet_mem {α} (k : Nat) (v : α) (l : List (Nat × α)) (h : assocGet k l = some v) : (k, v) ∈ l := by
  induction l with
  | nil => simp [assocGet] at h
  | cons q t ih =>
    obtain ⟨a, b⟩ := q
    simp only [assocGet] at h
    by_cases hak : a = k
    · subst hak; simp at h; subst h; simp
    · have : (a == k) = false := by simp [hak]
      simp only [this, Bool.false_eq_true, if_false] at h
      exact List.mem_cons_of_mem _ (ih h)

theorem mem_assocGet {α} (k : Nat) (v : α) (l : List (Nat × α)) (hn : (keys l).Nodup) (h : (k, v) ∈ l) :
    assocGet k l = some v := by
  induction l with
  | nil => simp at h
  | cons q t ih =>
    obtain ⟨a, b⟩ := q
    simp only [keys, List.map_cons, List.nodup_cons] at hn
    simp only [assocGet]
    rcases List.mem_cons.mp h with h | h
    · cases h; simp
    · have hak : a ≠ k := by
        intro e; apply hn.1; simp only [List.mem_map]; exact ⟨(k, v), h, e.symm⟩
      have : (a == k) = false := by simp [hak]
      simp only [this, Bool.false_eq_true, if_false]
      exact ih hn.2 h

/-! ### invariants -/

def Live (em : List (Nat × List Lc)) (lc : Lc) : Prop := ∃ p ∈ em, lc ∈ p.2

def PubOk (pub : List (Nat × Lc)) (id ecu : Nat) : Prop := ∃ l, assocGet id pub = some l ∧ l.ecu = ecu

structure MapInv (em : List (Nat × List Lc)) (nextId : Nat) : Prop where
  keysNodup : (keys em).Nodup
  ecuKey : ∀ p ∈ em, ∀ lc ∈ p.2, lc.ecu = p.1
  fresh : ∀ lc, Live em lc → lc.id < nextId
  uniq : ∀ a b, Live em a → Live em b → a.id = b.id → a.ecu = b.ecu
  idsNodup : ∀ p ∈ em, (p.2.map (·.id)).Nodup

def MsgOk (em : List (Nat × List Lc)) (m : Msg) : Prop := ∃ lc, Live em lc ∧ lc.id = m.lc ∧ lc.ecu = m.ecu

structure LInv (s : St) : Prop where
  map : MapInv s.ecuMap s.nextId
  msgs : ∀ m ∈ s.bufMsgs, MsgOk s.ecuMap m
  pub : ∀ lc, Live s.ecuMap lc → lc.id ∉ s.bufLcs → PubOk s.published lc.id lc.ecu
  pend : s.pending = []
  vis : ∀ o ∈ s.out, o.visible = true

theorem emit_vis (s : St) (m : Msg) (h : PubOk s.published m.lc m.ecu) (hv : ∀ o ∈ s.out, o.visible = true) :
    ∀ o ∈ (s.emit m).out, o.visible = true := by
  intro o ho
  simp only [St.emit, List.mem_cons] at ho
  rcases ho with h1 | h1
  · subst h1
    obtain ⟨l, hl, he⟩ := h
    simp [hl, he]
  · exact hv o h1

theorem emit_inv (s : St) (m : Msg) (hi : LInv s) (h : PubOk s.published m.lc m.ecu) : LInv (s.emit m) :=
  { map := hi.map, msgs := hi.msgs, pub := hi.pub, pend := hi.pend, vis := emit_vis s m h hi.vis }

theorem mark_inv (s : St) (i : Nat) (hi : LInv s) : LInv (s.mark i) := by
  unfold St.mark; split
  · exact hi
  · exact { map := hi.map, msgs := hi.msgs, pub := hi.pub, pend := hi.pend, vis := hi.vis }

/-- everything needed to emit a queued message: it is not buffered any more -/
theorem pubOk_of_msg (s : St) (hi : LInv s) (m : Msg) (hm : MsgOk s.ecuMap m) (hb : m.lc ∉ s.bufLcs) :
    PubOk s.published m.lc m.ecu := by
  obtain ⟨lc, hl, hid, hecu⟩ := hm
  have := hi.pub lc hl (by rw [hid]; exact hb)
  rw [hid, hecu] at this; exact this

theorem flushAll_go_inv (l : List Msg) (s : St) (last : Nat) (hi : LInv s) (hb : s.bufLcs = [])
    (hl : ∀ m ∈ l, MsgOk s.ecuMap m) : LInv (St.flushAll.go s last l) := by
  induction l generalizing s last with
  | nil =>
    simp only [St.flushAll.go]
    exact { map := hi.map, msgs := by simp, pub := hi.pub, pend := hi.pend, vis := hi.vis }
  | cons m t ih =>
    simp only [St.flushAll.go]
    have hm := hl m (by simp)
    have hi1 : LInv (if m.lc != last then s.mark m.lc else s) := by split; exact mark_inv s _ hi; exact hi
    have hb1 : (if m.lc != last then s.mark m.lc else s).bufLcs = [] := by split <;> simp [hb]
    have hem1 : (if m.lc != last then s.mark m.lc else s).ecuMap = s.ecuMap := by
      split
      · unfold St.mark; split <;> rfl
      · rfl
    have hp : PubOk (if m.lc != last then s.mark m.lc else s).published m.lc m.ecu := by
      apply pubOk_of_msg _ hi1 m (by rw [hem1]; exact hm)
      rw [hb1]; simp
    apply ih _ _ (emit_inv _ m hi1 hp)
    · simpa [St.emit] using hb1
    · intro m' hm'
      show MsgOk ((if m.lc != last then s.mark m.lc else s).emit m).ecuMap m'
      have : ((if m.lc != last then s.mark m.lc else s).emit m).ecuMap = s.ecuMap := by
        simp only [St.emit]; exact hem1
      rw [this]; exact hl m' (by simp [hm'])

theorem flushAll_inv (s : St) (hi : LInv s) (hb : s.bufLcs = []) : LInv s.flushAll := by
  unfold St.flushAll
  exact flushAll_go_inv s.bufMsgs s 0 hi hb hi.msgs

@[simp] theorem emit_ecuMap (s : St) (m : Msg) : (s.emit m).ecuMap = s.ecuMap := rfl
@[simp] theorem emit_published (s : St) (m : Msg) : (s.emit m).published = s.published := rfl
@[simp] theorem mark_ecuMap (s : St) (i : Nat) : (s.mark i).ecuMap = s.ecuMap := by unfold St.mark; split <;> rfl
@[simp] theorem mark_published (s : St) (i : Nat) : (s.mark i).published = s.published := by unfold St.mark; split <;> rfl

theorem release_go_inv (l : List Msg) (s : St) (prune : Nat) (hi : LInv s)
    (hl : ∀ m ∈ l, MsgOk s.ecuMap m)
    (hp : ∀ m, MsgOk s.ecuMap m → m.lc = prune → PubOk s.published m.lc m.ecu) :
    LInv (St.release.go s prune l) := by
  induction l generalizing s prune with
  | nil =>
    simp only [St.release.go]
    exact { map := hi.map, msgs := by simp, pub := hi.pub, pend := hi.pend, vis := hi.vis }
  | cons m t ih =>
    simp only [St.release.go]
    have hm := hl m (by simp)
    split
    · rename_i heq
      have heq' : m.lc = prune := by simpa using heq
      apply ih (s.emit m) prune (emit_inv s m hi (hp m hm heq'))
      · intro m' hm'; simpa using hl m' (by simp [hm'])
      · intro m' h1 h2; simpa using hp m' (by simpa using h1) h2
    · split
      · rename_i hnb
        have hnb' : m.lc ∉ s.bufLcs := by simpa using hnb
        have hpo : PubOk (s.mark m.lc).published m.lc m.ecu := by
          simpa using pubOk_of_msg s hi m hm hnb'
        apply ih ((s.mark m.lc).emit m) m.lc (emit_inv _ m (mark_inv s _ hi) hpo)
        · intro m' hm'; simpa using hl m' (by simp [hm'])
        · intro m' h1 h2
          have h1' : MsgOk s.ecuMap m' := by simpa using h1
          have := pubOk_of_msg s hi m' h1' (by rw [h2]; exact hnb')
          simpa using this
      · exact { map := hi.map, msgs := hl, pub := hi.pub, pend := hi.pend, vis := hi.vis }

theorem assocGet_pub_preserved (pub : List (Nat × Lc)) (lc : Lc) (id ecu : Nat) (h : PubOk pub id ecu)
    (hsame : id = lc.id → ecu = lc.ecu) : PubOk (assocSet lc.id lc pub) id ecu := by
  obtain ⟨l, hl, he⟩ := h
  unfold PubOk
  rw [assocGet_assocSet]
  by_cases hid : id = lc.id
  · simp only [hid, if_true]; exact ⟨lc, rfl, (hsame hid).symm⟩
  · simp only [hid, if_false]; exact ⟨l, hl, he⟩

theorem confirmLc_inv (s : St) (m : Msg) (x : Nat) (lc : Lc) (hi : LInv s) (hlive : Live s.ecuMap lc) :
    LInv (s.confirmLc m x lc) := by
  unfold St.confirmLc
  split
  · exact hi
  · split
    · exact hi
    · split
      · -- confirmed
        unfold St.release
        -- the state after erase + publish + refresh
        have hpend := hi.pend
        let s1 : St := (({ s with bufLcs := s.bufLcs.erase lc.id } : St).publish lc).refresh
        have hs1pub : s1.published = assocSet lc.id lc s.published := by
          simp [s1, St.publish, St.refresh, hpend]
        have hi1 : LInv s1 :=
          { map := hi.map
            msgs := hi.msgs
            pend := rfl
            vis := hi.vis
            pub := by
              intro lc' hl' hnb
              show PubOk s1.published lc'.id lc'.ecu
              rw [hs1pub]
              by_cases hid : lc'.id = lc.id
              · unfold PubOk; rw [assocGet_assocSet]; simp only [hid, if_true]
                exact ⟨lc, rfl, (hi.map.uniq lc' lc hl' hlive hid).symm⟩
              · apply assocGet_pub_preserved _ _ _ _ _ (fun h => absurd h hid)
                apply hi.pub lc' hl'
                intro hmem
                apply hnb
                show lc'.id ∈ s.bufLcs.erase lc.id
                exact (List.mem_erase_of_ne hid).mpr hmem }
        apply release_go_inv s.bufMsgs s1 lc.id hi1 hi.msgs
        intro m' hm' heq
        obtain ⟨lc', hl', hid', hecu'⟩ := hm'
        show PubOk s1.published m'.lc m'.ecu
        rw [hs1pub, heq]
        unfold PubOk; rw [assocGet_assocSet]; simp only [if_true]
        refine ⟨lc, rfl, ?_⟩
        rw [← hecu']
        exact (hi.map.uniq lc' lc hl' hlive (hid'.trans heq)).symm
      · exact hi

theorem release_go_frame (l : List Msg) (s : St) (p : Nat) :
    (St.release.go s p l).ecuMap = s.ecuMap ∧ (St.release.go s p l).nextId = s.nextId := by
  induction l generalizing s p with
  | nil => exact ⟨rfl, rfl⟩
  | cons m t ih =>
    simp only [St.release.go]
    split
    · obtain ⟨a, b⟩ := ih (s.emit m) p; exact ⟨a.trans (by simp), b.trans rfl⟩
    · split
      · obtain ⟨a, b⟩ := ih ((s.mark m.lc).emit m) m.lc
        refine ⟨a.trans (by simp), b.trans ?_⟩
        show (s.mark m.lc).nextId = s.nextId
        unfold St.mark; split <;> rfl
      · exact ⟨rfl, rfl⟩

theorem confirmLc_frame (s : St) (m : Msg) (x : Nat) (lc : Lc) :
    (s.confirmLc m x lc).ecuMap = s.ecuMap ∧ (s.confirmLc m x lc).nextId = s.nextId := by
  unfold St.confirmLc
  split
  · exact ⟨rfl, rfl⟩
  · split
    · exact ⟨rfl, rfl⟩
    · split
      · unfold St.release
        obtain ⟨a, b⟩ := release_go_frame s.bufMsgs (({ s with bufLcs := s.bufLcs.erase lc.id } : St).publish lc).refresh lc.id
        exact ⟨a.trans rfl, b.trans rfl⟩
      · exact ⟨rfl, rfl⟩

theorem confirm_inner_inv (m : Msg) (x : Nat) (lcs : List Lc) (s : St) (hi : LInv s)
    (hl : ∀ lc ∈ lcs, Live s.ecuMap lc) :
    LInv (lcs.foldl (fun s lc => s.confirmLc m x lc) s)
    ∧ (lcs.foldl (fun s lc => s.confirmLc m x lc) s).ecuMap = s.ecuMap
    ∧ (lcs.foldl (fun s lc => s.confirmLc m x lc) s).nextId = s.nextId := by
  induction lcs generalizing s with
  | nil => exact ⟨hi, rfl, rfl⟩
  | cons a t ih =>
    simp only [List.foldl_cons]
    have h1 := confirmLc_inv s m x a hi (hl a (by simp))
    obtain ⟨h2, h3⟩ := confirmLc_frame s m x a
    obtain ⟨r1, r2, r3⟩ := ih (s.confirmLc m x a) h1 (by intro lc hlc; rw [h2]; exact hl lc (by simp [hlc]))
    exact ⟨r1, r2.trans h2, r3.trans h3⟩

theorem confirm_outer_inv (m : Msg) (x : Nat) (ps : List (Nat × List Lc)) (s : St) (hi : LInv s)
    (hl : ∀ p ∈ ps, p ∈ s.ecuMap) :
    LInv (ps.foldl (fun s (p : Nat × List Lc) => p.2.reverse.foldl (fun s lc => s.confirmLc m x lc) s) s)
    ∧ (ps.foldl (fun s (p : Nat × List Lc) => p.2.reverse.foldl (fun s lc => s.confirmLc m x lc) s) s).ecuMap = s.ecuMap
    ∧ (ps.foldl (fun s (p : Nat × List Lc) => p.2.reverse.foldl (fun s lc => s.confirmLc m x lc) s) s).nextId = s.nextId := by
  induction ps generalizing s with
  | nil => exact ⟨hi, rfl, rfl⟩
  | cons p t ih =>
    simp only [List.foldl_cons]
    obtain ⟨h1, h2, h3⟩ := confirm_inner_inv m x p.2.reverse s hi (by
      intro lc hlc; exact ⟨p, hl p (by simp), by simpa using hlc⟩)
    obtain ⟨r1, r2, r3⟩ := ih _ h1 (by intro q hq; rw [h2]; exact hl q (by simp [hq]))
    exact ⟨r1, r2.trans h2, r3.trans h3⟩

theorem confirm_inv (s : St) (m : Msg) (hi : LInv s) : LInv (s.confirm m) ∧ (s.confirm m).ecuMap = s.ecuMap
    ∧ (s.confirm m).nextId = s.nextId := by
  unfold St.confirm
  split
  · split
    · obtain ⟨h1, h2, h3⟩ := confirm_outer_inv m (m.recv - (m.tsUs + maxDelay)) s.ecuMap s hi (fun p hp => hp)
      exact ⟨{ map := h1.map, msgs := h1.msgs, pub := h1.pub, pend := h1.pend, vis := h1.vis }, h2, h3⟩
    · exact ⟨{ map := hi.map, msgs := hi.msgs, pub := hi.pub, pend := hi.pend, vis := hi.vis }, rfl, rfl⟩
  · exact ⟨hi, rfl, rfl⟩

/-! ### replacing one ECU's lifecycle list -/

def oldList (em : List (Nat × List Lc)) (e : Nat) : List Lc := (assocGet e em).getD []

theorem oldList_live (em : List (Nat × List Lc)) (e : Nat) (lc : Lc) (h : lc ∈ oldList em e) : Live em lc := by
  unfold oldList at h
  cases hg : assocGet e em with
  | none => simp [hg] at h
  | some L => simp [hg] at h; exact ⟨(e, L), assocGet_mem e L em hg, h⟩

theorem live_oldList (em : List (Nat × List Lc)) (n e : Nat) (hm : MapInv em n) (lc : Lc) (h : Live em lc)
    (he : lc.ecu = e) : lc ∈ oldList em e := by
  obtain ⟨p, hp, hlc⟩ := h
  have hk := hm.ecuKey p hp lc hlc
  obtain ⟨a, L⟩ := p
  simp only at hk hlc
  have : a = e := by rw [← hk, he]
  subst this
  unfold oldList
  rw [mem_assocGet a L em hm.keysNodup hp]; simpa using hlc

theorem live_setEcu (em : List (Nat × List Lc)) (n e : Nat) (hm : MapInv em n) (lcs' : List Lc) (lc : Lc) :
    Live (assocSet e lcs' em) lc ↔ lc ∈ lcs' ∨ (Live em lc ∧ lc.ecu ≠ e) := by
  unfold Live
  constructor
  · rintro ⟨p, hp, hlc⟩
    rw [mem_assocSet e lcs' em hm.keysNodup] at hp
    rcases hp with h | ⟨h, hne⟩
    · subst h; exact Or.inl hlc
    · right
      refine ⟨⟨p, h, hlc⟩, ?_⟩
      rw [hm.ecuKey p h lc hlc]; exact hne
  · rintro (h | ⟨⟨p, hp, hlc⟩, hne⟩)
    · exact ⟨(e, lcs'), (mem_assocSet e lcs' em hm.keysNodup _).mpr (Or.inl rfl), h⟩
    · refine ⟨p, (mem_assocSet e lcs' em hm.keysNodup _).mpr (Or.inr ⟨hp, ?_⟩), hlc⟩
      rw [← hm.ecuKey p hp lc hlc]; exact hne

/-- The per-ECU list of `e` is replaced by `lcs'`; ids are kept or fresh. -/
theorem mapInv_replace (em : List (Nat × List Lc)) (n n' e : Nat) (hm : MapInv em n) (lcs' : List Lc)
    (hn : n ≤ n')
    (hecu : ∀ lc ∈ lcs', lc.ecu = e)
    (hid : ∀ lc ∈ lcs', lc.id < n')
    (hnodup : (lcs'.map (·.id)).Nodup)
    (hfrom : ∀ lc ∈ lcs', (∃ a0 ∈ oldList em e, a0.id = lc.id) ∨ n ≤ lc.id) :
    MapInv (assocSet e lcs' em) n' := by
  have hlive := live_setEcu em n e hm lcs'
  refine ⟨keys_assocSet_nodup e lcs' em hm.keysNodup, ?_, ?_, ?_, ?_⟩
  · intro p hp lc hlc
    rw [mem_assocSet e lcs' em hm.keysNodup] at hp
    rcases hp with h | ⟨h, _⟩
    · subst h; exact hecu lc hlc
    · exact hm.ecuKey p h lc hlc
  · intro lc hl
    rcases (hlive lc).mp hl with h | ⟨h, _⟩
    · exact hid lc h
    · exact Nat.lt_of_lt_of_le (hm.fresh lc h) hn
  · -- same id → same ecu
    have key : ∀ a b, a ∈ lcs' → Live em b → b.ecu ≠ e → a.id ≠ b.id := by
      intro a b ha hb hne heq
      rcases hfrom a ha with ⟨a0, ha0, hid0⟩ | hge
      · have := hm.uniq a0 b (oldList_live em e a0 ha0) hb (hid0.trans heq)
        have hk : a0.ecu = e := by
          obtain ⟨p, hp, hlc⟩ := oldList_live em e a0 ha0
          unfold oldList at ha0
          cases hg : assocGet e em with
          | none => simp [hg] at ha0
          | some L =>
            simp [hg] at ha0
            exact hm.ecuKey (e, L) (assocGet_mem e L em hg) a0 ha0
        exact hne (this ▸ hk)
      · have := hm.fresh b hb
        omega
    intro a b ha hb heq
    rcases (hlive a).mp ha with ha | ⟨ha, hae⟩ <;> rcases (hlive b).mp hb with hb | ⟨hb, hbe⟩
    · rw [hecu a ha, hecu b hb]
    · exact absurd heq (key a b ha hb hbe)
    · exact absurd heq.symm (key b a hb ha hae)
    · exact hm.uniq a b ha hb heq
  · intro p hp
    rw [mem_assocSet e lcs' em hm.keysNodup] at hp
    rcases hp with h | ⟨h, _⟩
    · subst h; exact hnodup
    · exact hm.idsNodup p h

theorem oldList_ecu (em : List (Nat × List Lc)) (n e : Nat) (hm : MapInv em n) (a0 : Lc) (h : a0 ∈ oldList em e) :
    a0.ecu = e := by
  unfold oldList at h
  cases hg : assocGet e em with
  | none => simp [hg] at h
  | some L => simp [hg] at h; exact hm.ecuKey (e, L) (assocGet_mem e L em hg) a0 h

theorem linv_replace' (s s' : St) (hi : LInv s) (e : Nat) (lcs' : List Lc)
    (hem : s'.ecuMap = assocSet e lcs' s.ecuMap)
    (hn : s.nextId ≤ s'.nextId)
    (hpubl : ∀ lc, Live s'.ecuMap lc → ∀ e', PubOk s.published lc.id e' → PubOk s'.published lc.id e')
    (hpend : s'.pending = s.pending) (hout : s'.out = s.out)
    (hecu : ∀ lc ∈ lcs', lc.ecu = e)
    (hid : ∀ lc ∈ lcs', lc.id < s'.nextId)
    (hnodup : (lcs'.map (·.id)).Nodup)
    (hfrom : ∀ lc ∈ lcs', (∃ a0 ∈ oldList s.ecuMap e, a0.id = lc.id) ∨ s.nextId ≤ lc.id)
    (hmsgs : ∀ m ∈ s'.bufMsgs, MsgOk s'.ecuMap m)
    (hpub : ∀ lc ∈ lcs', lc.id ∉ s'.bufLcs → PubOk s.published lc.id e)
    (hbuf : ∀ i ∈ s.bufLcs, i ∈ s'.bufLcs ∨ ∃ a0 ∈ oldList s.ecuMap e, a0.id = i) :
    LInv s' := by
  have hm' := mapInv_replace s.ecuMap s.nextId s'.nextId e hi.map lcs' hn hecu hid hnodup hfrom
  refine { map := by rw [hem]; exact hm', msgs := hmsgs, pub := ?_, pend := by rw [hpend]; exact hi.pend,
           vis := by rw [hout]; exact hi.vis }
  intro lc hl hnb
  apply hpubl lc hl
  rw [hem] at hl
  rcases (live_setEcu s.ecuMap s.nextId e hi.map lcs' lc).mp hl with h | ⟨h, hne⟩
  · rw [hecu lc h]; exact hpub lc h hnb
  · apply hi.pub lc h
    intro hmem
    rcases hbuf lc.id hmem with h2 | ⟨a0, ha0, hid0⟩
    · exact hnb h2
    · have := hi.map.uniq a0 lc (oldList_live _ e a0 ha0) h hid0
      exact hne (this ▸ oldList_ecu _ _ e hi.map a0 ha0)

theorem linv_replace (s s' : St) (hi : LInv s) (e : Nat) (lcs' : List Lc)
    (hem : s'.ecuMap = assocSet e lcs' s.ecuMap)
    (hn : s.nextId ≤ s'.nextId)
    (hpubl : s'.published = s.published) (hpend : s'.pending = s.pending) (hout : s'.out = s.out)
    (hecu : ∀ lc ∈ lcs', lc.ecu = e)
    (hid : ∀ lc ∈ lcs', lc.id < s'.nextId)
    (hnodup : (lcs'.map (·.id)).Nodup)
    (hfrom : ∀ lc ∈ lcs', (∃ a0 ∈ oldList s.ecuMap e, a0.id = lc.id) ∨ s.nextId ≤ lc.id)
    (hmsgs : ∀ m ∈ s'.bufMsgs, MsgOk s'.ecuMap m)
    (hpub : ∀ lc ∈ lcs', lc.id ∉ s'.bufLcs → PubOk s.published lc.id e)
    (hbuf : ∀ i ∈ s.bufLcs, i ∈ s'.bufLcs ∨ ∃ a0 ∈ oldList s.ecuMap e, a0.id = i) :
    LInv s' :=
  linv_replace' s s' hi e lcs' hem hn (fun _ _ _ h => by rw [hpubl]; exact h) hpend hout hecu hid hnodup hfrom hmsgs hpub hbuf

theorem assocGet_assocErase {α} (k k' : Nat) (l : List (Nat × α)) :
    assocGet k' (assocErase k l) = if k' = k then none else assocGet k' l := by
  induction l with
  | nil => simp [assocErase, assocGet]
  | cons p t ih =>
    obtain ⟨a, b⟩ := p
    simp only [assocErase]
    by_cases hak : a = k
    · subst hak
      simp only [beq_self_eq_true, if_true, ih, assocGet]
      by_cases h : k' = a
      · simp [h]
      · have : (a == k') = false := by simp; exact fun x => h x.symm
        simp [h, this]
    · have h1 : (a == k) = false := by simp [hak]
      simp only [h1, Bool.false_eq_true, if_false, assocGet, ih]
      by_cases h : k' = k
      · subst h
        have : (a == k') = false := by simp [hak]
        simp [this]
      · simp [h]

theorem msgOk_replace (em : List (Nat × List Lc)) (n e : Nat) (hm : MapInv em n) (lcs' : List Lc)
    (hecu : ∀ lc ∈ lcs', lc.ecu = e)
    (hkeep : ∀ a0 ∈ oldList em e, ∃ a ∈ lcs', a.id = a0.id)
    (m : Msg) (h : MsgOk em m) : MsgOk (assocSet e lcs' em) m := by
  obtain ⟨lc, hl, hid, hecu'⟩ := h
  by_cases he : lc.ecu = e
  · obtain ⟨a, ha, haid⟩ := hkeep lc (live_oldList em n e hm lc hl he)
    exact ⟨a, (live_setEcu em n e hm lcs' a).mpr (Or.inl ha), haid.trans hid, (hecu a ha).trans (he.symm.trans hecu')⟩
  · exact ⟨lc, (live_setEcu em n e hm lcs' lc).mpr (Or.inr ⟨hl, he⟩), hid, hecu'⟩

/-! ### facts about new / update / merge -/

theorem new_facts (id : Nat) (m : Msg) :
    (Lc.new id m).1.id = id ∧ (Lc.new id m).1.ecu = m.ecu ∧ (Lc.new id m).2.lc = id ∧ (Lc.new id m).2.ecu = m.ecu := by
  simp [Lc.new]

theorem apply_facts (l : Lc) (id : Nat) (m : Msg) (u : Upd) :
    (l.apply id m u).1.id = l.id ∧ (l.apply id m u).1.ecu = l.ecu ∧ (l.apply id m u).2.1.ecu = m.ecu
    ∧ (match (l.apply id m u).2.2 with
       | none => (l.apply id m u).2.1.lc = l.id
       | some nl => (l.apply id m u).2.1.lc = id ∧ nl.id = id ∧ nl.ecu = m.ecu ∧ (l.apply id m u).1 = l) := by
  cases u with
  | ctrl => simp [Lc.apply]
  | ignoreTs => simp [Lc.apply]
  | belongs => simp [Lc.apply, Lc.absorb]
  | fresh r =>
    simp only [Lc.apply]
    cases r <;> simp [Lc.new]

theorem merge_facts (l o : Lc) : (l.merge o).id = l.id ∧ (l.merge o).ecu = l.ecu := by
  unfold Lc.merge
  simp only []
  repeat' split
  all_goals exact ⟨rfl, rfl⟩

/-! ### assign: the per-ECU list keeps its ids (last element updated, optionally a fresh lifecycle appended) -/

theorem oldList_nodup (s : St) (hi : LInv s) (e : Nat) : ((oldList s.ecuMap e).map (·.id)).Nodup := by
  unfold oldList
  cases hg : assocGet e s.ecuMap with
  | none => simp
  | some L => simpa using hi.map.idsNodup (e, L) (assocGet_mem e L _ hg)

theorem assign_keep_inv (s s' : St) (hi : LInv s) (e : Nat) (pre : List Lc) (last r1 : Lc) (extra : Option Lc)
    (hold : oldList s.ecuMap e = pre ++ [last])
    (hr1 : r1.id = last.id ∧ r1.ecu = last.ecu)
    (hextra : ∀ nl, extra = some nl → nl.id = s.nextId ∧ nl.ecu = e)
    (hem : s'.ecuMap = assocSet e (pre ++ [r1] ++ extra.toList) s.ecuMap)
    (hn : s'.nextId = s.nextId + extra.toList.length)
    (hbl : s'.bufLcs = s.bufLcs ++ extra.toList.map (·.id))
    (hbm : s'.bufMsgs = s.bufMsgs)
    (hpubl : s'.published = s.published) (hpend : s'.pending = s.pending) (hout : s'.out = s.out) :
    LInv s' ∧ (∀ m, MsgOk s.ecuMap m → MsgOk s'.ecuMap m) ∧ (∀ lc ∈ pre ++ [r1] ++ extra.toList, Live s'.ecuMap lc) := by
  have hm := hi.map
  have hLecu : ∀ a ∈ oldList s.ecuMap e, a.ecu = e := fun a ha => oldList_ecu _ _ e hm a ha
  have hlast_mem : last ∈ oldList s.ecuMap e := by rw [hold]; simp
  have hlast_ecu : last.ecu = e := hLecu last hlast_mem
  have hnd := oldList_nodup s hi e
  rw [hold] at hnd
  have hfresh_old : ∀ a ∈ oldList s.ecuMap e, a.id < s.nextId := fun a ha => hm.fresh a (oldList_live _ e a ha)
  -- ecu of all new elements
  have hecu : ∀ lc ∈ pre ++ [r1] ++ extra.toList, lc.ecu = e := by
    intro lc hlc
    simp only [List.mem_append, List.mem_singleton, Option.mem_toList] at hlc
    rcases hlc with (h | h) | h
    · exact hLecu lc (by rw [hold]; simp [h])
    · subst h; rw [hr1.2]; exact hlast_ecu
    · exact (hextra lc h).2
  have hkeepid : ∀ a0 ∈ oldList s.ecuMap e, ∃ a ∈ pre ++ [r1] ++ extra.toList, a.id = a0.id := by
    intro a0 ha0
    rw [hold] at ha0
    simp only [List.mem_append, List.mem_singleton] at ha0
    rcases ha0 with h | h
    · exact ⟨a0, by simp [h], rfl⟩
    · subst h; exact ⟨r1, by simp, hr1.1⟩
  have hmsgok : ∀ m, MsgOk s.ecuMap m → MsgOk s'.ecuMap m := by
    intro m h; rw [hem]; exact msgOk_replace _ _ e hm _ hecu hkeepid m h
  have hlive' : ∀ lc ∈ pre ++ [r1] ++ extra.toList, Live s'.ecuMap lc := by
    intro lc hlc; rw [hem]; exact (live_setEcu _ _ e hm _ lc).mpr (Or.inl hlc)
  refine ⟨?_, hmsgok, hlive'⟩
  apply linv_replace s s' hi e (pre ++ [r1] ++ extra.toList) hem (by omega) hpubl hpend hout hecu
  · -- ids below nextId'
    intro lc hlc
    simp only [List.mem_append, List.mem_singleton, Option.mem_toList] at hlc
    rcases hlc with (h | h) | h
    · have := hfresh_old lc (by rw [hold]; simp [h]); omega
    · subst h; rw [hr1.1]; have := hfresh_old last hlast_mem; omega
    · have := (hextra lc h).1
      cases extra with
      | none => simp at h
      | some nl => simp at h hn; subst h; omega
  · -- nodup ids
    have hids : (pre ++ [r1] ++ extra.toList).map (·.id) = (pre ++ [last]).map (·.id) ++ extra.toList.map (·.id) := by
      simp [hr1.1]
    rw [hids]
    cases extra with
    | none => simpa using hnd
    | some nl =>
      simp only [Option.toList_some, List.map_cons, List.map_nil]
      rw [List.nodup_append]
      refine ⟨hnd, by simp, ?_⟩
      intro a ha b hb
      simp only [List.mem_singleton] at hb
      subst hb
      simp only [List.mem_map] at ha
      obtain ⟨x, hx, hxa⟩ := ha
      have := hfresh_old x (by rw [hold]; exact hx)
      have := (hextra nl rfl).1
      omega
  · -- from old or fresh
    intro lc hlc
    simp only [List.mem_append, List.mem_singleton, Option.mem_toList] at hlc
    rcases hlc with (h | h) | h
    · exact Or.inl ⟨lc, by rw [hold]; simp [h], rfl⟩
    · subst h; exact Or.inl ⟨last, hlast_mem, hr1.1.symm⟩
    · exact Or.inr (by rw [(hextra lc h).1]; exact Nat.le_refl _)
  · intro m hmm; rw [hbm] at hmm; exact hmsgok m (hi.msgs m hmm)
  · -- published for non-buffered new elements
    intro lc hlc hnb
    rw [hbl] at hnb
    simp only [List.mem_append, not_or] at hnb
    simp only [List.mem_append, List.mem_singleton, Option.mem_toList] at hlc
    rcases hlc with (h | h) | h
    · have hl : lc ∈ oldList s.ecuMap e := by rw [hold]; simp [h]
      have := hi.pub lc (oldList_live _ e lc hl) hnb.1
      rwa [hLecu lc hl] at this
    · subst h
      have := hi.pub last (oldList_live _ e last hlast_mem) (by rw [← hr1.1]; exact hnb.1)
      rw [hlast_ecu] at this; rwa [hr1.1]
    · exfalso; apply hnb.2
      simp only [List.mem_map, Option.mem_toList]
      exact ⟨lc, h, rfl⟩
  · intro i hi'; left; rw [hbl]; simp [hi']

theorem mem_relabel (a b : Nat) (ms : List Msg) (m : Msg) (h : m ∈ relabel a b ms) :
    ∃ m0 ∈ ms, m = (if m0.lc == a then { m0 with lc := b } else m0) := by
  unfold relabel at h
  simp only [List.mem_map] at h
  obtain ⟨m0, h0, h1⟩ := h
  exact ⟨m0, h0, h1.symm⟩

theorem assign_merge_inv (s s4 : St) (hi : LInv s) (e : Nat) (pre : List Lc) (prev last prev' : Lc)
    (hold : oldList s.ecuMap e = pre ++ [prev, last])
    (hp' : prev'.id = prev.id ∧ prev'.ecu = prev.ecu)
    (hem : s4.ecuMap = assocSet e (pre ++ [prev']) s.ecuMap)
    (hn : s4.nextId = s.nextId)
    (hbl : s4.bufLcs = s.bufLcs.erase last.id)
    (hbm : s4.bufMsgs = relabel last.id prev.id s.bufMsgs)
    (hpubl : s4.published = s.published ∨ s4.published = assocErase last.id s.published)
    (hpend : s4.pending = s.pending) (hout : s4.out = s.out) :
    LInv s4 ∧ Live s4.ecuMap prev' ∧ prev'.ecu = e := by
  have hm := hi.map
  have hLecu : ∀ a ∈ oldList s.ecuMap e, a.ecu = e := fun a ha => oldList_ecu _ _ e hm a ha
  have hprev_mem : prev ∈ oldList s.ecuMap e := by rw [hold]; simp
  have hlast_mem : last ∈ oldList s.ecuMap e := by rw [hold]; simp
  have hnd := oldList_nodup s hi e
  rw [hold] at hnd
  have hfresh_old : ∀ a ∈ oldList s.ecuMap e, a.id < s.nextId := fun a ha => hm.fresh a (oldList_live _ e a ha)
  -- ids of the kept elements differ from last.id
  have hne_last : ∀ a ∈ pre ++ [prev], a.id ≠ last.id := by
    intro a ha heq
    have : (pre ++ [prev, last]).map (·.id) = (pre ++ [prev]).map (·.id) ++ [last.id] := by simp
    rw [this, List.nodup_append] at hnd
    exact hnd.2.2 a.id (List.mem_map.mpr ⟨a, ha, rfl⟩) last.id (by simp) heq
  have hecu : ∀ lc ∈ pre ++ [prev'], lc.ecu = e := by
    intro lc hlc
    simp only [List.mem_append, List.mem_singleton] at hlc
    rcases hlc with h | h
    · exact hLecu lc (by rw [hold]; simp [h])
    · subst h; rw [hp'.2]; exact hLecu prev hprev_mem
  have hlive_prev' : Live s4.ecuMap prev' := by
    rw [hem]; exact (live_setEcu _ _ e hm _ prev').mpr (Or.inl (by simp))
  refine ⟨?_, hlive_prev', hecu prev' (by simp)⟩
  have hlive_ne : ∀ lc, Live s4.ecuMap lc → lc.id ≠ last.id := by
    intro lc hl heq
    rw [hem] at hl
    rcases (live_setEcu s.ecuMap s.nextId e hm (pre ++ [prev']) lc).mp hl with h | ⟨h, hne⟩
    · simp only [List.mem_append, List.mem_singleton] at h
      rcases h with h | h
      · exact hne_last lc (by simp [h]) heq
      · subst h; exact hne_last prev (by simp) (hp'.1.symm.trans heq)
    · have := hm.uniq lc last h (oldList_live _ e last hlast_mem) heq
      exact hne (this.trans (hLecu last hlast_mem))
  have hpubl' : ∀ lc, Live s4.ecuMap lc → ∀ e', PubOk s.published lc.id e' → PubOk s4.published lc.id e' := by
    intro lc hl e' hp
    rcases hpubl with h | h
    · rw [h]; exact hp
    · obtain ⟨l, hl1, hl2⟩ := hp
      refine ⟨l, ?_, hl2⟩
      rw [h, assocGet_assocErase, if_neg (hlive_ne lc hl)]; exact hl1
  apply linv_replace' s s4 hi e (pre ++ [prev']) hem (by omega) hpubl' hpend hout hecu
  · intro lc hlc
    simp only [List.mem_append, List.mem_singleton] at hlc
    rcases hlc with h | h
    · have := hfresh_old lc (by rw [hold]; simp [h]); omega
    · subst h; rw [hp'.1]; have := hfresh_old prev hprev_mem; omega
  · have hids : (pre ++ [prev']).map (·.id) = (pre ++ [prev]).map (·.id) := by simp [hp'.1]
    rw [hids]
    have : (pre ++ [prev, last]).map (·.id) = (pre ++ [prev]).map (·.id) ++ [last.id] := by simp
    rw [this, List.nodup_append] at hnd
    exact hnd.1
  · intro lc hlc
    simp only [List.mem_append, List.mem_singleton] at hlc
    rcases hlc with h | h
    · exact Or.inl ⟨lc, by rw [hold]; simp [h], rfl⟩
    · subst h; exact Or.inl ⟨prev, hprev_mem, hp'.1.symm⟩
  · -- queued messages, relabelled
    intro m hmm
    rw [hbm] at hmm
    obtain ⟨m0, hm0, hmeq⟩ := mem_relabel _ _ _ _ hmm
    have hok0 := hi.msgs m0 hm0
    rw [hem]
    by_cases hc : m0.lc = last.id
    · -- relabelled to prev.id
      have : (m0.lc == last.id) = true := by simp [hc]
      rw [this] at hmeq; simp only [if_true] at hmeq
      obtain ⟨lc, hl, hid, hecu0⟩ := hok0
      have hecu_m0 : m0.ecu = e := by
        rw [← hecu0]
        have := hm.uniq lc last hl (oldList_live _ e last hlast_mem) (hid.trans hc)
        rw [this]; exact hLecu last hlast_mem
      refine ⟨prev', (live_setEcu _ _ e hm _ prev').mpr (Or.inl (by simp)), ?_, ?_⟩
      · rw [hmeq]; exact hp'.1
      · rw [hmeq]; show prev'.ecu = m0.ecu; rw [hecu_m0]; exact hecu prev' (by simp)
    · have : (m0.lc == last.id) = false := by simp [hc]
      rw [this] at hmeq; simp only [Bool.false_eq_true, if_false] at hmeq
      rw [hmeq]
      obtain ⟨lc, hl, hid, hecu0⟩ := hok0
      by_cases he : lc.ecu = e
      · have hlcL := live_oldList _ _ e hm lc hl he
        rw [hold] at hlcL
        simp only [List.mem_append, List.mem_cons, List.mem_singleton, List.not_mem_nil, or_false] at hlcL
        rcases hlcL with h | h | h
        · exact ⟨lc, (live_setEcu _ _ e hm _ lc).mpr (Or.inl (by simp [h])), hid, hecu0⟩
        · subst h
          exact ⟨prev', (live_setEcu _ _ e hm _ prev').mpr (Or.inl (by simp)), hp'.1.trans hid, hp'.2.trans hecu0⟩
        · subst h; exact absurd hid.symm hc
      · exact ⟨lc, (live_setEcu _ _ e hm _ lc).mpr (Or.inr ⟨hl, he⟩), hid, hecu0⟩
  · -- published
    intro lc hlc hnb
    rw [hbl] at hnb
    simp only [List.mem_append, List.mem_singleton] at hlc
    have hgen : ∀ a0 ∈ pre ++ [prev], a0.id ∉ s.bufLcs.erase last.id → PubOk s.published a0.id e := by
      intro a0 ha0 hnb0
      have hl : a0 ∈ oldList s.ecuMap e := by
        rw [hold]; simp only [List.mem_append, List.mem_singleton] at ha0 ⊢
        rcases ha0 with h | h
        · exact Or.inl h
        · exact Or.inr (by simp [h])
      have hnb1 : a0.id ∉ s.bufLcs := fun hmem => hnb0 ((List.mem_erase_of_ne (hne_last a0 ha0)).mpr hmem)
      have := hi.pub a0 (oldList_live _ e a0 hl) hnb1
      rwa [hLecu a0 hl] at this
    rcases hlc with h | h
    · exact hgen lc (by simp [h]) hnb
    · subst h; rw [hp'.1] at hnb ⊢; exact hgen prev (by simp) hnb
  · intro i hi'
    by_cases hc : i = last.id
    · right; exact ⟨last, hlast_mem, hc.symm⟩
    · left; rw [hbl]; exact (List.mem_erase_of_ne hc).mpr hi'

/-! ### glue: the actual model functions -/

theorem flushAll_go_ecuMap (l : List Msg) (s : St) (last : Nat) : (St.flushAll.go s last l).ecuMap = s.ecuMap := by
  induction l generalizing s last with
  | nil => rfl
  | cons m t ih =>
    simp only [St.flushAll.go]
    rw [ih]
    split <;> simp

theorem flushIfDrained_inv (s : St) (hi : LInv s) : LInv s.flushIfDrained ∧ s.flushIfDrained.ecuMap = s.ecuMap := by
  unfold St.flushIfDrained
  split
  · rename_i hc
    have hb : s.bufLcs = [] := by
      simp only [Bool.and_eq_true, List.isEmpty_iff] at hc; exact hc.1
    exact ⟨flushAll_inv s hi hb, by unfold St.flushAll; exact flushAll_go_ecuMap _ _ _⟩
  · exact ⟨hi, rfl⟩

theorem unpublishIfConfirmed_facts (x : St) (i : Nat) (hp : x.pending = []) :
    (x.unpublishIfConfirmed i).bufLcs = x.bufLcs ∧ (x.unpublishIfConfirmed i).bufMsgs = x.bufMsgs
      ∧ (x.unpublishIfConfirmed i).ecuMap = x.ecuMap ∧ (x.unpublishIfConfirmed i).nextId = x.nextId
      ∧ ((x.unpublishIfConfirmed i).published = x.published ∨ (x.unpublishIfConfirmed i).published = assocErase i x.published)
      ∧ (x.unpublishIfConfirmed i).pending = x.pending
      ∧ (x.unpublishIfConfirmed i).out = x.out := by
  unfold St.unpublishIfConfirmed; split
  · exact ⟨rfl, rfl, rfl, rfl, Or.inl rfl, rfl, rfl⟩
  · refine ⟨rfl, rfl, rfl, rfl, Or.inr ?_, ?_, rfl⟩
    · simp [St.refresh, hp]
    · simp [St.refresh, hp]

theorem mergeTail_inv (s : St) (hi : LInv s) (e : Nat) (pre : List Lc) (prev last prev' : Lc)
    (hold : oldList s.ecuMap e = pre ++ [prev, last])
    (hp' : prev'.id = prev.id ∧ prev'.ecu = prev.ecu) :
    LInv (s.mergeTail last.id prev.id e (pre ++ [prev']))
    ∧ Live (s.mergeTail last.id prev.id e (pre ++ [prev'])).ecuMap prev' ∧ prev'.ecu = e := by
  unfold St.mergeTail
  simp only []
  generalize hs4 : setEcu { (St.unpublishIfConfirmed { s with bufMsgs := relabel last.id prev.id s.bufMsgs } last.id) with
      bufLcs := (St.unpublishIfConfirmed { s with bufMsgs := relabel last.id prev.id s.bufMsgs } last.id).bufLcs.erase last.id }
      e (pre ++ [prev']) = s4
  obtain ⟨a1, a2, a3, a4, a5, a6, a7⟩ :=
    unpublishIfConfirmed_facts { s with bufMsgs := relabel last.id prev.id s.bufMsgs } last.id hi.pend
  have h := assign_merge_inv s s4 hi e pre prev last prev' hold hp'
    (by subst hs4; simp only [setEcu]; rw [a3])
    (by subst hs4; simp only [setEcu]; rw [a4])
    (by subst hs4; simp only [setEcu]; rw [a1])
    (by subst hs4; simp only [setEcu]; rw [a2])
    (by subst hs4; simp only [setEcu]; exact a5)
    (by subst hs4; simp only [setEcu]; rw [a6])
    (by subst hs4; simp only [setEcu]; rw [a7])
  obtain ⟨f1, f2⟩ := flushIfDrained_inv s4 h.1
  exact ⟨f1, by rw [f2]; exact h.2.1, h.2.2⟩

theorem setEcu_keep (s : St) (hi : LInv s) (e : Nat) (pre : List Lc) (last r1 : Lc) (extra : Option Lc)
    (s0 : St) (hs0 : s0.ecuMap = s.ecuMap ∧ s0.bufMsgs = s.bufMsgs ∧ s0.published = s.published
      ∧ s0.pending = s.pending ∧ s0.out = s.out)
    (hn : s0.nextId = s.nextId + extra.toList.length)
    (hbl : s0.bufLcs = s.bufLcs ++ extra.toList.map (·.id))
    (hold : oldList s.ecuMap e = pre ++ [last])
    (hr1 : r1.id = last.id ∧ r1.ecu = last.ecu)
    (hextra : ∀ nl, extra = some nl → nl.id = s.nextId ∧ nl.ecu = e) :
    LInv (setEcu s0 e (pre ++ [r1] ++ extra.toList))
    ∧ (∀ lc ∈ pre ++ [r1] ++ extra.toList, Live (setEcu s0 e (pre ++ [r1] ++ extra.toList)).ecuMap lc) := by
  obtain ⟨h1, h2, h3, h4, h5⟩ := hs0
  have := assign_keep_inv s (setEcu s0 e (pre ++ [r1] ++ extra.toList)) hi e pre last r1 extra hold hr1 hextra
    (by simp only [setEcu]; rw [h1]) (by simp only [setEcu]; exact hn) (by simp only [setEcu]; exact hbl)
    (by simp only [setEcu]; exact h2) (by simp only [setEcu]; exact h3) (by simp only [setEcu]; exact h4)
    (by simp only [setEcu]; exact h5)
  exact ⟨this.1, this.2.2⟩

theorem maybeMerge_inv (s : St) (hi : LInv s) (m' : Msg) (lc2 prev last : Lc) (rest2Rev : List Lc)
    (hold : oldList s.ecuMap m'.ecu = rest2Rev.reverse ++ [prev, last])
    (hlc2 : lc2.id = last.id ∧ lc2.ecu = last.ecu)
    (hm' : m'.lc = last.id) :
    LInv (s.maybeMerge m' lc2 prev rest2Rev).1
    ∧ MsgOk (s.maybeMerge m' lc2 prev rest2Rev).1.ecuMap (s.maybeMerge m' lc2 prev rest2Rev).2 := by
  have hlast_ecu : last.ecu = m'.ecu := oldList_ecu _ _ _ hi.map last (by rw [hold]; simp)
  have hprev_ecu : prev.ecu = m'.ecu := oldList_ecu _ _ _ hi.map prev (by rw [hold]; simp)
  have hmf := merge_facts prev lc2
  have hrev : (prev.merge lc2 :: rest2Rev).reverse = rest2Rev.reverse ++ [prev.merge lc2] := by simp
  have keep : LInv (setEcu s m'.ecu ((lc2 :: prev :: rest2Rev).reverse))
      ∧ MsgOk (setEcu s m'.ecu ((lc2 :: prev :: rest2Rev).reverse)).ecuMap m' := by
    have hrev2 : (lc2 :: prev :: rest2Rev).reverse = (rest2Rev.reverse ++ [prev]) ++ [lc2] ++ (none : Option Lc).toList := by simp
    rw [hrev2]
    have hold2 : oldList s.ecuMap m'.ecu = (rest2Rev.reverse ++ [prev]) ++ [last] := by rw [hold]; simp
    obtain ⟨k1, k2⟩ := setEcu_keep s hi m'.ecu (rest2Rev.reverse ++ [prev]) last lc2 none s
      ⟨rfl, rfl, rfl, rfl, rfl⟩ (by simp) (by simp) hold2 hlc2 (by intro nl h; cases h)
    exact ⟨k1, lc2, k2 lc2 (by simp), hlc2.1.trans hm'.symm, hlc2.2.trans hlast_ecu⟩
  unfold St.maybeMerge
  split
  · split
    · rw [hrev, hlc2.1]
      obtain ⟨g1, g2, g3⟩ := mergeTail_inv s hi m'.ecu rest2Rev.reverse prev last (prev.merge lc2) hold hmf
      exact ⟨g1, prev.merge lc2, g2, hmf.1, g3⟩
    · split
      · rw [hrev, hlc2.1]
        obtain ⟨g1, g2, g3⟩ := mergeTail_inv s hi m'.ecu rest2Rev.reverse prev last (prev.merge lc2) hold hmf
        exact ⟨g1, prev.merge lc2, g2, hmf.1, g3⟩
      · exact keep
  · exact keep

theorem assignExisting_inv (s : St) (hi : LInv s) (m : Msg) (last : Lc) (restRev : List Lc)
    (hold : oldList s.ecuMap m.ecu = restRev.reverse ++ [last]) :
    LInv (s.assignExisting m last restRev).1
    ∧ MsgOk (s.assignExisting m last restRev).1.ecuMap (s.assignExisting m last restRev).2 := by
  have hlast_ecu : last.ecu = m.ecu := oldList_ecu _ _ _ hi.map last (by rw [hold]; simp)
  unfold St.assignExisting
  simp only []
  obtain ⟨f1, f2, f3, f4⟩ := apply_facts last s.nextId m (last.classify m)
  have hupd : last.update s.nextId m = last.apply s.nextId m (last.classify m) := rfl
  rw [← hupd] at f1 f2 f3 f4
  split
  · -- fresh lifecycle
    rename_i nl hnl
    rw [hnl] at f4
    simp only at f4
    obtain ⟨g1, g2, g3, g4⟩ := f4
    have hrev : (nl :: (last.update s.nextId m).1 :: restRev).reverse
        = restRev.reverse ++ [(last.update s.nextId m).1] ++ (some nl).toList := by simp
    rw [hrev]
    obtain ⟨k1, k2⟩ := setEcu_keep s hi m.ecu restRev.reverse last (last.update s.nextId m).1 (some nl)
      { s with nextId := s.nextId + 1, bufLcs := s.bufLcs ++ [nl.id] }
      ⟨rfl, rfl, rfl, rfl, rfl⟩ (by simp) (by simp) hold ⟨f1, f2⟩
      (by intro x hx; cases hx; exact ⟨g2, g3⟩)
    exact ⟨k1, nl, k2 nl (by simp), g2.trans g1.symm, g3.trans f3.symm⟩
  · rename_i hnone
    rw [hnone] at f4
    simp only at f4
    split
    · -- single lifecycle, updated
      have hrev : [(last.update s.nextId m).1] = ([] : List Lc) ++ [(last.update s.nextId m).1] ++ (none : Option Lc).toList := by simp
      rw [hrev]
      obtain ⟨k1, k2⟩ := setEcu_keep s hi m.ecu [] last (last.update s.nextId m).1 none s
        ⟨rfl, rfl, rfl, rfl, rfl⟩ (by simp) (by simp) (by simpa using hold) ⟨f1, f2⟩ (by intro nl h; cases h)
      exact ⟨k1, (last.update s.nextId m).1, k2 _ (by simp), f1.trans f4.symm, f2.trans (hlast_ecu.trans f3.symm)⟩
    · rename_i prev rest2Rev
      have hold2 : oldList s.ecuMap (last.update s.nextId m).2.1.ecu = rest2Rev.reverse ++ [prev, last] := by
        rw [f3, hold]; simp
      exact maybeMerge_inv s hi (last.update s.nextId m).2.1 (last.update s.nextId m).1 prev last rest2Rev hold2 ⟨f1, f2⟩ f4

theorem assignNew_inv (s : St) (hi : LInv s) (m : Msg) (hold : oldList s.ecuMap m.ecu = []) :
    LInv (s.assignNew m).1 ∧ MsgOk (s.assignNew m).1.ecuMap (s.assignNew m).2 := by
  unfold St.assignNew
  simp only []
  obtain ⟨n1, n2, n3, n4⟩ := new_facts s.nextId m
  generalize hs' : setEcu { s with nextId := s.nextId + 1, bufLcs := s.bufLcs ++ [(Lc.new s.nextId m).1.id] } m.ecu [(Lc.new s.nextId m).1] = s'
  have hem : s'.ecuMap = assocSet m.ecu [(Lc.new s.nextId m).1] s.ecuMap := by subst hs'; rfl
  have hlive : Live s'.ecuMap (Lc.new s.nextId m).1 := by
    rw [hem]; exact (live_setEcu _ _ m.ecu hi.map _ _).mpr (Or.inl (by simp))
  refine ⟨?_, (Lc.new s.nextId m).1, hlive, n1.trans n3.symm, n2.trans n4.symm⟩
  apply linv_replace s s' hi m.ecu [(Lc.new s.nextId m).1] hem (by subst hs'; simp [setEcu])
    (by subst hs'; rfl) (by subst hs'; rfl) (by subst hs'; rfl)
  · intro lc hlc; simp only [List.mem_singleton] at hlc; subst hlc; exact n2
  · intro lc hlc; simp only [List.mem_singleton] at hlc; subst hlc; subst hs'; simp [setEcu, n1]
  · simp
  · intro lc hlc; simp only [List.mem_singleton] at hlc; subst hlc; right; rw [n1]; exact Nat.le_refl _
  · intro m0 hm0
    have : s'.bufMsgs = s.bufMsgs := by subst hs'; rfl
    rw [this] at hm0
    rw [hem]
    apply msgOk_replace _ _ m.ecu hi.map _ (by intro lc hlc; simp only [List.mem_singleton] at hlc; subst hlc; exact n2)
      (by intro a0 ha0; rw [hold] at ha0; cases ha0) m0 (hi.msgs m0 hm0)
  · intro lc hlc hnb
    exfalso; apply hnb
    simp only [List.mem_singleton] at hlc; subst hlc; subst hs'; simp [setEcu]
  · intro i hi'; left; subst hs'; simp [setEcu, hi']

theorem assign_inv (s : St) (hi : LInv s) (m : Msg) :
    LInv (s.assign m).1 ∧ MsgOk (s.assign m).1.ecuMap (s.assign m).2 := by
  unfold St.assign
  split
  · rename_i h
    apply assignNew_inv s hi m
    unfold oldList
    simpa using h
  · rename_i last restRev h
    apply assignExisting_inv s hi m last restRev
    unfold oldList
    have := congrArg List.reverse h
    simpa using this

theorem deliver_inv (s : St) (hi : LInv s) (m : Msg) (hm : MsgOk s.ecuMap m) : LInv (s.deliver m) := by
  unfold St.deliver
  split
  · exact { map := hi.map, pub := hi.pub, pend := hi.pend, vis := hi.vis
            msgs := by
              intro m' hm'
              simp only [List.mem_append, List.mem_singleton] at hm'
              rcases hm' with h | h
              · exact hi.msgs m' h
              · subst h; exact hm }
  · rename_i hb
    have hb' : s.bufLcs = [] := by simpa using hb
    have hp : PubOk (s.mark m.lc).published m.lc m.ecu := by
      simpa using pubOk_of_msg s hi m hm (by rw [hb']; simp)
    exact emit_inv _ m (mark_inv s _ hi) hp

theorem step_inv (s : St) (hi : LInv s) (m : Msg) : LInv (s.step m) := by
  unfold St.step
  split
  · exact hi
  · simp only []
    obtain ⟨a1, a2⟩ := assign_inv s hi m
    split
    · exact a1
    · obtain ⟨c1, c2, _⟩ := confirm_inv (s.assign m).1 (s.assign m).2 a1
      exact deliver_inv _ c1 _ (by rw [c2]; exact a2)

theorem steps_inv (ms : List Msg) (s : St) (hi : LInv s) : LInv (ms.foldl St.step s) := by
  induction ms generalizing s with
  | nil => exact hi
  | cons m t ih => exact ih _ (step_inv s hi m)

theorem init_inv : LInv ({} : St) :=
  { map := ⟨by simp [keys], by simp, by intro lc ⟨p, hp, _⟩; simp at hp, by intro a b ⟨p, hp, _⟩; simp at hp, by simp⟩
    msgs := by simp, pub := by intro lc ⟨p, hp, _⟩; simp at hp, pend := rfl, vis := by simp }

/-! ### finish -/

def pubEntries (B : List Nat) (lcs : List Lc) : List (Nat × Lc) :=
  (lcs.filter (fun lc => B.contains lc.id)).map (fun lc => (lc.id, lc))

structure SameButPending (a b : St) : Prop where
  ecuMap : b.ecuMap = a.ecuMap
  nextId : b.nextId = a.nextId
  bufLcs : b.bufLcs = a.bufLcs
  bufMsgs : b.bufMsgs = a.bufMsgs
  published : b.published = a.published
  out : b.out = a.out

theorem publishBuf_inner (lcs : List Lc) (s : St) :
    SameButPending s (lcs.foldl (St.publishIf (fun s lc => s.bufLcs.contains lc.id)) s)
    ∧ (lcs.foldl (St.publishIf (fun s lc => s.bufLcs.contains lc.id)) s).pending = s.pending ++ pubEntries s.bufLcs lcs := by
  induction lcs generalizing s with
  | nil => exact ⟨⟨rfl, rfl, rfl, rfl, rfl, rfl⟩, by simp [pubEntries]⟩
  | cons a t ih =>
    simp only [List.foldl_cons]
    obtain ⟨f, p⟩ := ih (St.publishIf (fun s lc => s.bufLcs.contains lc.id) s a)
    have hs : SameButPending s (St.publishIf (fun s lc => s.bufLcs.contains lc.id) s a)
        ∧ (St.publishIf (fun s lc => s.bufLcs.contains lc.id) s a).pending = s.pending ++ pubEntries s.bufLcs [a] := by
      unfold St.publishIf
      split
      · rename_i h
        refine ⟨⟨rfl, rfl, rfl, rfl, rfl, rfl⟩, ?_⟩
        have h' : a.id ∈ s.bufLcs := by simpa using h
        simp [St.publish, pubEntries, h']
      · rename_i h
        refine ⟨⟨rfl, rfl, rfl, rfl, rfl, rfl⟩, ?_⟩
        have h' : a.id ∉ s.bufLcs := by simpa using h
        simp [pubEntries, h']
    obtain ⟨f0, p0⟩ := hs
    refine ⟨⟨f.ecuMap.trans f0.ecuMap, f.nextId.trans f0.nextId, f.bufLcs.trans f0.bufLcs, f.bufMsgs.trans f0.bufMsgs,
      f.published.trans f0.published, f.out.trans f0.out⟩, ?_⟩
    rw [p, p0, f0.bufLcs]
    simp [pubEntries, List.filter_cons]
    split <;> simp

def pubAll (B : List Nat) (em : List (Nat × List Lc)) : List (Nat × Lc) :=
  em.flatMap (fun p => pubEntries B p.2.reverse)

theorem publishBuf_outer (ps : List (Nat × List Lc)) (s : St) :
    SameButPending s (ps.foldl (St.publishLcs (fun s lc => s.bufLcs.contains lc.id)) s)
    ∧ (ps.foldl (St.publishLcs (fun s lc => s.bufLcs.contains lc.id)) s).pending = s.pending ++ pubAll s.bufLcs ps := by
  induction ps generalizing s with
  | nil => exact ⟨⟨rfl, rfl, rfl, rfl, rfl, rfl⟩, by simp [pubAll]⟩
  | cons p t ih =>
    simp only [List.foldl_cons]
    obtain ⟨f0, p0⟩ := publishBuf_inner p.2.reverse s
    obtain ⟨f, q⟩ := ih (St.publishLcs (fun s lc => s.bufLcs.contains lc.id) s p)
    unfold St.publishLcs at f q ⊢
    refine ⟨⟨f.ecuMap.trans f0.ecuMap, f.nextId.trans f0.nextId, f.bufLcs.trans f0.bufLcs, f.bufMsgs.trans f0.bufMsgs,
      f.published.trans f0.published, f.out.trans f0.out⟩, ?_⟩
    rw [q, p0, f0.bufLcs]
    simp [pubAll]

/-- after applying pending entries that are all live lifecycles keyed by their id -/
theorem refresh_pubOk (em : List (Nat × List Lc)) (n : Nat) (hm : MapInv em n)
    (pend : List (Nat × Lc)) (hp : ∀ kv ∈ pend, kv.1 = kv.2.id ∧ Live em kv.2)
    (pub : List (Nat × Lc)) (lc0 : Lc) (hl0 : Live em lc0)
    (h : PubOk pub lc0.id lc0.ecu ∨ ∃ kv ∈ pend, kv.1 = lc0.id) :
    PubOk (pend.foldl (fun acc (kv : Nat × Lc) => assocSet kv.1 kv.2 acc) pub) lc0.id lc0.ecu := by
  induction pend generalizing pub with
  | nil =>
    rcases h with h | ⟨kv, hkv, _⟩
    · exact h
    · cases hkv
  | cons kv t ih =>
    simp only [List.foldl_cons]
    obtain ⟨hk, hlv⟩ := hp kv (by simp)
    apply ih (fun x hx => hp x (by simp [hx]))
    by_cases hid : kv.1 = lc0.id
    · left
      unfold PubOk; rw [assocGet_assocSet]; simp only [hid, if_true]
      exact ⟨kv.2, rfl, hm.uniq kv.2 lc0 hlv hl0 (hk.symm.trans hid)⟩
    · rcases h with h | ⟨kv', hkv', hid'⟩
      · left
        obtain ⟨l, hl, he⟩ := h
        unfold PubOk; rw [assocGet_assocSet]
        have : ¬ lc0.id = kv.1 := fun x => hid x.symm
        simp only [this, if_false]; exact ⟨l, hl, he⟩
      · simp only [List.mem_cons] at hkv'
        rcases hkv' with h2 | h2
        · subst h2; exact absurd hid' hid
        · exact Or.inr ⟨kv', h2, hid'⟩

theorem mem_pubAll (B : List Nat) (em : List (Nat × List Lc)) (kv : Nat × Lc) :
    kv ∈ pubAll B em ↔ kv.1 = kv.2.id ∧ Live em kv.2 ∧ kv.2.id ∈ B := by
  unfold pubAll pubEntries Live
  simp only [List.mem_flatMap, List.mem_map, List.mem_filter, List.mem_reverse]
  constructor
  · rintro ⟨p, hp, lc, ⟨hlc, hb⟩, rfl⟩
    exact ⟨rfl, ⟨p, hp, hlc⟩, by simpa using hb⟩
  · rintro ⟨h1, ⟨p, hp, hlc⟩, hb⟩
    refine ⟨p, hp, kv.2, ⟨hlc, by simpa using hb⟩, ?_⟩
    obtain ⟨a, b⟩ := kv; simp only at h1; subst h1; rfl

theorem flushOne_fold_vis (l : List Msg) (x : St) (hv : ∀ o ∈ x.out, o.visible = true)
    (hp : ∀ m ∈ l, PubOk x.published m.lc m.ecu) :
    ∀ o ∈ (l.foldl St.flushOne x).out, o.visible = true := by
  induction l generalizing x with
  | nil => exact hv
  | cons m t ih =>
    simp only [List.foldl_cons]
    apply ih
    · unfold St.flushOne
      apply emit_vis
      · simpa using hp m (by simp)
      · simpa using hv
    · intro m' hm'
      unfold St.flushOne
      simpa using hp m' (by simp [hm'])

theorem publishWhere_out (P : St → Lc → Bool) (s : St) : (s.publishWhere P).out = s.out :=
  (publishWhere_qsame P s).out

theorem finish_vis (s : St) (hi : LInv s) : ∀ o ∈ s.finish.out, o.visible = true := by
  unfold St.finish
  split
  · exact hi.vis
  · simp only []
    obtain ⟨f, p⟩ := publishBuf_outer s.ecuMap s
    have hpw : s.publishWhere (fun s lc => s.bufLcs.contains lc.id) = s.ecuMap.foldl (St.publishLcs (fun s lc => s.bufLcs.contains lc.id)) s := rfl
    rw [← hpw] at f p
    generalize hs1 : (s.publishWhere fun s lc => s.bufLcs.contains lc.id).refresh = s1
    have hout1 : s1.out = s.out := by subst hs1; exact f.out
    have hbm1 : s1.bufMsgs = s.bufMsgs := by subst hs1; exact f.bufMsgs
    have hpub1 : ∀ m ∈ s.bufMsgs, PubOk s1.published m.lc m.ecu := by
      intro m hm
      obtain ⟨lc, hl, hid, hecu⟩ := hi.msgs m hm
      subst hs1
      show PubOk ((s.publishWhere _).pending.foldl _ (s.publishWhere _).published) m.lc m.ecu
      rw [p, f.published, hi.pend, List.nil_append, ← hid, ← hecu]
      have hfun : (fun (acc : List (Nat × Lc)) (x : Nat × Lc) => match x with | (k, v) => assocSet k v acc)
          = (fun acc (kv : Nat × Lc) => assocSet kv.1 kv.2 acc) := by funext acc x; cases x; rfl
      rw [hfun]
      apply refresh_pubOk s.ecuMap s.nextId hi.map _ _ _ lc hl
      · by_cases hb : lc.id ∈ s.bufLcs
        · exact Or.inr ⟨(lc.id, lc), (mem_pubAll _ _ _).mpr ⟨rfl, hl, hb⟩, rfl⟩
        · exact Or.inl (hi.pub lc hl hb)
      · intro kv hkv
        obtain ⟨h1, h2, _⟩ := (mem_pubAll _ _ _).mp hkv
        exact ⟨h1, h2⟩
    -- the flush
    have hv2 : ∀ o ∈ (s1.bufMsgs.foldl St.flushOne s1).out, o.visible = true := by
      apply flushOne_fold_vis
      · rw [hout1]; exact hi.vis
      · rw [hbm1]; exact hpub1
    intro o ho
    apply hv2 o
    have ho' : o ∈ (St.publishWhere (fun s lc => s.toRefresh.contains lc.id)
        ({ s1.bufMsgs.foldl St.flushOne s1 with bufMsgs := [] } : St)).out := ho
    rw [publishWhere_out] at ho'
    exact ho'

/-- C06 (prototype): every delivered message's lifecycle is, at the moment of delivery, already
    visible in the published table with the message's ECU — for every message stream. -/
theorem C06_published_first (ms : List Msg) : ∀ o ∈ (run ms).out, o.visible = true := by
  unfold run
  exact finish_vis _ (steps_inv ms {} init_inv)

#print axioms C06_published_first
end Lcm
