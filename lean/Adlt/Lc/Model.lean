import Adlt.Gen.Consts
/-! Model of `Lifecycle::new/update/merge` and `parse_lifecycles_buffered_from_stream` (src/lifecycle/mod.rs). -/
namespace Lcm

structure Msg where
  index : Nat
  recv : Nat
  ecu : Nat
  tsDms : Nat
  hasTs : Bool
  ctrlReq : Bool
  lc : Nat := 0
deriving Repr, DecidableEq

structure Resume where
  id : Nat
  maxTs : Nat
  start : Nat
  /-- `resume_start_time()` of the resumed lifecycle when the resume was detected (it does not change afterwards) -/
  eff : Nat
deriving Repr, DecidableEq

structure Lc where
  id : Nat
  ecu : Nat
  nrMsgs : Nat
  nrCtrl : Nat
  start : Nat
  initStart : Nat
  minTs : Nat
  maxTs : Nat
  lastRecv : Nat
  resume : Option Resume
deriving Repr, DecidableEq

def usPerSec : Nat := Gen.usPerSec
def maxDelay : Nat := Gen.lcMaxBufferingDelayUs
def u64Max : Nat := 18446744073709551615

def Msg.tsUs (m : Msg) : Nat := m.tsDms * 100

/-- `Lifecycle::resume_start_time`: the key of the listing that `adlt remote` sends - never before the (key of the) lifecycle
    it resumes -/
def Lc.resumeStart (l : Lc) : Nat :=
  match l.resume with
  | some r => if l.start ≤ r.eff then r.eff + 1 else l.start
  | none => l.start

def Lc.endTime (l : Lc) : Nat := if l.maxTs == 0 then l.lastRecv else l.start + l.maxTs

def Lc.slightlyOverlapping (l : Lc) (other : Nat) : Bool :=
  let e := l.endTime
  other ≤ e && other + usPerSec * Gen.lcSlightOverlapSecs > e && e > l.start + usPerSec * Gen.lcMinLenForOverlapSecs

def Lc.new (id : Nat) (m : Msg) : Lc × Msg :=
  let ts := if m.ctrlReq then 0 else (if m.tsUs > m.recv then 0 else m.tsUs)
  ({ id := id, ecu := m.ecu, nrMsgs := 1, nrCtrl := if m.ctrlReq then 1 else 0,
     start := m.recv - ts, initStart := m.recv - ts, minTs := ts, maxTs := ts,
     lastRecv := m.recv, resume := none }, { m with lc := id })

inductive Upd where
  | ctrl | ignoreTs | belongs | fresh (isResume : Bool)
deriving Repr, DecidableEq

/-- the comparison chain of `Lifecycle::update` -/
def Lc.classify (l : Lc) (m : Msg) : Upd :=
  if m.ctrlReq then .ctrl else
  let ts := m.tsUs
  let recv := m.recv
  let lcStart := recv - ts
  let curEnd := l.endTime
  let slight := l.slightlyOverlapping lcStart
  let isPart := (!slight && lcStart ≤ curEnd) || !m.hasTs
  let wouldMove := if lcStart < l.start then l.start - lcStart else 0
  if isPart && wouldMove > maxDelay && l.maxTs > 0 then .ignoreTs else
  let isResume := recv ≥ l.lastRecv + usPerSec * Gen.lcMinResumeGapSecs && ts ≥ l.maxTs
    && lcStart ≥ l.start + usPerSec * Gen.lcMinResumeGapSecs
    && (recv - l.lastRecv) + usPerSec * Gen.lcMaxDelayOnResumeSecs > lcStart - l.start
  if !isResume && isPart then .belongs else .fresh isResume

def Lc.absorb (l : Lc) (m : Msg) : Lc :=
  let ts := m.tsUs
  let lcStart := m.recv - ts
  let minTs' := if l.minTs > ts then
      (match l.resume with
       | some r => if ts > r.maxTs then ts else l.minTs
       | none => ts) else l.minTs
  let mr : Nat × Option Resume := if l.maxTs < ts then (ts, l.resume) else
      (match l.resume with
       | some r => if ts < r.maxTs - r.maxTs / 8 then (l.maxTs, none) else (l.maxTs, l.resume)
       | none => (l.maxTs, l.resume))
  let start' := if lcStart < l.start then lcStart else l.start
  { l with minTs := minTs', maxTs := mr.1, resume := mr.2, lastRecv := m.recv,
           start := start', nrMsgs := l.nrMsgs + 1 }

/-- returns updated lc, updated msg, optional new lc -/
def Lc.apply (l : Lc) (nextId : Nat) (m : Msg) : Upd → Lc × Msg × Option Lc
  | .ctrl => ({ l with nrMsgs := l.nrMsgs + 1, nrCtrl := l.nrCtrl + 1 }, { m with lc := l.id }, none)
  | .ignoreTs => ({ l with nrMsgs := l.nrMsgs + 1 }, { m with lc := l.id }, none)
  | .belongs => (l.absorb m, { m with lc := l.id }, none)
  | .fresh isResume =>
    let nl := (Lc.new nextId m).1
    let nl := if isResume then { nl with resume := some { id := l.id, start := l.start, maxTs := l.maxTs, eff := l.resumeStart } } else nl
    (l, { m with lc := nextId }, some nl)

def Lc.update (l : Lc) (nextId : Nat) (m : Msg) : Lc × Msg × Option Lc := l.apply nextId m (l.classify m)

/-- merge `o` into `l` -/
def Lc.merge (l o : Lc) : Lc :=
  let l := { l with nrMsgs := l.nrMsgs + o.nrMsgs, nrCtrl := l.nrCtrl + o.nrCtrl }
  let l := if o.maxTs > l.maxTs then { l with maxTs := o.maxTs } else l
  let l := if o.minTs < l.minTs then { l with minTs := o.minTs } else l
  let l := if o.start < l.start then { l with start := o.start, initStart := o.initStart } else l
  if o.lastRecv > l.lastRecv then { l with lastRecv := o.lastRecv } else l

structure OutMsg where
  m : Msg
  visible : Bool
deriving Repr

structure St where
  nextId : Nat := 1
  ecuMap : List (Nat × List Lc) := []     -- insertion ordered
  bufMsgs : List Msg := []
  bufLcs : List Nat := []
  nextCheck : Nat := 0
  toRefresh : List Nat := []
  pending : List (Nat × Lc) := []
  published : List (Nat × Lc) := []
  out : List OutMsg := []                 -- reversed
  panicked : Bool := false
deriving Repr

def assocSet {α} (k : Nat) (v : α) : List (Nat × α) → List (Nat × α)
  | [] => [(k, v)]
  | (k', v') :: t => if k' == k then (k, v) :: t else (k', v') :: assocSet k v t

def assocGet {α} (k : Nat) : List (Nat × α) → Option α
  | [] => none
  | (k', v') :: t => if k' == k then some v' else assocGet k t

def St.emit (s : St) (m : Msg) : St :=
  let vis := match assocGet m.lc s.published with
    | some l => l.ecu == m.ecu
    | none => false
  { s with out := { m := m, visible := vis } :: s.out }

def St.mark (s : St) (id : Nat) : St :=
  if s.toRefresh.contains id then s else { s with toRefresh := s.toRefresh ++ [id] }

def St.refresh (s : St) : St :=
  { s with published := s.pending.foldl (fun acc (k, v) => assocSet k v acc) s.published, pending := [] }

def St.publish (s : St) (l : Lc) : St := { s with pending := s.pending ++ [(l.id, l)] }

/-- flush all buffered msgs (after merge path) -/
def St.flushAll (s : St) : St :=
  let rec go (s : St) (last : Nat) : List Msg → St
    | [] => { s with bufMsgs := [] }
    | m :: t =>
      let s := if m.lc != last then s.mark m.lc else s
      go (s.emit m) m.lc t
  go s 0 s.bufMsgs

/-- release loop after confirming lc `id` -/
def St.release (s : St) (id : Nat) : St :=
  let rec go (s : St) (prune : Nat) : List Msg → St
    | [] => { s with bufMsgs := [] }
    | m :: t =>
      if m.lc == prune then go (s.emit m) prune t
      else if !s.bufLcs.contains m.lc then go ((s.mark m.lc).emit m) m.lc t
      else { s with bufMsgs := m :: t }
  go s id s.bufMsgs

def St.confirmLc (s : St) (m : Msg) (minLcStart : Nat) (lc : Lc) : St :=
  if s.bufLcs.isEmpty then s
  else if !s.bufLcs.contains lc.id then s
  else if (lc.start < minLcStart && lc.ecu == m.ecu) || lc.maxTs - lc.minTs > maxDelay
          || m.recv - maxDelay > lc.endTime then
    let s := { s with bufLcs := s.bufLcs.erase lc.id }
    let s := (s.publish lc).refresh
    s.release lc.id
  else s

def St.confirm (s : St) (m : Msg) : St :=
  if s.nextCheck < m.recv then
    let s := if m.recv > m.tsUs + maxDelay then
        let minLcStart := m.recv - (m.tsUs + maxDelay)
        s.ecuMap.foldl (fun s (_, lcs) => lcs.reverse.foldl (fun s lc => s.confirmLc m minLcStart lc) s) s
      else s
    { s with nextCheck := m.recv + usPerSec }
  else s

def relabel (fromId toId : Nat) (ms : List Msg) : List Msg :=
  ms.map fun m => if m.lc == fromId then { m with lc := toId } else m

def setEcu (s : St) (ecu : Nat) (lcs : List Lc) : St := { s with ecuMap := assocSet ecu lcs s.ecuMap }

def St.flushIfDrained (s : St) : St :=
  if s.bufLcs.isEmpty && !s.bufMsgs.isEmpty then s.flushAll else s

def assocErase {α} (k : Nat) : List (Nat × α) → List (Nat × α)
  | [] => []
  | (k', v') :: t => if k' == k then assocErase k t else (k', v') :: assocErase k t

/-- `if !buffered_lcs.remove(&lc2.id) { lcs_w.empty(lc2.id); lcs_w.refresh() }`:
    a merged-away lifecycle that had already been confirmed is taken out of the published table -/
def St.unpublishIfConfirmed (s : St) (id : Nat) : St :=
  if s.bufLcs.contains id then s else { s.refresh with published := assocErase id s.refresh.published }

/-- shared tail of both merge paths: relabel queued msgs, un-publish lc2 if it was confirmed already,
    drop lc2 from bufLcs, store the per-ECU list, flush the queue when nothing is buffered any more -/
def St.mergeTail (s : St) (lc2Id prevId ecu : Nat) (lcs : List Lc) : St :=
  let s1 : St := { s with bufMsgs := relabel lc2Id prevId s.bufMsgs }
  let s2 := s1.unpublishIfConfirmed lc2Id
  let s3 : St := { s2 with bufLcs := s2.bufLcs.erase lc2Id }
  (setEcu s3 ecu lcs).flushIfDrained

/-- lc2 (already updated with m') may have to be merged into prev -/
def St.maybeMerge (s : St) (m' : Msg) (lc2 prev : Lc) (rest2Rev : List Lc) : St × Msg :=
  if lc2.start ≤ prev.endTime && lc2.resume.isNone && !prev.slightlyOverlapping lc2.start then
    if s.bufLcs.contains prev.id then
      (s.mergeTail lc2.id prev.id m'.ecu ((prev.merge lc2 :: rest2Rev).reverse), { m' with lc := prev.id })
    else if (s.bufMsgs.filter (fun x => x.lc == lc2.id)).length + 1 == lc2.nrMsgs then
      (s.mergeTail lc2.id prev.id m'.ecu ((prev.merge lc2 :: rest2Rev).reverse), { m' with lc := prev.id })
    else (setEcu s m'.ecu ((lc2 :: prev :: rest2Rev).reverse), m')
  else (setEcu s m'.ecu ((lc2 :: prev :: rest2Rev).reverse), m')

def St.assignExisting (s : St) (m : Msg) (last : Lc) (restRev : List Lc) : St × Msg :=
  let r := last.update s.nextId m
  match r.2.2 with
  | some nl =>
    (setEcu { s with nextId := s.nextId + 1, bufLcs := s.bufLcs ++ [nl.id] } m.ecu ((nl :: r.1 :: restRev).reverse), r.2.1)
  | none =>
    match restRev with
    | [] => (setEcu s m.ecu [r.1], r.2.1)
    | prev :: rest2Rev => s.maybeMerge r.2.1 r.1 prev rest2Rev

def St.assignNew (s : St) (m : Msg) : St × Msg :=
  let r := Lc.new s.nextId m
  (setEcu { s with nextId := s.nextId + 1, bufLcs := s.bufLcs ++ [r.1.id] } m.ecu [r.1], r.2)

def St.assign (s : St) (m : Msg) : St × Msg :=
  match ((assocGet m.ecu s.ecuMap).getD []).reverse with
  | [] => s.assignNew m
  | last :: restRev => s.assignExisting m last restRev

def St.deliver (s : St) (m : Msg) : St :=
  if !s.bufLcs.isEmpty then { s with bufMsgs := s.bufMsgs ++ [m] }
  else (s.mark m.lc).emit m   -- regular refresh (100k msgs) not modelled in prototype

def St.step (s : St) (m : Msg) : St :=
  if s.panicked then s else
  let a := s.assign m
  if a.1.panicked then a.1 else (a.1.confirm a.2).deliver a.2

def St.publishIf (P : St → Lc → Bool) (s : St) (lc : Lc) : St := if P s lc then s.publish lc else s
def St.publishLcs (P : St → Lc → Bool) (s : St) (p : Nat × List Lc) : St := p.2.reverse.foldl (St.publishIf P) s
def St.publishWhere (P : St → Lc → Bool) (s : St) : St := s.ecuMap.foldl (St.publishLcs P) s
def St.flushOne (s : St) (m : Msg) : St := (s.mark m.lc).emit m

def St.finish (s : St) : St :=
  if s.panicked then s else
  let s := (s.publishWhere (fun s lc => s.bufLcs.contains lc.id)).refresh
  let s := { s.bufMsgs.foldl St.flushOne s with bufMsgs := [] }
  let s := s.publishWhere (fun s lc => s.toRefresh.contains lc.id)
  { s.refresh with toRefresh := [] }

def run (ms : List Msg) : St := (ms.foldl St.step {}).finish
end Lcm
