import Adlt.Lc.Model
/-! Executable statements of C05/C06/C07(counts) over an *observation* of a lifecycle-detection run.
    The same predicates are (a) proved of `observe (run ms)` for every `ms` (Props) and
    (b) evaluated by the driver on what the Rust implementation was observed to do. -/
namespace Lcm

structure OutObs where
  m : Msg          -- delivered message with the lifecycle field erased
  lc : Nat         -- lifecycle id it carried
  vis : Bool       -- at delivery: the table readers see contained `lc` with the message's ECU
deriving Repr, DecidableEq

structure TblObs where
  id : Nat
  ecu : Nat
  n : Nat
  start : Nat
  endT : Nat
  resume : Bool
  key : Nat        -- `resume_start_time()`: the start time `adlt remote` sends and orders its listing by
deriving Repr, DecidableEq

structure Obs where
  out : List OutObs
  tbl : List TblObs
deriving Repr

def eraseLc (m : Msg) : Msg := { m with lc := 0 }

def observe (s : St) : Obs :=
  { out := s.out.reverse.map fun o => { m := eraseLc o.m, lc := o.m.lc, vis := o.visible },
    tbl := s.published.map fun (id, l) =>
      { id := id, ecu := l.ecu, n := l.nrMsgs, start := l.start, endT := l.endTime, resume := l.resume.isSome,
        key := l.resumeStart } }

namespace Spec

/-- C05: every message once, in order, unchanged but for the lifecycle; id non-zero and naming a
    lifecycle of the message's own ECU (looked up in the shared table when the message leaves). -/
def C05 (ms : List Msg) (o : Obs) : Bool :=
  o.out.map (·.m) == ms.map eraseLc && o.out.all (fun x => x.lc != 0 && x.vis)

def C05order (ms : List Msg) (o : Obs) : Bool := o.out.map (·.m) == ms.map eraseLc
def C05nonzero (o : Obs) : Bool := o.out.all (fun x => x.lc != 0)

/-- C06: the lifecycle of each delivered message was visible (with its ECU) at delivery. -/
def C06 (o : Obs) : Bool := o.out.all (·.vis)

def countLc (o : Obs) (id : Nat) : Nat := (o.out.filter (·.lc == id)).length

/-- C07 counts: ids listed once; every listed entry referenced, with exact count; every delivered id listed. -/
def C07listedOnce (o : Obs) : Bool := (o.tbl.map (·.id)).eraseDups.length == o.tbl.length
def C07referenced (o : Obs) : Bool := o.tbl.all fun t => countLc o t.id != 0
def C07exact (o : Obs) : Bool := o.tbl.all fun t => countLc o t.id == 0 || t.n == countLc o t.id
def C07covers (o : Obs) : Bool := o.out.all fun x => o.tbl.any (·.id == x.lc)
def C07ecu (o : Obs) : Bool := o.out.all fun x => o.tbl.all fun t => t.id != x.lc || t.ecu == x.m.ecu
def C07sum (o : Obs) : Bool := (o.tbl.map (·.n)).sum == o.out.length
def C07 (o : Obs) : Bool :=
  C07listedOnce o && C07referenced o && C07exact o && C07covers o && C07ecu o && C07sum o

end Spec
end Lcm
