import Adlt.Lc.Model
/-! The lifecycle detector model never reaches its `panicked` state: since the repair of the merge path
    (fix cf29dd5 in /repo) no operation of the model sets the flag, so `(run ms).panicked = false` for every stream. -/
namespace Lcm

theorem foldl_panicked {α} (f : St → α → St) (h : ∀ s x, (f s x).panicked = s.panicked) (l : List α) (s : St) :
    (l.foldl f s).panicked = s.panicked := by
  induction l generalizing s with
  | nil => rfl
  | cons x t ih => simp only [List.foldl_cons]; rw [ih, h]

@[simp] theorem emit_panicked (s : St) (m : Msg) : (s.emit m).panicked = s.panicked := rfl
@[simp] theorem mark_panicked (s : St) (id : Nat) : (s.mark id).panicked = s.panicked := by
  unfold St.mark; split <;> rfl
@[simp] theorem refresh_panicked (s : St) : s.refresh.panicked = s.panicked := rfl
@[simp] theorem publish_panicked (s : St) (l : Lc) : (s.publish l).panicked = s.panicked := rfl
@[simp] theorem setEcu_panicked (s : St) (e : Nat) (l : List Lc) : (setEcu s e l).panicked = s.panicked := rfl

theorem flushAll_go_panicked (l : List Msg) (s : St) (last : Nat) : (St.flushAll.go s last l).panicked = s.panicked := by
  induction l generalizing s last with
  | nil => rfl
  | cons m t ih =>
    simp only [St.flushAll.go]
    rw [ih]
    split <;> simp

@[simp] theorem flushAll_panicked (s : St) : s.flushAll.panicked = s.panicked := by
  unfold St.flushAll; exact flushAll_go_panicked _ _ _

theorem release_go_panicked (l : List Msg) (s : St) (p : Nat) : (St.release.go s p l).panicked = s.panicked := by
  induction l generalizing s p with
  | nil => rfl
  | cons m t ih =>
    simp only [St.release.go]
    split
    · rw [ih]; simp
    · split
      · rw [ih]; simp
      · rfl

@[simp] theorem release_panicked (s : St) (id : Nat) : (s.release id).panicked = s.panicked := by
  unfold St.release; exact release_go_panicked _ _ _

@[simp] theorem confirmLc_panicked (s : St) (m : Msg) (x : Nat) (lc : Lc) : (s.confirmLc m x lc).panicked = s.panicked := by
  unfold St.confirmLc
  split
  · rfl
  · split
    · rfl
    · split
      · simp
      · rfl

@[simp] theorem confirm_panicked (s : St) (m : Msg) : (s.confirm m).panicked = s.panicked := by
  unfold St.confirm
  split
  · split
    · exact Eq.trans rfl (foldl_panicked _ (fun s' p => foldl_panicked _ (fun s'' lc => confirmLc_panicked s'' m _ lc) _ s') _ s)
    · rfl
  · rfl

@[simp] theorem flushIfDrained_panicked (s : St) : s.flushIfDrained.panicked = s.panicked := by
  unfold St.flushIfDrained; split <;> simp

@[simp] theorem unpublishIfConfirmed_panicked (s : St) (id : Nat) : (s.unpublishIfConfirmed id).panicked = s.panicked := by
  unfold St.unpublishIfConfirmed; split <;> rfl

@[simp] theorem mergeTail_panicked (s : St) (a b e : Nat) (l : List Lc) : (s.mergeTail a b e l).panicked = s.panicked := by
  unfold St.mergeTail; simp

@[simp] theorem maybeMerge_panicked (s : St) (m : Msg) (a b : Lc) (r : List Lc) : (s.maybeMerge m a b r).1.panicked = s.panicked := by
  unfold St.maybeMerge
  split
  · split
    · simp
    · split <;> simp
  · simp

@[simp] theorem assignExisting_panicked (s : St) (m : Msg) (a : Lc) (r : List Lc) : (s.assignExisting m a r).1.panicked = s.panicked := by
  unfold St.assignExisting
  dsimp only
  split
  · simp
  · split <;> simp

@[simp] theorem assignNew_panicked (s : St) (m : Msg) : (s.assignNew m).1.panicked = s.panicked := by
  unfold St.assignNew; simp

@[simp] theorem assign_panicked (s : St) (m : Msg) : (s.assign m).1.panicked = s.panicked := by
  unfold St.assign; split <;> simp

@[simp] theorem deliver_panicked (s : St) (m : Msg) : (s.deliver m).panicked = s.panicked := by
  unfold St.deliver; split <;> simp

theorem step_panicked (s : St) (m : Msg) : (s.step m).panicked = s.panicked := by
  unfold St.step
  dsimp only
  split
  · rfl
  · split
    · simp
    · simp

@[simp] theorem publishWhere_panicked (P : St → Lc → Bool) (s : St) : (s.publishWhere P).panicked = s.panicked := by
  unfold St.publishWhere
  apply foldl_panicked
  intro s p
  unfold St.publishLcs
  apply foldl_panicked
  intro s lc
  unfold St.publishIf; split <;> simp

theorem finish_panicked (s : St) : s.finish.panicked = s.panicked := by
  unfold St.finish
  split
  · rfl
  · simp only [refresh_panicked, publishWhere_panicked]
    rw [foldl_panicked]
    · simp
    · intro s m; unfold St.flushOne; simp

/-- the model of `parse_lifecycles_buffered_from_stream` never stops at an internal assertion -/
theorem run_not_panicked (ms : List Msg) : (run ms).panicked = false := by
  unfold run
  rw [finish_panicked, foldl_panicked _ step_panicked]

end Lcm
