import Adlt.Lc.Fifo
import Adlt.Lc.Sum
/-! C08, whole trace (part B): the *labelled* first-in first-out sequence. `seqL s` = the messages delivered so far followed
    by the queued ones, with the lifecycle ids they carry. Confirmation, release, flush and delivery move messages from the
    queue to the output without touching them; only the merge path relabels. -/
namespace Lcm

def St.outL (s : St) : List Msg := (s.out.map (·.m)).reverse
def St.seqL (s : St) : List Msg := s.outL ++ s.bufMsgs

@[simp] theorem emit_outL (s : St) (m : Msg) : (s.emit m).outL = s.outL ++ [m] := by simp [St.outL, St.emit]
@[simp] theorem mark_outL (s : St) (i : Nat) : (s.mark i).outL = s.outL := by simp [St.outL]

theorem flushAll_go_L (s : St) (last : Nat) (l : List Msg) : (St.flushAll.go s last l).outL = s.outL ++ l := by
  induction l generalizing s last with
  | nil => simp [St.flushAll.go, St.outL]
  | cons m t ih =>
    simp only [St.flushAll.go]
    rw [ih]
    split <;> simp

theorem flushAll_L (s : St) : s.flushAll.seqL = s.seqL := by
  unfold St.flushAll St.seqL
  rw [flushAll_go_L, (flushAll_go s 0 s.bufMsgs).2.1]; simp

theorem release_go_L (s : St) (prune : Nat) (l : List Msg) :
    (St.release.go s prune l).outL ++ (St.release.go s prune l).bufMsgs = s.outL ++ l := by
  induction l generalizing s prune with
  | nil => simp [St.release.go, St.outL]
  | cons m t ih =>
    simp only [St.release.go]
    split
    · rw [ih]; simp
    · split
      · rw [ih]; simp
      · simp [St.outL]

theorem release_L (s : St) (id : Nat) : (s.release id).seqL = s.seqL := by
  unfold St.release St.seqL
  exact release_go_L s id s.bufMsgs

theorem confirmLc_L (s : St) (m : Msg) (x : Nat) (lc : Lc) : (s.confirmLc m x lc).seqL = s.seqL := by
  unfold St.confirmLc
  split
  · rfl
  · split
    · rfl
    · split
      · rw [release_L]; rfl
      · rfl

theorem foldl_L {α} (f : St → α → St) (hf : ∀ s a, (f s a).seqL = s.seqL) (l : List α) (s : St) : (l.foldl f s).seqL = s.seqL := by
  induction l generalizing s with
  | nil => rfl
  | cons a t ih => simp only [List.foldl_cons]; rw [ih, hf]

theorem confirm_L (s : St) (m : Msg) : (s.confirm m).seqL = s.seqL := by
  unfold St.confirm
  split
  · split
    · show (List.foldl _ s s.ecuMap).seqL = s.seqL
      apply foldl_L
      intro s' p
      apply foldl_L
      intro s'' lc
      exact confirmLc_L s'' m _ lc
    · rfl
  · rfl

theorem deliver_L (s : St) (m : Msg) (h : s.ok) : (s.deliver m).seqL = s.seqL ++ [m] := by
  unfold St.deliver
  split
  · simp [St.seqL, St.outL]
  · rename_i hb
    have he : s.bufLcs = [] := by simpa using hb
    have hm : s.bufMsgs = [] := h he
    simp [St.seqL, hm]

theorem flushOne_fold_L (l : List Msg) (x : St) : (l.foldl St.flushOne x).outL = x.outL ++ l := by
  induction l generalizing x with
  | nil => simp
  | cons m t ih => simp only [List.foldl_cons]; rw [ih]; simp [St.flushOne]

theorem finish_L (s : St) (hs : s.panicked = false) : s.finish.outL = s.seqL := by
  unfold St.finish
  simp only [hs, Bool.false_eq_true, if_false]
  generalize h1 : (s.publishWhere fun s lc => s.bufLcs.contains lc.id).refresh = s1
  have q1 : s1.out = s.out ∧ s1.bufMsgs = s.bufMsgs := by
    subst h1
    have := publishWhere_qsame (fun s lc => s.bufLcs.contains lc.id) s
    exact ⟨this.out, this.buf⟩
  generalize h2 : ({ s1.bufMsgs.foldl St.flushOne s1 with bufMsgs := [] } : St) = s2
  have q2 : s2.outL = s.seqL := by
    subst h2
    show (s1.bufMsgs.foldl St.flushOne s1).outL = s.seqL
    rw [flushOne_fold_L, q1.2]
    simp [St.seqL, St.outL, q1.1]
  have q3 := publishWhere_qsame (fun s lc => s.toRefresh.contains lc.id) s2
  show (s2.publishWhere _).outL = s.seqL
  simp only [St.outL, q3.out]
  exact q2

end Lcm
