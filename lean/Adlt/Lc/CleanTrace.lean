import Adlt.Lc.Boots
import Adlt.Lc.Labels
import Adlt.Lc.NoPanic
/-! C08, whole trace (part C): a clean trace inside the claimed region, from the first message to the end of the stream. -/
namespace Lcm

theorem inv8_of_ecuMap (s s' : St) (G : Nat → List Rec) (h : s'.ecuMap = s.ecuMap) (hI : Inv8 s G) : Inv8 s' G :=
  ⟨by rw [h]; exact hI.sig, by rw [h]; exact hI.zero, hI.chain⟩

theorem foldl_ecuMap {α} (f : St → α → St) (hf : ∀ s a, (f s a).ecuMap = s.ecuMap) (l : List α) (s : St) :
    (l.foldl f s).ecuMap = s.ecuMap := by
  induction l generalizing s with
  | nil => rfl
  | cons a t ih => simp only [List.foldl_cons]; rw [ih, hf]

theorem confirm_ecuMap (s : St) (m : Msg) : (s.confirm m).ecuMap = s.ecuMap := by
  unfold St.confirm
  split
  · split
    · show (List.foldl _ s s.ecuMap).ecuMap = s.ecuMap
      apply foldl_ecuMap
      intro s' p
      apply foldl_ecuMap
      intro s'' lc
      exact (confirmLc_frame s'' m _ lc).1
    · rfl
  · rfl

/-- one step of the detector on a message that fits -/
theorem step8 (s : St) (G : Nat → List Rec) (m : Msg) (b : Nat) (hI : Inv8 s G) (hF : Fits G m b) (hp : s.panicked = false)
    (hok : s.ok) :
    Inv8 (s.step m) (addTo G m b s.nextId) ∧
    (s.step m).seqL = s.seqL ++ [{ m with lc := headId (addTo G m b s.nextId) m.ecu }] ∧ (s.step m).ok ∧ (s.step m).panicked = false := by
  obtain ⟨a1, a2, a3⟩ := assign8 s G m b hI hF
  have hpa : (s.assign m).1.panicked = false := by rw [a3.panicked]; exact hp
  have hstep : s.step m = ((s.assign m).1.confirm (s.assign m).2).deliver (s.assign m).2 := by
    unfold St.step
    simp only [hp, hpa, Bool.false_eq_true, if_false]
  have aok := (assign_spec s m).2.2 hok
  have cok := (confirm_pres (s.assign m).1 (s.assign m).2).ok aok
  rw [hstep]
  refine ⟨?_, ?_, (deliver_spec _ _ cok).2, ?_⟩
  · apply inv8_of_ecuMap (s.assign m).1 _ _ _ a1
    rw [deliver_ecuMap, confirm_ecuMap]
  · rw [deliver_L _ _ cok, confirm_L, a2]
    have : (s.assign m).1.seqL = s.seqL := by unfold St.seqL St.outL; rw [a3.out, a3.bufMsgs]
    rw [this]
  · rw [← hstep, step_panicked]; exact hp

/-! ### along the stream -/

def FitsAll : St → (Nat → List Rec) → List (Msg × Nat) → Prop
  | _, _, [] => True
  | s, G, (m, b) :: t => Fits G m b ∧ FitsAll (s.step m) (addTo G m b s.nextId) t

def finalG : St → (Nat → List Rec) → List (Msg × Nat) → (Nat → List Rec)
  | _, G, [] => G
  | s, G, (m, b) :: t => finalG (s.step m) (addTo G m b s.nextId) t

def labels8 : St → (Nat → List Rec) → List (Msg × Nat) → List Msg
  | _, _, [] => []
  | s, G, (m, b) :: t => { m with lc := headId (addTo G m b s.nextId) m.ecu } :: labels8 (s.step m) (addTo G m b s.nextId) t

theorem steps8 (mbs : List (Msg × Nat)) : ∀ (s : St) (G : Nat → List Rec), Inv8 s G → FitsAll s G mbs → s.panicked = false → s.ok →
    Inv8 ((mbs.map (·.1)).foldl St.step s) (finalG s G mbs) ∧
    ((mbs.map (·.1)).foldl St.step s).seqL = s.seqL ++ labels8 s G mbs ∧ ((mbs.map (·.1)).foldl St.step s).panicked = false := by
  induction mbs with
  | nil => intro s G hI _ hp _; exact ⟨hI, by simp [labels8], hp⟩
  | cons x t ih =>
    intro s G hI hF hp hok
    obtain ⟨m, b⟩ := x
    obtain ⟨hF1, hF2⟩ := hF
    obtain ⟨s1, s2, s3, s4⟩ := step8 s G m b hI hF1 hp hok
    obtain ⟨r1, r2, r3⟩ := ih (s.step m) _ s1 hF2 s4 s3
    refine ⟨r1, ?_, r3⟩
    show (List.foldl St.step (s.step m) (t.map (·.1))).seqL = _
    rw [r2, s2]
    simp [labels8]

/-! ### the labels name the record of the boot -/

def HasRec (G : Nat → List Rec) (e b id : Nat) : Prop := ∃ r ∈ G e, r.boot = b ∧ r.id = id

def BootsDesc (G : Nat → List Rec) : Prop := ∀ e, (G e).Pairwise (fun a b => a.boot > b.boot)

theorem addTo_other (G : Nat → List Rec) (m : Msg) (b nid e : Nat) (he : e ≠ m.ecu) : addTo G m b nid e = G e := by
  unfold addTo; rw [if_neg he]

theorem addTo_own_nil (G : Nat → List Rec) (m : Msg) (b nid : Nat) (hg : G m.ecu = []) :
    addTo G m b nid m.ecu = [{ boot := b, id := nid, start := calcStart m, maxTs := m.tsUs, n := 1 }] := by
  unfold addTo; rw [if_pos rfl, hg]

theorem addTo_own_same (G : Nat → List Rec) (m : Msg) (b nid : Nat) (R : Rec) (T : List Rec) (hg : G m.ecu = R :: T) (hb : b = R.boot) :
    addTo G m b nid m.ecu = { R with maxTs := max R.maxTs m.tsUs, n := R.n + 1 } :: T := by
  unfold addTo; rw [if_pos rfl, hg]; simp only []; rw [if_pos hb]

theorem addTo_own_next (G : Nat → List Rec) (m : Msg) (b nid : Nat) (R : Rec) (T : List Rec) (hg : G m.ecu = R :: T) (hb : ¬ b = R.boot) :
    addTo G m b nid m.ecu = { boot := b, id := nid, start := calcStart m, maxTs := m.tsUs, n := 1 } :: R :: T := by
  unfold addTo; rw [if_pos rfl, hg]; simp only []; rw [if_neg hb]

theorem addTo_hasRec (G : Nat → List Rec) (m : Msg) (b nid : Nat) (e b0 id : Nat) (h : HasRec G e b0 id) :
    HasRec (addTo G m b nid) e b0 id := by
  obtain ⟨r, hr, hb, hi⟩ := h
  unfold HasRec
  by_cases he : e = m.ecu
  · subst he
    cases hg : G m.ecu with
    | nil => rw [hg] at hr; cases hr
    | cons R T =>
      rw [hg] at hr
      by_cases hbb : b = R.boot
      · rw [addTo_own_same G m b nid R T hg hbb]
        rcases List.mem_cons.mp hr with rfl | hr
        · exact ⟨_, List.mem_cons_self, hb, hi⟩
        · exact ⟨r, List.mem_cons_of_mem _ hr, hb, hi⟩
      · rw [addTo_own_next G m b nid R T hg hbb]
        exact ⟨r, List.mem_cons_of_mem _ hr, hb, hi⟩
  · rw [addTo_other G m b nid e he]; exact ⟨r, hr, hb, hi⟩

theorem addTo_head (G : Nat → List Rec) (m : Msg) (b nid : Nat) :
    HasRec (addTo G m b nid) m.ecu b (headId (addTo G m b nid) m.ecu) := by
  unfold headId HasRec
  cases hg : G m.ecu with
  | nil => rw [addTo_own_nil G m b nid hg]; exact ⟨_, List.mem_cons_self, rfl, rfl⟩
  | cons R T =>
    by_cases hbb : b = R.boot
    · rw [addTo_own_same G m b nid R T hg hbb]; exact ⟨_, List.mem_cons_self, hbb.symm, rfl⟩
    · rw [addTo_own_next G m b nid R T hg hbb]; exact ⟨_, List.mem_cons_self, rfl, rfl⟩

theorem addTo_bootsDesc (G : Nat → List Rec) (m : Msg) (b nid : Nat) (hF : Fits G m b) (h : BootsDesc G) : BootsDesc (addTo G m b nid) := by
  intro e
  by_cases he : e = m.ecu
  · subst he
    have hme := h m.ecu
    obtain ⟨_, _, _, hfit⟩ := hF
    cases hg : G m.ecu with
    | nil => rw [addTo_own_nil G m b nid hg]; simp
    | cons R T =>
      rw [hg] at hme hfit
      rw [List.pairwise_cons] at hme
      by_cases hbb : b = R.boot
      · rw [addTo_own_same G m b nid R T hg hbb, List.pairwise_cons]; exact hme
      · rw [addTo_own_next G m b nid R T hg hbb, List.pairwise_cons, List.pairwise_cons]
        rcases hfit with ⟨h1, _⟩ | ⟨h1, _⟩
        · exact absurd h1 hbb
        · refine ⟨?_, hme⟩
          intro x hx
          simp only []
          rcases List.mem_cons.mp hx with rfl | hx
          · omega
          · have := hme.1 x hx; omega
  · rw [addTo_other G m b nid e he]; exact h e

theorem finalG_hasRec (mbs : List (Msg × Nat)) : ∀ (s : St) (G : Nat → List Rec) (e b id : Nat), HasRec G e b id →
    HasRec (finalG s G mbs) e b id := by
  induction mbs with
  | nil => intro s G e b id h; exact h
  | cons x t ih =>
    intro s G e b id h
    obtain ⟨m, b1⟩ := x
    exact ih _ _ e b id (addTo_hasRec G m b1 s.nextId e b id h)

theorem finalG_bootsDesc (mbs : List (Msg × Nat)) : ∀ (s : St) (G : Nat → List Rec), FitsAll s G mbs → BootsDesc G →
    BootsDesc (finalG s G mbs) := by
  induction mbs with
  | nil => intro s G _ h; exact h
  | cons x t ih =>
    intro s G hF h
    obtain ⟨m, b⟩ := x
    exact ih _ _ hF.2 (addTo_bootsDesc G m b s.nextId hF.1 h)

/-- every label is the message itself with the id of the record of its boot in the final ground truth -/
theorem labels8_spec (mbs : List (Msg × Nat)) : ∀ (s : St) (G : Nat → List Rec), FitsAll s G mbs →
    (labels8 s G mbs).length = mbs.length ∧
    ∀ p ∈ mbs.zip (labels8 s G mbs), p.2 = { p.1.1 with lc := p.2.lc } ∧ HasRec (finalG s G mbs) p.1.1.ecu p.1.2 p.2.lc := by
  induction mbs with
  | nil => intro s G _; exact ⟨rfl, by intro p hp; simp [labels8] at hp⟩
  | cons x t ih =>
    intro s G hF
    obtain ⟨m, b⟩ := x
    obtain ⟨i1, i2⟩ := ih (s.step m) (addTo G m b s.nextId) hF.2
    refine ⟨by simp [labels8, i1], ?_⟩
    intro p hp
    simp only [labels8, List.zip_cons_cons, List.mem_cons] at hp
    rcases hp with rfl | hp
    · exact ⟨rfl, finalG_hasRec t _ _ _ _ _ (addTo_head G m b s.nextId)⟩
    · exact i2 p hp

theorem inv8_init : Inv8 ({} : St) (fun _ => []) :=
  ⟨fun _ => rfl, fun _ l hl => (by cases hl), fun _ => trivial⟩

/-- **a clean trace inside the claimed region, whole stream** -/
theorem clean_trace (mbs : List (Msg × Nat)) (hF : FitsAll {} (fun _ => []) mbs) :
    Inv8 (run (mbs.map (·.1))) (finalG {} (fun _ => []) mbs) ∧
    (run (mbs.map (·.1))).outL = labels8 {} (fun _ => []) mbs ∧
    BootsDesc (finalG {} (fun _ => []) mbs) := by
  obtain ⟨r1, r2, r3⟩ := steps8 mbs {} (fun _ => []) inv8_init hF rfl (fun _ => rfl)
  refine ⟨?_, ?_, finalG_bootsDesc mbs _ _ hF (fun _ => List.Pairwise.nil)⟩
  · exact inv8_of_ecuMap _ _ _ (finish_ecuMap _) r1
  · unfold run
    rw [finish_L _ r3, r2]
    simp [St.seqL, St.outL]

end Lcm
