import Adlt.Lc.Final
import Adlt.Lc.Sum
import Adlt.Lc.Spec
/-! C07 (counts, part 3): what the final table says, in the terms of the observation: ids listed once, every entry a live
    (never a merged) lifecycle with its final count, the counts add up to the number of delivered messages. -/
namespace Lcm

theorem nodup_of_map {α β} (f : α → β) (l : List α) (h : (l.map f).Nodup) : l.Nodup := by
  induction l with
  | nil => simp
  | cons a t ih =>
    simp only [List.map_cons, List.nodup_cons, List.mem_map, not_exists, not_and] at h
    refine List.nodup_cons.mpr ⟨?_, ih h.2⟩
    intro ha
    exact h.1 a ha rfl

def allLive (em : List (Nat × List Lc)) : List Lc := em.flatMap (·.2)

theorem mem_allLive (em : List (Nat × List Lc)) (lc : Lc) : lc ∈ allLive em ↔ Live em lc := by
  unfold allLive Live
  simp only [List.mem_flatMap]

theorem totalN_allLive (em : List (Nat × List Lc)) : totalN em = ((allLive em).map (·.nrMsgs)).sum := by
  induction em with
  | nil => rfl
  | cons p t ih =>
    simp only [totalN, allLive, List.map_cons, List.sum_cons, List.flatMap_cons, List.map_append, List.sum_append] at ih ⊢
    rw [ih]; rfl

theorem allLive_ids_nodup (em : List (Nat × List Lc)) (hk : (keys em).Nodup) (hids : ∀ p ∈ em, (p.2.map (·.id)).Nodup)
    (hkey : ∀ p ∈ em, ∀ lc ∈ p.2, lc.ecu = p.1)
    (huniq : ∀ a b, a ∈ allLive em → b ∈ allLive em → a.id = b.id → a.ecu = b.ecu) : ((allLive em).map (·.id)).Nodup := by
  induction em with
  | nil => simp [allLive]
  | cons p t ih =>
    have hsub : ∀ a, a ∈ allLive t → a ∈ allLive (p :: t) := by
      intro a ha; simp only [allLive, List.flatMap_cons, List.mem_append]; exact .inr ha
    simp only [keys, List.map_cons, List.nodup_cons] at hk
    have iht := ih hk.2 (fun q hq => hids q (List.mem_cons_of_mem _ hq)) (fun q hq => hkey q (List.mem_cons_of_mem _ hq))
      (fun a b ha hb => huniq a b (hsub a ha) (hsub b hb))
    simp only [allLive, List.flatMap_cons, List.map_append]
    refine List.nodup_append.mpr ⟨hids p (by simp), iht, ?_⟩
    intro x hx y hy hxy
    simp only [List.mem_map] at hx hy
    obtain ⟨a, ha, rfl⟩ := hx
    obtain ⟨b, hb, rfl⟩ := hy
    have hb' : b ∈ allLive t := hb
    have hecu := huniq a b (by simp only [allLive, List.flatMap_cons, List.mem_append]; exact .inl ha) (hsub b hb') hxy
    have ha_e : a.ecu = p.1 := hkey p (by simp) a ha
    obtain ⟨q, hq, hbq⟩ := (mem_allLive t b).mp hb'
    have hb_e : b.ecu = q.1 := hkey q (List.mem_cons_of_mem _ hq) b hbq
    apply hk.1
    simp only [keys, List.mem_map]
    exact ⟨q, hq, by rw [← hb_e, ← hecu, ha_e]⟩

theorem allLive_nodup (em : List (Nat × List Lc)) (n : Nat) (hm : MapInv em n) : (allLive em).Nodup := by
  have := allLive_ids_nodup em hm.keysNodup hm.idsNodup hm.ecuKey
    (fun a b ha hb h => hm.uniq a b ((mem_allLive em a).mp ha) ((mem_allLive em b).mp hb) h)
  exact nodup_of_map (·.id) _ this

/-- the three facts about the final state, from the initial one -/
theorem run_final (ms : List Msg) :
    LInv (ms.foldl St.step {}) ∧
    (∀ lc, Live (run ms).ecuMap lc → assocGet lc.id (run ms).published = some lc) ∧
    (∀ kv ∈ (run ms).published, Live (run ms).ecuMap kv.2 ∧ kv.2.id = kv.1) ∧
    (keys (run ms).published).Nodup := by
  have hi := steps_inv ms {} init_inv
  have hp := idpos_steps ms {} idpos_init
  have hf := steps_finv ms {} init_inv idpos_init init_finv
  have hnp : (ms.foldl St.step ({} : St)).panicked = false := by rw [foldl_panicked _ step_panicked]
  exact ⟨hi, finish_final _ hi hf hnp⟩

/-- the values of the final table are, as a multiset, the live lifecycles -/
theorem table_perm_live (ms : List Msg) : ((run ms).published.map (·.2)).Perm (allLive (run ms).ecuMap) := by
  obtain ⟨hi, t1, t2, t3⟩ := run_final ms
  have hem : (run ms).ecuMap = (ms.foldl St.step {}).ecuMap := finish_ecuMap _
  have hA : (allLive (run ms).ecuMap).Nodup := by rw [hem]; exact allLive_nodup _ _ hi.map
  have hB : ((run ms).published.map (·.2)).Nodup := by
    apply nodup_of_map (·.id)
    rw [List.map_map]
    have : (run ms).published.map ((fun x => x.id) ∘ fun x => x.2) = keys (run ms).published := by
      unfold keys
      apply List.map_congr_left
      intro kv hkv
      exact (t2 kv hkv).2
    rw [this]; exact t3
  rw [List.perm_ext_iff_of_nodup hB hA]
  intro a
  constructor
  · intro ha
    simp only [List.mem_map] at ha
    obtain ⟨kv, hkv, rfl⟩ := ha
    exact (mem_allLive _ _).mpr (t2 kv hkv).1
  · intro ha
    have hl := (mem_allLive _ _).mp ha
    have := assocGet_mem _ _ _ (t1 a hl)
    simp only [List.mem_map]
    exact ⟨(a.id, a), this, rfl⟩

/-- the listed counts add up to the number of delivered messages -/
theorem table_counts_sum (ms : List Msg) : ((run ms).published.map (·.2.nrMsgs)).sum = (run ms).out.length := by
  have hperm := (table_perm_live ms).map (·.nrMsgs)
  have h1 := hperm.sum_nat
  rw [List.map_map] at h1
  have h2 : (List.map ((fun x => x.nrMsgs) ∘ fun x => x.2) (run ms).published) = (run ms).published.map (·.2.nrMsgs) := rfl
  rw [h2] at h1
  rw [h1, ← totalN_allLive, live_counts_sum]
  have hout := C05_once_in_order ms (run_not_panicked ms)
  have : (run ms).outSeq.length = ms.length := by rw [hout]; simp
  simp only [St.outSeq, List.length_reverse, List.length_map] at this
  exact this.symm

end Lcm
