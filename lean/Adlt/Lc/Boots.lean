import Adlt.Lc.Pub
/-! C08, whole trace (part A): the per-ECU lifecycle lists along a clean trace inside the claimed region.

    Ground truth `G e` = the boots of ECU `e` seen so far, newest first: boot number, the id of its lifecycle, calculated start
    (= boot time + transport delay = reception time - timestamp, constant within a boot), largest timestamp, number of
    messages. A message *fits* `G` if it has a timestamp, is no control request, and is either of the newest boot of its ECU
    (same calculated start) or of the next one, whose calculated start lies in the claimed region relative to the newest boot:
    after its end, or before its end by less than the "slightly overlapping" window while that boot was longer than 10 s.

    Result: every assignment step keeps the lifecycle list of every ECU equal to `G` (ids, starts, largest timestamps,
    counts), labels the message with the id of its boot, never merges and touches nothing but the per-ECU map, the id counter
    and the set of unconfirmed lifecycles. -/
namespace Lcm

structure Rec where
  boot : Nat
  id : Nat
  start : Nat
  maxTs : Nat
  n : Nat
deriving Repr, DecidableEq

def Rec.sig (r : Rec) : Nat × Nat × Nat × Nat := (r.id, r.start, r.maxTs, r.n)
def Lc.sig (l : Lc) : Nat × Nat × Nat × Nat := (l.id, l.start, l.maxTs, l.nrMsgs)

def slightWin : Nat := usPerSec * Gen.lcSlightOverlapSecs
def minLen : Nat := usPerSec * Gen.lcMinLenForOverlapSecs

/-- the claimed region: calculated start `S` of the next boot relative to the boot `(start, maxTs)` -/
def Region (start maxTs S : Nat) : Prop :=
  S > start + maxTs ∨ (S ≤ start + maxTs ∧ S + slightWin > start + maxTs ∧ start + maxTs > start + minLen)

def Chain : List Rec → Prop
  | [] => True
  | [_] => True
  | r :: p :: t => Region p.start p.maxTs r.start ∧ Chain (p :: t)

structure Inv8 (s : St) (G : Nat → List Rec) : Prop where
  sig : ∀ e, (oldList s.ecuMap e).reverse.map Lc.sig = (G e).map Rec.sig
  zero : ∀ e, ∀ l ∈ oldList s.ecuMap e, l.maxTs = 0 → l.lastRecv = l.start
  chain : ∀ e, Chain (G e)

def calcStart (m : Msg) : Nat := m.recv - m.tsUs

/-- the message `m` of boot `b` fits the boots seen so far -/
def Fits (G : Nat → List Rec) (m : Msg) (b : Nat) : Prop :=
  m.hasTs = true ∧ m.ctrlReq = false ∧ m.tsUs ≤ m.recv ∧
  match G m.ecu with
  | [] => True
  | r :: _ => (b = r.boot ∧ calcStart m = r.start) ∨ (b = r.boot + 1 ∧ Region r.start r.maxTs (calcStart m))

/-- the boots after `m` -/
def addTo (G : Nat → List Rec) (m : Msg) (b : Nat) (id : Nat) : Nat → List Rec := fun e =>
  if e = m.ecu then
    match G m.ecu with
    | [] => [{ boot := b, id := id, start := calcStart m, maxTs := m.tsUs, n := 1 }]
    | r :: t => if b = r.boot then { r with maxTs := max r.maxTs m.tsUs, n := r.n + 1 } :: t
                else { boot := b, id := id, start := calcStart m, maxTs := m.tsUs, n := 1 } :: r :: t
  else G e

theorem oldList_setEcu (em : List (Nat × List Lc)) (e e' : Nat) (L : List Lc) :
    oldList (assocSet e L em) e' = if e' = e then L else oldList em e' := by
  unfold oldList
  rw [assocGet_assocSet]
  by_cases h : e' = e
  · rw [if_pos h, if_pos h]; rfl
  · rw [if_neg h, if_neg h]

theorem endTime_of (l : Lc) (hz : l.maxTs = 0 → l.lastRecv = l.start) : l.endTime = l.start + l.maxTs := by
  unfold Lc.endTime
  by_cases h : l.maxTs = 0
  · have : (l.maxTs == 0) = true := by simp [h]
    rw [if_pos this, hz h, h]; rfl
  · have : ¬ (l.maxTs == 0) = true := by simp [h]
    rw [if_neg this]

/-! ### the two decisions -/

theorem classify_same (l : Lc) (m : Msg) (hc : m.ctrlReq = false) (hle : m.tsUs ≤ m.recv) (hs : calcStart m = l.start)
    (hz : l.maxTs = 0 → l.lastRecv = l.start) : l.classify m = .belongs := by
  have hrecv : m.recv = l.start + m.tsUs := by unfold calcStart at hs; omega
  have hend : l.start ≤ l.endTime := by rw [endTime_of l hz]; omega
  -- (the proof of Props.C08_same_boot_belongs, repeated here to keep this file independent of Props)
  unfold Lc.classify
  have hs' : m.recv - m.tsUs = l.start := hs
  have hslight : l.slightlyOverlapping l.start = false := by
    unfold Lc.slightlyOverlapping
    have h2 : Gen.lcSlightOverlapSecs = 2 := by decide
    have h10 : Gen.lcMinLenForOverlapSecs = 10 := by decide
    have hu : usPerSec = 1000000 := by decide
    simp only [h2, h10, hu, Bool.and_eq_false_iff, decide_eq_false_iff_not]
    omega
  simp only [hc, Bool.false_eq_true, if_false, hs', hslight, Bool.not_false, Bool.true_and]
  have hle' : decide (l.start ≤ l.endTime) = true := by simp [hend]
  have h10 : Gen.lcMinResumeGapSecs = 10 := by decide
  have hu : usPerSec = 1000000 := by decide
  simp only [hle', Bool.true_or, Nat.lt_irrefl, if_false, Nat.sub_self]
  have h0 : ¬ (0 > maxDelay) := by omega
  simp only [h0, decide_false, Bool.false_and, Bool.and_false, Bool.false_eq_true, if_false]
  have h3 : decide (l.start ≥ l.start + usPerSec * Gen.lcMinResumeGapSecs) = false := by
    simp only [h10, hu, decide_eq_false_iff_not]; omega
  simp only [h3, Bool.and_false, Bool.false_and, Bool.not_false, Bool.and_self, if_true]

theorem slight_of_region (l : Lc) (S : Nat) (hz : l.maxTs = 0 → l.lastRecv = l.start)
    (h : S ≤ l.start + l.maxTs ∧ S + slightWin > l.start + l.maxTs ∧ l.start + l.maxTs > l.start + minLen) :
    l.slightlyOverlapping S = true := by
  unfold Lc.slightlyOverlapping
  simp only []
  rw [endTime_of l hz]
  unfold slightWin minLen at h
  simp only [Bool.and_eq_true, decide_eq_true_eq]
  exact ⟨⟨h.1, h.2.1⟩, h.2.2⟩

theorem classify_next (l : Lc) (m : Msg) (hc : m.ctrlReq = false) (hts : m.hasTs = true)
    (hz : l.maxTs = 0 → l.lastRecv = l.start) (hr : Region l.start l.maxTs (calcStart m)) : ∃ r, l.classify m = .fresh r := by
  unfold Lc.classify
  have hpart : ((!l.slightlyOverlapping (m.recv - m.tsUs) && decide (m.recv - m.tsUs ≤ l.endTime)) || !m.hasTs) = false := by
    rw [hts]
    rcases hr with h | h
    · have : decide (m.recv - m.tsUs ≤ l.endTime) = false := by
        rw [endTime_of l hz]; simp only [decide_eq_false_iff_not]; unfold calcStart at h; omega
      rw [this]; simp
    · have := slight_of_region l (m.recv - m.tsUs) hz h
      rw [this]; simp
  simp only [hc, Bool.false_eq_true, if_false, hpart, Bool.false_and, Bool.and_false, Bool.not_false]
  exact ⟨_, rfl⟩

/-- no merge inside the region -/
theorem no_merge_cond (lc2 prev : Lc) (hz : prev.maxTs = 0 → prev.lastRecv = prev.start)
    (hr : Region prev.start prev.maxTs lc2.start) :
    (lc2.start ≤ prev.endTime && lc2.resume.isNone && !prev.slightlyOverlapping lc2.start) = false := by
  rcases hr with h | h
  · have : decide (lc2.start ≤ prev.endTime) = false := by
      rw [endTime_of prev hz]; simp only [decide_eq_false_iff_not]; omega
    rw [this]; simp
  · rw [slight_of_region prev lc2.start hz h]; simp

/-! ### what `update` returns in the two cases -/

theorem absorb_same (l : Lc) (m : Msg) (hle : m.tsUs ≤ m.recv) (hs : calcStart m = l.start) :
    (l.absorb m).id = l.id ∧ (l.absorb m).start = l.start ∧ (l.absorb m).maxTs = max l.maxTs m.tsUs ∧
    (l.absorb m).nrMsgs = l.nrMsgs + 1 ∧ (l.absorb m).lastRecv = m.recv := by
  unfold Lc.absorb
  have hs' : m.recv - m.tsUs = l.start := hs
  simp only [hs', Nat.lt_irrefl, if_false]
  refine ⟨trivial, trivial, ?_, trivial, trivial⟩
  by_cases h : l.maxTs < m.tsUs
  · simp [h]; omega
  · simp only [h, if_false]
    have : max l.maxTs m.tsUs = l.maxTs := by omega
    rw [this]
    cases l.resume with
    | none => rfl
    | some r => simp only []; split <;> rfl

theorem update_same (l : Lc) (id : Nat) (m : Msg) (hc : m.ctrlReq = false) (hle : m.tsUs ≤ m.recv) (hs : calcStart m = l.start)
    (hz : l.maxTs = 0 → l.lastRecv = l.start) :
    l.update id m = (l.absorb m, { m with lc := l.id }, none) := by
  unfold Lc.update
  rw [classify_same l m hc hle hs hz]
  rfl

theorem new_start (id : Nat) (m : Msg) (hc : m.ctrlReq = false) (hle : m.tsUs ≤ m.recv) :
    (Lc.new id m).1.start = calcStart m ∧ (Lc.new id m).1.maxTs = m.tsUs ∧ (Lc.new id m).1.nrMsgs = 1 ∧
    (Lc.new id m).1.lastRecv = m.recv ∧ (Lc.new id m).1.id = id ∧ (Lc.new id m).2 = { m with lc := id } := by
  unfold Lc.new calcStart
  have h1 : ¬ (m.tsUs > m.recv) := by omega
  simp only [hc, Bool.false_eq_true, if_false, h1]
  exact ⟨trivial, trivial, trivial, trivial, trivial, trivial⟩

theorem update_next (l : Lc) (id : Nat) (m : Msg) (hc : m.ctrlReq = false) (hts : m.hasTs = true) (hle : m.tsUs ≤ m.recv)
    (hz : l.maxTs = 0 → l.lastRecv = l.start) (hr : Region l.start l.maxTs (calcStart m)) :
    ∃ nl, l.update id m = (l, { m with lc := id }, some nl) ∧ nl.id = id ∧ nl.start = calcStart m ∧ nl.maxTs = m.tsUs ∧
      nl.nrMsgs = 1 ∧ nl.lastRecv = m.recv := by
  obtain ⟨r, hr'⟩ := classify_next l m hc hts hz hr
  obtain ⟨n1, n2, n3, n4, n5, _⟩ := new_start id m hc hle
  unfold Lc.update
  rw [hr']
  cases r with
  | false => exact ⟨(Lc.new id m).1, rfl, n5, n1, n2, n3, n4⟩
  | true =>
    refine ⟨{ (Lc.new id m).1 with resume := some { id := l.id, start := l.start, maxTs := l.maxTs, eff := l.resumeStart } }, rfl, n5, n1, n2, n3, n4⟩

theorem chain_head_same (r r' : Rec) (t : List Rec) (h : Chain (r :: t)) (hs : r'.start = r.start) : Chain (r' :: t) := by
  cases t with
  | nil => trivial
  | cons p u => exact ⟨by rw [hs]; exact h.1, h.2⟩

/-! ### one assignment step -/

/-- what an assignment step inside the region leaves alone -/
structure Frame8 (s s' : St) : Prop where
  bufMsgs : s'.bufMsgs = s.bufMsgs
  out : s'.out = s.out
  published : s'.published = s.published
  pending : s'.pending = s.pending
  toRefresh : s'.toRefresh = s.toRefresh
  nextCheck : s'.nextCheck = s.nextCheck
  panicked : s'.panicked = s.panicked

theorem frame_setEcu (s x : St) (e : Nat) (L : List Lc) (h : Frame8 s x) : Frame8 s (setEcu x e L) :=
  ⟨h.bufMsgs, h.out, h.published, h.pending, h.toRefresh, h.nextCheck, h.panicked⟩

/-- the id the message is labelled with: the id of the newest boot of its ECU afterwards -/
def headId (G : Nat → List Rec) (e : Nat) : Nat := match G e with | r :: _ => r.id | [] => 0

theorem sig_cons {l : Lc} {L : List Lc} {r : Rec} {T : List Rec} (h : (l :: L).map Lc.sig = (r :: T).map Rec.sig) :
    l.id = r.id ∧ l.start = r.start ∧ l.maxTs = r.maxTs ∧ l.nrMsgs = r.n ∧ L.map Lc.sig = T.map Rec.sig := by
  simp only [List.map_cons, List.cons.injEq, Lc.sig, Rec.sig, Prod.mk.injEq] at h
  exact ⟨h.1.1, h.1.2.1, h.1.2.2.1, h.1.2.2.2, h.2⟩

theorem assign8 (s : St) (G : Nat → List Rec) (m : Msg) (b : Nat) (hI : Inv8 s G) (hF : Fits G m b) :
    Inv8 (s.assign m).1 (addTo G m b s.nextId) ∧ (s.assign m).2 = { m with lc := headId (addTo G m b s.nextId) m.ecu } ∧
    Frame8 s (s.assign m).1 := by
  obtain ⟨hts, hc, hle, hfit⟩ := hF
  have hsig := hI.sig m.ecu
  have hzero := hI.zero m.ecu
  have hchain := hI.chain m.ecu
  have hrev : ((assocGet m.ecu s.ecuMap).getD []).reverse = (oldList s.ecuMap m.ecu).reverse := rfl
  -- the invariant for the other ECUs
  have other : ∀ (x : St) (L : List Lc), x.ecuMap = s.ecuMap → ∀ e, e ≠ m.ecu →
      (oldList (setEcu x m.ecu L).ecuMap e).reverse.map Lc.sig = (addTo G m b s.nextId e).map Rec.sig ∧
      (∀ l ∈ oldList (setEcu x m.ecu L).ecuMap e, l.maxTs = 0 → l.lastRecv = l.start) ∧ Chain (addTo G m b s.nextId e) := by
    intro x L hx e he
    have h1 : oldList (setEcu x m.ecu L).ecuMap e = oldList s.ecuMap e := by
      show oldList (assocSet m.ecu L x.ecuMap) e = _
      rw [oldList_setEcu, if_neg he, hx]
    have h2 : addTo G m b s.nextId e = G e := by unfold addTo; rw [if_neg he]
    rw [h1, h2]
    exact ⟨hI.sig e, hI.zero e, hI.chain e⟩
  have own : ∀ (x : St) (L : List Lc), oldList (setEcu x m.ecu L).ecuMap m.ecu = L := by
    intro x L
    show oldList (assocSet m.ecu L x.ecuMap) m.ecu = _
    rw [oldList_setEcu, if_pos rfl]
  -- assembling the invariant from the facts about the own ECU
  have build : ∀ (x : St) (L : List Lc), x.ecuMap = s.ecuMap →
      L.reverse.map Lc.sig = (addTo G m b s.nextId m.ecu).map Rec.sig →
      (∀ l ∈ L, l.maxTs = 0 → l.lastRecv = l.start) → Chain (addTo G m b s.nextId m.ecu) →
      Inv8 (setEcu x m.ecu L) (addTo G m b s.nextId) := by
    intro x L hx h1 h2 h3
    refine ⟨?_, ?_, ?_⟩
    · intro e
      by_cases he : e = m.ecu
      · subst he; rw [own]; exact h1
      · exact (other x L hx e he).1
    · intro e
      by_cases he : e = m.ecu
      · subst he; rw [own]; exact h2
      · exact (other x L hx e he).2.1
    · intro e
      by_cases he : e = m.ecu
      · subst he; exact h3
      · exact (other x L hx e he).2.2
  unfold St.assign
  rw [hrev]
  cases hL : (oldList s.ecuMap m.ecu).reverse with
  | nil =>
    -- first message of this ECU
    rw [hL] at hsig
    have hG : G m.ecu = [] := by
      cases hg : G m.ecu with
      | nil => rfl
      | cons r t => rw [hg] at hsig; simp at hsig
    obtain ⟨n1, n2, n3, n4, n5, n6⟩ := new_start s.nextId m hc hle
    have hadd : addTo G m b s.nextId m.ecu = [{ boot := b, id := s.nextId, start := calcStart m, maxTs := m.tsUs, n := 1 }] := by
      unfold addTo; rw [if_pos rfl, hG]
    show Inv8 (s.assignNew m).1 _ ∧ (s.assignNew m).2 = _ ∧ Frame8 s (s.assignNew m).1
    unfold St.assignNew
    simp only []
    refine ⟨?_, ?_, ?_⟩
    · refine build _ _ ?_ ?_ ?_ ?_
      · rfl
      · rw [hadd]; simp [Lc.sig, Rec.sig, n1, n2, n3, n5]
      · intro l hl h0
        simp only [List.mem_singleton] at hl
        subst hl
        rw [n4, n1]; rw [n2] at h0; unfold calcStart; omega
      · rw [hadd]; trivial
    · rw [n6]; unfold headId; rw [hadd]
    · exact frame_setEcu s _ _ _ ⟨rfl, rfl, rfl, rfl, rfl, rfl, rfl⟩
  | cons last restRev =>
    rw [hL] at hsig
    have hold : oldList s.ecuMap m.ecu = (last :: restRev).reverse := by
      have := congrArg List.reverse hL; simpa using this
    cases hg : G m.ecu with
    | nil => rw [hg] at hsig; simp at hsig
    | cons R T =>
      rw [hg] at hsig hfit hchain
      obtain ⟨s1, s2, s3, s4, s5⟩ := sig_cons hsig
      have hlastIn : last ∈ oldList s.ecuMap m.ecu := by rw [hold]; simp
      have hzl := hzero last hlastIn
      have hzrest : ∀ l ∈ restRev, l.maxTs = 0 → l.lastRecv = l.start := by
        intro l hl; exact hzero l (by rw [hold]; simp [hl])
      show Inv8 (s.assignExisting m last restRev).1 _ ∧ (s.assignExisting m last restRev).2 = _ ∧ Frame8 s (s.assignExisting m last restRev).1
      unfold St.assignExisting
      simp only []
      rcases hfit with ⟨hb, hcs⟩ | ⟨hb, hreg⟩
      · -- same boot
        have hcs' : calcStart m = last.start := by rw [hcs, s2]
        rw [update_same last s.nextId m hc hle hcs' hzl]
        obtain ⟨a1, a2, a3, a4, a5⟩ := absorb_same last m hle hcs'
        have hadd : addTo G m b s.nextId m.ecu = { R with maxTs := max R.maxTs m.tsUs, n := R.n + 1 } :: T := by
          unfold addTo; rw [if_pos rfl, hg]; simp only []; rw [if_pos hb]
        have hzabs : (last.absorb m).maxTs = 0 → (last.absorb m).lastRecv = (last.absorb m).start := by
          intro h0; rw [a3] at h0; rw [a5, a2]; unfold calcStart at hcs'; omega
        have hch : Chain (addTo G m b s.nextId m.ecu) := by
          rw [hadd]; exact chain_head_same R _ T hchain rfl
        have hsig' : ∀ rr : List Lc, rr = restRev → ((last.absorb m :: rr).reverse).reverse.map Lc.sig = (addTo G m b s.nextId m.ecu).map Rec.sig := by
          intro rr hrr; subst hrr
          rw [List.reverse_reverse, hadd]
          simp only [List.map_cons, s5, Lc.sig, Rec.sig, a1, a2, a3, a4, s1, s2, s3, s4]
        have hz' : ∀ rr : List Lc, rr = restRev → ∀ l ∈ (last.absorb m :: rr).reverse, l.maxTs = 0 → l.lastRecv = l.start := by
          intro rr hrr l hl; subst hrr
          simp only [List.mem_reverse, List.mem_cons] at hl
          rcases hl with rfl | hl
          · exact hzabs
          · exact hzrest l hl
        have hlabel : ({ m with lc := last.id } : Msg) = { m with lc := headId (addTo G m b s.nextId) m.ecu } := by
          unfold headId; rw [hadd]; simp only []; rw [s1]
        simp only []
        cases hrr : restRev with
        | nil =>
          refine ⟨?_, hlabel, frame_setEcu s _ _ _ ⟨rfl, rfl, rfl, rfl, rfl, rfl, rfl⟩⟩
          have := build s [last.absorb m] rfl (by simpa using hsig' [] hrr.symm) (by simpa using hz' [] hrr.symm) hch
          exact this
        | cons prev rest2 =>
          -- the merge condition is false inside the region
          simp only []
          unfold St.maybeMerge
          cases hT : T with
          | nil => rw [hT, hrr] at s5; simp at s5
          | cons P T2 =>
            rw [hT, hrr] at s5
            obtain ⟨p1, p2, p3, _, _⟩ := sig_cons s5
            rw [hT] at hchain
            have hreg : Region prev.start prev.maxTs (last.absorb m).start := by
              rw [a2, s2, p2, p3]; exact hchain.1
            have hzp := hzrest prev (by rw [hrr]; simp)
            rw [no_merge_cond (last.absorb m) prev hzp hreg]
            simp only [Bool.false_eq_true, if_false]
            refine ⟨?_, hlabel, frame_setEcu s _ _ _ ⟨rfl, rfl, rfl, rfl, rfl, rfl, rfl⟩⟩
            exact build s _ rfl (hsig' (prev :: rest2) hrr.symm) (hz' (prev :: rest2) hrr.symm) hch
      · -- next boot
        have hreg' : Region last.start last.maxTs (calcStart m) := by rw [s2, s3]; exact hreg
        obtain ⟨nl, hu, n1, n2, n3, n4, n5⟩ := update_next last s.nextId m hc hts hle hzl hreg'
        rw [hu]
        simp only []
        have hne : ¬ b = R.boot := by omega
        have hadd : addTo G m b s.nextId m.ecu = { boot := b, id := s.nextId, start := calcStart m, maxTs := m.tsUs, n := 1 } :: R :: T := by
          unfold addTo; rw [if_pos rfl, hg]; simp only []; rw [if_neg hne]
        refine ⟨?_, ?_, frame_setEcu s _ _ _ ⟨rfl, rfl, rfl, rfl, rfl, rfl, rfl⟩⟩
        · refine build _ _ ?_ ?_ ?_ ?_
          · rfl
          · rw [List.reverse_reverse, hadd]
            simp only [List.map_cons, s5, Lc.sig, Rec.sig, n1, n2, n3, n4, s1, s2, s3, s4]
          · intro l hl h0
            simp only [List.mem_reverse, List.mem_cons] at hl
            rcases hl with rfl | rfl | hl
            · rw [n5, n2]; rw [n3] at h0; unfold calcStart; omega
            · exact hzl h0
            · exact hzrest l hl h0
          · rw [hadd]; exact ⟨hreg, hchain⟩
        · unfold headId; rw [hadd]

end Lcm
