import Adlt.Lc.Pub
import Adlt.Lc.Fifo
import Adlt.Lc.NoPanic
/-! C07 (counts, part 1): the message counts of the live lifecycles always add up to the number of messages taken in -
    every message increments exactly one lifecycle (or creates one with count 1), a merge adds the counts. -/
namespace Lcm

def sumN (l : List Lc) : Nat := (l.map (·.nrMsgs)).sum
def totalN (em : List (Nat × List Lc)) : Nat := (em.map (fun p => sumN p.2)).sum

theorem sumN_cons (a : Lc) (l : List Lc) : sumN (a :: l) = a.nrMsgs + sumN l := by simp [sumN]
theorem sumN_append (a b : List Lc) : sumN (a ++ b) = sumN a + sumN b := by simp [sumN]
theorem sumN_reverse (l : List Lc) : sumN l.reverse = sumN l := by
  induction l with
  | nil => rfl
  | cons a t ih => rw [List.reverse_cons, sumN_append, ih, sumN_cons, sumN_cons]; simp [sumN]; omega

theorem totalN_assocSet (e : Nat) (l : List Lc) (em : List (Nat × List Lc)) :
    totalN (assocSet e l em) + sumN (oldList em e) = totalN em + sumN l := by
  induction em with
  | nil => simp [assocSet, totalN, oldList, assocGet, sumN]
  | cons p t ih =>
    obtain ⟨k, v⟩ := p
    by_cases hk : k = e
    · subst hk
      simp only [assocSet, oldList, assocGet, beq_self_eq_true, if_true, Option.getD_some, totalN, List.map_cons, List.sum_cons]
      omega
    · have h1 : (k == e) = false := by simp [hk]
      simp only [assocSet, oldList, assocGet, h1, Bool.false_eq_true, if_false, totalN, List.map_cons, List.sum_cons]
      have := ih
      simp only [totalN, oldList] at this
      omega

theorem apply_n (l : Lc) (id : Nat) (m : Msg) (u : Upd) :
    (l.apply id m u).1.nrMsgs + (match (l.apply id m u).2.2 with | some nl => nl.nrMsgs | none => 0) = l.nrMsgs + 1 := by
  cases u with
  | ctrl => simp [Lc.apply]
  | ignoreTs => simp [Lc.apply]
  | belongs => simp [Lc.apply, Lc.absorb]
  | fresh r => cases r <;> simp [Lc.apply, Lc.new]

theorem merge_n (l o : Lc) : (l.merge o).nrMsgs = l.nrMsgs + o.nrMsgs := by
  unfold Lc.merge
  simp only []
  repeat' split
  all_goals rfl

theorem flushIfDrained_ecuMap (s : St) : s.flushIfDrained.ecuMap = s.ecuMap := by
  unfold St.flushIfDrained
  split
  · unfold St.flushAll; exact flushAll_go_ecuMap _ _ _
  · rfl

theorem mergeTail_ecuMap (s : St) (a b e : Nat) (lcs : List Lc) :
    (s.mergeTail a b e lcs).ecuMap = assocSet e lcs s.ecuMap := by
  unfold St.mergeTail
  simp only []
  rw [flushIfDrained_ecuMap]
  show assocSet e lcs (St.unpublishIfConfirmed { s with bufMsgs := relabel a b s.bufMsgs } a).ecuMap = _
  have : (St.unpublishIfConfirmed { s with bufMsgs := relabel a b s.bufMsgs } a).ecuMap = s.ecuMap := by
    unfold St.unpublishIfConfirmed; split <;> rfl
  rw [this]

/-- assignment of one message adds exactly one to the total -/
theorem assign_total (s : St) (m : Msg) : totalN (s.assign m).1.ecuMap = totalN s.ecuMap + 1 := by
  unfold St.assign
  split
  · rename_i hold
    have ho : oldList s.ecuMap m.ecu = [] := by
      unfold oldList; simpa using hold
    unfold St.assignNew
    simp only []
    show totalN (assocSet m.ecu [(Lc.new s.nextId m).1] s.ecuMap) = _
    have := totalN_assocSet m.ecu [(Lc.new s.nextId m).1] s.ecuMap
    rw [ho] at this
    have h1 : sumN [(Lc.new s.nextId m).1] = 1 := by simp [sumN, Lc.new]
    have h0 : sumN ([] : List Lc) = 0 := rfl
    rw [h1, h0] at this
    omega
  · rename_i last restRev hold
    have ho : oldList s.ecuMap m.ecu = (last :: restRev).reverse := by
      unfold oldList
      have := congrArg List.reverse hold
      simpa using this
    have hso : sumN (oldList s.ecuMap m.ecu) = last.nrMsgs + sumN restRev := by
      rw [ho, sumN_reverse, sumN_cons]
    unfold St.assignExisting
    simp only []
    have ha := apply_n last s.nextId m (last.classify m)
    have hu : last.update s.nextId m = last.apply s.nextId m (last.classify m) := rfl
    rw [← hu] at ha
    generalize last.update s.nextId m = r at *
    split
    · rename_i nl hnl
      rw [hnl] at ha
      simp only [] at ha
      show totalN (assocSet m.ecu ((nl :: r.1 :: restRev).reverse) s.ecuMap) = _
      have := totalN_assocSet m.ecu ((nl :: r.1 :: restRev).reverse) s.ecuMap
      rw [sumN_reverse, sumN_cons, sumN_cons, hso] at this
      omega
    · rename_i hnone
      rw [hnone] at ha
      simp only [Nat.add_zero] at ha
      split
      · show totalN (assocSet m.ecu [r.1] s.ecuMap) = _
        have := totalN_assocSet m.ecu [r.1] s.ecuMap
        have h1 : sumN [r.1] = r.1.nrMsgs := by simp [sumN]
        have h0 : sumN ([] : List Lc) = 0 := rfl
        rw [hso, h1] at this
        rw [h0] at this
        omega
      · rename_i prev rest2Rev
        have hso' : sumN (oldList s.ecuMap m.ecu) = last.nrMsgs + (prev.nrMsgs + sumN rest2Rev) := by
          rw [hso, sumN_cons]
        have hmerged : totalN (assocSet m.ecu ((prev.merge r.1 :: rest2Rev).reverse) s.ecuMap) = totalN s.ecuMap + 1 := by
          have := totalN_assocSet m.ecu ((prev.merge r.1 :: rest2Rev).reverse) s.ecuMap
          rw [sumN_reverse, sumN_cons, merge_n, hso'] at this
          omega
        have hkept : totalN (assocSet m.ecu ((r.1 :: prev :: rest2Rev).reverse) s.ecuMap) = totalN s.ecuMap + 1 := by
          have := totalN_assocSet m.ecu ((r.1 :: prev :: rest2Rev).reverse) s.ecuMap
          rw [sumN_reverse, sumN_cons, sumN_cons, hso'] at this
          omega
        have hecu : r.2.1.ecu = m.ecu := by
          have := (apply_facts last s.nextId m (last.classify m)).2.2.1
          rw [← hu] at this
          exact this
        unfold St.maybeMerge
        split
        · split
          · rw [mergeTail_ecuMap, hecu]; exact hmerged
          · split
            · rw [mergeTail_ecuMap, hecu]; exact hmerged
            · show totalN (assocSet r.2.1.ecu _ s.ecuMap) = _
              rw [hecu]; exact hkept
        · show totalN (assocSet r.2.1.ecu _ s.ecuMap) = _
          rw [hecu]; exact hkept

theorem step_panicked_keep (s : St) (m : Msg) (h : s.panicked = true) : s.step m = s := by
  unfold St.step; simp [h]

theorem deliver_ecuMap (s : St) (m : Msg) : (s.deliver m).ecuMap = s.ecuMap := by
  unfold St.deliver
  split
  · rfl
  · show ((s.mark m.lc).emit m).ecuMap = s.ecuMap
    have : (s.mark m.lc).ecuMap = s.ecuMap := by unfold St.mark; split <;> rfl
    simp [St.emit, this]

theorem step_total (s : St) (m : Msg) (hi : LInv s) (hp : s.panicked = false) :
    totalN (s.step m).ecuMap = totalN s.ecuMap + 1 := by
  unfold St.step
  simp only [hp, Bool.false_eq_true, if_false]
  split
  · exact assign_total s m
  · rw [deliver_ecuMap, (confirm_inv _ _ (assign_inv s hi m).1).2.1]
    exact assign_total s m

theorem steps_total (ms : List Msg) (s : St) (hi : LInv s) (hp : ∀ t : List Msg, (t.foldl St.step s).panicked = false) :
    totalN (ms.foldl St.step s).ecuMap = totalN s.ecuMap + ms.length := by
  induction ms generalizing s with
  | nil => rfl
  | cons m t ih =>
    simp only [List.foldl_cons, List.length_cons]
    have hp0 : s.panicked = false := hp []
    rw [ih (s.step m) (step_inv s hi m) (fun t' => hp (m :: t')), step_total s m hi hp0]
    omega

theorem publishWhere_ecuMap (P : St → Lc → Bool) (s : St) : (s.publishWhere P).ecuMap = s.ecuMap := by
  unfold St.publishWhere
  have inner : ∀ (l : List Lc) (x : St), (l.foldl (St.publishIf P) x).ecuMap = x.ecuMap := by
    intro l
    induction l with
    | nil => intro x; rfl
    | cons a t ih =>
      intro x
      simp only [List.foldl_cons]
      rw [ih]
      unfold St.publishIf; split <;> rfl
  have outer : ∀ (ps : List (Nat × List Lc)) (x : St), (ps.foldl (St.publishLcs P) x).ecuMap = x.ecuMap := by
    intro ps
    induction ps with
    | nil => intro x; rfl
    | cons p t ih =>
      intro x
      simp only [List.foldl_cons]
      rw [ih]
      exact inner _ _
  exact outer _ _

theorem flushOne_fold_ecuMap (l : List Msg) (x : St) : (l.foldl St.flushOne x).ecuMap = x.ecuMap := by
  induction l generalizing x with
  | nil => rfl
  | cons m t ih =>
    simp only [List.foldl_cons]
    rw [ih]
    show ((x.mark m.lc).emit m).ecuMap = x.ecuMap
    have : (x.mark m.lc).ecuMap = x.ecuMap := by unfold St.mark; split <;> rfl
    simp [St.emit, this]

theorem finish_ecuMap (s : St) : s.finish.ecuMap = s.ecuMap := by
  unfold St.finish
  split
  · rfl
  · simp only []
    show (St.publishWhere _ _).ecuMap = s.ecuMap
    rw [publishWhere_ecuMap]
    show (List.foldl St.flushOne _ _).ecuMap = s.ecuMap
    rw [flushOne_fold_ecuMap]
    show (St.publishWhere _ s).ecuMap = s.ecuMap
    exact publishWhere_ecuMap _ s

/-- at the end of every stream the message counts of the live lifecycles add up to the number of messages -/
theorem live_counts_sum (ms : List Msg) : totalN (run ms).ecuMap = ms.length := by
  unfold run
  rw [finish_ecuMap]
  have hp : ∀ t : List Msg, (t.foldl St.step ({} : St)).panicked = false := fun t => by rw [foldl_panicked _ step_panicked]
  have := steps_total ms {} init_inv hp
  simpa [totalN] using this

end Lcm
