import Adlt.Lc.Pub
import Adlt.Lc.IdPos
import Adlt.Lc.NoPanic
/-! C07 (counts, part 2): at the end of every stream the published table *is* the live table: every live lifecycle is
    listed with its current value, every listed entry is a live lifecycle (no merged one), ids are listed once.

    Invariant `FInv s Q` (Q = the messages still to be delivered: queue ++ the one in flight): every confirmed live
    lifecycle is published with its current value, or is marked for re-publication, or still has a message in Q -
    and such a message is only ever delivered together with a mark, or right after its lifecycle was published. -/
namespace Lcm

theorem map_inj_of_nodup {α β} (f : α → β) (l : List α) (h : (l.map f).Nodup) (a b : α) (ha : a ∈ l) (hb : b ∈ l)
    (hf : f a = f b) : a = b := by
  induction l with
  | nil => cases ha
  | cons x t ih =>
    simp only [List.map_cons, List.nodup_cons, List.mem_map, not_exists, not_and] at h
    rcases List.mem_cons.mp ha with rfl | ha' <;> rcases List.mem_cons.mp hb with rfl | hb'
    · rfl
    · exact absurd hf.symm (h.1 b hb')
    · exact absurd hf (h.1 a ha')
    · exact ih h.2 ha' hb'

/-- a live lifecycle is determined by its id -/
theorem live_id_unique (em : List (Nat × List Lc)) (n : Nat) (hm : MapInv em n) (a b : Lc) (ha : Live em a) (hb : Live em b)
    (h : a.id = b.id) : a = b := by
  have he := hm.uniq a b ha hb h
  have ha' := live_oldList em n a.ecu hm a ha rfl
  have hb' := live_oldList em n a.ecu hm b hb he.symm
  have hnd : ((oldList em a.ecu).map (·.id)).Nodup := by
    unfold oldList
    cases hg : assocGet a.ecu em with
    | none => simp
    | some L => simpa using hm.idsNodup (a.ecu, L) (assocGet_mem _ _ _ hg)
  exact map_inj_of_nodup (·.id) _ hnd a b ha' hb' h

def Fresh (s : St) (Q : List Msg) : Prop :=
  ∀ lc, Live s.ecuMap lc → lc.id ∉ s.bufLcs →
    assocGet lc.id s.published = some lc ∨ lc.id ∈ s.toRefresh ∨ ∃ m ∈ Q, m.lc = lc.id

structure FInv (s : St) (Q : List Msg) : Prop where
  keys : (keys s.published).Nodup
  pubLive : ∀ kv ∈ s.published, (∃ lc, Live s.ecuMap lc ∧ lc.id = kv.1) ∧ kv.1 ∉ s.bufLcs
  bufNodup : s.bufLcs.Nodup
  bufLive : ∀ i ∈ s.bufLcs, ∃ lc, Live s.ecuMap lc ∧ lc.id = i
  fresh : Fresh s Q

/-- transfer along changes that keep table, map and buffered set, only grow the marks, and move messages out of Q only
    together with a mark -/
theorem finv_transfer (s s' : St) (Q Q' : List Msg) (h : FInv s Q)
    (hp : s'.published = s.published) (he : s'.ecuMap = s.ecuMap) (hb : s'.bufLcs = s.bufLcs)
    (ht : ∀ i ∈ s.toRefresh, i ∈ s'.toRefresh)
    (hq : ∀ m ∈ Q, m ∈ Q' ∨ m.lc ∈ s'.toRefresh) : FInv s' Q' := by
  refine ⟨by rw [hp]; exact h.keys, ?_, by rw [hb]; exact h.bufNodup, ?_, ?_⟩
  · intro kv hkv
    rw [hp] at hkv
    rw [he, hb]; exact h.pubLive kv hkv
  · intro i hi
    rw [hb] at hi
    rw [he]; exact h.bufLive i hi
  · intro lc hl hnb
    rw [he] at hl
    rw [hb] at hnb
    rw [hp]
    rcases h.fresh lc hl hnb with h1 | h1 | ⟨m, hm, hml⟩
    · exact .inl h1
    · exact .inr (.inl (ht _ h1))
    · rcases hq m hm with h2 | h2
      · exact .inr (.inr ⟨m, h2, hml⟩)
      · exact .inr (.inl (hml ▸ h2))

theorem mark_mem (s : St) (i : Nat) : i ∈ (s.mark i).toRefresh := by
  unfold St.mark
  split
  · rename_i h; simpa using h
  · simp

theorem mark_mono (s : St) (i j : Nat) (h : j ∈ s.toRefresh) : j ∈ (s.mark i).toRefresh := by
  unfold St.mark
  split
  · exact h
  · simp [h]

theorem mark_core (s : St) (i : Nat) :
    (s.mark i).published = s.published ∧ (s.mark i).ecuMap = s.ecuMap ∧ (s.mark i).bufLcs = s.bufLcs := by
  unfold St.mark; split <;> exact ⟨rfl, rfl, rfl⟩

/-- the flush loop: table, map and buffered set untouched, marks only grow, every flushed id ends up marked -/
theorem flushAll_go_core (l : List Msg) : ∀ (x : St) (last : Nat), (∀ m ∈ l, 1 ≤ m.lc) → (last = 0 ∨ last ∈ x.toRefresh) →
    (St.flushAll.go x last l).published = x.published ∧ (St.flushAll.go x last l).ecuMap = x.ecuMap ∧
    (St.flushAll.go x last l).bufLcs = x.bufLcs ∧ (∀ i ∈ x.toRefresh, i ∈ (St.flushAll.go x last l).toRefresh) ∧
    (∀ m ∈ l, m.lc ∈ (St.flushAll.go x last l).toRefresh) := by
  induction l with
  | nil => intro x last _ _; exact ⟨rfl, rfl, rfl, fun i hi => hi, by intro m hm; cases hm⟩
  | cons m t ih =>
    intro x last hpos hlast
    rw [St.flushAll.go]
    have hm1 : 1 ≤ m.lc := hpos m (by simp)
    -- the state after the optional mark
    have hx : ∀ y : St, y = (if m.lc != last then x.mark m.lc else x) →
        y.published = x.published ∧ y.ecuMap = x.ecuMap ∧ y.bufLcs = x.bufLcs ∧ (∀ i ∈ x.toRefresh, i ∈ y.toRefresh) ∧ m.lc ∈ y.toRefresh := by
      intro y hy
      subst hy
      split
      · obtain ⟨a, b, c⟩ := mark_core x m.lc
        exact ⟨a, b, c, fun i hi => mark_mono x _ i hi, mark_mem x m.lc⟩
      · rename_i hne
        have heq : m.lc = last := by simpa using hne
        refine ⟨rfl, rfl, rfl, fun i hi => hi, ?_⟩
        rcases hlast with h0 | h0
        · omega
        · rw [heq]; exact h0
    obtain ⟨y1, y2, y3, y4, y5⟩ := hx _ rfl
    generalize (if m.lc != last then x.mark m.lc else x) = y at *
    obtain ⟨r1, r2, r3, r4, r5⟩ := ih (y.emit m) m.lc (fun m' hm' => hpos m' (by simp [hm'])) (.inr y5)
    refine ⟨r1.trans y1, r2.trans y2, r3.trans y3, fun i hi => r4 i (y4 i hi), ?_⟩
    intro m' hm'
    rcases List.mem_cons.mp hm' with rfl | h
    · exact r4 _ y5
    · exact r5 m' h

/-- the release loop after `prune` has just been published or marked -/
theorem release_go_finv (l : List Msg) : ∀ (x : St) (prune : Nat) (extra : List Msg), FInv x (l ++ extra) →
    (∀ lc, Live x.ecuMap lc → lc.id = prune → assocGet prune x.published = some lc ∨ prune ∈ x.toRefresh) →
    FInv (St.release.go x prune l) ((St.release.go x prune l).bufMsgs ++ extra) := by
  induction l with
  | nil =>
    intro x prune extra h _
    exact finv_transfer x _ _ _ h rfl rfl rfl (fun i hi => hi) (fun m hm => .inl hm)
  | cons m t ih =>
    intro x prune extra h hpr
    rw [St.release.go]
    split
    · rename_i heq
      have heq' : m.lc = prune := by simpa using heq
      apply ih (x.emit m) prune extra
      · refine ⟨h.keys, h.pubLive, h.bufNodup, h.bufLive, ?_⟩
        intro lc hl hnb
        rcases h.fresh lc hl hnb with h1 | h1 | ⟨m', hm', hml⟩
        · exact .inl h1
        · exact .inr (.inl h1)
        · simp only [List.cons_append, List.mem_cons] at hm'
          rcases hm' with rfl | hm'
          · have := hpr lc hl (hml.symm.trans heq')
            rcases this with h2 | h2
            · rw [← heq', hml] at h2; exact .inl h2
            · rw [← heq', hml] at h2; exact .inr (.inl h2)
          · exact .inr (.inr ⟨m', hm', hml⟩)
      · exact hpr
    · split
      · apply ih ((x.mark m.lc).emit m) m.lc extra
        · obtain ⟨a, b, c⟩ := mark_core x m.lc
          have a' : ((x.mark m.lc).emit m).published = x.published := a
          have b' : ((x.mark m.lc).emit m).ecuMap = x.ecuMap := b
          have c' : ((x.mark m.lc).emit m).bufLcs = x.bufLcs := c
          apply finv_transfer x ((x.mark m.lc).emit m) _ _ h a' b' c' (fun i hi => mark_mono x _ i hi)
          intro m' hm'
          simp only [List.cons_append, List.mem_cons] at hm'
          rcases hm' with rfl | hm'
          · exact .inr (mark_mem x _)
          · exact .inl hm'
        · intro lc _ _
          exact .inr (mark_mem x m.lc)
      · exact finv_transfer x _ _ _ h rfl rfl rfl (fun i hi => hi) (fun m' hm' => .inl hm')

theorem mem_erase_nodup (l : List Nat) (a b : Nat) (h : l.Nodup) : b ∈ l.erase a ↔ b ∈ l ∧ b ≠ a := by
  constructor
  · intro hb
    refine ⟨List.mem_of_mem_erase hb, ?_⟩
    intro heq; subst heq
    exact (List.Nodup.not_mem_erase h) hb
  · rintro ⟨hb, hne⟩
    exact (List.mem_erase_of_ne hne).mpr hb

theorem confirmLc_finv (s : St) (m : Msg) (x : Nat) (lc : Lc) (extra : List Msg) (hi : LInv s)
    (h : FInv s (s.bufMsgs ++ extra)) (hlive : Live s.ecuMap lc) :
    FInv (s.confirmLc m x lc) ((s.confirmLc m x lc).bufMsgs ++ extra) := by
  unfold St.confirmLc
  split
  · exact h
  · split
    · exact h
    · split
      · unfold St.release
        have hpend := hi.pend
        let s1 : St := (({ s with bufLcs := s.bufLcs.erase lc.id } : St).publish lc).refresh
        have hs1pub : s1.published = assocSet lc.id lc s.published := by
          simp [s1, St.publish, St.refresh, hpend]
        have hmem := mem_erase_nodup s.bufLcs lc.id
        have h1 : FInv s1 (s.bufMsgs ++ extra) := by
          refine ⟨?_, ?_, ?_, ?_, ?_⟩
          · rw [hs1pub]; exact keys_assocSet_nodup _ _ _ h.keys
          · intro kv hkv
            rw [hs1pub, mem_assocSet lc.id lc s.published h.keys] at hkv
            show (∃ lc', Live s.ecuMap lc' ∧ lc'.id = kv.1) ∧ kv.1 ∉ s.bufLcs.erase lc.id
            rcases hkv with rfl | ⟨hkv, hne⟩
            · exact ⟨⟨lc, hlive, rfl⟩, fun hc => ((hmem _ h.bufNodup).mp hc).2 rfl⟩
            · obtain ⟨a, b⟩ := h.pubLive kv hkv
              exact ⟨a, fun hc => b ((hmem _ h.bufNodup).mp hc).1⟩
          · show (s.bufLcs.erase lc.id).Nodup
            exact h.bufNodup.erase _
          · intro i hi'
            have : i ∈ s.bufLcs.erase lc.id := hi'
            exact h.bufLive i ((hmem _ h.bufNodup).mp this).1
          · intro lc' hl' hnb
            have hnb' : lc'.id ∉ s.bufLcs.erase lc.id := hnb
            show assocGet lc'.id s1.published = some lc' ∨ lc'.id ∈ s.toRefresh ∨ _
            rw [hs1pub, assocGet_assocSet]
            by_cases hid : lc'.id = lc.id
            · have := live_id_unique s.ecuMap s.nextId hi.map lc' lc hl' hlive hid
              subst this
              simp
            · simp only [hid, if_false]
              apply h.fresh lc' hl'
              intro hc
              exact hnb' ((hmem _ h.bufNodup).mpr ⟨hc, hid⟩)
        apply release_go_finv s.bufMsgs s1 lc.id extra h1
        intro lc' hl' hid
        left
        have := live_id_unique s.ecuMap s.nextId hi.map lc' lc hl' hlive hid
        subst this
        rw [hs1pub, assocGet_assocSet]; simp
      · exact h

theorem confirm_inner_finv (m : Msg) (x : Nat) (extra : List Msg) (lcs : List Lc) : ∀ (s : St), LInv s →
    FInv s (s.bufMsgs ++ extra) → (∀ lc ∈ lcs, Live s.ecuMap lc) →
    FInv (lcs.foldl (fun s lc => s.confirmLc m x lc) s) ((lcs.foldl (fun s lc => s.confirmLc m x lc) s).bufMsgs ++ extra) := by
  induction lcs with
  | nil => intro s _ h _; exact h
  | cons a t ih =>
    intro s hi h hl
    simp only [List.foldl_cons]
    have h1 := confirmLc_inv s m x a hi (hl a (by simp))
    obtain ⟨h2, _⟩ := confirmLc_frame s m x a
    exact ih _ h1 (confirmLc_finv s m x a extra hi h (hl a (by simp)))
      (by intro lc hlc; rw [h2]; exact hl lc (by simp [hlc]))

theorem confirm_outer_finv (m : Msg) (x : Nat) (extra : List Msg) (ps : List (Nat × List Lc)) : ∀ (s : St), LInv s →
    FInv s (s.bufMsgs ++ extra) → (∀ p ∈ ps, p ∈ s.ecuMap) →
    FInv (ps.foldl (fun s (p : Nat × List Lc) => p.2.reverse.foldl (fun s lc => s.confirmLc m x lc) s) s)
      ((ps.foldl (fun s (p : Nat × List Lc) => p.2.reverse.foldl (fun s lc => s.confirmLc m x lc) s) s).bufMsgs ++ extra) := by
  induction ps with
  | nil => intro s _ h _; exact h
  | cons p t ih =>
    intro s hi h hl
    simp only [List.foldl_cons]
    have hlive : ∀ lc ∈ p.2.reverse, Live s.ecuMap lc := by
      intro lc hlc; exact ⟨p, hl p (by simp), by simpa using hlc⟩
    obtain ⟨h1, h2, _⟩ := confirm_inner_inv m x p.2.reverse s hi hlive
    exact ih _ h1 (confirm_inner_finv m x extra p.2.reverse s hi h hlive)
      (by intro q hq; rw [h2]; exact hl q (by simp [hq]))

theorem confirm_finv (s : St) (m : Msg) (extra : List Msg) (hi : LInv s) (h : FInv s (s.bufMsgs ++ extra)) :
    FInv (s.confirm m) ((s.confirm m).bufMsgs ++ extra) := by
  unfold St.confirm
  split
  · split
    · have h2 := confirm_outer_finv m (m.recv - (m.tsUs + maxDelay)) extra s.ecuMap s hi h (fun p hp => hp)
      exact finv_transfer _ _ _ _ h2 rfl rfl rfl (fun i hi => hi) (fun m' hm' => .inl hm')
    · exact finv_transfer _ _ _ _ h rfl rfl rfl (fun i hi => hi) (fun m' hm' => .inl hm')
  · exact h

/-- the per-ECU list of `e` is replaced: ids are kept (value possibly changed, then a message of that id is in the new queue),
    dropped (`dropId`, merged away) or new (`newIds`, buffered) -/
theorem finv_replace (s s' : St) (Q Q' : List Msg) (hi : LInv s) (h : FInv s Q) (e : Nat) (L' : List Lc) (dropId : Nat)
    (newIds : List Nat)
    (hem : s'.ecuMap = assocSet e L' s.ecuMap)
    (hk : (keys s'.published).Nodup)
    (hsub : ∀ kv ∈ s'.published, kv ∈ s.published ∧ kv.1 ≠ dropId)
    (hget : ∀ k, k ≠ dropId → assocGet k s'.published = assocGet k s.published)
    (htr : ∀ i ∈ s.toRefresh, i ∈ s'.toRefresh)
    (hbn : s'.bufLcs.Nodup)
    (hb1 : ∀ i ∈ s'.bufLcs, (i ∈ s.bufLcs ∧ i ≠ dropId) ∨ i ∈ newIds)
    (hb2 : ∀ i ∈ s.bufLcs, i ≠ dropId → i ∈ s'.bufLcs)
    (hnew : ∀ i ∈ newIds, s.nextId ≤ i ∧ i ∈ s'.bufLcs ∧ ∃ lc ∈ L', lc.id = i)
    (hL2 : ∀ lc ∈ L', lc.id ∈ newIds ∨
      (∃ a0 ∈ oldList s.ecuMap e, a0.id = lc.id ∧ lc.id ≠ dropId ∧ (a0 = lc ∨ ∃ m ∈ Q', m.lc = lc.id)))
    (hL3 : ∀ a0 ∈ oldList s.ecuMap e, a0.id ≠ dropId → ∃ lc ∈ L', lc.id = a0.id)
    (hdropE : ∀ lc, Live s.ecuMap lc → lc.ecu ≠ e → lc.id ≠ dropId)
    (hq : ∀ m ∈ Q, m.lc ≠ dropId → (∃ m2 ∈ Q', m2.lc = m.lc) ∨ m.lc ∈ s'.toRefresh) :
    FInv s' Q' := by
  have hlive := live_setEcu s.ecuMap s.nextId e hi.map L'
  -- a live lifecycle of the old state whose id is not dropped has a successor with the same id
  have succ : ∀ lc, Live s.ecuMap lc → lc.id ≠ dropId → ∃ lc', Live s'.ecuMap lc' ∧ lc'.id = lc.id := by
    intro lc hl hne
    by_cases he : lc.ecu = e
    · obtain ⟨lc', hlc', hid⟩ := hL3 lc (live_oldList _ _ e hi.map lc hl he) hne
      exact ⟨lc', by rw [hem]; exact (hlive lc').mpr (.inl hlc'), hid⟩
    · exact ⟨lc, by rw [hem]; exact (hlive lc).mpr (.inr ⟨hl, he⟩), rfl⟩
  -- an unchanged confirmed lifecycle stays fresh
  have keep : ∀ lc, Live s.ecuMap lc → lc.id ≠ dropId → lc.id ∉ s'.bufLcs →
      assocGet lc.id s'.published = some lc ∨ lc.id ∈ s'.toRefresh ∨ ∃ m ∈ Q', m.lc = lc.id := by
    intro lc hl hne hnb
    have hnb0 : lc.id ∉ s.bufLcs := fun hc => hnb (hb2 _ hc hne)
    rcases h.fresh lc hl hnb0 with h1 | h1 | ⟨m, hm, hml⟩
    · left; rw [hget _ hne]; exact h1
    · exact .inr (.inl (htr _ h1))
    · rcases hq m hm (by rw [hml]; exact hne) with ⟨m2, hm2, h2⟩ | h2
      · exact .inr (.inr ⟨m2, hm2, h2.trans hml⟩)
      · exact .inr (.inl (hml ▸ h2))
  refine ⟨hk, ?_, hbn, ?_, ?_⟩
  · intro kv hkv
    obtain ⟨hkv0, hne⟩ := hsub kv hkv
    obtain ⟨⟨lc, hl, hid⟩, hnb⟩ := h.pubLive kv hkv0
    obtain ⟨lc', hl', hid'⟩ := succ lc hl (by rw [hid]; exact hne)
    refine ⟨⟨lc', hl', hid'.trans hid⟩, ?_⟩
    intro hc
    rcases hb1 _ hc with ⟨hc1, _⟩ | hc2
    · exact hnb hc1
    · have := (hnew _ hc2).1
      have := hi.map.fresh lc hl
      omega
  · intro i hi'
    rcases hb1 i hi' with ⟨h1, hne⟩ | h2
    · obtain ⟨lc, hl, hid⟩ := h.bufLive i h1
      obtain ⟨lc', hl', hid'⟩ := succ lc hl (by rw [hid]; exact hne)
      exact ⟨lc', hl', hid'.trans hid⟩
    · obtain ⟨_, _, lc, hlc, hid⟩ := hnew i h2
      exact ⟨lc, by rw [hem]; exact (hlive lc).mpr (.inl hlc), hid⟩
  · intro lc hl hnb
    rw [hem] at hl
    rcases (hlive lc).mp hl with hin | ⟨hl0, hne⟩
    · rcases hL2 lc hin with hn | ⟨a0, ha0, hid0, hnd, hsame | hw⟩
      · exact absurd (hnew _ hn).2.1 hnb
      · subst hsame
        exact keep a0 (oldList_live _ e a0 ha0) hnd hnb
      · exact .inr (.inr hw)
    · exact keep lc hl0 (hdropE lc hl0 hne) hnb

theorem pub_lt (s : St) (Q : List Msg) (hi : LInv s) (h : FInv s Q) (kv : Nat × Lc) (hkv : kv ∈ s.published) : kv.1 < s.nextId := by
  obtain ⟨⟨lc, hl, hid⟩, _⟩ := h.pubLive kv hkv
  rw [← hid]; exact hi.map.fresh lc hl

theorem buf_lt (s : St) (Q : List Msg) (hi : LInv s) (h : FInv s Q) (i : Nat) (hb : i ∈ s.bufLcs) : i < s.nextId := by
  obtain ⟨lc, hl, hid⟩ := h.bufLive i hb
  rw [← hid]; exact hi.map.fresh lc hl

theorem assignNew_finv (s : St) (m : Msg) (hi : LInv s) (h : FInv s s.bufMsgs) (hold : oldList s.ecuMap m.ecu = []) :
    FInv (s.assignNew m).1 ((s.assignNew m).1.bufMsgs ++ [(s.assignNew m).2]) := by
  unfold St.assignNew
  simp only []
  obtain ⟨n1, _, n3, _⟩ := new_facts s.nextId m
  generalize Lc.new s.nextId m = r at *
  apply finv_replace s _ s.bufMsgs _ hi h m.ecu [r.1] (s.nextId + 1) [s.nextId]
  · rfl
  · exact h.keys
  · intro kv hkv
    have := pub_lt s _ hi h kv hkv
    exact ⟨hkv, by omega⟩
  · intro _ _; rfl
  · intro i hi'; exact hi'
  · show (s.bufLcs ++ [r.1.id]).Nodup
    rw [n1]
    refine List.nodup_append.mpr ⟨h.bufNodup, by simp, ?_⟩
    intro a ha b hb
    simp only [List.mem_singleton] at hb
    have := buf_lt s _ hi h a ha
    omega
  · intro i hi'
    have hi'' : i ∈ s.bufLcs ++ [r.1.id] := hi'
    rw [n1] at hi''
    rcases List.mem_append.mp hi'' with h1 | h1
    · have := buf_lt s _ hi h i h1
      exact .inl ⟨h1, by omega⟩
    · exact .inr h1
  · intro i hi' _
    show i ∈ s.bufLcs ++ [r.1.id]
    exact List.mem_append_left _ hi'
  · intro i hi'
    simp only [List.mem_singleton] at hi'
    subst hi'
    refine ⟨Nat.le_refl _, ?_, r.1, by simp, n1⟩
    show s.nextId ∈ s.bufLcs ++ [r.1.id]
    rw [n1]; simp
  · intro lc hlc
    simp only [List.mem_singleton] at hlc
    subst hlc
    left; rw [n1]; simp
  · intro a0 ha0; rw [hold] at ha0; cases ha0
  · intro lc hl _
    have := hi.map.fresh lc hl
    omega
  · intro m' hm' _
    exact .inl ⟨m', List.mem_append_left _ hm', rfl⟩

/-- a fresh lifecycle is appended behind the unchanged last one -/
theorem existing_new_finv (s : St) (m' : Msg) (hi : LInv s) (h : FInv s s.bufMsgs) (e : Nat) (last nl : Lc) (restRev : List Lc)
    (hold : oldList s.ecuMap e = (last :: restRev).reverse) (hnl : nl.id = s.nextId) :
    FInv (setEcu { s with nextId := s.nextId + 1, bufLcs := s.bufLcs ++ [nl.id] } e ((nl :: last :: restRev).reverse))
      (s.bufMsgs ++ [m']) := by
  apply finv_replace s _ s.bufMsgs _ hi h e ((nl :: last :: restRev).reverse) (s.nextId + 1) [s.nextId]
  · rfl
  · exact h.keys
  · intro kv hkv
    have := pub_lt s _ hi h kv hkv
    exact ⟨hkv, by omega⟩
  · intro _ _; rfl
  · intro i hi'; exact hi'
  · show (s.bufLcs ++ [nl.id]).Nodup
    rw [hnl]
    refine List.nodup_append.mpr ⟨h.bufNodup, by simp, ?_⟩
    intro a ha b hb
    simp only [List.mem_singleton] at hb
    have := buf_lt s _ hi h a ha
    omega
  · intro i hi'
    have hi'' : i ∈ s.bufLcs ++ [nl.id] := hi'
    rw [hnl] at hi''
    rcases List.mem_append.mp hi'' with h1 | h1
    · have := buf_lt s _ hi h i h1
      exact .inl ⟨h1, by omega⟩
    · exact .inr h1
  · intro i hi' _
    show i ∈ s.bufLcs ++ [nl.id]
    exact List.mem_append_left _ hi'
  · intro i hi'
    simp only [List.mem_singleton] at hi'
    subst hi'
    refine ⟨Nat.le_refl _, ?_, nl, by simp, hnl⟩
    show s.nextId ∈ s.bufLcs ++ [nl.id]
    rw [hnl]; simp
  · intro lc hlc
    simp only [List.mem_reverse, List.mem_cons] at hlc
    rcases hlc with rfl | hlc
    · left; rw [hnl]; simp
    · right
      have hin : lc ∈ oldList s.ecuMap e := by
        rw [hold]; simp only [List.mem_reverse, List.mem_cons]; exact hlc
      have := hi.map.fresh lc (oldList_live _ e lc hin)
      exact ⟨lc, hin, rfl, by omega, .inl rfl⟩
  · intro a0 ha0 _
    rw [hold] at ha0
    simp only [List.mem_reverse, List.mem_cons] at ha0
    exact ⟨a0, by simp only [List.mem_reverse, List.mem_cons]; exact .inr ha0, rfl⟩
  · intro lc hl _
    have := hi.map.fresh lc hl
    omega
  · intro m0 hm0 _
    exact .inl ⟨m0, List.mem_append_left _ hm0, rfl⟩

/-- the last lifecycle of the ECU got the message (same id, new value); the message in flight carries its id -/
theorem existing_keep_finv (s : St) (m' : Msg) (hi : LInv s) (h : FInv s s.bufMsgs) (e : Nat) (last r1 : Lc) (restRev : List Lc)
    (hold : oldList s.ecuMap e = (last :: restRev).reverse) (hid : r1.id = last.id) (hm : m'.lc = last.id) :
    FInv (setEcu s e ((r1 :: restRev).reverse)) (s.bufMsgs ++ [m']) := by
  apply finv_replace s _ s.bufMsgs _ hi h e ((r1 :: restRev).reverse) (s.nextId + 1) []
  · rfl
  · exact h.keys
  · intro kv hkv
    have := pub_lt s _ hi h kv hkv
    exact ⟨hkv, by omega⟩
  · intro _ _; rfl
  · intro i hi'; exact hi'
  · exact h.bufNodup
  · intro i hi'
    have := buf_lt s _ hi h i hi'
    exact .inl ⟨hi', by omega⟩
  · intro i hi' _; exact hi'
  · intro i hi'; cases hi'
  · intro lc hlc
    simp only [List.mem_reverse, List.mem_cons] at hlc
    right
    rcases hlc with rfl | hlc
    · have hin : last ∈ oldList s.ecuMap e := by rw [hold]; simp
      have := hi.map.fresh last (oldList_live _ e last hin)
      exact ⟨last, hin, hid.symm, by rw [hid]; omega, .inr ⟨m', by simp, hm.trans hid.symm⟩⟩
    · have hin : lc ∈ oldList s.ecuMap e := by rw [hold]; simp [hlc]
      have := hi.map.fresh lc (oldList_live _ e lc hin)
      exact ⟨lc, hin, rfl, by omega, .inl rfl⟩
  · intro a0 ha0 _
    rw [hold] at ha0
    simp only [List.mem_reverse, List.mem_cons] at ha0
    rcases ha0 with rfl | ha0
    · exact ⟨r1, by simp, hid⟩
    · exact ⟨a0, by simp [ha0], rfl⟩
  · intro lc hl _
    have := hi.map.fresh lc hl
    omega
  · intro m0 hm0 _
    exact .inl ⟨m0, List.mem_append_left _ hm0, rfl⟩

theorem mem_assocErase {α} (k : Nat) (l : List (Nat × α)) (p : Nat × α) : p ∈ assocErase k l ↔ p ∈ l ∧ p.1 ≠ k := by
  induction l with
  | nil => simp [assocErase]
  | cons q t ih =>
    obtain ⟨a, b⟩ := q
    simp only [assocErase]
    by_cases hak : a = k
    · subst hak
      simp only [beq_self_eq_true, if_true, ih, List.mem_cons]
      constructor
      · rintro ⟨h1, h2⟩; exact ⟨.inr h1, h2⟩
      · rintro ⟨h1 | h1, h2⟩
        · subst h1; exact absurd rfl h2
        · exact ⟨h1, h2⟩
    · have h1 : (a == k) = false := by simp [hak]
      simp only [h1, Bool.false_eq_true, if_false, List.mem_cons, ih]
      constructor
      · rintro (h2 | ⟨h2, h3⟩)
        · subst h2; exact ⟨.inl rfl, hak⟩
        · exact ⟨.inr h2, h3⟩
      · rintro ⟨h2 | h2, h3⟩
        · exact .inl h2
        · exact .inr ⟨h2, h3⟩

theorem keys_assocErase_nodup {α} (k : Nat) (l : List (Nat × α)) (hn : (keys l).Nodup) : (keys (assocErase k l)).Nodup := by
  induction l with
  | nil => simp [assocErase, keys]
  | cons q t ih =>
    obtain ⟨a, b⟩ := q
    simp only [keys, List.map_cons, List.nodup_cons] at hn
    simp only [assocErase]
    split
    · exact ih hn.2
    · simp only [keys, List.map_cons, List.nodup_cons]
      refine ⟨?_, ih hn.2⟩
      intro hc
      apply hn.1
      simp only [List.mem_map] at hc ⊢
      obtain ⟨p, hp, hpa⟩ := hc
      exact ⟨p, ((mem_assocErase k t p).mp hp).1, hpa⟩

theorem relabel_keep (a b : Nat) (ms : List Msg) (m : Msg) (hm : m ∈ ms) (hne : m.lc ≠ a) : m ∈ relabel a b ms := by
  unfold relabel
  simp only [List.mem_map]
  refine ⟨m, hm, ?_⟩
  have : (m.lc == a) = false := by simp [hne]
  simp [this]

/-- the last two lifecycles of the ECU are merged: `lc2` (the last one, already updated) disappears into `prev` -/
theorem merge_finv (s : St) (hi : LInv s) (hp : IdPos s) (h : FInv s s.bufMsgs) (e : Nat) (last lc2 prev : Lc)
    (rest2Rev : List Lc) (hold : oldList s.ecuMap e = (last :: prev :: rest2Rev).reverse) (hid : lc2.id = last.id)
    (mq : Msg) (hmq : mq.lc = prev.id) :
    FInv (s.mergeTail lc2.id prev.id e ((prev.merge lc2 :: rest2Rev).reverse))
      ((s.mergeTail lc2.id prev.id e ((prev.merge lc2 :: rest2Rev).reverse)).bufMsgs ++ [mq]) := by
  -- facts about the old list
  have hlastIn : last ∈ oldList s.ecuMap e := by rw [hold]; simp
  have hprevIn : prev ∈ oldList s.ecuMap e := by rw [hold]; simp
  have hnd : ((oldList s.ecuMap e).map (·.id)).Nodup := by
    unfold oldList
    cases hg : assocGet e s.ecuMap with
    | none => simp
    | some L => simpa using hi.map.idsNodup (e, L) (assocGet_mem _ _ _ hg)
  have hne_of : ∀ a0 ∈ oldList s.ecuMap e, a0 ≠ last → a0.id ≠ last.id := by
    intro a0 ha0 hne hc
    exact hne (map_inj_of_nodup (·.id) _ hnd a0 last ha0 hlastIn hc)
  have hnd2 : ((last :: prev :: rest2Rev).map (·.id)).Nodup := by
    have := hnd
    rw [hold, List.map_reverse] at this
    exact (List.reverse_perm _).nodup_iff.mp this
  simp only [List.map_cons, List.nodup_cons, List.mem_cons, List.mem_map, not_or, not_exists, not_and] at hnd2
  have hprev_ne : prev ≠ last := by
    intro hc
    exact hnd2.1.1 (by rw [hc])
  have hprevPos : 1 ≤ prev.id := by
    obtain ⟨p, hpm, hlc⟩ := oldList_live _ e prev hprevIn
    exact hp.live p hpm prev hlc
  unfold St.mergeTail
  simp only []
  -- the state before the final flush
  generalize hs2 : (St.unpublishIfConfirmed { s with bufMsgs := relabel lc2.id prev.id s.bufMsgs } lc2.id) = s2
  have hs2e : s2.ecuMap = s.ecuMap := by subst hs2; unfold St.unpublishIfConfirmed; split <;> rfl
  have hs2b : s2.bufLcs = s.bufLcs := by subst hs2; unfold St.unpublishIfConfirmed; split <;> rfl
  have hs2m : s2.bufMsgs = relabel lc2.id prev.id s.bufMsgs := by subst hs2; unfold St.unpublishIfConfirmed; split <;> rfl
  have hs2t : s2.toRefresh = s.toRefresh := by subst hs2; unfold St.unpublishIfConfirmed; split <;> rfl
  have hs2p : s2.published = if s.bufLcs.contains lc2.id then s.published else assocErase lc2.id s.published := by
    subst hs2
    unfold St.unpublishIfConfirmed
    split
    · rfl
    · show assocErase lc2.id (St.refresh { s with bufMsgs := relabel lc2.id prev.id s.bufMsgs }).published = _
      simp [St.refresh, hi.pend]
  generalize hs4 : setEcu { s2 with bufLcs := s2.bufLcs.erase lc2.id } e ((prev.merge lc2 :: rest2Rev).reverse) = s4
  have h4 : FInv s4 (s4.bufMsgs ++ [mq]) := by
    have hs4m : s4.bufMsgs = relabel lc2.id prev.id s.bufMsgs := by subst hs4; exact hs2m
    rw [hs4m]
    apply finv_replace s s4 s.bufMsgs _ hi h e ((prev.merge lc2 :: rest2Rev).reverse) lc2.id []
    · subst hs4; show assocSet e _ s2.ecuMap = _; rw [hs2e]
    · subst hs4
      show (keys s2.published).Nodup
      rw [hs2p]; split
      · exact h.keys
      · exact keys_assocErase_nodup _ _ h.keys
    · intro kv hkv
      have hkv' : kv ∈ s2.published := by subst hs4; exact hkv
      rw [hs2p] at hkv'
      split at hkv'
      · rename_i hc
        refine ⟨hkv', ?_⟩
        intro heq
        have hc' : lc2.id ∈ s.bufLcs := by simpa using hc
        exact (h.pubLive kv hkv').2 (heq ▸ hc')
      · exact (mem_assocErase _ _ _).mp hkv'
    · intro k hk
      have : s4.published = s2.published := by subst hs4; rfl
      rw [this, hs2p]
      split
      · rfl
      · rw [assocGet_assocErase]; simp [hk]
    · intro i hi'
      have : s4.toRefresh = s.toRefresh := by subst hs4; exact hs2t
      rw [this]; exact hi'
    · subst hs4
      show (s2.bufLcs.erase lc2.id).Nodup
      rw [hs2b]; exact h.bufNodup.erase _
    · intro i hi'
      have hi'' : i ∈ s.bufLcs.erase lc2.id := by subst hs4; rw [← hs2b]; exact hi'
      exact .inl ((mem_erase_nodup _ _ _ h.bufNodup).mp hi'')
    · intro i hi' hne
      subst hs4
      show i ∈ s2.bufLcs.erase lc2.id
      rw [hs2b]
      exact (mem_erase_nodup _ _ _ h.bufNodup).mpr ⟨hi', hne⟩
    · intro i hi'; cases hi'
    · intro lc hlc
      simp only [List.mem_reverse, List.mem_cons] at hlc
      right
      rcases hlc with rfl | hlc
      · refine ⟨prev, hprevIn, ((merge_facts prev lc2).1).symm, ?_, .inr ⟨mq, by simp, hmq.trans ((merge_facts prev lc2).1).symm⟩⟩
        rw [(merge_facts prev lc2).1, hid]
        exact hne_of prev hprevIn hprev_ne
      · have hin : lc ∈ oldList s.ecuMap e := by rw [hold]; simp [hlc]
        have hne : lc ≠ last := by
          intro hc
          exact hnd2.1.2 lc hlc (by rw [hc])
        exact ⟨lc, hin, rfl, by rw [hid]; exact hne_of lc hin hne, .inl rfl⟩
    · intro a0 ha0 hne
      have ha0' := ha0
      rw [hold] at ha0'
      simp only [List.mem_reverse, List.mem_cons] at ha0'
      rcases ha0' with rfl | rfl | ha0'
      · exact absurd hid.symm hne
      · exact ⟨a0.merge lc2, by simp, (merge_facts a0 lc2).1⟩
      · exact ⟨a0, by simp [ha0'], rfl⟩
    · intro lc hl hne hc
      have hl2 := oldList_live _ e last hlastIn
      have := hi.map.uniq lc last hl hl2 (hc.trans hid)
      exact hne (this.trans (oldList_ecu _ _ e hi.map last hlastIn))
    · intro m0 hm0 hne
      exact .inl ⟨m0, List.mem_append_left _ (relabel_keep _ _ _ m0 hm0 hne), rfl⟩
  -- the final flush
  unfold St.flushIfDrained
  split
  · unfold St.flushAll
    have hpos : ∀ m0 ∈ s4.bufMsgs, 1 ≤ m0.lc := by
      have : s4.bufMsgs = relabel lc2.id prev.id s.bufMsgs := by subst hs4; exact hs2m
      rw [this]
      exact idpos_relabel _ _ _ hprevPos hp.buf
    obtain ⟨r1, r2, r3, r4, r5⟩ := flushAll_go_core s4.bufMsgs s4 0 hpos (.inl rfl)
    have hbm : (St.flushAll.go s4 0 s4.bufMsgs).bufMsgs = [] := (flushAll_go s4 0 s4.bufMsgs).2.1
    rw [hbm]
    apply finv_transfer s4 _ _ _ h4 r1 r2 r3 r4
    intro m0 hm0
    rcases List.mem_append.mp hm0 with h1 | h1
    · exact .inr (r5 m0 h1)
    · exact .inl (by simpa using h1)
  · exact h4

theorem assign_finv (s : St) (m : Msg) (hi : LInv s) (hp : IdPos s) (h : FInv s s.bufMsgs) :
    FInv (s.assign m).1 ((s.assign m).1.bufMsgs ++ [(s.assign m).2]) := by
  unfold St.assign
  split
  · rename_i hold
    apply assignNew_finv s m hi h
    unfold oldList; simpa using hold
  · rename_i last restRev hold
    have ho : oldList s.ecuMap m.ecu = (last :: restRev).reverse := by
      unfold oldList
      have := congrArg List.reverse hold
      simpa using this
    unfold St.assignExisting
    simp only []
    obtain ⟨f1, _, f3, f4⟩ := apply_facts last s.nextId m (last.classify m)
    have hu : last.update s.nextId m = last.apply s.nextId m (last.classify m) := rfl
    rw [← hu] at f1 f3 f4
    generalize last.update s.nextId m = r at *
    split
    · rename_i nl hnl
      rw [hnl] at f4
      obtain ⟨_, g2, _, g4⟩ := f4
      rw [g4]
      exact existing_new_finv s r.2.1 hi h m.ecu last nl restRev ho g2
    · rename_i hnone
      rw [hnone] at f4
      have f4' : r.2.1.lc = last.id := f4
      split
      · have := existing_keep_finv s r.2.1 hi h m.ecu last r.1 [] ho f1 f4'
        simpa using this
      · rename_i prev rest2Rev
        have hkeep := existing_keep_finv s r.2.1 hi h m.ecu last r.1 (prev :: rest2Rev) ho f1 f4'
        unfold St.maybeMerge
        split
        · split
          · rw [f3]
            exact merge_finv s hi hp h m.ecu last r.1 prev rest2Rev ho f1 _ rfl
          · split
            · rw [f3]
              exact merge_finv s hi hp h m.ecu last r.1 prev rest2Rev ho f1 _ rfl
            · rw [f3]; exact hkeep
        · rw [f3]; exact hkeep

theorem deliver_finv (s : St) (m : Msg) (h : FInv s (s.bufMsgs ++ [m])) : FInv (s.deliver m) (s.deliver m).bufMsgs := by
  unfold St.deliver
  split
  · exact finv_transfer s _ _ _ h rfl rfl rfl (fun i hi => hi) (fun m' hm' => .inl hm')
  · obtain ⟨a, b, c⟩ := mark_core s m.lc
    have a' : ((s.mark m.lc).emit m).published = s.published := a
    have b' : ((s.mark m.lc).emit m).ecuMap = s.ecuMap := b
    have c' : ((s.mark m.lc).emit m).bufLcs = s.bufLcs := c
    apply finv_transfer s ((s.mark m.lc).emit m) _ _ h a' b' c' (fun i hi => mark_mono s _ i hi)
    intro m' hm'
    rcases List.mem_append.mp hm' with h1 | h1
    · left
      show m' ∈ ((s.mark m.lc).emit m).bufMsgs
      simpa using h1
    · simp only [List.mem_singleton] at h1
      subst h1
      exact .inr (mark_mem s _)

theorem step_finv (s : St) (m : Msg) (hi : LInv s) (hp : IdPos s) (h : FInv s s.bufMsgs) : FInv (s.step m) (s.step m).bufMsgs := by
  unfold St.step
  split
  · exact h
  · simp only []
    have ha := assign_finv s m hi hp h
    obtain ⟨ai, _⟩ := assign_inv s hi m
    split
    · -- unreachable: the assignment never sets the flag
      rename_i hs _ hpan
      rw [assign_panicked] at hpan
      exact absurd hpan hs
    · exact deliver_finv _ _ (confirm_finv _ _ [(s.assign m).2] ai ha)

theorem steps_finv (ms : List Msg) (s : St) (hi : LInv s) (hp : IdPos s) (h : FInv s s.bufMsgs) :
    FInv (ms.foldl St.step s) (ms.foldl St.step s).bufMsgs := by
  induction ms generalizing s with
  | nil => exact h
  | cons m t ih => exact ih _ (step_inv s hi m) (idpos_step s m hp) (step_finv s m hi hp h)

theorem init_finv : FInv ({} : St) [] :=
  ⟨(by simp [keys]), (by intro kv hkv; cases hkv), (by simp), (by intro i hi; cases hi), (by intro lc ⟨p, hp, _⟩; cases hp)⟩

/-! ### the end of the stream -/

def applyPending (pub P : List (Nat × Lc)) : List (Nat × Lc) := P.foldl (fun acc (kv : Nat × Lc) => assocSet kv.1 kv.2 acc) pub

theorem refresh_eq (s : St) : s.refresh.published = applyPending s.published s.pending := by
  unfold St.refresh applyPending
  show List.foldl (fun acc (x : Nat × Lc) => match x with | (k, v) => assocSet k v acc) s.published s.pending = _
  rfl

theorem applyPending_keys (P : List (Nat × Lc)) : ∀ pub, (keys pub).Nodup → (keys (applyPending pub P)).Nodup := by
  induction P with
  | nil => intro pub h; exact h
  | cons kv t ih => intro pub h; exact ih _ (keys_assocSet_nodup _ _ _ h)

theorem applyPending_mem (P : List (Nat × Lc)) : ∀ pub, (keys pub).Nodup → ∀ x ∈ applyPending pub P, x ∈ pub ∨ x ∈ P := by
  induction P with
  | nil => intro pub _ x hx; exact .inl hx
  | cons kv t ih =>
    intro pub h x hx
    rcases ih _ (keys_assocSet_nodup kv.1 kv.2 pub h) x hx with h1 | h1
    · rcases (mem_assocSet kv.1 kv.2 pub h x).mp h1 with h2 | ⟨h2, _⟩
      · exact .inr (by rw [h2]; simp)
      · exact .inl h2
    · exact .inr (List.mem_cons_of_mem _ h1)

theorem applyPending_get (P : List (Nat × Lc)) (k : Nat) : ∀ pub, (∀ v w, (k, v) ∈ P → (k, w) ∈ P → v = w) →
    (∀ v, (k, v) ∈ P → assocGet k (applyPending pub P) = some v) ∧
    ((∀ v, (k, v) ∉ P) → assocGet k (applyPending pub P) = assocGet k pub) := by
  induction P with
  | nil => intro pub _; exact ⟨(by intro v hv; cases hv), fun _ => rfl⟩
  | cons kv t ih =>
    intro pub hu
    obtain ⟨a, b⟩ := kv
    have hu' : ∀ v w, (k, v) ∈ t → (k, w) ∈ t → v = w := fun v w hv hw => hu v w (List.mem_cons_of_mem _ hv) (List.mem_cons_of_mem _ hw)
    obtain ⟨i1, i2⟩ := ih (assocSet a b pub) hu'
    constructor
    · intro v hv
      by_cases hin : ∃ w, (k, w) ∈ t
      · obtain ⟨w, hw⟩ := hin
        have : v = w := hu v w hv (List.mem_cons_of_mem _ hw)
        subst this
        exact i1 v hw
      · have hnot : ∀ w, (k, w) ∉ t := fun w hw => hin ⟨w, hw⟩
        have hhead : (k, v) = (a, b) := by
          rcases List.mem_cons.mp hv with h1 | h1
          · exact h1
          · exact absurd h1 (hnot v)
        show assocGet k (applyPending (assocSet a b pub) t) = some v
        rw [i2 hnot]
        cases hhead
        rw [assocGet_assocSet]; simp
    · intro hnone
      have hnot : ∀ w, (k, w) ∉ t := fun w hw => hnone w (List.mem_cons_of_mem _ hw)
      show assocGet k (applyPending (assocSet a b pub) t) = assocGet k pub
      rw [i2 hnot, assocGet_assocSet]
      have : k ≠ a := by
        intro hc; subst hc; exact hnone b (by simp)
      simp [this]

/-- what `publishWhere` queues when the predicate does not depend on the queue itself -/
def entriesOf (P : Lc → Bool) (em : List (Nat × List Lc)) : List (Nat × Lc) :=
  em.flatMap fun p => (p.2.reverse.filter P).map fun lc => (lc.id, lc)

theorem publishWhere_eq (P : St → Lc → Bool) (hP : ∀ (x : St) (pend : List (Nat × Lc)) lc, P { x with pending := pend } lc = P x lc)
    (s : St) : s.publishWhere P = { s with pending := s.pending ++ entriesOf (P s) s.ecuMap } := by
  have inner : ∀ (l : List Lc) (x : St), l.foldl (St.publishIf P) x
      = { x with pending := x.pending ++ (l.filter (P x)).map fun lc => (lc.id, lc) } := by
    intro l
    induction l with
    | nil => intro x; simp
    | cons a t ih =>
      intro x
      simp only [List.foldl_cons]
      rw [ih]
      unfold St.publishIf
      by_cases ha : P x a = true
      · simp only [ha, if_true, St.publish]
        have hPe : P { x with pending := x.pending ++ [(a.id, a)] } = P x := by
          funext lc; exact hP x _ lc
        rw [hPe]
        simp [List.filter_cons, ha]
      · have ha' : P x a = false := by simpa using ha
        simp [ha', List.filter_cons]
  have outer : ∀ (ps : List (Nat × List Lc)) (x : St), ps.foldl (St.publishLcs P) x
      = { x with pending := x.pending ++ entriesOf (P x) ps } := by
    intro ps
    induction ps with
    | nil => intro x; simp [entriesOf]
    | cons p t ih =>
      intro x
      simp only [List.foldl_cons]
      rw [ih]
      unfold St.publishLcs
      rw [inner]
      have hPe : P { x with pending := x.pending ++ List.map (fun lc => (lc.id, lc)) (List.filter (P x) p.2.reverse) } = P x := by
        funext lc; exact hP x _ lc
      rw [hPe]
      simp [entriesOf, List.append_assoc]
  unfold St.publishWhere
  exact outer _ _

theorem mem_entriesOf (P : Lc → Bool) (em : List (Nat × List Lc)) (kv : Nat × Lc) :
    kv ∈ entriesOf P em ↔ kv.1 = kv.2.id ∧ Live em kv.2 ∧ P kv.2 = true := by
  unfold entriesOf Live
  simp only [List.mem_flatMap, List.mem_map, List.mem_filter, List.mem_reverse]
  constructor
  · rintro ⟨p, hp, lc, ⟨hlc, hP⟩, rfl⟩
    exact ⟨rfl, ⟨p, hp, hlc⟩, hP⟩
  · rintro ⟨h1, ⟨p, hp, hlc⟩, hP⟩
    exact ⟨p, hp, kv.2, ⟨hlc, hP⟩, by cases kv; simp at h1; simp [h1]⟩

theorem flushOne_fold_core (l : List Msg) : ∀ (x : St),
    (l.foldl St.flushOne x).published = x.published ∧ (l.foldl St.flushOne x).ecuMap = x.ecuMap ∧
    (l.foldl St.flushOne x).pending = x.pending ∧
    (∀ i ∈ x.toRefresh, i ∈ (l.foldl St.flushOne x).toRefresh) ∧ (∀ m ∈ l, m.lc ∈ (l.foldl St.flushOne x).toRefresh) := by
  induction l with
  | nil => intro x; exact ⟨rfl, rfl, rfl, fun i hi => hi, by intro m hm; cases hm⟩
  | cons m t ih =>
    intro x
    simp only [List.foldl_cons]
    obtain ⟨a, b, c⟩ := mark_core x m.lc
    have hp : (x.mark m.lc).pending = x.pending := by unfold St.mark; split <;> rfl
    obtain ⟨r1, r2, r3, r4, r5⟩ := ih (St.flushOne x m)
    have e1 : (St.flushOne x m).published = x.published := a
    have e2 : (St.flushOne x m).ecuMap = x.ecuMap := b
    have e3 : (St.flushOne x m).pending = x.pending := hp
    have e4 : (St.flushOne x m).toRefresh = (x.mark m.lc).toRefresh := rfl
    refine ⟨r1.trans e1, r2.trans e2, r3.trans e3, ?_, ?_⟩
    · intro i hi; apply r4; rw [e4]; exact mark_mono x _ i hi
    · intro m' hm'
      rcases List.mem_cons.mp hm' with rfl | h
      · apply r4; rw [e4]; exact mark_mem x _
      · exact r5 m' h

/-- **the table at the end**: every live lifecycle is listed with its current value, every listed entry is a live lifecycle
    under its own id, and no id is listed twice -/
theorem finish_final (s : St) (hi : LInv s) (h : FInv s s.bufMsgs) (hnp : s.panicked = false) :
    (∀ lc, Live s.finish.ecuMap lc → assocGet lc.id s.finish.published = some lc) ∧
    (∀ kv ∈ s.finish.published, Live s.finish.ecuMap kv.2 ∧ kv.2.id = kv.1) ∧
    (keys s.finish.published).Nodup := by
  unfold St.finish
  simp only [hnp, Bool.false_eq_true, if_false]
  -- first publication: the buffered lifecycles
  rw [publishWhere_eq (fun s lc => s.bufLcs.contains lc.id) (fun _ _ _ => rfl) s]
  generalize hP1 : entriesOf (fun lc => s.bufLcs.contains lc.id) s.ecuMap = P1
  generalize hs1 : (St.refresh { s with pending := s.pending ++ P1 }) = s1
  have s1e : s1.ecuMap = s.ecuMap := by subst hs1; rfl
  have s1m : s1.bufMsgs = s.bufMsgs := by subst hs1; rfl
  have s1t : s1.toRefresh = s.toRefresh := by subst hs1; rfl
  have s1p : s1.pending = [] := by subst hs1; rfl
  have s1pub : s1.published = applyPending s.published P1 := by
    subst hs1; rw [refresh_eq]; show applyPending s.published (s.pending ++ P1) = _; rw [hi.pend]; rfl
  -- the flush
  obtain ⟨f1, f2, f3, f4, f5⟩ := flushOne_fold_core s1.bufMsgs s1
  generalize hs2 : ({ s1.bufMsgs.foldl St.flushOne s1 with bufMsgs := [] } : St) = s2
  have s2e : s2.ecuMap = s.ecuMap := by subst hs2; exact f2.trans s1e
  have s2pub : s2.published = applyPending s.published P1 := by subst hs2; exact f1.trans s1pub
  have s2p : s2.pending = [] := by subst hs2; exact f3.trans s1p
  have s2t1 : ∀ i ∈ s.toRefresh, i ∈ s2.toRefresh := by subst hs2; intro i hi'; exact f4 i (by rw [s1t]; exact hi')
  have s2t2 : ∀ m ∈ s.bufMsgs, m.lc ∈ s2.toRefresh := by subst hs2; intro m hm; exact f5 m (by rw [s1m]; exact hm)
  -- second publication: everything marked
  rw [publishWhere_eq (fun s lc => s.toRefresh.contains lc.id) (fun _ _ _ => rfl) s2]
  generalize hP3 : entriesOf (fun lc => s2.toRefresh.contains lc.id) s2.ecuMap = P3
  have hfin_e : (St.refresh { s2 with pending := s2.pending ++ P3 }).ecuMap = s.ecuMap := s2e
  have hfin_p : (St.refresh { s2 with pending := s2.pending ++ P3 }).published
      = applyPending (applyPending s.published P1) P3 := by
    rw [refresh_eq]; show applyPending s2.published (s2.pending ++ P3) = _; rw [s2p, s2pub]; rfl
  -- entries of both publications are live lifecycles under their own id, one per id
  have memP1 : ∀ kv, kv ∈ P1 ↔ kv.1 = kv.2.id ∧ Live s.ecuMap kv.2 ∧ s.bufLcs.contains kv.2.id = true := by
    intro kv; rw [← hP1]; exact mem_entriesOf _ _ kv
  have memP3 : ∀ kv, kv ∈ P3 ↔ kv.1 = kv.2.id ∧ Live s.ecuMap kv.2 ∧ s2.toRefresh.contains kv.2.id = true := by
    intro kv; rw [← hP3, s2e]; exact mem_entriesOf _ _ kv
  have uniq1 : ∀ k v w, (k, v) ∈ P1 → (k, w) ∈ P1 → v = w := by
    intro k v w hv hw
    obtain ⟨a1, a2, _⟩ := (memP1 _).mp hv
    obtain ⟨b1, b2, _⟩ := (memP1 _).mp hw
    exact live_id_unique _ _ hi.map v w a2 b2 (a1.symm.trans b1)
  have uniq3 : ∀ k v w, (k, v) ∈ P3 → (k, w) ∈ P3 → v = w := by
    intro k v w hv hw
    obtain ⟨a1, a2, _⟩ := (memP3 _).mp hv
    obtain ⟨b1, b2, _⟩ := (memP3 _).mp hw
    exact live_id_unique _ _ hi.map v w a2 b2 (a1.symm.trans b1)
  have hk1 : (keys (applyPending s.published P1)).Nodup := applyPending_keys P1 _ h.keys
  have hk3 : (keys (applyPending (applyPending s.published P1) P3)).Nodup := applyPending_keys P3 _ hk1
  -- T1
  have T1 : ∀ lc, Live s.ecuMap lc → assocGet lc.id (applyPending (applyPending s.published P1) P3) = some lc := by
    intro lc hl
    obtain ⟨g3a, g3b⟩ := applyPending_get P3 lc.id (applyPending s.published P1) (uniq3 lc.id)
    obtain ⟨g1a, g1b⟩ := applyPending_get P1 lc.id s.published (uniq1 lc.id)
    by_cases hm : s2.toRefresh.contains lc.id = true
    · exact g3a lc ((memP3 _).mpr ⟨rfl, hl, hm⟩)
    · have hnone3 : ∀ v, (lc.id, v) ∉ P3 := by
        intro v hv
        obtain ⟨a1, _, a3⟩ := (memP3 _).mp hv
        simp only at a1
        rw [← a1] at a3; exact hm a3
      rw [g3b hnone3]
      by_cases hb : s.bufLcs.contains lc.id = true
      · exact g1a lc ((memP1 _).mpr ⟨rfl, hl, hb⟩)
      · have hnone1 : ∀ v, (lc.id, v) ∉ P1 := by
          intro v hv
          obtain ⟨a1, _, a3⟩ := (memP1 _).mp hv
          simp only at a1
          rw [← a1] at a3; exact hb a3
        rw [g1b hnone1]
        have hnb : lc.id ∉ s.bufLcs := by simpa using hb
        rcases h.fresh lc hl hnb with h1 | h1 | ⟨m, hm', hml⟩
        · exact h1
        · exact absurd (by simpa using s2t1 _ h1) hm
        · exact absurd (by simpa using (hml ▸ s2t2 m hm')) hm
  refine ⟨?_, ?_, ?_⟩
  · intro lc hl
    have hl' : Live (St.refresh { s2 with pending := s2.pending ++ P3 }).ecuMap lc := hl
    rw [hfin_e] at hl'
    show assocGet lc.id (St.refresh { s2 with pending := s2.pending ++ P3 }).published = some lc
    rw [hfin_p]; exact T1 lc hl'
  · intro kv hkv
    have hkv' : kv ∈ (St.refresh { s2 with pending := s2.pending ++ P3 }).published := hkv
    rw [hfin_p] at hkv'
    show Live (St.refresh { s2 with pending := s2.pending ++ P3 }).ecuMap kv.2 ∧ kv.2.id = kv.1
    have hkv := hkv'
    -- the key is the id of a live lifecycle
    have hkey : ∃ lc, Live s.ecuMap lc ∧ lc.id = kv.1 := by
      rcases applyPending_mem P3 _ hk1 kv hkv with h1 | h1
      · rcases applyPending_mem P1 _ h.keys kv h1 with h2 | h2
        · exact (h.pubLive kv h2).1
        · obtain ⟨a1, a2, _⟩ := (memP1 _).mp h2; exact ⟨kv.2, a2, a1.symm⟩
      · obtain ⟨a1, a2, _⟩ := (memP3 _).mp h1; exact ⟨kv.2, a2, a1.symm⟩
    obtain ⟨lc, hl, hid⟩ := hkey
    have hget := T1 lc hl
    have hget2 : assocGet kv.1 (applyPending (applyPending s.published P1) P3) = some kv.2 :=
      mem_assocGet kv.1 kv.2 _ hk3 (by cases kv; exact hkv)
    rw [hid, hget2] at hget
    have : kv.2 = lc := by simpa using hget
    rw [hfin_e, this]
    exact ⟨hl, hid⟩
  · show (keys (St.refresh { s2 with pending := s2.pending ++ P3 }).published).Nodup
    rw [hfin_p]; exact hk3

end Lcm
