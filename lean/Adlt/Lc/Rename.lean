import Adlt.Lc.Model
import Adlt.Lc.Spec
/-! C19 (lifecycle part): the lifecycle detector commutes with every injective renaming of the ECU ids. Since the
    anonymiser maps ECU ids injectively (C19_anon_stream_ecu) and leaves all times untouched, the lifecycles detected on
    an anonymised trace are the lifecycles of the original with renamed ECUs: same ids, boundaries and message counts. -/
namespace Lcm

variable (f : Nat → Nat)

def Msg.rn (m : Msg) : Msg := { m with ecu := f m.ecu }
def Lc.rn (l : Lc) : Lc := { l with ecu := f l.ecu }
def OutMsg.rn (o : OutMsg) : OutMsg := { o with m := o.m.rn f }
def rnE (p : Nat × List Lc) : Nat × List Lc := (f p.1, p.2.map (Lc.rn f))
def rnP (p : Nat × Lc) : Nat × Lc := (p.1, p.2.rn f)

def St.rn (s : St) : St :=
  { s with ecuMap := s.ecuMap.map (rnE f), bufMsgs := s.bufMsgs.map (Msg.rn f), pending := s.pending.map (rnP f),
           published := s.published.map (rnP f), out := s.out.map (OutMsg.rn f) }

/-! ### per lifecycle: the ECU is only copied -/

@[simp] theorem Msg.rn_tsUs (m : Msg) : (m.rn f).tsUs = m.tsUs := rfl
@[simp] theorem Lc.rn_endTime (l : Lc) : (l.rn f).endTime = l.endTime := rfl
@[simp] theorem Lc.rn_slight (l : Lc) (x : Nat) : (l.rn f).slightlyOverlapping x = l.slightlyOverlapping x := rfl

theorem new_rn (id : Nat) (m : Msg) : Lc.new id (m.rn f) = ((Lc.new id m).1.rn f, (Lc.new id m).2.rn f) := rfl

theorem classify_rn (l : Lc) (m : Msg) : (l.rn f).classify (m.rn f) = l.classify m := rfl

theorem absorb_rn (l : Lc) (m : Msg) : (l.rn f).absorb (m.rn f) = (l.absorb m).rn f := rfl

theorem apply_rn (l : Lc) (id : Nat) (m : Msg) (u : Upd) :
    (l.rn f).apply id (m.rn f) u = (((l.apply id m u).1).rn f, ((l.apply id m u).2.1).rn f, ((l.apply id m u).2.2).map (Lc.rn f)) := by
  cases u with
  | ctrl => rfl
  | ignoreTs => rfl
  | belongs => rfl
  | fresh r => cases r <;> rfl

theorem update_rn (l : Lc) (id : Nat) (m : Msg) :
    (l.rn f).update id (m.rn f) = (((l.update id m).1).rn f, ((l.update id m).2.1).rn f, ((l.update id m).2.2).map (Lc.rn f)) := by
  unfold Lc.update
  rw [classify_rn, apply_rn]

theorem merge_rn (l o : Lc) : (l.rn f).merge (o.rn f) = (l.merge o).rn f := by
  by_cases h1 : o.maxTs > l.maxTs <;> by_cases h2 : o.minTs < l.minTs <;> by_cases h3 : o.start < l.start <;>
    by_cases h4 : o.lastRecv > l.lastRecv <;> simp [Lc.merge, Lc.rn, h1, h2, h3, h4]

/-! ### association lists -/

section
variable {f}
variable (hf : ∀ a b, f a = f b → a = b)
include hf

theorem beq_f (a b : Nat) : (f a == f b) = (a == b) := by
  by_cases h : a = b
  · subst h; simp
  · have h1 : f a ≠ f b := fun hc => h (hf a b hc)
    have e1 : (f a == f b) = false := by rw [beq_eq_false_iff_ne]; exact h1
    have e2 : (a == b) = false := by rw [beq_eq_false_iff_ne]; exact h
    rw [e1, e2]

theorem assocGet_rnE (k : Nat) (l : List (Nat × List Lc)) :
    assocGet (f k) (l.map (rnE f)) = (assocGet k l).map (List.map (Lc.rn f)) := by
  induction l with
  | nil => rfl
  | cons p t ih =>
    obtain ⟨k', v'⟩ := p
    show (if (f k' == f k) then some (v'.map (Lc.rn f)) else assocGet (f k) (t.map (rnE f))) =
      (if (k' == k) then some v' else assocGet k t).map (List.map (Lc.rn f))
    rw [beq_f hf]
    by_cases h : (k' == k) = true
    · rw [if_pos h, if_pos h]; rfl
    · rw [if_neg h, if_neg h]; exact ih

theorem assocSet_rnE (k : Nat) (v : List Lc) (l : List (Nat × List Lc)) :
    assocSet (f k) (v.map (Lc.rn f)) (l.map (rnE f)) = (assocSet k v l).map (rnE f) := by
  induction l with
  | nil => rfl
  | cons p t ih =>
    obtain ⟨k', v'⟩ := p
    show (if (f k' == f k) then (f k, v.map (Lc.rn f)) :: t.map (rnE f) else (f k', v'.map (Lc.rn f)) :: assocSet (f k) (v.map (Lc.rn f)) (t.map (rnE f))) =
      (if (k' == k) then (k, v) :: t else (k', v') :: assocSet k v t).map (rnE f)
    rw [beq_f hf]
    by_cases h : (k' == k) = true
    · rw [if_pos h, if_pos h]; rfl
    · rw [if_neg h, if_neg h, ih]; rfl

end

theorem assocGet_rnP (k : Nat) (l : List (Nat × Lc)) : assocGet k (l.map (rnP f)) = (assocGet k l).map (Lc.rn f) := by
  induction l with
  | nil => rfl
  | cons p t ih =>
    obtain ⟨k', v'⟩ := p
    show (if (k' == k) then some (v'.rn f) else assocGet k (t.map (rnP f))) = (if (k' == k) then some v' else assocGet k t).map (Lc.rn f)
    by_cases h : (k' == k) = true
    · rw [if_pos h, if_pos h]; rfl
    · rw [if_neg h, if_neg h]; exact ih

theorem assocSet_rnP (k : Nat) (v : Lc) (l : List (Nat × Lc)) :
    assocSet k (v.rn f) (l.map (rnP f)) = (assocSet k v l).map (rnP f) := by
  induction l with
  | nil => rfl
  | cons p t ih =>
    obtain ⟨k', v'⟩ := p
    show (if (k' == k) then (k, v.rn f) :: t.map (rnP f) else (k', v'.rn f) :: assocSet k (v.rn f) (t.map (rnP f))) =
      (if (k' == k) then (k, v) :: t else (k', v') :: assocSet k v t).map (rnP f)
    by_cases h : (k' == k) = true
    · rw [if_pos h, if_pos h]; rfl
    · rw [if_neg h, if_neg h, ih]; rfl

theorem assocErase_rnP (k : Nat) (l : List (Nat × Lc)) : assocErase k (l.map (rnP f)) = (assocErase k l).map (rnP f) := by
  induction l with
  | nil => rfl
  | cons p t ih =>
    obtain ⟨k', v'⟩ := p
    show (if (k' == k) then assocErase k (t.map (rnP f)) else (k', v'.rn f) :: assocErase k (t.map (rnP f))) =
      (if (k' == k) then assocErase k t else (k', v') :: assocErase k t).map (rnP f)
    by_cases h : (k' == k) = true
    · rw [if_pos h, if_pos h]; exact ih
    · rw [if_neg h, if_neg h, ih]; rfl

/-! ### state operations -/

def visOf (s : St) (m : Msg) : Bool :=
  match assocGet m.lc s.published with
  | some l => l.ecu == m.ecu
  | none => false


@[simp] theorem rn_nextId (s : St) : (s.rn f).nextId = s.nextId := rfl
@[simp] theorem rn_bufLcs (s : St) : (s.rn f).bufLcs = s.bufLcs := rfl
@[simp] theorem rn_toRefresh (s : St) : (s.rn f).toRefresh = s.toRefresh := rfl
@[simp] theorem rn_nextCheck (s : St) : (s.rn f).nextCheck = s.nextCheck := rfl
@[simp] theorem rn_panicked (s : St) : (s.rn f).panicked = s.panicked := rfl
@[simp] theorem rn_bufMsgs (s : St) : (s.rn f).bufMsgs = s.bufMsgs.map (Msg.rn f) := rfl
@[simp] theorem rn_ecuMap (s : St) : (s.rn f).ecuMap = s.ecuMap.map (rnE f) := rfl
@[simp] theorem rn_published (s : St) : (s.rn f).published = s.published.map (rnP f) := rfl
@[simp] theorem rn_pending (s : St) : (s.rn f).pending = s.pending.map (rnP f) := rfl
@[simp] theorem rn_out (s : St) : (s.rn f).out = s.out.map (OutMsg.rn f) := rfl

theorem mark_rn (s : St) (i : Nat) : (s.rn f).mark i = (s.mark i).rn f := by
  by_cases h : s.toRefresh.contains i = true
  · have h' : (s.rn f).toRefresh.contains i = true := h
    unfold St.mark; rw [if_pos h', if_pos h]
  · have h' : ¬ (s.rn f).toRefresh.contains i = true := h
    unfold St.mark; rw [if_neg h', if_neg h]; rfl

theorem publish_rn (s : St) (l : Lc) : (s.rn f).publish (l.rn f) = (s.publish l).rn f := by
  simp [St.publish, St.rn, rnP, Lc.rn]

theorem refresh_fold_rn (P : List (Nat × Lc)) : ∀ (pub : List (Nat × Lc)),
    (P.map (rnP f)).foldl (fun acc (kv : Nat × Lc) => assocSet kv.1 kv.2 acc) (pub.map (rnP f)) =
    (P.foldl (fun acc (kv : Nat × Lc) => assocSet kv.1 kv.2 acc) pub).map (rnP f) := by
  induction P with
  | nil => intro pub; rfl
  | cons kv t ih =>
    intro pub
    simp only [List.map_cons, List.foldl_cons]
    have : assocSet (rnP f kv).1 (rnP f kv).2 (pub.map (rnP f)) = (assocSet kv.1 kv.2 pub).map (rnP f) := assocSet_rnP f kv.1 kv.2 pub
    rw [this]; exact ih _

theorem refresh_rn (s : St) : (s.rn f).refresh = s.refresh.rn f := by
  unfold St.refresh
  have h := refresh_fold_rn f s.pending s.published
  simp only [St.rn, List.map_nil]
  congr 1

section
variable {f}
variable (hf : ∀ a b, f a = f b → a = b)
include hf

omit hf in
theorem emit_eq (s : St) (m : Msg) : s.emit m = { s with out := { m := m, visible := visOf s m } :: s.out } := rfl

theorem visOf_rn (s : St) (m : Msg) : visOf (s.rn f) (m.rn f) = visOf s m := by
  unfold visOf
  show (match assocGet m.lc (s.published.map (rnP f)) with | some l => l.ecu == f m.ecu | none => false) = _
  rw [assocGet_rnP]
  cases assocGet m.lc s.published with
  | none => rfl
  | some l => exact beq_f hf l.ecu m.ecu

theorem emit_rn (s : St) (m : Msg) : (s.rn f).emit (m.rn f) = (s.emit m).rn f := by
  rw [emit_eq, emit_eq, visOf_rn hf]
  rfl

theorem flushAll_go_rn (l : List Msg) : ∀ (s : St) (last : Nat),
    St.flushAll.go (s.rn f) last (l.map (Msg.rn f)) = (St.flushAll.go s last l).rn f := by
  induction l with
  | nil => intro s last; rfl
  | cons m t ih =>
    intro s last
    simp only [List.map_cons, St.flushAll.go]
    have hm : (if (m.rn f).lc != last then (s.rn f).mark (m.rn f).lc else s.rn f) = (if m.lc != last then s.mark m.lc else s).rn f := by
      show (if m.lc != last then (s.rn f).mark m.lc else s.rn f) = _
      by_cases h : (m.lc != last) = true
      · rw [if_pos h, if_pos h, mark_rn]
      · rw [if_neg h, if_neg h]
    rw [hm, emit_rn hf]
    exact ih _ _

theorem flushAll_rn (s : St) : (s.rn f).flushAll = s.flushAll.rn f := by
  unfold St.flushAll
  exact flushAll_go_rn hf s.bufMsgs s 0

theorem release_go_rn (l : List Msg) : ∀ (s : St) (prune : Nat),
    St.release.go (s.rn f) prune (l.map (Msg.rn f)) = (St.release.go s prune l).rn f := by
  induction l with
  | nil => intro s prune; rfl
  | cons m t ih =>
    intro s prune
    simp only [List.map_cons, St.release.go]
    have e1 : (m.rn f).lc = m.lc := rfl
    rw [e1]
    by_cases h1 : (m.lc == prune) = true
    · rw [if_pos h1, if_pos h1, emit_rn hf]; exact ih _ _
    · rw [if_neg h1, if_neg h1]
      have e2 : (s.rn f).bufLcs = s.bufLcs := rfl
      rw [e2]
      by_cases h2 : (!s.bufLcs.contains m.lc) = true
      · rw [if_pos h2, if_pos h2, mark_rn, emit_rn hf]; exact ih _ _
      · rw [if_neg h2, if_neg h2]; rfl

theorem release_rn (s : St) (id : Nat) : (s.rn f).release id = (s.release id).rn f := by
  unfold St.release
  exact release_go_rn hf s.bufMsgs s id

theorem confirmLc_rn (s : St) (m : Msg) (x : Nat) (lc : Lc) :
    (s.rn f).confirmLc (m.rn f) x (lc.rn f) = (s.confirmLc m x lc).rn f := by
  unfold St.confirmLc
  have e2 : (s.rn f).bufLcs = s.bufLcs := rfl
  have e3 : (lc.rn f).id = lc.id := rfl
  rw [e2, e3]
  by_cases h1 : s.bufLcs.isEmpty = true
  · rw [if_pos h1, if_pos h1]
  · rw [if_neg h1, if_neg h1]
    by_cases h2 : (!s.bufLcs.contains lc.id) = true
    · rw [if_pos h2, if_pos h2]
    · rw [if_neg h2, if_neg h2]
      have hc : (((lc.rn f).start < x && (lc.rn f).ecu == (m.rn f).ecu) || (lc.rn f).maxTs - (lc.rn f).minTs > maxDelay
          || (m.rn f).recv - maxDelay > (lc.rn f).endTime) =
          ((lc.start < x && lc.ecu == m.ecu) || lc.maxTs - lc.minTs > maxDelay || m.recv - maxDelay > lc.endTime) := by
        show ((lc.start < x && f lc.ecu == f m.ecu) || lc.maxTs - lc.minTs > maxDelay || m.recv - maxDelay > lc.endTime) = _
        rw [beq_f hf]
      rw [hc]
      by_cases h3 : ((lc.start < x && lc.ecu == m.ecu) || lc.maxTs - lc.minTs > maxDelay || m.recv - maxDelay > lc.endTime) = true
      · rw [if_pos h3, if_pos h3]
        have e4 : ((({ s.rn f with bufLcs := s.bufLcs.erase lc.id } : St).publish (lc.rn f)).refresh) =
            ((({ s with bufLcs := s.bufLcs.erase lc.id } : St).publish lc).refresh).rn f := by
          have : ({ s.rn f with bufLcs := s.bufLcs.erase lc.id } : St) = ({ s with bufLcs := s.bufLcs.erase lc.id } : St).rn f := rfl
          rw [this, publish_rn, refresh_rn]
        show St.release ((({ s.rn f with bufLcs := s.bufLcs.erase lc.id } : St).publish (lc.rn f)).refresh) lc.id = _
        rw [e4, release_rn hf]
      · rw [if_neg h3, if_neg h3]

theorem confirm_inner_rn (m : Msg) (x : Nat) (lcs : List Lc) : ∀ (s : St),
    (lcs.map (Lc.rn f)).foldl (fun s lc => s.confirmLc (m.rn f) x lc) (s.rn f) = (lcs.foldl (fun s lc => s.confirmLc m x lc) s).rn f := by
  induction lcs with
  | nil => intro s; rfl
  | cons a t ih =>
    intro s
    simp only [List.map_cons, List.foldl_cons]
    rw [confirmLc_rn hf]
    exact ih _

theorem confirm_outer_rn (m : Msg) (x : Nat) (ps : List (Nat × List Lc)) : ∀ (s : St),
    (ps.map (rnE f)).foldl (fun s (p : Nat × List Lc) => p.2.reverse.foldl (fun s lc => s.confirmLc (m.rn f) x lc) s) (s.rn f) =
    (ps.foldl (fun s (p : Nat × List Lc) => p.2.reverse.foldl (fun s lc => s.confirmLc m x lc) s) s).rn f := by
  induction ps with
  | nil => intro s; rfl
  | cons p t ih =>
    intro s
    simp only [List.map_cons, List.foldl_cons]
    have : (rnE f p).2.reverse = (p.2.reverse).map (Lc.rn f) := by simp [rnE]
    rw [this, confirm_inner_rn hf]
    exact ih _

theorem confirm_rn (s : St) (m : Msg) : (s.rn f).confirm (m.rn f) = (s.confirm m).rn f := by
  unfold St.confirm
  have e1 : (s.rn f).nextCheck = s.nextCheck := rfl
  have e2 : (m.rn f).recv = m.recv := rfl
  have e3 : (m.rn f).tsUs = m.tsUs := rfl
  rw [e1, e2, e3]
  by_cases h1 : s.nextCheck < m.recv
  · rw [if_pos h1, if_pos h1]
    by_cases h2 : m.recv > m.tsUs + maxDelay
    · rw [if_pos h2, if_pos h2]
      have := confirm_outer_rn hf m (m.recv - (m.tsUs + maxDelay)) s.ecuMap s
      show ({ (List.foldl (fun s (x : Nat × List Lc) => List.foldl (fun s lc => s.confirmLc (m.rn f) (m.recv - (m.tsUs + maxDelay)) lc) s x.2.reverse) (s.rn f) (s.ecuMap.map (rnE f))) with nextCheck := m.recv + usPerSec } : St) = _
      rw [this]; rfl
    · rw [if_neg h2, if_neg h2]; rfl
  · rw [if_neg h1, if_neg h1]

end

/-! ### assignment -/

theorem relabel_rn (a b : Nat) (ms : List Msg) : relabel a b (ms.map (Msg.rn f)) = (relabel a b ms).map (Msg.rn f) := by
  unfold relabel
  rw [List.map_map, List.map_map]
  apply List.map_congr_left
  intro m _
  show (if (m.rn f).lc == a then { m.rn f with lc := b } else m.rn f) = (if m.lc == a then { m with lc := b } else m).rn f
  have : (m.rn f).lc = m.lc := rfl
  rw [this]
  by_cases h : (m.lc == a) = true
  · rw [if_pos h, if_pos h]; rfl
  · rw [if_neg h, if_neg h]

section
variable {f}
variable (hf : ∀ a b, f a = f b → a = b)
include hf

theorem setEcu_rn (s : St) (e : Nat) (lcs : List Lc) : setEcu (s.rn f) (f e) (lcs.map (Lc.rn f)) = (setEcu s e lcs).rn f := by
  unfold setEcu
  have := assocSet_rnE hf e lcs s.ecuMap
  show ({ s.rn f with ecuMap := assocSet (f e) (lcs.map (Lc.rn f)) (s.ecuMap.map (rnE f)) } : St) = _
  rw [this]; rfl

theorem flushIfDrained_rn (s : St) : (s.rn f).flushIfDrained = s.flushIfDrained.rn f := by
  unfold St.flushIfDrained
  have e1 : ((s.rn f).bufLcs.isEmpty && !(s.rn f).bufMsgs.isEmpty) = (s.bufLcs.isEmpty && !s.bufMsgs.isEmpty) := by
    show (s.bufLcs.isEmpty && !(s.bufMsgs.map (Msg.rn f)).isEmpty) = _
    rw [List.isEmpty_map]
  rw [e1]
  by_cases h : (s.bufLcs.isEmpty && !s.bufMsgs.isEmpty) = true
  · rw [if_pos h, if_pos h, flushAll_rn hf]
  · rw [if_neg h, if_neg h]

omit hf in
theorem unpublishIfConfirmed_rn (s : St) (id : Nat) : (s.rn f).unpublishIfConfirmed id = (s.unpublishIfConfirmed id).rn f := by
  unfold St.unpublishIfConfirmed
  have e1 : (s.rn f).bufLcs = s.bufLcs := rfl
  rw [e1]
  by_cases h : s.bufLcs.contains id = true
  · rw [if_pos h, if_pos h]
  · rw [if_neg h, if_neg h, refresh_rn]
    show ({ s.refresh.rn f with published := assocErase id (s.refresh.published.map (rnP f)) } : St) = _
    rw [assocErase_rnP]; rfl

theorem mergeTail_rn (s : St) (a b e : Nat) (lcs : List Lc) :
    (s.rn f).mergeTail a b (f e) (lcs.map (Lc.rn f)) = (s.mergeTail a b e lcs).rn f := by
  unfold St.mergeTail
  simp only []
  have e1 : ({ s.rn f with bufMsgs := relabel a b (s.rn f).bufMsgs } : St) = ({ s with bufMsgs := relabel a b s.bufMsgs } : St).rn f := by
    show ({ s.rn f with bufMsgs := relabel a b (s.bufMsgs.map (Msg.rn f)) } : St) = _
    rw [relabel_rn]; rfl
  rw [e1, unpublishIfConfirmed_rn]
  generalize St.unpublishIfConfirmed { s with bufMsgs := relabel a b s.bufMsgs } a = s2
  have e2 : ({ s2.rn f with bufLcs := (s2.rn f).bufLcs.erase a } : St) = ({ s2 with bufLcs := s2.bufLcs.erase a } : St).rn f := rfl
  rw [e2, setEcu_rn hf, flushIfDrained_rn hf]

theorem maybeMerge_rn (s : St) (m' : Msg) (lc2 prev : Lc) (rr : List Lc) :
    (s.rn f).maybeMerge (m'.rn f) (lc2.rn f) (prev.rn f) (rr.map (Lc.rn f)) =
    (((s.maybeMerge m' lc2 prev rr).1).rn f, ((s.maybeMerge m' lc2 prev rr).2).rn f) := by
  unfold St.maybeMerge
  have c1 : ((lc2.rn f).start ≤ (prev.rn f).endTime && (lc2.rn f).resume.isNone && !(prev.rn f).slightlyOverlapping (lc2.rn f).start) =
      (lc2.start ≤ prev.endTime && lc2.resume.isNone && !prev.slightlyOverlapping lc2.start) := rfl
  have c2 : (s.rn f).bufLcs.contains (prev.rn f).id = s.bufLcs.contains prev.id := rfl
  have c3 : (((s.rn f).bufMsgs.filter (fun x => x.lc == (lc2.rn f).id)).length + 1 == (lc2.rn f).nrMsgs) =
      ((s.bufMsgs.filter (fun x => x.lc == lc2.id)).length + 1 == lc2.nrMsgs) := by
    show (((s.bufMsgs.map (Msg.rn f)).filter (fun x => x.lc == lc2.id)).length + 1 == lc2.nrMsgs) = _
    rw [List.filter_map, List.length_map]; rfl
  have hl1 : ((prev.rn f).merge (lc2.rn f) :: rr.map (Lc.rn f)).reverse = ((prev.merge lc2 :: rr).reverse).map (Lc.rn f) := by
    rw [merge_rn]; simp
  have hl2 : (lc2.rn f :: prev.rn f :: rr.map (Lc.rn f)).reverse = ((lc2 :: prev :: rr).reverse).map (Lc.rn f) := by simp
  have hm : ({ m'.rn f with lc := (prev.rn f).id } : Msg) = ({ m' with lc := prev.id } : Msg).rn f := rfl
  have he : (m'.rn f).ecu = f m'.ecu := rfl
  have hi : (lc2.rn f).id = lc2.id := rfl
  have hp : (prev.rn f).id = prev.id := rfl
  rw [c1, c2, c3, hl1, hl2, hm, he, hi, hp]
  by_cases h1 : (lc2.start ≤ prev.endTime && lc2.resume.isNone && !prev.slightlyOverlapping lc2.start) = true
  · rw [if_pos h1, if_pos h1]
    by_cases h2 : s.bufLcs.contains prev.id = true
    · rw [if_pos h2, if_pos h2, mergeTail_rn hf]
    · rw [if_neg h2, if_neg h2]
      by_cases h3 : ((s.bufMsgs.filter (fun x => x.lc == lc2.id)).length + 1 == lc2.nrMsgs) = true
      · rw [if_pos h3, if_pos h3, mergeTail_rn hf]
      · rw [if_neg h3, if_neg h3, setEcu_rn hf]
  · rw [if_neg h1, if_neg h1, setEcu_rn hf]

end

section
variable {f}
variable (hf : ∀ a b, f a = f b → a = b)
include hf

theorem assignExisting_rn (s : St) (m : Msg) (last : Lc) (rr : List Lc) :
    (s.rn f).assignExisting (m.rn f) (last.rn f) (rr.map (Lc.rn f)) =
    (((s.assignExisting m last rr).1).rn f, ((s.assignExisting m last rr).2).rn f) := by
  unfold St.assignExisting
  simp only []
  have hu := update_rn f last s.nextId m
  have hn : (s.rn f).nextId = s.nextId := rfl
  rw [hn, hu]
  generalize last.update s.nextId m = r
  obtain ⟨r1, r2, r3⟩ := r
  cases r3 with
  | some nl =>
    show (setEcu ({ s.rn f with nextId := s.nextId + 1, bufLcs := (s.rn f).bufLcs ++ [(nl.rn f).id] } : St) (m.rn f).ecu
        ((nl.rn f :: r1.rn f :: rr.map (Lc.rn f)).reverse), r2.rn f) = _
    have e1 : ({ s.rn f with nextId := s.nextId + 1, bufLcs := (s.rn f).bufLcs ++ [(nl.rn f).id] } : St) =
        ({ s with nextId := s.nextId + 1, bufLcs := s.bufLcs ++ [nl.id] } : St).rn f := rfl
    have e2 : (nl.rn f :: r1.rn f :: rr.map (Lc.rn f)).reverse = ((nl :: r1 :: rr).reverse).map (Lc.rn f) := by simp
    have e3 : (m.rn f).ecu = f m.ecu := rfl
    rw [e1, e2, e3, setEcu_rn hf]
  | none =>
    cases rr with
    | nil =>
      show (setEcu (s.rn f) (m.rn f).ecu [r1.rn f], r2.rn f) = _
      have e3 : (m.rn f).ecu = f m.ecu := rfl
      have e2 : [r1.rn f] = [r1].map (Lc.rn f) := rfl
      rw [e3, e2, setEcu_rn hf]
    | cons prev rest =>
      show (s.rn f).maybeMerge (r2.rn f) (r1.rn f) (prev.rn f) (rest.map (Lc.rn f)) = _
      rw [maybeMerge_rn hf]

theorem assignNew_rn (s : St) (m : Msg) :
    (s.rn f).assignNew (m.rn f) = (((s.assignNew m).1).rn f, ((s.assignNew m).2).rn f) := by
  unfold St.assignNew
  simp only []
  have hn : (s.rn f).nextId = s.nextId := rfl
  rw [hn, new_rn]
  generalize Lc.new s.nextId m = r
  have e1 : ({ s.rn f with nextId := s.nextId + 1, bufLcs := (s.rn f).bufLcs ++ [(r.1.rn f).id] } : St) =
      ({ s with nextId := s.nextId + 1, bufLcs := s.bufLcs ++ [r.1.id] } : St).rn f := rfl
  have e2 : [r.1.rn f] = [r.1].map (Lc.rn f) := rfl
  have e3 : (m.rn f).ecu = f m.ecu := rfl
  show (setEcu ({ s.rn f with nextId := s.nextId + 1, bufLcs := (s.rn f).bufLcs ++ [(r.1.rn f).id] } : St) (m.rn f).ecu [r.1.rn f], r.2.rn f) = _
  rw [e1, e2, e3, setEcu_rn hf]

theorem assign_rn (s : St) (m : Msg) : (s.rn f).assign (m.rn f) = (((s.assign m).1).rn f, ((s.assign m).2).rn f) := by
  unfold St.assign
  have e1 : ((assocGet (m.rn f).ecu (s.rn f).ecuMap).getD []).reverse = (((assocGet m.ecu s.ecuMap).getD []).reverse).map (Lc.rn f) := by
    show ((assocGet (f m.ecu) (s.ecuMap.map (rnE f))).getD []).reverse = _
    rw [assocGet_rnE hf]
    cases assocGet m.ecu s.ecuMap with
    | none => rfl
    | some L => simp
  rw [e1]
  cases ((assocGet m.ecu s.ecuMap).getD []).reverse with
  | nil => exact assignNew_rn hf s m
  | cons last rr => exact assignExisting_rn hf s m last rr

theorem deliver_rn (s : St) (m : Msg) : (s.rn f).deliver (m.rn f) = (s.deliver m).rn f := by
  unfold St.deliver
  have e1 : (s.rn f).bufLcs = s.bufLcs := rfl
  rw [e1]
  by_cases h : (!s.bufLcs.isEmpty) = true
  · rw [if_pos h, if_pos h]
    show ({ s.rn f with bufMsgs := s.bufMsgs.map (Msg.rn f) ++ [m.rn f] } : St) = _
    have : s.bufMsgs.map (Msg.rn f) ++ [m.rn f] = (s.bufMsgs ++ [m]).map (Msg.rn f) := by simp
    rw [this]; rfl
  · rw [if_neg h, if_neg h]
    have : (m.rn f).lc = m.lc := rfl
    rw [this, mark_rn, emit_rn hf]

theorem step_rn (s : St) (m : Msg) : (s.rn f).step (m.rn f) = (s.step m).rn f := by
  unfold St.step
  have e1 : (s.rn f).panicked = s.panicked := rfl
  rw [e1]
  by_cases h : s.panicked = true
  · rw [if_pos h, if_pos h]
  · rw [if_neg h, if_neg h]
    simp only []
    rw [assign_rn hf]
    have e2 : ((s.assign m).1.rn f).panicked = (s.assign m).1.panicked := rfl
    simp only [e2]
    by_cases h2 : (s.assign m).1.panicked = true
    · rw [if_pos h2, if_pos h2]
    · rw [if_neg h2, if_neg h2, confirm_rn hf, deliver_rn hf]

theorem steps_rn (ms : List Msg) : ∀ (s : St), (ms.map (Msg.rn f)).foldl St.step (s.rn f) = (ms.foldl St.step s).rn f := by
  induction ms with
  | nil => intro s; rfl
  | cons m t ih =>
    intro s
    simp only [List.map_cons, List.foldl_cons]
    rw [step_rn hf]
    exact ih _

end

/-! ### the end of the stream -/

/-- a publication predicate that looks at ids and at the id lists of the state only -/
def IdOnly (P : St → Lc → Bool) : Prop := ∀ (s : St) (l : Lc), P (s.rn f) (l.rn f) = P s l

theorem publishIf_rn (P : St → Lc → Bool) (hP : IdOnly f P) (s : St) (l : Lc) :
    St.publishIf P (s.rn f) (l.rn f) = (St.publishIf P s l).rn f := by
  unfold St.publishIf
  rw [hP]
  by_cases h : P s l = true
  · rw [if_pos h, if_pos h, publish_rn]
  · rw [if_neg h, if_neg h]

theorem publishLcs_inner_rn (P : St → Lc → Bool) (hP : IdOnly f P) (lcs : List Lc) : ∀ (s : St),
    (lcs.map (Lc.rn f)).foldl (St.publishIf P) (s.rn f) = (lcs.foldl (St.publishIf P) s).rn f := by
  induction lcs with
  | nil => intro s; rfl
  | cons a t ih =>
    intro s
    simp only [List.map_cons, List.foldl_cons]
    rw [publishIf_rn f P hP]
    exact ih _

theorem publishLcs_rn (P : St → Lc → Bool) (hP : IdOnly f P) (s : St) (p : Nat × List Lc) :
    St.publishLcs P (s.rn f) (rnE f p) = (St.publishLcs P s p).rn f := by
  unfold St.publishLcs
  have : (rnE f p).2.reverse = (p.2.reverse).map (Lc.rn f) := by simp [rnE]
  rw [this]
  exact publishLcs_inner_rn f P hP _ s

theorem publishWhere_fold_rn (P : St → Lc → Bool) (hP : IdOnly f P) (ps : List (Nat × List Lc)) : ∀ (s : St),
    (ps.map (rnE f)).foldl (St.publishLcs P) (s.rn f) = (ps.foldl (St.publishLcs P) s).rn f := by
  induction ps with
  | nil => intro s; rfl
  | cons p t ih =>
    intro s
    simp only [List.map_cons, List.foldl_cons]
    rw [publishLcs_rn f P hP]
    exact ih _

theorem publishWhere_rn (P : St → Lc → Bool) (hP : IdOnly f P) (s : St) : (s.rn f).publishWhere P = (s.publishWhere P).rn f := by
  unfold St.publishWhere
  exact publishWhere_fold_rn f P hP s.ecuMap s

section
variable {f}
variable (hf : ∀ a b, f a = f b → a = b)
include hf

theorem flushOne_rn (s : St) (m : Msg) : (s.rn f).flushOne (m.rn f) = (s.flushOne m).rn f := by
  unfold St.flushOne
  have : (m.rn f).lc = m.lc := rfl
  rw [this, mark_rn, emit_rn hf]

theorem flushOne_fold_rn (l : List Msg) : ∀ (s : St), (l.map (Msg.rn f)).foldl St.flushOne (s.rn f) = (l.foldl St.flushOne s).rn f := by
  induction l with
  | nil => intro s; rfl
  | cons m t ih =>
    intro s
    simp only [List.map_cons, List.foldl_cons]
    rw [flushOne_rn hf]
    exact ih _

theorem finish_rn (s : St) : (s.rn f).finish = s.finish.rn f := by
  unfold St.finish
  have e1 : (s.rn f).panicked = s.panicked := rfl
  rw [e1]
  by_cases h : s.panicked = true
  · rw [if_pos h, if_pos h]
  · rw [if_neg h, if_neg h]
    simp only []
    have p1 : IdOnly f (fun (s : St) (lc : Lc) => s.bufLcs.contains lc.id) := fun _ _ => rfl
    have p2 : IdOnly f (fun (s : St) (lc : Lc) => s.toRefresh.contains lc.id) := fun _ _ => rfl
    rw [publishWhere_rn f _ p1, refresh_rn]
    generalize (s.publishWhere fun s lc => s.bufLcs.contains lc.id).refresh = s1
    have e2 : ({ (s1.rn f).bufMsgs.foldl St.flushOne (s1.rn f) with bufMsgs := [] } : St) =
        ({ s1.bufMsgs.foldl St.flushOne s1 with bufMsgs := [] } : St).rn f := by
      show ({ (s1.bufMsgs.map (Msg.rn f)).foldl St.flushOne (s1.rn f) with bufMsgs := [] } : St) = _
      rw [flushOne_fold_rn hf]; rfl
    rw [e2]
    generalize ({ s1.bufMsgs.foldl St.flushOne s1 with bufMsgs := [] } : St) = s2
    rw [publishWhere_rn f _ p2, refresh_rn]
    rfl

/-- **the lifecycle detector commutes with every injective renaming of the ECU ids** -/
theorem run_rn (ms : List Msg) : run (ms.map (Msg.rn f)) = (run ms).rn f := by
  unfold run
  have h0 : (({} : St).rn f) = ({} : St) := rfl
  have h1 := steps_rn hf ms {}
  rw [h0] at h1
  rw [h1, finish_rn hf]

end

/-! ### what a consumer observes -/

def OutObs.rn (o : OutObs) : OutObs := { o with m := o.m.rn f }
def TblObs.rn (t : TblObs) : TblObs := { t with ecu := f t.ecu }

theorem observe_rn (s : St) :
    observe (s.rn f) = { out := (observe s).out.map (OutObs.rn f), tbl := (observe s).tbl.map (TblObs.rn f) } := by
  unfold observe
  simp only [rn_out, rn_published, List.map_map, List.map_reverse]
  congr 1

/-! ### a renaming that is injective on the ECU ids of a stream extends to an injection of all ids -/

theorem le_sum_of_mem (l : List Nat) (a : Nat) (h : a ∈ l) : a ≤ l.sum := by
  induction l with
  | nil => cases h
  | cons x t ih =>
    simp only [List.sum_cons]
    rcases List.mem_cons.mp h with rfl | h
    · omega
    · have := ih h; omega

theorem extend_injection (S : List Nat) (g : Nat → Nat) (hg : ∀ a ∈ S, ∀ b ∈ S, g a = g b → a = b) :
    ∃ f : Nat → Nat, (∀ a b, f a = f b → a = b) ∧ ∀ a ∈ S, f a = g a := by
  refine ⟨fun x => if x ∈ S then g x else x + ((S.map g).sum + 1), ?_, ?_⟩
  · intro a b hab
    have hb : ∀ x ∈ S, g x < (S.map g).sum + 1 := by
      intro x hx
      have := le_sum_of_mem (S.map g) (g x) (List.mem_map.mpr ⟨x, hx, rfl⟩)
      omega
    simp only [] at hab
    by_cases ha : a ∈ S <;> by_cases hbS : b ∈ S
    · rw [if_pos ha, if_pos hbS] at hab; exact hg a ha b hbS hab
    · rw [if_pos ha, if_neg hbS] at hab; have := hb a ha; omega
    · rw [if_neg ha, if_pos hbS] at hab; have := hb b hbS; omega
    · rw [if_neg ha, if_neg hbS] at hab; omega
  · intro a ha
    simp only []
    rw [if_pos ha]

/-- **lifecycles of a renamed trace**: for every renaming `g` of ECU ids that is injective on the ids occurring in the stream
    there is an injection `f` of all ids that agrees with `g` on them, and the detector's whole observation - the delivered
    messages with their lifecycle ids and the final table with ids, counts, starts and ends - on the renamed stream is the
    observation on the original stream with the ECUs renamed by `f` -/
theorem observe_renamed (ms : List Msg) (g : Nat → Nat) (hg : ∀ a ∈ ms.map (·.ecu), ∀ b ∈ ms.map (·.ecu), g a = g b → a = b) :
    ∃ f : Nat → Nat, (∀ a b, f a = f b → a = b) ∧ (∀ m ∈ ms, f m.ecu = g m.ecu) ∧
      observe (run (ms.map (Msg.rn g))) =
        { out := (observe (run ms)).out.map (OutObs.rn f), tbl := (observe (run ms)).tbl.map (TblObs.rn f) } := by
  obtain ⟨f, hf, hfg⟩ := extend_injection (ms.map (·.ecu)) g hg
  have hm : ∀ m ∈ ms, f m.ecu = g m.ecu := fun m hm => hfg m.ecu (List.mem_map.mpr ⟨m, hm, rfl⟩)
  refine ⟨f, hf, hm, ?_⟩
  have : ms.map (Msg.rn g) = ms.map (Msg.rn f) := by
    apply List.map_congr_left
    intro m hmm
    show ({ m with ecu := g m.ecu } : Msg) = { m with ecu := f m.ecu }
    rw [hm m hmm]
  rw [this, run_rn hf, observe_rn]

end Lcm
