import Adlt.Lc.Sum
import Adlt.Lc.Table
import Adlt.Lc.CleanTrace
/-! C07 (listing sent by `adlt remote`): the key `Lifecycle::resume_start_time` orders every resumed lifecycle strictly behind
    the lifecycle it resumes - along whole chains of resumes, whatever the start estimates do afterwards.

    Invariant: in every per-ECU list, a lifecycle with a resume link has its origin among the *older* lifecycles of the list,
    and the link carries the origin's key (`eff`). Only the newest lifecycle of a list is ever changed, merged or followed by a
    new one, so an origin - which has a younger lifecycle behind it - never changes. -/
namespace Lcm

/-- on a list newest first -/
def RKL : List Lc → Prop
  | [] => True
  | b :: older => (∀ r, b.resume = some r → ∃ a ∈ older, a.id = r.id ∧ r.eff = a.resumeStart) ∧ RKL older

def RK (em : List (Nat × List Lc)) : Prop := ∀ e, RKL (oldList em e).reverse

theorem oldList_setEcu' (em : List (Nat × List Lc)) (e e' : Nat) (L : List Lc) :
    oldList (assocSet e L em) e' = if e' = e then L else oldList em e' := by
  unfold oldList
  rw [assocGet_assocSet]
  by_cases h : e' = e
  · rw [if_pos h, if_pos h]; rfl
  · rw [if_neg h, if_neg h]

theorem rk_set (em : List (Nat × List Lc)) (e : Nat) (L : List Lc) (h : RK em) (hL : RKL L.reverse) : RK (assocSet e L em) := by
  intro e'
  rw [oldList_setEcu']
  by_cases he : e' = e
  · rw [if_pos he]; exact hL
  · rw [if_neg he]; exact h e'

/-! ### what the update does to the resume link -/

theorem absorb_resume (l : Lc) (m : Msg) : (l.absorb m).resume = l.resume ∨ (l.absorb m).resume = none := by
  unfold Lc.absorb
  simp only []
  split
  · exact .inl rfl
  · cases l.resume with
    | none => exact .inl rfl
    | some r => simp only []; split <;> first | exact .inr rfl | exact .inl rfl

theorem apply_resume (l : Lc) (id : Nat) (m : Msg) (u : Upd) :
    match (l.apply id m u).2.2 with
    | none => (l.apply id m u).1.resume = l.resume ∨ (l.apply id m u).1.resume = none
    | some nl => (l.apply id m u).1 = l ∧
        (nl.resume = none ∨ ∃ r, nl.resume = some r ∧ r.id = l.id ∧ r.eff = l.resumeStart) := by
  cases u with
  | ctrl => exact .inl rfl
  | ignoreTs => exact .inl rfl
  | belongs => exact absorb_resume l m
  | fresh r =>
    cases r with
    | false => exact ⟨rfl, .inl rfl⟩
    | true => exact ⟨rfl, .inr ⟨_, rfl, rfl, rfl⟩⟩

theorem merge_resume (l o : Lc) : (l.merge o).resume = l.resume := by
  by_cases h1 : o.maxTs > l.maxTs <;> by_cases h2 : o.minTs < l.minTs <;> by_cases h3 : o.start < l.start <;>
    by_cases h4 : o.lastRecv > l.lastRecv <;> simp [Lc.merge, h1, h2, h3, h4]

/-! ### the invariant along the run -/

theorem assign_rk (s : St) (m : Msg) (h : RK s.ecuMap) : RK (s.assign m).1.ecuMap := by
  have hown := h m.ecu
  unfold St.assign
  split
  · rename_i hold
    unfold St.assignNew
    simp only []
    show RK (assocSet m.ecu [(Lc.new s.nextId m).1] s.ecuMap)
    apply rk_set _ _ _ h
    exact ⟨(by intro r hr; cases hr), trivial⟩
  · rename_i last restRev hold
    have ho : (oldList s.ecuMap m.ecu).reverse = last :: restRev := hold
    rw [ho] at hown
    obtain ⟨hlast, hrest⟩ := hown
    unfold St.assignExisting
    simp only []
    have ha := apply_resume last s.nextId m (last.classify m)
    have hf := (apply_facts last s.nextId m (last.classify m)).2.2.1
    have hu : last.update s.nextId m = last.apply s.nextId m (last.classify m) := rfl
    rw [← hu] at ha hf
    generalize last.update s.nextId m = r at *
    split
    · rename_i nl hnl
      rw [hnl] at ha
      obtain ⟨h1, h2⟩ := ha
      show RK (assocSet m.ecu ((nl :: r.1 :: restRev).reverse) s.ecuMap)
      apply rk_set _ _ _ h
      rw [List.reverse_reverse, h1]
      refine ⟨?_, hlast, hrest⟩
      intro r' hr'
      rcases h2 with h2 | ⟨r0, hr0, i0, e0⟩
      · rw [h2] at hr'; cases hr'
      · rw [hr0] at hr'
        have : r0 = r' := Option.some.inj hr'
        subst this
        exact ⟨last, by simp, i0.symm, e0⟩
    · rename_i hnone
      rw [hnone] at ha
      have hkeep : ∀ rr : List Lc, rr = restRev → RKL (r.1 :: rr) := by
        intro rr hrr; subst hrr
        refine ⟨?_, hrest⟩
        intro r' hr'
        rcases ha with ha | ha
        · rw [ha] at hr'; exact hlast r' hr'
        · rw [ha] at hr'; cases hr'
      cases hrr : restRev with
      | nil =>
        show RK (assocSet m.ecu [r.1] s.ecuMap)
        apply rk_set _ _ _ h
        exact hkeep [] hrr.symm
      | cons prev rest2Rev =>
        simp only []
        have hmerged : RK (assocSet m.ecu ((prev.merge r.1 :: rest2Rev).reverse) s.ecuMap) := by
          apply rk_set _ _ _ h
          rw [List.reverse_reverse]
          rw [hrr] at hrest
          refine ⟨?_, hrest.2⟩
          intro r' hr'
          rw [merge_resume] at hr'
          exact hrest.1 r' hr'
        have hkept : RK (assocSet m.ecu ((r.1 :: prev :: rest2Rev).reverse) s.ecuMap) := by
          apply rk_set _ _ _ h
          rw [List.reverse_reverse]
          exact hkeep (prev :: rest2Rev) hrr.symm
        unfold St.maybeMerge
        split
        · split
          · rw [mergeTail_ecuMap, hf]; exact hmerged
          · split
            · rw [mergeTail_ecuMap, hf]; exact hmerged
            · show RK (assocSet r.2.1.ecu _ s.ecuMap)
              rw [hf]; exact hkept
        · show RK (assocSet r.2.1.ecu _ s.ecuMap)
          rw [hf]; exact hkept

theorem step_rk (s : St) (m : Msg) (h : RK s.ecuMap) : RK (s.step m).ecuMap := by
  unfold St.step
  split
  · exact h
  · simp only []
    split
    · exact assign_rk s m h
    · rw [deliver_ecuMap, confirm_ecuMap]; exact assign_rk s m h

theorem steps_rk (ms : List Msg) : ∀ (s : St), RK s.ecuMap → RK (ms.foldl St.step s).ecuMap := by
  induction ms with
  | nil => intro s h; exact h
  | cons m t ih => intro s h; exact ih _ (step_rk s m h)

theorem run_rk (ms : List Msg) : RK (run ms).ecuMap := by
  unfold run
  rw [finish_ecuMap]
  exact steps_rk ms {} (fun _ => trivial)

theorem rkl_mem (L : List Lc) (h : RKL L) : ∀ b ∈ L, ∀ r, b.resume = some r → ∃ a ∈ L, a.id = r.id ∧ r.eff = a.resumeStart := by
  induction L with
  | nil => intro b hb; cases hb
  | cons x t ih =>
    intro b hb r hr
    rcases List.mem_cons.mp hb with rfl | hb
    · obtain ⟨a, ha, h1, h2⟩ := h.1 r hr
      exact ⟨a, List.mem_cons_of_mem _ ha, h1, h2⟩
    · obtain ⟨a, ha, h1, h2⟩ := ih h.2 b hb r hr
      exact ⟨a, List.mem_cons_of_mem _ ha, h1, h2⟩

/-- **the key of the remote listing orders a resumed lifecycle strictly behind its origin**: at the end of every stream, a
    live lifecycle `b` that resumes the lifecycle with id `r.id` finds that lifecycle live, in its own ECU, with a strictly
    smaller key - so a listing sorted by the key never places `b` before it, along whole chains of resumes -/
theorem resume_key_ordered (ms : List Msg) (b : Lc) (hb : Live (run ms).ecuMap b) (r : Resume) (hr : b.resume = some r) :
    ∃ a, Live (run ms).ecuMap a ∧ a.id = r.id ∧ a.ecu = b.ecu ∧ a.resumeStart < b.resumeStart := by
  obtain ⟨hi, _, _, _⟩ := run_final ms
  have hem : (run ms).ecuMap = (ms.foldl St.step {}).ecuMap := finish_ecuMap _
  have hmap : MapInv (run ms).ecuMap (ms.foldl St.step {}).nextId := by rw [hem]; exact hi.map
  have hin : b ∈ oldList (run ms).ecuMap b.ecu := live_oldList _ _ b.ecu hmap b hb rfl
  have hrk := run_rk ms b.ecu
  obtain ⟨a, ha, h1, h2⟩ := rkl_mem _ hrk b (by simpa using hin) r hr
  have ha' : a ∈ oldList (run ms).ecuMap b.ecu := by simpa using ha
  refine ⟨a, oldList_live _ _ a ha', h1, oldList_ecu _ _ b.ecu hmap a ha', ?_⟩
  have hbk : b.resumeStart = if b.start ≤ r.eff then r.eff + 1 else b.start := by unfold Lc.resumeStart; rw [hr]
  rw [hbk, h2]
  split <;> omega

end Lcm
