import Adlt.Lc.Final
import Adlt.Lc.Sum
/-! C07 (counts, part 4): per lifecycle. The count of a live lifecycle is the number of its messages delivered so far plus the
    number still queued; a lifecycle that is still buffered has delivered nothing; nothing of a *newer* lifecycle of an ECU is
    delivered while an older one is still buffered (the queue is first-in first-out and the older one's messages are in front);
    hence a lifecycle that is merged away has never been seen by the consumer, and every delivered id stays live. -/
namespace Lcm

def cntM (id : Nat) (l : List Msg) : Nat := (l.filter (fun m => m.lc == id)).length

theorem cntM_cons (id : Nat) (m : Msg) (t : List Msg) : cntM id (m :: t) = (if m.lc == id then 1 else 0) + cntM id t := by
  unfold cntM
  rw [List.filter_cons]
  split <;> simp <;> omega

theorem cntM_append (id : Nat) (a b : List Msg) : cntM id (a ++ b) = cntM id a + cntM id b := by
  unfold cntM; rw [List.filter_append, List.length_append]

theorem cntM_pos_mem (id : Nat) (l : List Msg) (h : 1 ≤ cntM id l) : ∃ x ∈ l, x.lc = id := by
  unfold cntM at h
  cases hf : l.filter (fun m => m.lc == id) with
  | nil => rw [hf] at h; simp at h
  | cons x t =>
    have hx : x ∈ l.filter (fun m => m.lc == id) := by rw [hf]; simp
    rw [List.mem_filter] at hx
    exact ⟨x, hx.1, by simpa using hx.2⟩

theorem cntM_zero_of_not_mem (id : Nat) (l : List Msg) (h : ∀ x ∈ l, x.lc ≠ id) : cntM id l = 0 := by
  unfold cntM
  rw [List.length_eq_zero_iff, List.filter_eq_nil_iff]
  intro x hx
  simpa using h x hx

/-- the (lifecycle id, ECU) of the delivered messages, newest first -/
def St.outIds (s : St) : List (Nat × Nat) := s.out.map fun o => (o.m.lc, o.m.ecu)

def cntI (id : Nat) (oi : List (Nat × Nat)) : Nat := (oi.filter (fun p => p.1 == id)).length

theorem cntI_cons (id : Nat) (p : Nat × Nat) (t : List (Nat × Nat)) : cntI id (p :: t) = (if p.1 == id then 1 else 0) + cntI id t := by
  unfold cntI
  rw [List.filter_cons]
  split <;> simp <;> omega

/-- the invariant, as a predicate of the live table, the buffered ids, the delivered ids and the queue -/
structure CI (em : List (Nat × List Lc)) (bl : List Nat) (oi : List (Nat × Nat)) (Q : List Msg) : Prop where
  cnt : ∀ lc, Live em lc → lc.nrMsgs = cntI lc.id oi + cntM lc.id Q
  pos : ∀ lc, Live em lc → 1 ≤ lc.nrMsgs
  bufOut : ∀ lc, Live em lc → lc.id ∈ bl → cntI lc.id oi = 0
  outLive : ∀ p ∈ oi, ∃ lc, Live em lc ∧ lc.id = p.1 ∧ lc.ecu = p.2
  qLive : ∀ m ∈ Q, ∃ lc, Live em lc ∧ lc.id = m.lc ∧ lc.ecu = m.ecu
  sorted : ∀ p ∈ em, (p.2.map (·.id)).Pairwise (· < ·)
  older : ∀ a b, Live em a → Live em b → a.ecu = b.ecu → a.id < b.id → a.id ∈ bl →
    cntI b.id oi = 0 ∧ ∀ q1 m q2, Q = q1 ++ m :: q2 → m.lc = b.id → ∃ x ∈ q1, x.lc = a.id

/-- the head of the queue, belonging to a confirmed lifecycle, is delivered -/
theorem ci_pop (em : List (Nat × List Lc)) (bl : List Nat) (oi : List (Nat × Nat)) (m : Msg) (t : List Msg)
    (h : CI em bl oi (m :: t)) (hnb : m.lc ∉ bl) : CI em bl ((m.lc, m.ecu) :: oi) t := by
  refine ⟨?_, h.pos, ?_, ?_, fun x hx => h.qLive x (List.mem_cons_of_mem _ hx), h.sorted, ?_⟩
  · intro lc hl
    have := h.cnt lc hl
    rw [cntM_cons] at this
    rw [cntI_cons]
    by_cases hc : m.lc = lc.id
    · simp only [hc, beq_self_eq_true, if_true] at this ⊢; omega
    · have h1 : (m.lc == lc.id) = false := by simp [hc]
      simp only [h1, Bool.false_eq_true, if_false] at this ⊢; omega
  · intro lc hl hb
    rw [cntI_cons]
    have hne : (m.lc == lc.id) = false := by
      have : m.lc ≠ lc.id := fun hc => hnb (hc ▸ hb)
      simp [this]
    simp only [hne, Bool.false_eq_true, if_false, Nat.zero_add]
    exact h.bufOut lc hl hb
  · intro p hp
    rcases List.mem_cons.mp hp with rfl | hp
    · exact h.qLive m (by simp)
    · exact h.outLive p hp
  · intro a b ha hb hecu hlt hab
    obtain ⟨o1, o2⟩ := h.older a b ha hb hecu hlt hab
    constructor
    · rw [cntI_cons]
      have hne : (m.lc == b.id) = false := by
        cases hx : (m.lc == b.id) with
        | false => rfl
        | true =>
          have hmb : m.lc = b.id := by simpa using hx
          obtain ⟨x, hx', _⟩ := o2 [] m t rfl hmb
          cases hx'
      simp only [hne, Bool.false_eq_true, if_false, Nat.zero_add]
      exact o1
    · intro q1 m' q2 hq hm'
      obtain ⟨x, hx, hxa⟩ := o2 (m :: q1) m' q2 (by rw [hq]; rfl) hm'
      rcases List.mem_cons.mp hx with rfl | hx
      · exact absurd (hxa ▸ hab) hnb
      · exact ⟨x, hx, hxa⟩

/-- fewer buffered ids: fewer obligations -/
theorem ci_unbuffer (em : List (Nat × List Lc)) (bl bl' : List Nat) (oi : List (Nat × Nat)) (Q : List Msg) (h : CI em bl oi Q)
    (hsub : ∀ i ∈ bl', i ∈ bl) : CI em bl' oi Q :=
  ⟨h.cnt, h.pos, fun lc hl hb => h.bufOut lc hl (hsub _ hb), h.outLive, h.qLive, h.sorted,
   fun a b ha hb hecu hlt hab => h.older a b ha hb hecu hlt (hsub _ hab)⟩

theorem outIds_emit (s : St) (m : Msg) : (s.emit m).outIds = (m.lc, m.ecu) :: s.outIds := by simp [St.outIds, St.emit]
theorem outIds_mark (s : St) (i : Nat) : (s.mark i).outIds = s.outIds := by unfold St.outIds; rw [mark_out]

/-- the flush loop (nothing is buffered any more) -/
theorem flushAll_go_ci (l : List Msg) : ∀ (x : St) (last : Nat) (extra : List Msg), x.bufLcs = [] →
    CI x.ecuMap [] x.outIds (l ++ extra) →
    CI (St.flushAll.go x last l).ecuMap [] (St.flushAll.go x last l).outIds extra := by
  induction l with
  | nil => intro x last extra _ h; exact h
  | cons m t ih =>
    intro x last extra hb h
    rw [St.flushAll.go]
    have hy : ∀ y : St, y = (if m.lc != last then x.mark m.lc else x) → y.ecuMap = x.ecuMap ∧ y.outIds = x.outIds ∧ y.bufLcs = x.bufLcs := by
      intro y hy
      subst hy
      split
      · exact ⟨(mark_core x _).2.1, outIds_mark x _, (mark_core x _).2.2⟩
      · exact ⟨rfl, rfl, rfl⟩
    obtain ⟨y1, y2, y3⟩ := hy _ rfl
    generalize (if m.lc != last then x.mark m.lc else x) = y at *
    apply ih (y.emit m) m.lc extra (by show y.bufLcs = []; rw [y3]; exact hb)
    show CI y.ecuMap [] (y.emit m).outIds (t ++ extra)
    rw [outIds_emit, y1, y2]
    exact ci_pop _ _ _ m _ h (by simp)

/-- the release loop; `prune` is not buffered -/
theorem release_go_ci (l : List Msg) : ∀ (x : St) (prune : Nat) (extra : List Msg), prune ∉ x.bufLcs →
    CI x.ecuMap x.bufLcs x.outIds (l ++ extra) →
    CI (St.release.go x prune l).ecuMap (St.release.go x prune l).bufLcs (St.release.go x prune l).outIds
      ((St.release.go x prune l).bufMsgs ++ extra) := by
  induction l with
  | nil => intro x prune extra _ h; exact h
  | cons m t ih =>
    intro x prune extra hp h
    rw [St.release.go]
    split
    · rename_i heq
      have heq' : m.lc = prune := by simpa using heq
      apply ih (x.emit m) prune extra hp
      show CI x.ecuMap x.bufLcs (x.emit m).outIds (t ++ extra)
      rw [outIds_emit]
      exact ci_pop _ _ _ m _ h (by rw [heq']; exact hp)
    · split
      · rename_i _ hnb
        have hnb' : m.lc ∉ x.bufLcs := by simpa using hnb
        obtain ⟨_, b, c⟩ := mark_core x m.lc
        apply ih ((x.mark m.lc).emit m) m.lc extra (by show m.lc ∉ (x.mark m.lc).bufLcs; rw [c]; exact hnb')
        show CI (x.mark m.lc).ecuMap (x.mark m.lc).bufLcs ((x.mark m.lc).emit m).outIds (t ++ extra)
        rw [outIds_emit, outIds_mark, b, c]
        exact ci_pop _ _ _ m _ h hnb'
      · exact h

/-! ### the queue grows at its end -/

theorem split_snoc (Q : List Msg) (m' : Msg) : ∀ (q1 q2 : List Msg) (m : Msg), Q ++ [m'] = q1 ++ m :: q2 →
    (q2 = [] ∧ m = m' ∧ q1 = Q) ∨ (∃ q2', q2 = q2' ++ [m'] ∧ Q = q1 ++ m :: q2') := by
  induction Q with
  | nil =>
    intro q1 q2 m h
    cases q1 with
    | nil => simp only [List.nil_append, List.cons.injEq] at h; exact .inl ⟨h.2.symm, h.1.symm, rfl⟩
    | cons a t => simp only [List.nil_append, List.cons_append, List.cons.injEq] at h; cases t <;> simp at h
  | cons x Q ih =>
    intro q1 q2 m h
    cases q1 with
    | nil =>
      simp only [List.cons_append, List.nil_append, List.cons.injEq] at h
      right
      exact ⟨Q, h.2.symm, by rw [h.1]; rfl⟩
    | cons a t =>
      simp only [List.cons_append, List.cons.injEq] at h
      rcases ih t q2 m h.2 with ⟨h1, h2, h3⟩ | ⟨q2', h1, h2⟩
      · exact .inl ⟨h1, h2, by rw [h.1, h3]⟩
      · exact .inr ⟨q2', h1, by rw [h.1, h2]; rfl⟩

theorem sorted_of_oldList (em : List (Nat × List Lc)) (e : Nat) (hs : ∀ p ∈ em, (p.2.map (·.id)).Pairwise (· < ·)) :
    ((oldList em e).map (·.id)).Pairwise (· < ·) := by
  unfold oldList
  cases hg : assocGet e em with
  | none => simp
  | some L => simpa using hs (e, L) (assocGet_mem _ _ _ hg)

theorem sorted_assocSet (em : List (Nat × List Lc)) (e : Nat) (L' : List Lc) (hk : (keys em).Nodup)
    (hs : ∀ p ∈ em, (p.2.map (·.id)).Pairwise (· < ·)) (hL : (L'.map (·.id)).Pairwise (· < ·)) :
    ∀ p ∈ assocSet e L' em, (p.2.map (·.id)).Pairwise (· < ·) := by
  intro p hp
  rcases (mem_assocSet e L' em hk p).mp hp with rfl | ⟨h, _⟩
  · exact hL
  · exact hs p h

/-- a fresh lifecycle (one message, buffered) is appended to the list of its ECU; the message in flight is its first one -/
theorem ci_new (em : List (Nat × List Lc)) (n : Nat) (hm : MapInv em n) (bl : List Nat) (oi : List (Nat × Nat)) (Q : List Msg)
    (h : CI em bl oi Q) (e : Nat) (N : Lc) (m' : Msg)
    (hN : N.id = n) (hNe : N.ecu = e) (hNn : N.nrMsgs = 1) (hml : m'.lc = n) (hme : m'.ecu = e) :
    CI (assocSet e (oldList em e ++ [N]) em) (bl ++ [n]) oi (Q ++ [m']) := by
  have hlive : ∀ lc, Live (assocSet e (oldList em e ++ [N]) em) lc ↔ lc = N ∨ Live em lc := by
    intro lc
    rw [live_setEcu em n e hm]
    constructor
    · rintro (h1 | ⟨h1, _⟩)
      · rcases List.mem_append.mp h1 with h2 | h2
        · exact .inr (oldList_live _ e lc h2)
        · exact .inl (by simpa using h2)
      · exact .inr h1
    · rintro (rfl | h1)
      · exact .inl (by simp)
      · by_cases he : lc.ecu = e
        · exact .inl (List.mem_append_left _ (live_oldList em n e hm lc h1 he))
        · exact .inr ⟨h1, he⟩
  have hoi : ∀ p ∈ oi, p.1 < n := by
    intro p hp; obtain ⟨lc, hl, hid, _⟩ := h.outLive p hp; rw [← hid]; exact hm.fresh lc hl
  have hQ : ∀ x ∈ Q, x.lc < n := by
    intro x hx; obtain ⟨lc, hl, hid, _⟩ := h.qLive x hx; rw [← hid]; exact hm.fresh lc hl
  have hoiN : cntI n oi = 0 := by
    unfold cntI
    rw [List.length_eq_zero_iff, List.filter_eq_nil_iff]
    intro p hp; have := hoi p hp; simp; omega
  have hQN : cntM n Q = 0 := cntM_zero_of_not_mem n Q (fun x hx => by have := hQ x hx; omega)
  refine ⟨?_, ?_, ?_, ?_, ?_, ?_, ?_⟩
  · intro lc hl
    rw [cntM_append]
    rcases (hlive lc).mp hl with rfl | hl0
    · rw [hN, hNn, hoiN, hQN, cntM_cons]; simp [hml, cntM]
    · have hne : lc.id ≠ n := by have := hm.fresh lc hl0; omega
      have : cntM lc.id [m'] = 0 := by
        apply cntM_zero_of_not_mem; intro x hx; simp only [List.mem_singleton] at hx; rw [hx, hml]; exact fun hc => hne hc.symm
      rw [this]; exact h.cnt lc hl0
  · intro lc hl
    rcases (hlive lc).mp hl with rfl | hl0
    · omega
    · exact h.pos lc hl0
  · intro lc hl hb
    rcases (hlive lc).mp hl with rfl | hl0
    · rw [hN]; exact hoiN
    · apply h.bufOut lc hl0
      rcases List.mem_append.mp hb with h1 | h1
      · exact h1
      · simp only [List.mem_singleton] at h1
        have := hm.fresh lc hl0; omega
  · intro p hp
    obtain ⟨lc, hl, h1, h2⟩ := h.outLive p hp
    exact ⟨lc, (hlive lc).mpr (.inr hl), h1, h2⟩
  · intro x hx
    rcases List.mem_append.mp hx with h1 | h1
    · obtain ⟨lc, hl, h2, h3⟩ := h.qLive x h1
      exact ⟨lc, (hlive lc).mpr (.inr hl), h2, h3⟩
    · simp only [List.mem_singleton] at h1
      subst h1
      exact ⟨N, (hlive N).mpr (.inl rfl), by rw [hN, hml], by rw [hNe, hme]⟩
  · apply sorted_assocSet em e _ hm.keysNodup h.sorted
    rw [List.map_append, List.pairwise_append]
    refine ⟨sorted_of_oldList em e h.sorted, by simp, ?_⟩
    intro x hx y hy
    simp only [List.map_cons, List.map_nil, List.mem_singleton] at hy
    simp only [List.mem_map] at hx
    obtain ⟨lc, hlc, rfl⟩ := hx
    rw [hy, hN]
    exact hm.fresh lc (oldList_live _ e lc hlc)
  · intro a b ha hb hecu hlt hab
    have hab0 : a.id ∈ bl ∨ a.id = n := by
      rcases List.mem_append.mp hab with h1 | h1
      · exact .inl h1
      · exact .inr (by simpa using h1)
    rcases (hlive a).mp ha with rfl | ha0
    · -- the new one is the newest: nothing is newer
      rcases (hlive b).mp hb with rfl | hb0
      · omega
      · have := hm.fresh b hb0; omega
    · have han : a.id ≠ n := by have := hm.fresh a ha0; omega
      have habl : a.id ∈ bl := by rcases hab0 with h1 | h1; exact h1; exact absurd h1 han
      -- a buffered: all its messages are queued, at least one
      have hcnt := h.cnt a ha0
      rw [h.bufOut a ha0 habl, Nat.zero_add] at hcnt
      have hpos := h.pos a ha0
      obtain ⟨xa, hxa, hxal⟩ := cntM_pos_mem a.id Q (by omega)
      rcases (hlive b).mp hb with rfl | hb0
      · refine ⟨by rw [hN]; exact hoiN, ?_⟩
        intro q1 m q2 hq hmb
        rcases split_snoc Q m' q1 q2 m hq with ⟨_, _, h3⟩ | ⟨q2', _, h2⟩
        · rw [h3]; exact ⟨xa, hxa, hxal⟩
        · -- a message of the new lifecycle inside the old queue: impossible
          have : m ∈ Q := by rw [h2]; simp
          have := hQ m this
          rw [hmb, hN] at this; omega
      · obtain ⟨o1, o2⟩ := h.older a b ha0 hb0 hecu hlt habl
        refine ⟨o1, ?_⟩
        intro q1 m q2 hq hmb
        rcases split_snoc Q m' q1 q2 m hq with ⟨_, h2, _⟩ | ⟨q2', _, h2⟩
        · have := hm.fresh b hb0
          rw [h2, hml] at hmb; omega
        · exact o2 q1 m q2' h2 hmb

theorem cntM_single (id : Nat) (m : Msg) : cntM id [m] = if m.lc == id then 1 else 0 := by
  rw [cntM_cons]; simp [cntM]

/-- the last lifecycle of the ECU takes the message in flight: same id, one message more -/
theorem ci_keep (em : List (Nat × List Lc)) (n : Nat) (hm : MapInv em n) (bl : List Nat) (oi : List (Nat × Nat)) (Q : List Msg)
    (h : CI em bl oi Q) (e : Nat) (pre : List Lc) (last r1 : Lc) (m' : Msg)
    (hold : oldList em e = pre ++ [last]) (hid : r1.id = last.id) (hecu : r1.ecu = last.ecu) (hn : r1.nrMsgs = last.nrMsgs + 1)
    (hml : m'.lc = last.id) (hme : m'.ecu = e) :
    CI (assocSet e (pre ++ [r1]) em) bl oi (Q ++ [m']) := by
  have hlastIn : last ∈ oldList em e := by rw [hold]; simp
  have hlastLive : Live em last := oldList_live _ e last hlastIn
  have hlastE : last.ecu = e := oldList_ecu em n e hm last hlastIn
  -- every lifecycle of the new table has an origin with the same id and ECU
  have horig : ∀ lc, Live (assocSet e (pre ++ [r1]) em) lc →
      ∃ lc0, Live em lc0 ∧ lc0.id = lc.id ∧ lc0.ecu = lc.ecu ∧ ((lc0 = lc ∧ lc.id ≠ last.id) ∨ (lc0 = last ∧ lc = r1)) := by
    intro lc hl
    rcases (live_setEcu em n e hm _ lc).mp hl with h1 | ⟨h1, hne⟩
    · rcases List.mem_append.mp h1 with h2 | h2
      · have hin : lc ∈ oldList em e := by rw [hold]; exact List.mem_append_left _ h2
        have hl0 := oldList_live _ e lc hin
        refine ⟨lc, hl0, rfl, rfl, .inl ⟨rfl, ?_⟩⟩
        intro hc
        have heq := live_id_unique em n hm lc last hl0 hlastLive hc
        -- lc is in `pre` and equals `last`: the ids of the list would not be distinct
        have hnd : ((oldList em e).map (·.id)).Nodup := by
          unfold oldList
          cases hg : assocGet e em with
          | none => simp
          | some L => simpa using hm.idsNodup (e, L) (assocGet_mem _ _ _ hg)
        rw [hold, List.map_append, List.nodup_append] at hnd
        exact hnd.2.2 lc.id (List.mem_map.mpr ⟨lc, h2, rfl⟩) last.id (by simp) hc
      · simp only [List.mem_singleton] at h2
        subst h2
        exact ⟨last, hlastLive, hid.symm, hecu.symm, .inr ⟨rfl, rfl⟩⟩
    · refine ⟨lc, h1, rfl, rfl, .inl ⟨rfl, ?_⟩⟩
      intro hc
      have := hm.uniq lc last h1 hlastLive hc
      exact hne (this.trans hlastE)
  have hsucc : ∀ lc0, Live em lc0 → ∃ lc, Live (assocSet e (pre ++ [r1]) em) lc ∧ lc.id = lc0.id ∧ lc.ecu = lc0.ecu := by
    intro lc0 hl0
    by_cases he : lc0.ecu = e
    · have hin := live_oldList em n e hm lc0 hl0 he
      rw [hold] at hin
      rcases List.mem_append.mp hin with h2 | h2
      · exact ⟨lc0, (live_setEcu em n e hm _ lc0).mpr (.inl (List.mem_append_left _ h2)), rfl, rfl⟩
      · simp only [List.mem_singleton] at h2
        subst h2
        exact ⟨r1, (live_setEcu em n e hm _ r1).mpr (.inl (by simp)), hid, hecu⟩
    · exact ⟨lc0, (live_setEcu em n e hm _ lc0).mpr (.inr ⟨hl0, he⟩), rfl, rfl⟩
  refine ⟨?_, ?_, ?_, ?_, ?_, ?_, ?_⟩
  · intro lc hl
    obtain ⟨lc0, hl0, hi0, _, hc⟩ := horig lc hl
    rw [cntM_append, cntM_single]
    rcases hc with ⟨rfl, hne⟩ | ⟨hc1, hc2⟩
    · have : (m'.lc == lc0.id) = false := by rw [hml]; simp; exact fun hc => hne hc.symm
      rw [this]; simp only [Bool.false_eq_true, if_false, Nat.add_zero]
      exact h.cnt lc0 hl0
    · rw [hc2]
      have : (m'.lc == r1.id) = true := by rw [hml, hid]; simp
      rw [this, hn, hid]; simp only [if_true]
      have := h.cnt lc0 hl0
      rw [hc1] at this
      omega
  · intro lc hl
    obtain ⟨lc0, hl0, _, _, hc⟩ := horig lc hl
    rcases hc with ⟨rfl, _⟩ | ⟨_, hc2⟩
    · exact h.pos lc0 hl0
    · rw [hc2]; omega
  · intro lc hl hb
    obtain ⟨lc0, hl0, hi0, _, _⟩ := horig lc hl
    rw [← hi0]; exact h.bufOut lc0 hl0 (by rw [hi0]; exact hb)
  · intro p hp
    obtain ⟨lc0, hl0, h1, h2⟩ := h.outLive p hp
    obtain ⟨lc, hl, h3, h4⟩ := hsucc lc0 hl0
    exact ⟨lc, hl, h3.trans h1, h4.trans h2⟩
  · intro x hx
    rcases List.mem_append.mp hx with h1 | h1
    · obtain ⟨lc0, hl0, h2, h3⟩ := h.qLive x h1
      obtain ⟨lc, hl, h4, h5⟩ := hsucc lc0 hl0
      exact ⟨lc, hl, h4.trans h2, h5.trans h3⟩
    · simp only [List.mem_singleton] at h1
      subst h1
      exact ⟨r1, (live_setEcu em n e hm _ r1).mpr (.inl (by simp)), by rw [hid, hml], by rw [hecu, hlastE, hme]⟩
  · apply sorted_assocSet em e _ hm.keysNodup h.sorted
    have := sorted_of_oldList em e h.sorted
    rw [hold] at this
    simpa [List.map_append, hid] using this
  · intro a b ha hb hecu' hlt hab
    obtain ⟨a0, ha0, hai, hae, _⟩ := horig a ha
    obtain ⟨b0, hb0, hbi, hbe, _⟩ := horig b hb
    obtain ⟨o1, o2⟩ := h.older a0 b0 ha0 hb0 (by rw [hae, hbe]; exact hecu') (by rw [hai, hbi]; exact hlt) (by rw [hai]; exact hab)
    refine ⟨by rw [← hbi]; exact o1, ?_⟩
    intro q1 m q2 hq hmb
    rcases split_snoc Q m' q1 q2 m hq with ⟨_, _, h3⟩ | ⟨q2', _, h2⟩
    · -- the message in flight: `a` is buffered, so all its messages - at least one - are queued in front
      have hcnt := h.cnt a0 ha0
      rw [h.bufOut a0 ha0 (by rw [hai]; exact hab), Nat.zero_add] at hcnt
      have hpos := h.pos a0 ha0
      obtain ⟨xa, hxa, hxal⟩ := cntM_pos_mem a0.id Q (by omega)
      rw [h3]; exact ⟨xa, hxa, hxal.trans hai⟩
    · obtain ⟨x, hx, hxl⟩ := o2 q1 m q2' h2 (by rw [hbi]; exact hmb)
      exact ⟨x, hx, hxl.trans hai⟩

/-! ### merging the last two lifecycles of an ECU -/

def rel1 (a b : Nat) (m : Msg) : Msg := if m.lc == a then { m with lc := b } else m

theorem relabel_eq_map (a b : Nat) (ms : List Msg) : relabel a b ms = ms.map (rel1 a b) := rfl

theorem rel1_lc (a b : Nat) (m : Msg) : (rel1 a b m).lc = if m.lc = a then b else m.lc := by
  unfold rel1
  by_cases h : m.lc = a
  · simp [h]
  · have : (m.lc == a) = false := by simp [h]
    simp [this, h]

theorem rel1_ecu (a b : Nat) (m : Msg) : (rel1 a b m).ecu = m.ecu := by
  unfold rel1; split <;> rfl

theorem cntM_relabel_other (a b id : Nat) (Q : List Msg) (h1 : id ≠ a) (h2 : id ≠ b) : cntM id (relabel a b Q) = cntM id Q := by
  induction Q with
  | nil => rfl
  | cons m t ih =>
    rw [relabel_eq_map, List.map_cons, cntM_cons, cntM_cons, ← relabel_eq_map, ih, rel1_lc]
    by_cases hm : m.lc = a
    · have e1 : (b == id) = false := by simp; exact fun hc => h2 hc.symm
      have e2 : ¬ a = id := fun hc => h1 hc.symm
      simp [hm, e1, e2]
    · simp [hm]

theorem cntM_relabel_target (a b : Nat) (Q : List Msg) (hab : a ≠ b) : cntM b (relabel a b Q) = cntM b Q + cntM a Q := by
  induction Q with
  | nil => rfl
  | cons m t ih =>
    rw [relabel_eq_map, List.map_cons, cntM_cons, cntM_cons, cntM_cons, ← relabel_eq_map, ih, rel1_lc]
    by_cases hm : m.lc = a
    · have e2 : (a == b) = false := by simp [hab]
      simp [hm, e2]; omega
    · have e1 : (m.lc == a) = false := by simp [hm]
      simp only [hm, if_false, e1, Bool.false_eq_true]; omega

theorem cntI_pos_of_mem (id : Nat) (oi : List (Nat × Nat)) (p : Nat × Nat) (hp : p ∈ oi) (h : p.1 = id) : 1 ≤ cntI id oi := by
  unfold cntI
  have : p ∈ oi.filter (fun q => q.1 == id) := List.mem_filter.mpr ⟨hp, by simp [h]⟩
  cases hf : oi.filter (fun q => q.1 == id) with
  | nil => rw [hf] at this; cases this
  | cons x t => simp

/-- `lc2` (the last lifecycle, already holding the message in flight) is merged into `prev`; nothing of `lc2` was delivered -/
theorem ci_merge (em : List (Nat × List Lc)) (n : Nat) (hm : MapInv em n) (bl : List Nat) (hbn : bl.Nodup) (oi : List (Nat × Nat))
    (Q : List Msg) (h : CI em bl oi Q) (e : Nat) (pre : List Lc) (prev last lc2 : Lc) (mq : Msg)
    (hold : oldList em e = pre ++ [prev, last]) (hid : lc2.id = last.id) (hn : lc2.nrMsgs = last.nrMsgs + 1)
    (hml : mq.lc = prev.id) (hme : mq.ecu = e) (hnone : cntI last.id oi = 0) :
    CI (assocSet e (pre ++ [prev.merge lc2]) em) (bl.erase last.id) oi (relabel last.id prev.id Q ++ [mq]) := by
  have hprevIn : prev ∈ oldList em e := by rw [hold]; simp
  have hlastIn : last ∈ oldList em e := by rw [hold]; simp
  have hprevLive := oldList_live _ e prev hprevIn
  have hlastLive := oldList_live _ e last hlastIn
  have hprevE : prev.ecu = e := oldList_ecu em n e hm prev hprevIn
  have hlastE : last.ecu = e := oldList_ecu em n e hm last hlastIn
  have hsort := sorted_of_oldList em e h.sorted
  rw [hold] at hsort
  simp only [List.map_append, List.map_cons, List.map_nil, List.pairwise_append, List.pairwise_cons, List.mem_cons,
    List.mem_singleton, List.mem_map, forall_eq_or_imp, forall_eq] at hsort
  have hpl : prev.id < last.id := by
    have := hsort.2.1.1
    simpa using this
  have hpreLt : ∀ x ∈ pre, x.id < prev.id := by
    intro x hx
    exact (hsort.2.2 x.id ⟨x, hx, rfl⟩).1
  obtain ⟨mid, mecu⟩ := merge_facts prev lc2
  have mnr := merge_n prev lc2
  generalize hP : prev.merge lc2 = P at *
  have hlive' := live_setEcu em n e hm (pre ++ [P])
  -- origins
  have horig : ∀ lc, Live (assocSet e (pre ++ [P]) em) lc →
      ∃ lc0, Live em lc0 ∧ lc0.id = lc.id ∧ lc0.ecu = lc.ecu ∧ lc.id ≠ last.id ∧
        ((lc0 = lc ∧ lc.id ≠ prev.id) ∨ (lc0 = prev ∧ lc = P)) := by
    intro lc hl
    rcases (hlive' lc).mp hl with h1 | ⟨h1, hne⟩
    · rcases List.mem_append.mp h1 with h2 | h2
      · have hin : lc ∈ oldList em e := by rw [hold]; exact List.mem_append_left _ h2
        have := hpreLt lc h2
        exact ⟨lc, oldList_live _ e lc hin, rfl, rfl, by omega, .inl ⟨rfl, by omega⟩⟩
      · simp only [List.mem_singleton] at h2
        subst h2
        exact ⟨prev, hprevLive, mid.symm, mecu.symm, by rw [mid]; omega, .inr ⟨rfl, rfl⟩⟩
    · have d1 : lc.id ≠ last.id := fun hc => hne ((hm.uniq lc last h1 hlastLive hc).trans hlastE)
      have d2 : lc.id ≠ prev.id := fun hc => hne ((hm.uniq lc prev h1 hprevLive hc).trans hprevE)
      exact ⟨lc, h1, rfl, rfl, d1, .inl ⟨rfl, d2⟩⟩
  have hsucc : ∀ lc0, Live em lc0 → lc0.id ≠ last.id →
      ∃ lc, Live (assocSet e (pre ++ [P]) em) lc ∧ lc.id = lc0.id ∧ lc.ecu = lc0.ecu := by
    intro lc0 hl0 hne
    by_cases he : lc0.ecu = e
    · have hin := live_oldList em n e hm lc0 hl0 he
      rw [hold] at hin
      simp only [List.mem_append, List.mem_cons, List.mem_singleton, List.not_mem_nil, or_false] at hin
      rcases hin with h2 | h2 | h2
      · exact ⟨lc0, (hlive' lc0).mpr (.inl (List.mem_append_left _ h2)), rfl, rfl⟩
      · subst h2
        exact ⟨P, (hlive' P).mpr (.inl (by simp)), mid, mecu⟩
      · subst h2; exact absurd rfl hne
    · exact ⟨lc0, (hlive' lc0).mpr (.inr ⟨hl0, he⟩), rfl, rfl⟩
  have hlastCnt : last.nrMsgs = cntM last.id Q := by
    have := h.cnt last hlastLive
    rw [hnone] at this; omega
  have hmem_erase := mem_erase_nodup bl last.id
  refine ⟨?_, ?_, ?_, ?_, ?_, ?_, ?_⟩
  · intro lc hl
    obtain ⟨lc0, hl0, hi0, _, hnl, hc⟩ := horig lc hl
    rw [cntM_append, cntM_single, hml]
    rcases hc with ⟨rfl, hnp⟩ | ⟨hc1, hc2⟩
    · have e1 : (prev.id == lc0.id) = false := by simp; exact fun hc => hnp hc.symm
      rw [e1, cntM_relabel_other _ _ _ _ hnl hnp]
      simp only [Bool.false_eq_true, if_false, Nat.add_zero]
      exact h.cnt lc0 hl0
    · rw [hc2, mid, mnr, hn, cntM_relabel_target _ _ _ (by omega)]
      have := h.cnt prev hprevLive
      simp only [beq_self_eq_true, if_true]
      omega
  · intro lc hl
    obtain ⟨lc0, hl0, _, _, _, hc⟩ := horig lc hl
    rcases hc with ⟨rfl, _⟩ | ⟨_, hc2⟩
    · exact h.pos lc0 hl0
    · rw [hc2, mnr]; have := h.pos prev hprevLive; omega
  · intro lc hl hb
    obtain ⟨lc0, hl0, hi0, _, _, _⟩ := horig lc hl
    rw [← hi0]
    exact h.bufOut lc0 hl0 (by rw [hi0]; exact ((hmem_erase _ hbn).mp hb).1)
  · intro p hp
    obtain ⟨lc0, hl0, h1, h2⟩ := h.outLive p hp
    have hne : lc0.id ≠ last.id := by
      intro hc
      have := cntI_pos_of_mem last.id oi p hp (h1.symm.trans hc)
      omega
    obtain ⟨lc, hl, h3, h4⟩ := hsucc lc0 hl0 hne
    exact ⟨lc, hl, h3.trans h1, h4.trans h2⟩
  · intro x hx
    rcases List.mem_append.mp hx with h1 | h1
    · rw [relabel_eq_map, List.mem_map] at h1
      obtain ⟨x0, hx0, rfl⟩ := h1
      obtain ⟨lc0, hl0, h2, h3⟩ := h.qLive x0 hx0
      rw [rel1_lc, rel1_ecu]
      by_cases hxl : x0.lc = last.id
      · simp only [hxl, if_true]
        have : lc0 = last := live_id_unique em n hm lc0 last hl0 hlastLive (h2.trans hxl)
        refine ⟨P, (hlive' P).mpr (.inl (by simp)), mid, ?_⟩
        rw [mecu, hprevE, ← h3, this, hlastE]
      · simp only [hxl, if_false]
        obtain ⟨lc, hl, h4, h5⟩ := hsucc lc0 hl0 (by rw [h2]; exact hxl)
        exact ⟨lc, hl, h4.trans h2, h5.trans h3⟩
    · simp only [List.mem_singleton] at h1
      subst h1
      exact ⟨P, (hlive' P).mpr (.inl (by simp)), by rw [mid, hml], by rw [mecu, hprevE, hme]⟩
  · apply sorted_assocSet em e _ hm.keysNodup h.sorted
    simp only [List.map_append, List.map_cons, List.map_nil, mid, List.pairwise_append, List.pairwise_cons,
      List.mem_singleton, forall_eq, List.mem_map]
    refine ⟨hsort.1, ⟨(by intro a ha; cases ha), List.Pairwise.nil⟩, ?_⟩
    intro a ha
    obtain ⟨x, hx, rfl⟩ := ha
    exact hpreLt x hx
  · intro a b ha hb hecu' hlt hab
    obtain ⟨a0, ha0, hai, hae, hanl, _⟩ := horig a ha
    obtain ⟨b0, hb0, hbi, hbe, hbnl, hbc⟩ := horig b hb
    have habl : a.id ∈ bl := ((hmem_erase _ hbn).mp hab).1
    obtain ⟨o1, o2⟩ := h.older a0 b0 ha0 hb0 (by rw [hae, hbe]; exact hecu') (by rw [hai, hbi]; exact hlt) (by rw [hai]; exact habl)
    refine ⟨by rw [← hbi]; exact o1, ?_⟩
    -- `a` is buffered: all its messages - at least one - are queued, and the relabelling leaves them alone
    have hcnt := h.cnt a0 ha0
    rw [h.bufOut a0 ha0 (by rw [hai]; exact habl), Nat.zero_add] at hcnt
    have hposa := h.pos a0 ha0
    obtain ⟨xa, hxa, hxal⟩ := cntM_pos_mem a0.id Q (by omega)
    have hxa' : xa ∈ relabel last.id prev.id Q := relabel_keep _ _ _ xa hxa (by rw [hxal, hai]; exact hanl)
    intro q1 m q2 hq hmb
    rcases split_snoc (relabel last.id prev.id Q) mq q1 q2 m hq with ⟨_, _, h3⟩ | ⟨q2', _, h2⟩
    · rw [h3]; exact ⟨xa, hxa', hxal.trans hai⟩
    · -- a message of the relabelled old queue
      rw [relabel_eq_map, List.map_eq_append_iff] at h2
      obtain ⟨p1, p2r, hQ, hp1, hp2⟩ := h2
      rw [List.map_eq_cons_iff] at hp2
      obtain ⟨m0, p2, hp2r, hm0, _⟩ := hp2
      have hQ' : Q = p1 ++ m0 :: p2 := by rw [hQ, hp2r]
      have hm0lc : (rel1 last.id prev.id m0).lc = b.id := by rw [hm0]; exact hmb
      rw [rel1_lc] at hm0lc
      have key : ∃ x ∈ p1, x.lc = a0.id := by
        by_cases hml0 : m0.lc = last.id
        · -- it was a message of the merged-away lifecycle: `a` is older than that one, too
          simp only [hml0, if_true] at hm0lc
          have hbP : b.id = prev.id := hm0lc.symm
          have hae' : a0.ecu = last.ecu := by
            rw [hae, hecu', ← hbe]
            rcases hbc with ⟨rfl, hnp⟩ | ⟨hc1, _⟩
            · exact absurd hbP hnp
            · rw [hc1, hprevE, hlastE]
          obtain ⟨_, o2'⟩ := h.older a0 last ha0 hlastLive hae' (by rw [hai]; omega) (by rw [hai]; exact habl)
          exact o2' p1 m0 p2 hQ' hml0
        · simp only [hml0, if_false] at hm0lc
          exact o2 p1 m0 p2 hQ' (by rw [hbi]; exact hm0lc)
      obtain ⟨x, hx, hxl⟩ := key
      refine ⟨rel1 last.id prev.id x, ?_, ?_⟩
      · rw [← hp1]; exact List.mem_map.mpr ⟨x, hx, rfl⟩
      · rw [rel1_lc]
        have : x.lc ≠ last.id := by rw [hxl, hai]; exact hanl
        simp only [this, if_false]
        exact hxl.trans hai

/-! ### the invariant along the run -/

def CIs (s : St) (Q : List Msg) : Prop := CI s.ecuMap s.bufLcs s.outIds Q

theorem outIds_of_out (a b : St) (h : a.out = b.out) : a.outIds = b.outIds := by unfold St.outIds; rw [h]

theorem confirmLc_ci (s : St) (m : Msg) (x : Nat) (lc : Lc) (extra : List Msg) (hn : s.bufLcs.Nodup)
    (h : CIs s (s.bufMsgs ++ extra)) : CIs (s.confirmLc m x lc) ((s.confirmLc m x lc).bufMsgs ++ extra) := by
  unfold St.confirmLc
  split
  · exact h
  · split
    · exact h
    · split
      · unfold St.release
        apply release_go_ci s.bufMsgs _ lc.id extra
        · show lc.id ∉ s.bufLcs.erase lc.id
          exact List.Nodup.not_mem_erase hn
        · show CI s.ecuMap (s.bufLcs.erase lc.id) s.outIds (s.bufMsgs ++ extra)
          exact ci_unbuffer _ _ _ _ _ h (fun i hi => List.mem_of_mem_erase hi)
      · exact h

theorem confirm_inner_ci (m : Msg) (x : Nat) (extra : List Msg) (lcs : List Lc) : ∀ (s : St), LInv s →
    FInv s (s.bufMsgs ++ extra) → (∀ lc ∈ lcs, Live s.ecuMap lc) → CIs s (s.bufMsgs ++ extra) →
    CIs (lcs.foldl (fun s lc => s.confirmLc m x lc) s) ((lcs.foldl (fun s lc => s.confirmLc m x lc) s).bufMsgs ++ extra) := by
  induction lcs with
  | nil => intro s _ _ _ h; exact h
  | cons a t ih =>
    intro s hi hf hl h
    simp only [List.foldl_cons]
    have h1 := confirmLc_inv s m x a hi (hl a (by simp))
    obtain ⟨h2, _⟩ := confirmLc_frame s m x a
    exact ih _ h1 (confirmLc_finv s m x a extra hi hf (hl a (by simp)))
      (by intro lc hlc; rw [h2]; exact hl lc (by simp [hlc])) (confirmLc_ci s m x a extra hf.bufNodup h)

theorem confirm_outer_ci (m : Msg) (x : Nat) (extra : List Msg) (ps : List (Nat × List Lc)) : ∀ (s : St), LInv s →
    FInv s (s.bufMsgs ++ extra) → (∀ p ∈ ps, p ∈ s.ecuMap) → CIs s (s.bufMsgs ++ extra) →
    CIs (ps.foldl (fun s (p : Nat × List Lc) => p.2.reverse.foldl (fun s lc => s.confirmLc m x lc) s) s)
      ((ps.foldl (fun s (p : Nat × List Lc) => p.2.reverse.foldl (fun s lc => s.confirmLc m x lc) s) s).bufMsgs ++ extra) := by
  induction ps with
  | nil => intro s _ _ _ h; exact h
  | cons p t ih =>
    intro s hi hf hl h
    simp only [List.foldl_cons]
    have hlive : ∀ lc ∈ p.2.reverse, Live s.ecuMap lc := by
      intro lc hlc; exact ⟨p, hl p (by simp), by simpa using hlc⟩
    obtain ⟨h1, h2, _⟩ := confirm_inner_inv m x p.2.reverse s hi hlive
    exact ih _ h1 (confirm_inner_finv m x extra p.2.reverse s hi hf hlive)
      (by intro q hq; rw [h2]; exact hl q (by simp [hq])) (confirm_inner_ci m x extra p.2.reverse s hi hf hlive h)

theorem confirm_ci (s : St) (m : Msg) (extra : List Msg) (hi : LInv s) (hf : FInv s (s.bufMsgs ++ extra))
    (h : CIs s (s.bufMsgs ++ extra)) : CIs (s.confirm m) ((s.confirm m).bufMsgs ++ extra) := by
  unfold St.confirm
  split
  · split
    · exact confirm_outer_ci m (m.recv - (m.tsUs + maxDelay)) extra s.ecuMap s hi hf (fun p hp => hp) h
    · exact h
  · exact h

/-- the two merge paths -/
theorem mergeTail_ci (s : St) (hi : LInv s) (hf : FInv s s.bufMsgs) (h : CIs s s.bufMsgs) (e : Nat) (last lc2 prev : Lc)
    (rest2Rev : List Lc) (hold : oldList s.ecuMap e = (last :: prev :: rest2Rev).reverse) (hid : lc2.id = last.id)
    (hn : lc2.nrMsgs = last.nrMsgs + 1) (mq : Msg) (hmq : mq.lc = prev.id) (hme : mq.ecu = e) (hnone : cntI last.id s.outIds = 0) :
    CIs (s.mergeTail lc2.id prev.id e ((prev.merge lc2 :: rest2Rev).reverse))
      ((s.mergeTail lc2.id prev.id e ((prev.merge lc2 :: rest2Rev).reverse)).bufMsgs ++ [mq]) := by
  have hold' : oldList s.ecuMap e = rest2Rev.reverse ++ [prev, last] := by rw [hold]; simp
  have base := ci_merge s.ecuMap s.nextId hi.map s.bufLcs hf.bufNodup s.outIds s.bufMsgs h e rest2Rev.reverse prev last lc2 mq
    hold' hid hn hmq hme hnone
  unfold St.mergeTail
  simp only []
  obtain ⟨u1, u2, u3, _, _, _, u7⟩ :=
    unpublishIfConfirmed_facts { s with bufMsgs := relabel lc2.id prev.id s.bufMsgs } lc2.id hi.pend
  generalize (St.unpublishIfConfirmed { s with bufMsgs := relabel lc2.id prev.id s.bufMsgs } lc2.id) = s2 at *
  have u1' : s2.bufLcs = s.bufLcs := u1
  have u2' : s2.bufMsgs = relabel lc2.id prev.id s.bufMsgs := u2
  have u3' : s2.ecuMap = s.ecuMap := u3
  have u7' : s2.out = s.out := u7
  have e1 : (setEcu { s2 with bufLcs := s2.bufLcs.erase lc2.id } e ((prev.merge lc2 :: rest2Rev).reverse)).ecuMap
      = assocSet e (rest2Rev.reverse ++ [prev.merge lc2]) s.ecuMap := by
    show assocSet e ((prev.merge lc2 :: rest2Rev).reverse) s2.ecuMap = _
    rw [u3', List.reverse_cons]
  have e2 : (setEcu { s2 with bufLcs := s2.bufLcs.erase lc2.id } e ((prev.merge lc2 :: rest2Rev).reverse)).bufLcs
      = s.bufLcs.erase last.id := by
    show s2.bufLcs.erase lc2.id = _
    rw [u1', hid]
  have e3 : (setEcu { s2 with bufLcs := s2.bufLcs.erase lc2.id } e ((prev.merge lc2 :: rest2Rev).reverse)).outIds = s.outIds :=
    outIds_of_out _ _ u7'
  have e4 : (setEcu { s2 with bufLcs := s2.bufLcs.erase lc2.id } e ((prev.merge lc2 :: rest2Rev).reverse)).bufMsgs
      = relabel last.id prev.id s.bufMsgs := by
    show s2.bufMsgs = _
    rw [u2', hid]
  generalize (setEcu { s2 with bufLcs := s2.bufLcs.erase lc2.id } e ((prev.merge lc2 :: rest2Rev).reverse)) = s4 at *
  have h4 : CIs s4 (s4.bufMsgs ++ [mq]) := by
    unfold CIs; rw [e1, e2, e3, e4]; exact base
  unfold St.flushIfDrained
  split
  · rename_i hc
    have hb : s4.bufLcs = [] := by
      simp only [Bool.and_eq_true, List.isEmpty_iff] at hc; exact hc.1
    unfold St.flushAll
    have hbm : (St.flushAll.go s4 0 s4.bufMsgs).bufMsgs = [] := (flushAll_go s4 0 s4.bufMsgs).2.1
    have hbl : (St.flushAll.go s4 0 s4.bufMsgs).bufLcs = [] := by rw [(flushAll_go s4 0 s4.bufMsgs).2.2]; exact hb
    have := flushAll_go_ci s4.bufMsgs s4 0 [mq] hb (by rw [← hb]; exact h4)
    unfold CIs
    rw [hbm, hbl]
    exact this
  · exact h4

theorem apply_n_none (l : Lc) (id : Nat) (m : Msg) (u : Upd) (h : (l.apply id m u).2.2 = none) :
    (l.apply id m u).1.nrMsgs = l.nrMsgs + 1 := by
  have := apply_n l id m u
  rw [h] at this
  simpa using this

theorem apply_n_some (l : Lc) (id : Nat) (m : Msg) (u : Upd) (nl : Lc) (h : (l.apply id m u).2.2 = some nl) : nl.nrMsgs = 1 := by
  have := apply_n l id m u
  have hf := (apply_facts l id m u).2.2.2
  rw [h] at this hf
  simp only [] at this hf
  rw [hf.2.2.2] at this
  omega

theorem assign_ci (s : St) (m : Msg) (hi : LInv s) (hf : FInv s s.bufMsgs) (h : CIs s s.bufMsgs) :
    CIs (s.assign m).1 ((s.assign m).1.bufMsgs ++ [(s.assign m).2]) := by
  unfold St.assign
  split
  · rename_i hold
    have ho : oldList s.ecuMap m.ecu = [] := by unfold oldList; simpa using hold
    unfold St.assignNew
    simp only []
    obtain ⟨n1, n2, n3, n4⟩ := new_facts s.nextId m
    have n5 : (Lc.new s.nextId m).1.nrMsgs = 1 := rfl
    generalize Lc.new s.nextId m = r at *
    have := ci_new s.ecuMap s.nextId hi.map s.bufLcs s.outIds s.bufMsgs h m.ecu r.1 r.2 n1 n2 n5 n3 n4
    rw [ho, List.nil_append] at this
    show CI (assocSet m.ecu [r.1] s.ecuMap) (s.bufLcs ++ [r.1.id]) s.outIds (s.bufMsgs ++ [r.2])
    rw [n1]; exact this
  · rename_i last restRev hold
    have ho : oldList s.ecuMap m.ecu = (last :: restRev).reverse := by
      unfold oldList
      have := congrArg List.reverse hold
      simpa using this
    unfold St.assignExisting
    simp only []
    obtain ⟨f1, f2, f3, f4⟩ := apply_facts last s.nextId m (last.classify m)
    have g1 := apply_n_none last s.nextId m (last.classify m)
    have g2 := apply_n_some last s.nextId m (last.classify m)
    have hu : last.update s.nextId m = last.apply s.nextId m (last.classify m) := rfl
    rw [← hu] at f1 f2 f3 f4 g1 g2
    generalize last.update s.nextId m = r at *
    split
    · rename_i nl hnl
      rw [hnl] at f4
      obtain ⟨k1, k2, k3, k4⟩ := f4
      have := ci_new s.ecuMap s.nextId hi.map s.bufLcs s.outIds s.bufMsgs h m.ecu nl r.2.1 k2 k3 (g2 nl hnl) k1 f3
      rw [ho] at this
      show CI (assocSet m.ecu ((nl :: r.1 :: restRev).reverse) s.ecuMap) (s.bufLcs ++ [nl.id]) s.outIds (s.bufMsgs ++ [r.2.1])
      rw [k2, k4]
      simpa using this
    · rename_i hnone
      rw [hnone] at f4
      have f4' : r.2.1.lc = last.id := f4
      have hkeep : ∀ rr : List Lc, restRev = rr →
          CI (assocSet m.ecu ((r.1 :: rr).reverse) s.ecuMap) s.bufLcs s.outIds (s.bufMsgs ++ [r.2.1]) := by
        intro rr hrr
        subst hrr
        have := ci_keep s.ecuMap s.nextId hi.map s.bufLcs s.outIds s.bufMsgs h m.ecu restRev.reverse last r.1 r.2.1
          (by rw [ho]; simp) f1 f2 (g1 hnone) f4' f3
        simpa using this
      split
      · exact hkeep [] rfl
      · rename_i prev rest2Rev
        unfold St.maybeMerge
        have hlastIn : last ∈ oldList s.ecuMap m.ecu := by rw [ho]; simp
        have hprevIn : prev ∈ oldList s.ecuMap m.ecu := by rw [ho]; simp
        have hlastLive := oldList_live _ _ last hlastIn
        have hprevLive := oldList_live _ _ prev hprevIn
        have hsort := sorted_of_oldList s.ecuMap m.ecu h.sorted
        have hpl : prev.id < last.id := by
          rw [ho] at hsort
          have e0 : (last :: prev :: rest2Rev).reverse = rest2Rev.reverse ++ [prev, last] := by simp
          rw [e0, List.map_append, List.pairwise_append] at hsort
          have := hsort.2.1
          simpa using this
        split
        · split
          · rename_i _ hc
            rw [f3]
            have hpb : prev.id ∈ s.bufLcs := by simpa using hc
            have hecu : prev.ecu = last.ecu := by
              rw [oldList_ecu s.ecuMap s.nextId m.ecu hi.map prev hprevIn, oldList_ecu s.ecuMap s.nextId m.ecu hi.map last hlastIn]
            have hnone' := (h.older prev last hprevLive hlastLive hecu hpl hpb).1
            exact mergeTail_ci s hi hf h m.ecu last r.1 prev rest2Rev ho f1 (g1 hnone) _ rfl rfl hnone'
          · split
            · rename_i _ _ hc
              rw [f3]
              have hcnt : cntM last.id s.bufMsgs + 1 = r.1.nrMsgs := by
                have : (s.bufMsgs.filter (fun x => x.lc == r.1.id)).length + 1 = r.1.nrMsgs := by simpa using hc
                rw [f1] at this; exact this
              have hnone' : cntI last.id s.outIds = 0 := by
                have := h.cnt last hlastLive
                have := g1 hnone
                omega
              exact mergeTail_ci s hi hf h m.ecu last r.1 prev rest2Rev ho f1 (g1 hnone) _ rfl rfl hnone'
            · rw [f3]; exact hkeep _ rfl
        · rw [f3]; exact hkeep _ rfl

theorem deliver_ci (s : St) (m : Msg) (hok : s.ok) (h : CIs s (s.bufMsgs ++ [m])) : CIs (s.deliver m) (s.deliver m).bufMsgs := by
  unfold St.deliver
  split
  · exact h
  · rename_i hb
    have he : s.bufLcs = [] := by simpa using hb
    have hm : s.bufMsgs = [] := hok he
    rw [hm, List.nil_append] at h
    obtain ⟨_, b, c⟩ := mark_core s m.lc
    show CI (s.mark m.lc).ecuMap (s.mark m.lc).bufLcs ((s.mark m.lc).emit m).outIds (s.mark m.lc).bufMsgs
    rw [outIds_emit, outIds_mark, b, c, mark_buf, hm]
    exact ci_pop _ _ _ m [] h (by rw [he]; simp)

theorem step_ci (s : St) (m : Msg) (hi : LInv s) (hp : IdPos s) (hf : FInv s s.bufMsgs) (hok : s.ok) (h : CIs s s.bufMsgs) :
    CIs (s.step m) (s.step m).bufMsgs := by
  unfold St.step
  split
  · exact h
  · simp only []
    have ha := assign_ci s m hi hf h
    have haf := assign_finv s m hi hp hf
    obtain ⟨ai, _⟩ := assign_inv s hi m
    split
    · rename_i hs _ hpan
      rw [assign_panicked] at hpan
      exact absurd hpan hs
    · have aok := (assign_spec s m).2.2 hok
      have cok := (confirm_pres (s.assign m).1 (s.assign m).2).ok aok
      exact deliver_ci _ _ cok (confirm_ci _ _ [(s.assign m).2] ai haf ha)

theorem step_ok (s : St) (m : Msg) (hok : s.ok) : (s.step m).ok := by
  unfold St.step
  split
  · exact hok
  · simp only []
    split
    · exact (assign_spec s m).2.2 hok
    · have aok := (assign_spec s m).2.2 hok
      have cok := (confirm_pres (s.assign m).1 (s.assign m).2).ok aok
      exact (deliver_spec _ _ cok).2

theorem steps_ci (ms : List Msg) (s : St) (hi : LInv s) (hp : IdPos s) (hf : FInv s s.bufMsgs) (hok : s.ok) (h : CIs s s.bufMsgs) :
    CIs (ms.foldl St.step s) (ms.foldl St.step s).bufMsgs := by
  induction ms generalizing s with
  | nil => exact h
  | cons m t ih =>
    exact ih _ (step_inv s hi m) (idpos_step s m hp) (step_finv s m hi hp hf) (step_ok s m hok) (step_ci s m hi hp hf hok h)

theorem init_ci : CIs ({} : St) [] := by
  refine ⟨?_, ?_, ?_, ?_, ?_, ?_, ?_⟩
  · intro lc ⟨p, hp, _⟩; cases hp
  · intro lc ⟨p, hp, _⟩; cases hp
  · intro lc ⟨p, hp, _⟩; cases hp
  · intro p hp; cases hp
  · intro m hm; cases hm
  · intro p hp; cases hp
  · intro a b ⟨p, hp, _⟩; cases hp

/-! ### the end of the stream -/

theorem ci_drain (em : List (Nat × List Lc)) : ∀ (Q : List Msg) (oi : List (Nat × Nat)), CI em [] oi Q →
    CI em [] ((Q.reverse.map fun m => (m.lc, m.ecu)) ++ oi) [] := by
  intro Q
  induction Q with
  | nil => intro oi h; exact h
  | cons m t ih =>
    intro oi h
    have := ih _ (ci_pop em [] oi m t h (by simp))
    simpa using this

theorem flushOne_fold_outIds (l : List Msg) : ∀ (x : St), (l.foldl St.flushOne x).outIds = (l.reverse.map fun m => (m.lc, m.ecu)) ++ x.outIds := by
  induction l with
  | nil => intro x; rfl
  | cons m t ih =>
    intro x
    simp only [List.foldl_cons]
    rw [ih, St.flushOne, outIds_emit, outIds_mark]
    simp

theorem finish_outIds (s : St) (hs : s.panicked = false) :
    s.finish.outIds = (s.bufMsgs.reverse.map fun m => (m.lc, m.ecu)) ++ s.outIds := by
  unfold St.finish
  simp only [hs, Bool.false_eq_true, if_false]
  generalize h1 : (s.publishWhere fun s lc => s.bufLcs.contains lc.id).refresh = s1
  have q1 : s1.out = s.out ∧ s1.bufMsgs = s.bufMsgs := by
    subst h1
    have := publishWhere_qsame (fun s lc => s.bufLcs.contains lc.id) s
    exact ⟨this.out, this.buf⟩
  generalize h2 : ({ s1.bufMsgs.foldl St.flushOne s1 with bufMsgs := [] } : St) = s2
  have q2 : s2.outIds = (s.bufMsgs.reverse.map fun m => (m.lc, m.ecu)) ++ s.outIds := by
    subst h2
    show (s1.bufMsgs.foldl St.flushOne s1).outIds = _
    rw [flushOne_fold_outIds, q1.2, outIds_of_out s1 s q1.1]
  have q3 := publishWhere_qsame (fun s lc => s.toRefresh.contains lc.id) s2
  rw [← q2]
  exact outIds_of_out _ _ q3.out

/-- at the end: every live lifecycle counts exactly the delivered messages that carry its id; every delivered id is live -/
theorem run_counts (ms : List Msg) :
    (∀ lc, Live (run ms).ecuMap lc → lc.nrMsgs = cntI lc.id (run ms).outIds ∧ 1 ≤ lc.nrMsgs) ∧
    (∀ p ∈ (run ms).outIds, ∃ lc, Live (run ms).ecuMap lc ∧ lc.id = p.1 ∧ lc.ecu = p.2) := by
  have hi := steps_inv ms {} init_inv
  have hf := steps_finv ms {} init_inv idpos_init init_finv
  have hc := steps_ci ms {} init_inv idpos_init init_finv (fun _ => rfl) init_ci
  have hnp : (ms.foldl St.step ({} : St)).panicked = false := by rw [foldl_panicked _ step_panicked]
  have hem : (run ms).ecuMap = (ms.foldl St.step {}).ecuMap := finish_ecuMap _
  have ho : (run ms).outIds = _ := finish_outIds (ms.foldl St.step {}) hnp
  have hd := ci_drain _ _ _ (ci_unbuffer _ _ [] _ _ hc (fun i hi' => by cases hi'))
  rw [← ho, ← hem] at hd
  refine ⟨?_, hd.outLive⟩
  intro lc hl
  have := hd.cnt lc hl
  exact ⟨by simpa [cntM] using this, hd.pos lc hl⟩

end Lcm
