import Adlt.Lc.Spec
import Adlt.Lc.Listing
import Adlt.Util.Parse
/-! Line-protocol glue for the lifecycle model: `case \t implobs` -> `modelobs \t oracle(impl) \t oracle(model) \t branches`. -/
namespace Lcm
open Util

def parseMsg (i : Nat) (s : String) : Option Msg :=
  match (s.splitOn ",").map String.toNat? with
  | [some e, some r, some t, some h, some c] =>
    some { index := i, recv := r, ecu := e, tsDms := t, hasTs := h == 1, ctrlReq := c == 1 }
  | _ => none

def parseCase (line : String) : List Msg :=
  ((fields line ";").zipIdx.filterMap fun (p, i) => parseMsg i p)

/-- canonical text of an observation: ids renumbered by first appearance among delivered messages -/
def canonObs (ms : List Msg) (o : Obs) : String :=
  let ids := firstSeen (o.out.map (·.lc))
  let outs := o.out.map fun x =>
    let same := ms.any fun m => eraseLc m == x.m
    s!"{x.m.index}:{canonIdx ids x.lc}:{b2s x.vis}:{b2s same}"
  let tbl := o.tbl.map fun t => (canonIdx ids t.id, t.ecu, t.n, t.start, t.endT, t.resume)
  let tbl := tbl.toArray.qsort (fun a b => decide (toString a < toString b)) |>.toList
  " ".intercalate outs ++ " | " ++
    " ".intercalate (tbl.map fun (k, e, n, st, en, r) => s!"{k},{e},{n},{st},{en},{b2s r}")

def poison (i : Nat) : Msg := { index := i, recv := 0, ecu := 0, tsDms := 0, hasTs := false, ctrlReq := false, lc := 1 }

/-- rebuild an `Obs` from the implementation's canonical text -/
def parseListing (c : String) : Option (List (Nat × LcE)) :=
  if c.trimAscii.toString == "PANIC" then none else
  some ((fields c " ").map fun f =>
    match (f.splitOn ",").map nat! with
    | [k, st, r, rel] => (k, ({ id := rel, start := st, resume := if r == 0 then none else some r } : LcE))
    | _ => (0, { id := 0, start := 0, resume := none }))

def parseObs (ms : List Msg) (s : String) : Option Obs :=
  match (s.splitOn " | ").take 2 with
  | [a, b] =>
    let outs := (fields a " ").map fun f =>
      match (f.splitOn ":").map nat! with
      | [i, k, v, same] =>
        let m := if same == 1 then (match ms.find? (·.index == i) with | some m => eraseLc m | none => poison i) else poison i
        ({ m := m, lc := k, vis := v == 1 } : OutObs)
      | _ => { m := poison 0, lc := 0, vis := false }
    let tbl := (fields b " ").map fun f =>
      match (f.splitOn ",").map nat! with
      | [k, e, n, st, en, r] => ({ id := k, ecu := e, n := n, start := st, endT := en, resume := r == 1 } : TblObs)
      | _ => { id := 0, ecu := 0, n := 0, start := 0, endT := 0, resume := false }
    some { out := outs, tbl := tbl }
  | _ => none

def listingOracle (o : Obs) (L : Option (List (Nat × LcE))) : String :=
  match L with
  | none => "FAIL:listing-panics"
  | some KL =>
    let L := KL.map (·.2)
    if !Spec.listOnce (o.tbl.map (·.id)) (KL.map fun (k, e) => { e with id := k }) then "FAIL:listing-not-each-once"
    else if !Spec.resumeAfterOrigin L then "FAIL:listing-resumed-before-origin"
    else if !Spec.sortedIfNoResume L then "FAIL:listing-not-sorted-by-start"
    else if !Spec.resumeIdsIncrease L then "FAIL:resume-origin-id-not-smaller"
    else if (listing L).map (·.id) != L.map (·.id) then "FAIL:listing-differs-from-model-sort"
    else "ok"

def oracle (ms : List Msg) (o : Obs) (L : Option (Option (List (Nat × LcE))) := none) : String :=
  let c05 := if !Spec.C05order ms o then "FAIL:order" else if !Spec.C05nonzero o then "FAIL:zero-id"
             else if !Spec.C06 o then "FAIL:foreign-or-unpublished-id" else "ok"
  let c06 := if Spec.C06 o then "ok" else "FAIL:unpublished-at-delivery"
  let c07 := if !Spec.C07listedOnce o then "FAIL:listed-twice" else if !Spec.C07covers o then "FAIL:delivered-id-not-listed"
             else if !Spec.C07exact o then "FAIL:count-mismatch" else if !Spec.C07ecu o then "FAIL:ecu-mismatch"
             else if !Spec.C07referenced o then "FAIL:phantom-entry" else if !Spec.C07sum o then "FAIL:sum"
             else match L with
               | none => "ok"
               | some L => listingOracle o L
  s!"C05={c05};C06={c06};C07={c07}"

/-- coarse branch coverage of a model run (for generator-quality evidence) -/
def branches (ms : List Msg) (s : St) : String :=
  let o := observe s
  let nLc := (firstSeen (o.out.map (·.lc))).length
  let necu := (firstSeen (ms.map (·.ecu))).length
  let tags : List String :=
    (if s.panicked then ["assert"] else []) ++
    (if nLc > necu then ["multi-lc"] else []) ++
    (if o.tbl.any (·.resume) then ["resume"] else []) ++
    (if o.tbl.length > nLc then ["phantom"] else []) ++
    (if ms.any (·.ctrlReq) then ["ctrl"] else []) ++
    (if ms.any (fun m => !m.hasTs) then ["no-ts"] else []) ++
    (if necu > 1 then ["multi-ecu"] else [])
  ",".intercalate tags

def doLine (line : String) : String :=
  let (c, impl) := match line.splitOn "\t" with
    | [c, i] => (c, i)
    | [c] => (c, "")
    | _ => ("", "")
  let ms := parseCase c
  let s := run ms
  let mobs := if s.panicked then "PANIC" else canonObs ms (observe s)
  let oi := if impl == "" then "-" else if impl == "PANIC" then "C05=PANIC;C06=PANIC;C07=PANIC" else
    match parseObs ms impl with
    | some o => oracle ms o (some (parseListing (((impl.splitOn " | ").drop 2).headD "")))
    | none => "C05=FAIL:unparsable;C06=FAIL:unparsable;C07=FAIL:unparsable"
  let om := if s.panicked then "C05=PANIC;C06=PANIC;C07=PANIC" else oracle ms (observe s)
  s!"{mobs}\t{oi}\t{om}\t{branches ms s}"

end Lcm
