import Adlt.Lc.Spec
import Adlt.Lc.Listing
import Adlt.Util.Parse
/-! Line-protocol glue for the lifecycle model: `case \t implobs` -> `modelobs \t oracle(impl) \t oracle(model) \t branches`. -/
namespace Lcm
open Util

def parseMsg (i : Nat) (s : String) : Option Msg :=
  match (s.splitOn ",").map String.toNat? with
  | [some e, some r, some t, some h, some c] =>
    some { index := i, recv := r, ecu := e, tsDms := t, hasTs := h == 1, ctrlReq := c == 1 }
  | [some e, some r, some t, some h, some c, some _boot] =>
    some { index := i, recv := r, ecu := e, tsDms := t, hasTs := h == 1, ctrlReq := c == 1 }
  | _ => none

/-- ground truth of a clean trace: the boot number of each message -/
def parseBoots (line : String) : List Nat :=
  (fields line ";").map fun p => match (p.splitOn ",").map nat! with | [_, _, _, _, _, b] => b | _ => 0

def parseCase (line : String) : List Msg :=
  ((fields line ";").zipIdx.filterMap fun (p, i) => parseMsg i p)

/-- canonical text of an observation: ids renumbered by first appearance among delivered messages -/
def canonObs (ms : List Msg) (o : Obs) : String :=
  let ids := firstSeen (o.out.map (·.lc))
  let outs := o.out.map fun x =>
    let same := ms.any fun m => eraseLc m == x.m
    s!"{x.m.index}:{canonIdx ids x.lc}:{b2s x.vis}:{b2s same}"
  let tbl := o.tbl.map fun t => (canonIdx ids t.id, t.ecu, t.n, t.start, t.endT, t.resume, t.key)
  let tbl := tbl.toArray.qsort (fun a b => decide (toString a < toString b)) |>.toList
  " ".intercalate outs ++ " | " ++
    " ".intercalate (tbl.map fun (k, e, n, st, en, r, ky) => s!"{k},{e},{n},{st},{en},{b2s r},{ky}")

def poison (i : Nat) : Msg := { index := i, recv := 0, ecu := 0, tsDms := 0, hasTs := false, ctrlReq := false, lc := 1 }

/-- rebuild an `Obs` from the implementation's canonical text -/
def parseListing (c : String) : Option (List (Nat × LcE)) :=
  if c.trimAscii.toString == "PANIC" then none else
  some ((fields c " ").map fun f =>
    match ((f.splitOn ",").map nat!).take 4 with
    | [k, st, r, rel] => (k, ({ id := rel, start := st, resume := if r == 0 then none else some r } : LcE))
    | _ => (0, { id := 0, start := 0, resume := none }))

/-- the keys `adlt remote` orders its listing by: (relative raw id, id of the resumed lifecycle or 0, key) -/
def parseKeys (c : String) : List (Nat × Nat × Nat) :=
  (fields c " ").filterMap fun f =>
    match (f.splitOn ",").map nat! with
    | [_, _, r, rel, ky] => some (rel, r, ky)
    | _ => none

/-- every resumed lifecycle has a key strictly behind the key of the lifecycle it resumes -/
def keysOrdered (ks : List (Nat × Nat × Nat)) : Bool :=
  ks.all fun (_, r, ky) => r == 0 || ks.all fun (rel', _, ky') => rel' != r || ky' < ky

def parseObs (ms : List Msg) (s : String) : Option Obs :=
  match (s.splitOn " | ").take 2 with
  | [a, b] =>
    let outs := (fields a " ").map fun f =>
      match (f.splitOn ":").map nat! with
      | [i, k, v, same] =>
        let m := if same == 1 then (match ms.find? (·.index == i) with | some m => eraseLc m | none => poison i) else poison i
        ({ m := m, lc := k, vis := v == 1 } : OutObs)
      | _ => { m := poison 0, lc := 0, vis := false }
    let tbl := (fields b " ").map fun f =>
      match (f.splitOn ",").map nat! with
      | [k, e, n, st, en, r, ky] => ({ id := k, ecu := e, n := n, start := st, endT := en, resume := r == 1, key := ky } : TblObs)
      | [k, e, n, st, en, r] => ({ id := k, ecu := e, n := n, start := st, endT := en, resume := r == 1, key := st } : TblObs)
      | _ => { id := 0, ecu := 0, n := 0, start := 0, endT := 0, resume := false, key := 0 }
    some { out := outs, tbl := tbl }
  | _ => none

def listingOracle (o : Obs) (L : Option (List (Nat × LcE))) (keys : List (Nat × Nat × Nat) := []) : String :=
  match L with
  | none => "FAIL:listing-panics"
  | some KL =>
    let L := KL.map (·.2)
    if !Spec.listOnce (o.tbl.map (·.id)) (KL.map fun (k, e) => { e with id := k }) then "FAIL:listing-not-each-once"
    else if !Spec.resumeAfterOrigin L then "FAIL:listing-resumed-before-origin"
    else if !Spec.sortedIfNoResume L then "FAIL:listing-not-sorted-by-start"
    else if !Spec.resumeIdsIncrease L then "FAIL:resume-origin-id-not-smaller"
    else if (listing L).map (·.id) != L.map (·.id) then "FAIL:listing-differs-from-model-sort"
    else if !keysOrdered keys then "FAIL:remote-listing-key-resumed-not-behind-origin"
    else "ok"

def oracle (ms : List Msg) (o : Obs) (L : Option (Option (List (Nat × LcE))) := none) (keys : List (Nat × Nat × Nat) := []) : String :=
  let c05 := if !Spec.C05order ms o then "FAIL:order" else if !Spec.C05nonzero o then "FAIL:zero-id"
             else if !Spec.C06 o then "FAIL:foreign-or-unpublished-id" else "ok"
  let c06 := if Spec.C06 o then "ok" else "FAIL:unpublished-at-delivery"
  let c07 := if !Spec.C07listedOnce o then "FAIL:listed-twice" else if !Spec.C07covers o then "FAIL:delivered-id-not-listed"
             else if !Spec.C07exact o then "FAIL:count-mismatch" else if !Spec.C07ecu o then "FAIL:ecu-mismatch"
             else if !Spec.C07referenced o then "FAIL:phantom-entry" else if !Spec.C07sum o then "FAIL:sum"
             else match L with
               | none => "ok"
               | some L => listingOracle o L keys
  s!"C05={c05};C06={c06};C07={c07}"

/-- coarse branch coverage of a model run (for generator-quality evidence) -/
def branches (ms : List Msg) (s : St) : String :=
  let o := observe s
  let nLc := (firstSeen (o.out.map (·.lc))).length
  let necu := (firstSeen (ms.map (·.ecu))).length
  let tags : List String :=
    (if s.panicked then ["assert"] else []) ++
    (if nLc > necu then ["multi-lc"] else []) ++
    (if o.tbl.any (·.resume) then ["resume"] else []) ++
    (if o.tbl.length > nLc then ["phantom"] else []) ++
    (if ms.any (·.ctrlReq) then ["ctrl"] else []) ++
    (if ms.any (fun m => !m.hasTs) then ["no-ts"] else []) ++
    (if necu > 1 then ["multi-ecu"] else [])
  ",".intercalate tags

def doLine (line : String) : String :=
  let (c, impl) := match line.splitOn "\t" with
    | [c, i] => (c, i)
    | [c] => (c, "")
    | _ => ("", "")
  let ms := parseCase c
  let s := run ms
  let mobs := if s.panicked then "PANIC" else canonObs ms (observe s)
  let oi := if impl == "" then "-" else if impl == "PANIC" then "C05=PANIC;C06=PANIC;C07=PANIC" else
    match parseObs ms impl with
    | some o => oracle ms o (some (parseListing (((impl.splitOn " | ").drop 2).headD ""))) (parseKeys (((impl.splitOn " | ").drop 2).headD ""))
    | none => "C05=FAIL:unparsable;C06=FAIL:unparsable;C07=FAIL:unparsable"
  let om := if s.panicked then "C05=PANIC;C06=PANIC;C07=PANIC" else oracle ms (observe s)
  s!"{mobs}\t{oi}\t{om}\t{branches ms s}"

/-! ### C08: cleanly separated power cycles -/

structure Boot where
  ecu : Nat
  boot : Nat
  start : Nat      -- boot time + transport delay = reception time - timestamp (constant within a boot)
  maxTs : Nat      -- largest timestamp (us)
  n : Nat
deriving Repr, DecidableEq

def bootsOf (ms : List Msg) (bs : List Nat) : List Boot :=
  (ms.zip bs).foldl (fun acc (m, b) =>
    match acc.find? (fun x => x.ecu == m.ecu && x.boot == b) with
    | some x => acc.map fun y => if y.ecu == m.ecu && y.boot == b then { y with maxTs := max y.maxTs m.tsUs, n := y.n + 1 } else y
    | none => acc ++ [{ ecu := m.ecu, boot := b, start := m.recv - m.tsUs, maxTs := m.tsUs, n := 1 }]) []

/-- the region in which exact detection is claimed (DESIGN.md, C08): the next boot starts after the end of the previous one,
    or overlaps its end by less than the "slightly overlapping" window while the previous boot was longer than 10 s -/
def c08Region (boots : List Boot) : Bool :=
  boots.all fun b => boots.all fun b' =>
    !(b.ecu == b'.ecu && b'.boot == b.boot + 1) ||
    (let e := b.start + b.maxTs
     b'.start > e || (b'.start ≤ e && b'.start + usPerSec * Gen.lcSlightOverlapSecs > e && e > b.start + usPerSec * Gen.lcMinLenForOverlapSecs))

/-- exactly one lifecycle per boot per ECU, every message in the lifecycle of its boot, start = boot time + delay,
    end = start + largest timestamp, count = number of messages of the boot -/
def c08Exact (ms : List Msg) (bs : List Nat) (o : Obs) : Bool :=
  let boots := bootsOf ms bs
  let lcOf (i : Nat) : Nat := match o.out.find? (·.m.index == i) with | some x => x.lc | none => 0
  o.out.length == ms.length && o.tbl.length == boots.length &&
  boots.all fun b =>
    let idx := ((ms.zip bs).filter fun (m, bb) => m.ecu == b.ecu && bb == b.boot).map (·.1.index)
    match idx with
    | [] => true
    | i0 :: _ =>
      let l := lcOf i0
      idx.all (fun i => lcOf i == l) &&
      (((ms.zip bs).filter fun (m, bb) => lcOf m.index == l)).all (fun (m, bb) => m.ecu == b.ecu && bb == b.boot) &&
      o.tbl.any fun t => t.id == l && t.ecu == b.ecu && t.n == b.n && t.start == b.start && t.endT == b.start + b.maxTs

def doLine8 (line : String) : String :=
  let (c, impl) := match line.splitOn "\t" with
    | [c, i] => (c, i)
    | [c] => (c, "")
    | _ => ("", "")
  let ms := parseCase c
  let bs := parseBoots c
  let s := run ms
  let mobs := if s.panicked then "PANIC" else canonObs ms (observe s)
  let inReg := c08Region (bootsOf ms bs)
  let orc (o : Option Obs) : String :=
    match o with
    | none => "C08=FAIL:unparsable"
    | some o =>
      if c08Exact ms bs o then "C08=ok"
      else if inReg then "C08=FAIL:clean-trace-in-claimed-region-not-detected-exactly"
      else "C08=FAIL:clean-trace-outside-claimed-region-fused-or-split"
  let oi := if impl == "" then "-" else if impl == "PANIC" then "C08=FAIL:panic" else orc (parseObs ms impl)
  let nb := (bootsOf ms bs).length
  let tags : List String :=
    (if inReg then ["claimed-region"] else ["outside-region"]) ++ (if nb > (firstSeen (ms.map (·.ecu))).length then ["multi-boot"] else []) ++
    (if (firstSeen (ms.map (·.ecu))).length > 1 then ["multi-ecu"] else []) ++
    (if (observe s).tbl.any (·.resume) then ["resume-flagged"] else []) ++
    (if ms.any (·.tsDms == 0) then ["first-ts-0"] else [])
  s!"{mobs}\t{oi}\t{orc (if s.panicked then none else some (observe s))}\t{",".intercalate tags}"

/-! ### C07 at the level of the `adlt remote` binary: the lifecycle table a client ends up with -/

/-- case text with runs `*<n>,<ecu>,<recv>,<ts>,<step>` -/
def expandCase (line : String) : List Msg :=
  let items : List (Nat × Nat × Nat × Bool × Bool) := (fields line ";").flatMap fun p =>
    if p.startsWith "*" then
      match ((p.drop 1).toString.splitOn ",").map nat! with
      | [n, e, r, t, st] => (List.range n).map fun k => (e, r + k * st, t + k * st / 100, true, false)
      | _ => []
    else
      match ((p.splitOn ",").map nat!).take 5 with
      | [e, r, t, h, c] => [(e, r, if h == 1 then t else 0, h == 1, c == 1)]   -- a message without a time stamp has none in the file
      | _ => []
  items.zipIdx.map fun ((e, r, t, h, c), i) => { index := i, recv := r, ecu := e, tsDms := t, hasTs := h, ctrlReq := c }

def rankIn (ids : List Nat) (id : Nat) : Nat := match ids.idxOf? id with | some i => i + 1 | none => 0

def rlcModel (ms : List Msg) : String :=
  let s := run ms
  let tbl := (s.published.map (·.2)).filter fun l => decide (l.nrCtrl < l.nrMsgs)
  let tbl := isortStable (fun (a b : Lc) => decide (a.id ≤ b.id)) tbl
  let ids := tbl.map (·.id)
  let L := tbl.map fun l => s!"{rankIn ids l.id},{l.ecu},{l.nrMsgs},{l.start},{l.endTime},{b2s l.resume.isSome}"
  let T := (isortStable (fun (a b : Lc) => decide (a.resumeStart ≤ b.resumeStart)) tbl).map fun l =>
    s!"{rankIn ids l.id},{l.ecu},{l.nrMsgs},{l.endTime},{b2s l.resume.isSome}"
  let R := tbl.filterMap fun l => match l.resume with
    | some r => if ids.contains r.id then some s!"{rankIn ids l.id}-{rankIn ids r.id}" else none
    | none => none
  s!"T:{" ".intercalate T} L:{" ".intercalate L} R:{" ".intercalate R}"

def rlcOracle (obs : String) : String :=
  if !obs.startsWith "T:" then (if obs.startsWith "INCOMPLETE" then "C07=FAIL:remote-file-not-fully-processed" else "C07=FAIL:server-not-reachable") else
  match (obs.drop 2).toString.splitOn " L:" with
  | [t, rest] =>
    match rest.splitOn " R:" with
    | [l, r] =>
      let T := fields t " "
      let L := fields l " "
      let proj (e : String) : String := match e.splitOn "," with | [k, ec, n, _, en, rs] => s!"{k},{ec},{n},{en},{rs}" | _ => e
      let Lp := L.map proj
      let idOf (e : String) : String := (e.splitOn ",").headD ""
      let pos (k : String) : Nat := match (T.map idOf).idxOf? k with | some i => i | none => 0
      let resumedOk := (fields r " ").all fun pr => match pr.splitOn "-" with | [b, a] => pos a < pos b | _ => true
      if T.length != L.length then "C07=FAIL:remote-listing-has-other-lifecycles-than-the-final-table"
      else if !(T.all fun e => Lp.contains e) || !(Lp.all fun e => T.contains e) then "C07=FAIL:remote-listing-entry-differs-from-the-final-table"
      else if !resumedOk then "C07=FAIL:remote-listing-resumed-before-origin"
      else "C07=ok"
    | _ => "C07=FAIL:unparsable"
  | _ => "C07=FAIL:unparsable"

def doLineRlc (line : String) : String :=
  let (c, impl) := match line.splitOn "\t" with
    | [c, i] => (c, i)
    | [c] => (c, "")
    | _ => ("", "")
  let ms := expandCase c
  -- the list based model is quadratic in the queue length: beyond a few thousand messages the implementation's own final
  -- table (part L of its observation) stands in for the model's; the model is tied to it by the `lc` area
  let big := ms.length > 4000
  let mobs := if big then impl else rlcModel ms
  let tags : List String :=
    (if big then ["big"] else ["small"]) ++ (if (mobs.splitOn " R:").getD 1 "" != "" then ["resume"] else []) ++
    (if ms.any (·.ctrlReq) then ["ctrl"] else [])
  s!"{mobs}\t{if impl == "" then "-" else rlcOracle impl}\t{if big then "C07=ok" else rlcOracle mobs}\t{",".intercalate tags}"

end Lcm
