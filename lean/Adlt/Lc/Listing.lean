/-! Model of `get_sorted_lifecycles_as_vec` (src/lifecycle/mod.rs): a stable sort of the table with the
    resume-aware comparator. Rust's `sort_by` is a stable sort; for a comparator that is a total preorder
    every stable sort returns the same list, so insertion sort is a faithful model exactly then. -/
namespace Lcm

/-- the view of a table entry the comparator looks at -/
structure LcE where
  id : Nat
  start : Nat
  resume : Option Nat   -- id of the lifecycle it resumes
deriving Repr, DecidableEq

/-- `effective_start_time`: max of the own start and the starts of all lifecycles it resumes, directly or
    indirectly, as far as they are (still) in the table and have a smaller id (the Rust loop stops otherwise) -/
def effStart (t : List LcE) (lc : LcE) : Nat :=
  match lc.resume with
  | none => lc.start
  | some r =>
    match t.find? (·.id == r) with
    | some o => if _h : o.id < lc.id then max lc.start (effStart t o) else lc.start
    | none => lc.start
termination_by lc.id

/-- `(effective_start_time(a), a.id) ≤ (effective_start_time(b), b.id)` (tuple order used by `sort_by_cached_key`) -/
def keyLe (t : List LcE) (a b : LcE) : Bool :=
  effStart t a < effStart t b || (effStart t a == effStart t b && a.id ≤ b.id)

def insertBy (le : α → α → Bool) (x : α) : List α → List α
  | [] => [x]
  | y :: t => if le y x then y :: insertBy le x t else x :: y :: t   -- stable: x goes after equal elements

def isort (le : α → α → Bool) : List α → List α
  | [] => []
  | x :: t => insertBy le x (isort le t)

def isortStable (le : α → α → Bool) (l : List α) : List α := l.foldl (fun acc x => insertBy le x acc) []

def listing (t : List LcE) : List LcE := isortStable (keyLe t) t

theorem insertBy_perm (le : α → α → Bool) (x : α) (l : List α) : (insertBy le x l).Perm (x :: l) := by
  induction l with
  | nil => exact List.Perm.refl _
  | cons y t ih =>
    simp only [insertBy]; split
    · exact (List.Perm.cons y ih).trans (List.Perm.swap x y t)
    · exact List.Perm.refl _

theorem foldl_insert_perm (le : α → α → Bool) (l acc : List α) :
    (l.foldl (fun acc x => insertBy le x acc) acc).Perm (l ++ acc) := by
  induction l generalizing acc with
  | nil => exact List.Perm.refl _
  | cons x t ih =>
    simp only [List.foldl_cons]
    refine (ih _).trans ?_
    refine (List.Perm.append_left t (insertBy_perm le x acc)).trans ?_
    simpa using (List.perm_middle (a := x) (l₁ := t) (l₂ := acc))

theorem isortStable_perm (le : α → α → Bool) (l : List α) : (isortStable le l).Perm l := by
  simpa [isortStable] using foldl_insert_perm le l []

/-- `le` restricted to the members of `S` is total and transitive -/
def TotalPreOn (le : α → α → Bool) (S : List α) : Prop :=
  (∀ a ∈ S, ∀ b ∈ S, le a b = true ∨ le b a = true) ∧
  (∀ a ∈ S, ∀ b ∈ S, ∀ c ∈ S, le a b = true → le b c = true → le a c = true)

theorem insertBy_sorted (le : α → α → Bool) (S : List α) (h : TotalPreOn le S) (x : α) (l : List α)
    (hx : x ∈ S) (hl : ∀ y ∈ l, y ∈ S) (hs : l.Pairwise (fun a b => le a b = true)) :
    (insertBy le x l).Pairwise (fun a b => le a b = true) := by
  induction l with
  | nil => simp [insertBy]
  | cons y t ih =>
    have hy : y ∈ S := hl y (by simp)
    have ht : ∀ z ∈ t, z ∈ S := fun z hz => hl z (by simp [hz])
    rw [List.pairwise_cons] at hs
    simp only [insertBy]; split
    · rename_i hyx
      rw [List.pairwise_cons]
      refine ⟨?_, ih ht hs.2⟩
      intro z hz
      have := (insertBy_perm le x t).mem_iff.mp hz
      simp only [List.mem_cons] at this
      rcases this with h1 | h1
      · subst h1; exact hyx
      · exact hs.1 z h1
    · rename_i hyx
      have hxy : le x y = true := by
        rcases h.1 x hx y hy with h1 | h1
        · exact h1
        · exact absurd h1 hyx
      rw [List.pairwise_cons]
      refine ⟨?_, List.pairwise_cons.mpr hs⟩
      intro z hz
      simp only [List.mem_cons] at hz
      rcases hz with h1 | h1
      · subst h1; exact hxy
      · exact h.2 x hx y hy z (ht z h1) hxy (hs.1 z h1)

theorem foldl_insert_sorted (le : α → α → Bool) (S : List α) (h : TotalPreOn le S) (l acc : List α)
    (hl : ∀ y ∈ l, y ∈ S) (ha : ∀ y ∈ acc, y ∈ S) (hs : acc.Pairwise (fun a b => le a b = true)) :
    (l.foldl (fun acc x => insertBy le x acc) acc).Pairwise (fun a b => le a b = true) := by
  induction l generalizing acc with
  | nil => exact hs
  | cons x t ih =>
    simp only [List.foldl_cons]
    apply ih
    · exact fun y hy => hl y (by simp [hy])
    · intro y hy
      have := (insertBy_perm le x acc).mem_iff.mp hy
      simp only [List.mem_cons] at this
      rcases this with h1 | h1
      · subst h1; exact hl y (by simp)
      · exact ha y h1
    · exact insertBy_sorted le S h x acc (hl x (by simp)) ha hs

theorem isortStable_sorted (le : α → α → Bool) (l : List α) (h : TotalPreOn le l) :
    (isortStable le l).Pairwise (fun a b => le a b = true) :=
  foldl_insert_sorted le l h l [] (fun _ h => h) (by simp) List.Pairwise.nil

end Lcm

namespace Lcm
instance (le : α → α → Bool) (S : List α) : Decidable (TotalPreOn le S) := by
  unfold TotalPreOn; infer_instance

namespace Spec
/-- every table id exactly once in the listing -/
def listOnce (tblIds : List Nat) (L : List LcE) : Bool :=
  L.length == tblIds.length && tblIds.all fun i => (L.filter (·.id == i)).length == 1
/-- no resumed lifecycle is placed before the lifecycle it resumes -/
def resumeAfterOrigin (L : List LcE) : Bool :=
  L.zipIdx.all fun (b, j) => match b.resume with
    | none => true
    | some r => L.zipIdx.all fun (a, i) => a.id != r || a.id == b.id || i < j
/-- a resumed lifecycle has a higher id than the one it resumes -/
def resumeIdsIncrease (L : List LcE) : Bool :=
  L.all fun b => match b.resume with
    | none => true
    | some r => r < b.id
def sortedByStart : List LcE → Bool
  | a :: b :: t => a.start ≤ b.start && sortedByStart (b :: t)
  | _ => true
/-- when no resume was detected the listing is ordered by start time -/
def sortedIfNoResume (L : List LcE) : Bool := L.any (·.resume.isSome) || sortedByStart L
end Spec
end Lcm
