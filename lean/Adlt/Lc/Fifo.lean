import Adlt.Lc.Model
namespace Lcm

def erase (m : Msg) : Msg := { m with lc := 0 }

def St.seq (s : St) : List Msg := s.out.reverse.map (fun o => erase o.m) ++ s.bufMsgs.map erase

def St.ok (s : St) : Prop := s.bufLcs = [] → s.bufMsgs = []

@[simp] theorem emit_out (s : St) (m : Msg) : (s.emit m).out.map (·.m) = m :: s.out.map (·.m) := by
  simp [St.emit]
@[simp] theorem emit_buf (s : St) (m : Msg) : (s.emit m).bufMsgs = s.bufMsgs := by simp [St.emit]
@[simp] theorem emit_bufLcs (s : St) (m : Msg) : (s.emit m).bufLcs = s.bufLcs := by simp [St.emit]
@[simp] theorem mark_out (s : St) (i : Nat) : (s.mark i).out = s.out := by unfold St.mark; split <;> rfl
@[simp] theorem mark_buf (s : St) (i : Nat) : (s.mark i).bufMsgs = s.bufMsgs := by unfold St.mark; split <;> rfl
@[simp] theorem mark_bufLcs (s : St) (i : Nat) : (s.mark i).bufLcs = s.bufLcs := by unfold St.mark; split <;> rfl

/-- the erased sequence of delivered messages, oldest first -/
def St.outSeq (s : St) : List Msg := (s.out.map (fun o => erase o.m)).reverse

theorem seq_eq (s : St) : s.seq = s.outSeq ++ s.bufMsgs.map erase := by
  simp [St.seq, St.outSeq, List.map_reverse]

@[simp] theorem emit_outSeq (s : St) (m : Msg) : (s.emit m).outSeq = s.outSeq ++ [erase m] := by
  simp [St.outSeq, St.emit]
@[simp] theorem mark_outSeq (s : St) (i : Nat) : (s.mark i).outSeq = s.outSeq := by simp [St.outSeq]

theorem flushAll_go (s : St) (last : Nat) (l : List Msg) :
    (St.flushAll.go s last l).outSeq = s.outSeq ++ l.map erase ∧ (St.flushAll.go s last l).bufMsgs = []
    ∧ (St.flushAll.go s last l).bufLcs = s.bufLcs := by
  induction l generalizing s last with
  | nil => simp [St.flushAll.go, St.outSeq]
  | cons m t ih =>
    simp only [St.flushAll.go]
    have := ih ((if m.lc != last then s.mark m.lc else s).emit m) m.lc
    obtain ⟨h1, h2, h3⟩ := this
    refine ⟨?_, h2, ?_⟩
    · rw [h1]; split <;> simp
    · rw [h3]; split <;> simp

theorem flushAll_spec (s : St) :
    s.flushAll.outSeq = s.outSeq ++ s.bufMsgs.map erase ∧ s.flushAll.bufMsgs = [] ∧ s.flushAll.bufLcs = s.bufLcs := by
  unfold St.flushAll; exact flushAll_go s 0 s.bufMsgs

theorem release_go (s : St) (prune : Nat) (l : List Msg) :
    (St.release.go s prune l).outSeq ++ (St.release.go s prune l).bufMsgs.map erase = s.outSeq ++ l.map erase
    ∧ (St.release.go s prune l).bufLcs = s.bufLcs
    ∧ (s.bufLcs = [] → (St.release.go s prune l).bufMsgs = []) := by
  induction l generalizing s prune with
  | nil => simp [St.release.go, St.outSeq]
  | cons m t ih =>
    simp only [St.release.go]
    split
    · obtain ⟨h1, h2, h3⟩ := ih (s.emit m) prune
      refine ⟨?_, ?_, ?_⟩
      · rw [h1]; simp
      · rw [h2]; simp
      · intro h; apply h3; simpa using h
    · split
      · obtain ⟨h1, h2, h3⟩ := ih ((s.mark m.lc).emit m) m.lc
        refine ⟨?_, ?_, ?_⟩
        · rw [h1]; simp
        · rw [h2]; simp
        · intro h; apply h3; simpa using h
      · rename_i hc
        refine ⟨by simp [St.outSeq], rfl, ?_⟩
        intro h; simp [h] at hc

theorem release_spec (s : St) (id : Nat) :
    (s.release id).seq = s.seq ∧ (s.release id).bufLcs = s.bufLcs ∧ (s.bufLcs = [] → (s.release id).bufMsgs = []) := by
  unfold St.release
  obtain ⟨h1, h2, h3⟩ := release_go s id s.bufMsgs
  exact ⟨by rw [seq_eq, seq_eq, h1], h2, h3⟩

@[simp] theorem publish_seq (s : St) (l : Lc) : (s.publish l).seq = s.seq := rfl
@[simp] theorem publish_bufLcs (s : St) (l : Lc) : (s.publish l).bufLcs = s.bufLcs := rfl
@[simp] theorem publish_bufMsgs (s : St) (l : Lc) : (s.publish l).bufMsgs = s.bufMsgs := rfl
@[simp] theorem refresh_seq (s : St) : s.refresh.seq = s.seq := rfl
@[simp] theorem refresh_bufLcs (s : St) : s.refresh.bufLcs = s.bufLcs := rfl
@[simp] theorem refresh_bufMsgs (s : St) : s.refresh.bufMsgs = s.bufMsgs := rfl

/-- combined invariant-preservation statement for "queue-neutral" operations -/
structure Pres (s s' : St) : Prop where
  seq : s'.seq = s.seq
  ok : s.ok → s'.ok

theorem Pres.refl (s : St) : Pres s s := ⟨rfl, id⟩
theorem Pres.trans {a b c : St} (h1 : Pres a b) (h2 : Pres b c) : Pres a c :=
  ⟨h2.seq.trans h1.seq, fun h => h2.ok (h1.ok h)⟩

theorem confirmLc_pres (s : St) (m : Msg) (x : Nat) (lc : Lc) : Pres s (s.confirmLc m x lc) := by
  unfold St.confirmLc
  split
  · exact Pres.refl s
  · split
    · exact Pres.refl s
    · split
      · -- confirmed
        set_option maxRecDepth 2000 in
        obtain ⟨h1, h2, h3⟩ := release_spec (({ s with bufLcs := s.bufLcs.erase lc.id }).publish lc).refresh lc.id
        refine ⟨?_, ?_⟩
        · rw [h1]; rfl
        · intro _ hempty
          apply h3
          rw [h2] at hempty
          exact hempty
      · exact Pres.refl s

theorem foldl_pres {α} (f : St → α → St) (hf : ∀ s a, Pres s (f s a)) (l : List α) (s : St) :
    Pres s (l.foldl f s) := by
  induction l generalizing s with
  | nil => exact Pres.refl s
  | cons a t ih => exact (hf s a).trans (ih (f s a))

theorem confirm_pres (s : St) (m : Msg) : Pres s (s.confirm m) := by
  unfold St.confirm
  split
  · split
    · refine Pres.trans (foldl_pres _ ?_ _ s) ⟨rfl, id⟩
      intro s' p
      exact foldl_pres _ (fun s'' lc => confirmLc_pres s'' m _ lc) _ s'
    · exact ⟨rfl, id⟩
  · exact Pres.refl s

@[simp] theorem setEcu_seq (s : St) (e : Nat) (l : List Lc) : (setEcu s e l).seq = s.seq := rfl
@[simp] theorem setEcu_bufLcs (s : St) (e : Nat) (l : List Lc) : (setEcu s e l).bufLcs = s.bufLcs := rfl
@[simp] theorem setEcu_bufMsgs (s : St) (e : Nat) (l : List Lc) : (setEcu s e l).bufMsgs = s.bufMsgs := rfl

theorem relabel_erase (a b : Nat) (ms : List Msg) : (relabel a b ms).map erase = ms.map erase := by
  unfold relabel
  rw [List.map_map]
  apply List.map_congr_left
  intro m _
  simp only [Function.comp]
  split <;> simp [erase]

theorem new_erase (id : Nat) (m : Msg) : erase (Lc.new id m).2 = erase m := by
  simp [Lc.new, erase]

theorem apply_erase (l : Lc) (id : Nat) (m : Msg) (u : Upd) : erase (l.apply id m u).2.1 = erase m := by
  cases u <;> simp [Lc.apply, erase]

theorem update_erase (l : Lc) (id : Nat) (m : Msg) : erase (l.update id m).2.1 = erase m :=
  apply_erase l id m _

theorem flushIfDrained_spec (s : St) : s.flushIfDrained.seq = s.seq ∧ s.flushIfDrained.ok := by
  unfold St.flushIfDrained
  split
  · obtain ⟨f1, f2, _⟩ := flushAll_spec s
    refine ⟨?_, fun _ => f2⟩
    rw [seq_eq, f1, f2]; simp; rw [← seq_eq]
  · rename_i hc
    refine ⟨rfl, ?_⟩
    intro hempty
    simp [hempty] at hc
    exact hc

@[simp] theorem unpublishIfConfirmed_seq (s : St) (i : Nat) : (s.unpublishIfConfirmed i).seq = s.seq := by
  unfold St.unpublishIfConfirmed; split <;> rfl

theorem mergeTail_spec (s : St) (a b e : Nat) (lcs : List Lc) :
    (s.mergeTail a b e lcs).seq = s.seq ∧ (s.mergeTail a b e lcs).ok := by
  unfold St.mergeTail
  simp only []
  refine ⟨?_, (flushIfDrained_spec _).2⟩
  rw [(flushIfDrained_spec _).1]
  show (St.unpublishIfConfirmed { s with bufMsgs := relabel a b s.bufMsgs } a).seq = s.seq
  rw [unpublishIfConfirmed_seq]
  simp [St.seq, relabel_erase]

theorem maybeMerge_spec (s : St) (m' : Msg) (lc2 prev : Lc) (r : List Lc) :
    erase (s.maybeMerge m' lc2 prev r).2 = erase m' ∧ (s.maybeMerge m' lc2 prev r).1.seq = s.seq
    ∧ (s.ok → (s.maybeMerge m' lc2 prev r).1.ok) := by
  unfold St.maybeMerge
  split
  · split
    · have := mergeTail_spec s lc2.id prev.id m'.ecu ((prev.merge lc2 :: r).reverse)
      exact ⟨by simp [erase], this.1, fun _ => this.2⟩
    · split
      · have := mergeTail_spec s lc2.id prev.id m'.ecu ((prev.merge lc2 :: r).reverse)
        exact ⟨by simp [erase], this.1, fun _ => this.2⟩
      · exact ⟨rfl, rfl, id⟩
  · exact ⟨rfl, rfl, id⟩

theorem assignExisting_spec (s : St) (m : Msg) (last : Lc) (rr : List Lc) :
    erase (s.assignExisting m last rr).2 = erase m ∧ (s.assignExisting m last rr).1.seq = s.seq
    ∧ (s.ok → (s.assignExisting m last rr).1.ok) := by
  unfold St.assignExisting
  have hm := update_erase last s.nextId m
  simp only []
  split
  · refine ⟨hm, rfl, ?_⟩
    intro _ h; simp [setEcu] at h
  · split
    · exact ⟨hm, rfl, id⟩
    · have := maybeMerge_spec s (last.update s.nextId m).2.1 (last.update s.nextId m).1 ‹Lc› ‹List Lc›
      exact ⟨this.1.trans hm, this.2.1, this.2.2⟩

theorem assign_spec (s : St) (m : Msg) :
    erase (s.assign m).2 = erase m ∧ (s.assign m).1.seq = s.seq ∧ (s.ok → (s.assign m).1.ok) := by
  unfold St.assign
  split
  · refine ⟨new_erase _ _, rfl, ?_⟩
    intro _ h; simp [St.assignNew, setEcu] at h
  · exact assignExisting_spec s m _ _

theorem deliver_spec (s : St) (m : Msg) (h : s.ok) :
    (s.deliver m).seq = s.seq ++ [erase m] ∧ (s.deliver m).ok := by
  unfold St.deliver
  split
  · rename_i hb
    refine ⟨by simp [St.seq], ?_⟩
    intro hempty
    simp at hempty
    simp [hempty] at hb
  · rename_i hb
    have he : s.bufLcs = [] := by simpa using hb
    have hm : s.bufMsgs = [] := h he
    refine ⟨?_, ?_⟩
    · rw [seq_eq, seq_eq]; simp [hm]
    · intro _; simp [hm]

theorem step_spec (s : St) (m : Msg) (hs : s.panicked = false) (hp : (s.step m).panicked = false) (hok : s.ok) :
    (s.step m).seq = s.seq ++ [erase m] ∧ (s.step m).ok := by
  unfold St.step at *
  simp only [hs, Bool.false_eq_true, if_false] at *
  obtain ⟨a1, a2, a3⟩ := assign_spec s m
  split at hp
  · rename_i h; simp [h] at hp
  · rename_i hnp
    simp only [hnp, Bool.false_eq_true, if_false]
    have c := confirm_pres (s.assign m).1 (s.assign m).2
    have d := deliver_spec ((s.assign m).1.confirm (s.assign m).2) (s.assign m).2 (c.ok (a3 hok))
    refine ⟨?_, d.2⟩
    rw [d.1, c.seq, a2, a1]

theorem steps_spec (ms : List Msg) (s : St) (hs : s.panicked = false)
    (hp : (ms.foldl St.step s).panicked = false) (hok : s.ok) :
    (ms.foldl St.step s).seq = s.seq ++ ms.map erase ∧ (ms.foldl St.step s).ok := by
  induction ms generalizing s with
  | nil => simpa using hok
  | cons m t ih =>
    simp only [List.foldl_cons] at *
    have hp1 : (s.step m).panicked = false := by
      -- once panicked, always panicked
      cases h : (s.step m).panicked with
      | false => rfl
      | true =>
        exfalso
        have : ∀ (l : List Msg) (x : St), x.panicked = true → (l.foldl St.step x).panicked = true := by
          intro l; induction l with
          | nil => intro x hx; simpa using hx
          | cons a l ihl => intro x hx; simp only [List.foldl_cons]; apply ihl; simp [St.step, hx]
        rw [this t _ h] at hp; cases hp
    obtain ⟨h1, h2⟩ := step_spec s m hs hp1 hok
    obtain ⟨g1, g2⟩ := ih (s.step m) hp1 hp h2
    exact ⟨by rw [g1, h1]; simp, g2⟩

structure QSame (a b : St) : Prop where
  out : b.out = a.out
  buf : b.bufMsgs = a.bufMsgs

theorem QSame.refl (a : St) : QSame a a := ⟨rfl, rfl⟩
theorem QSame.trans {a b c : St} (h1 : QSame a b) (h2 : QSame b c) : QSame a c :=
  ⟨h2.out.trans h1.out, h2.buf.trans h1.buf⟩

theorem foldl_qsame {α} (f : St → α → St) (hf : ∀ s a, QSame s (f s a)) (l : List α) (s : St) :
    QSame s (l.foldl f s) := by
  induction l generalizing s with
  | nil => exact QSame.refl s
  | cons a t ih => exact (hf s a).trans (ih (f s a))

theorem publishWhere_qsame (P : St → Lc → Bool) (s : St) : QSame s (s.publishWhere P) := by
  unfold St.publishWhere
  apply foldl_qsame
  intro s1 p
  unfold St.publishLcs
  apply foldl_qsame
  intro s2 lc
  unfold St.publishIf
  split
  · exact ⟨rfl, rfl⟩
  · exact QSame.refl _

theorem flushOne_fold (l : List Msg) (x : St) :
    (l.foldl St.flushOne x).outSeq = x.outSeq ++ l.map erase := by
  induction l generalizing x with
  | nil => simp
  | cons m t ih => simp only [List.foldl_cons]; rw [ih]; simp [St.flushOne]

theorem finish_spec (s : St) (hs : s.panicked = false) : s.finish.outSeq = s.seq ∧ s.finish.bufMsgs = [] := by
  unfold St.finish
  simp only [hs, Bool.false_eq_true, if_false]
  generalize h1 : (s.publishWhere fun s lc => s.bufLcs.contains lc.id).refresh = s1
  have q1 : s1.out = s.out ∧ s1.bufMsgs = s.bufMsgs := by
    subst h1
    have := publishWhere_qsame (fun s lc => s.bufLcs.contains lc.id) s
    exact ⟨this.out, this.buf⟩
  generalize h2 : ({ s1.bufMsgs.foldl St.flushOne s1 with bufMsgs := [] } : St) = s2
  have q2 : s2.outSeq = s.seq ∧ s2.bufMsgs = [] := by
    subst h2
    refine ⟨?_, rfl⟩
    show (s1.bufMsgs.foldl St.flushOne s1).outSeq = s.seq
    rw [flushOne_fold, seq_eq, q1.2]
    simp [St.outSeq, q1.1]
  have q3 := publishWhere_qsame (fun s lc => s.toRefresh.contains lc.id) s2
  refine ⟨?_, ?_⟩
  · show (s2.publishWhere _).outSeq = s.seq
    simp only [St.outSeq, q3.out]
    exact q2.1
  · show (s2.publishWhere _).bufMsgs = []
    rw [q3.buf]; exact q2.2

/-- C05 (prototype): every message is forwarded exactly once, in the order received,
    unchanged except for the lifecycle assignment — for every stream on which the
    internal assert is not hit. -/
theorem C05_once_in_order (ms : List Msg) (hp : (run ms).panicked = false) :
    (run ms).outSeq = ms.map erase := by
  unfold run at *
  have hfold : (ms.foldl St.step {}).panicked = false := by
    cases h : (ms.foldl St.step {}).panicked with
    | false => rfl
    | true => simp [St.finish, h] at hp
  have init_ok : ({} : St).ok := fun _ => rfl
  obtain ⟨h1, _⟩ := steps_spec ms {} rfl hfold init_ok
  obtain ⟨f1, _⟩ := finish_spec (ms.foldl St.step {}) hfold
  rw [f1, h1]
  simp [St.seq]

#print axioms C05_once_in_order
end Lcm
