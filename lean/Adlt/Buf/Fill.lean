import Adlt.Buf.Inv
/-! C04 (reader): the low-water-mark clause. With room for the low mark plus one cache line, a fill ends - its loop never
    runs out of iterations, for any read schedule - with at least the low mark buffered, or with everything the source
    still had; the end-of-data latch is only ever set when the source is exhausted. -/
namespace Lmk

theorem cacheLine_pos : 0 < cacheLine := by simp [cacheLine, Gen.cacheLineSize]

theorem alignOff_lt (n : Nat) : alignOff n < cacheLine := by
  have := cacheLine_pos
  have hm : n % cacheLine < cacheLine := Nat.mod_lt _ this
  unfold alignOff
  split
  · exact this
  · rename_i h
    have : ¬ (cacheLine - n % cacheLine = cacheLine) := by simpa using h
    omega

/-- the latch is honest: it is set only when nothing is left in the source -/
def EofOk (s : LM) : Prop := s.eof = true → s.src = []

/-- a window is *good*: at least the low mark, or everything that is left of the source -/
def Good (orig : List Nat) (s : LM) : Prop := s.lowMark ≤ s.cap - s.pos ∨ s.absPos + s.cap = orig.length

theorem compact_fields (s : LM) : s.compact.lowMark = s.lowMark ∧ s.compact.eof = s.eof ∧ s.compact.sched = s.sched := by
  unfold LM.compact; split <;> exact ⟨rfl, rfl, rfl⟩

/-- after the compaction step there is room for at least one more byte while the window is below the low mark -/
theorem compact_room (orig : List Nat) (s : LM) (hi : Inv orig s) (hw : s.cap - s.pos < s.lowMark)
    (hcap : s.lowMark + cacheLine ≤ s.buf.length) :
    s.compact.cap < s.buf.length ∧ s.compact.pos < cacheLine := by
  unfold LM.compact
  split
  · have := alignOff_lt (s.cap - s.pos)
    constructor
    · show s.cap - s.pos + alignOff (s.cap - s.pos) < s.buf.length
      omega
    · exact this
  · have := hi.posLe
    constructor <;> omega

theorem wantOf_pos (sched : List Nat) (dst : Nat) (h : 1 ≤ dst) : 1 ≤ wantOf sched dst := by
  unfold wantOf
  split
  · exact h
  · split
    · split <;> omega
    · omega

theorem innerRead_zero (src sched : List Nat) (dst : Nat) (h : 1 ≤ dst) (h0 : (innerRead src sched dst).1.length = 0) : src = [] := by
  have := wantOf_pos sched dst h
  unfold innerRead at h0
  simp only [List.length_take] at h0
  have : src.length = 0 := by omega
  exact List.eq_nil_of_length_eq_zero this

theorem src_nil_end (orig : List Nat) (s : LM) (hi : Inv orig s) (h : s.src = []) : s.absPos + s.cap = orig.length := by
  have h1 := hi.src
  rw [h] at h1
  have : (orig.drop (s.absPos + s.cap)).length = 0 := by rw [← h1]; rfl
  simp only [List.length_drop] at this
  have := hi.inOrig
  omega

theorem fillLoop_good (orig : List Nat) (fuel : Nat) (s : LM) (hi : Inv orig s) (he : s.eof = false)
    (hcap : s.lowMark + cacheLine ≤ s.buf.length) (hf : s.buf.length < fuel + (s.cap - s.pos)) :
    Good orig (LM.fillLoop fuel s) ∧ EofOk (LM.fillLoop fuel s) ∧ (LM.fillLoop fuel s).lowMark = s.lowMark := by
  induction fuel generalizing s with
  | zero =>
    have := hi.capLe
    omega
  | succ n ih =>
    rw [LM.fillLoop]
    split
    · rename_i hw
      simp only []
      obtain ⟨ci, cp, cwin, cs, cl⟩ := compact_inv orig s hi
      obtain ⟨clow, ceof, _⟩ := compact_fields s
      obtain ⟨croom, cpos⟩ := compact_room orig s hi hw hcap
      generalize s.compact = c at *
      have hdst : 1 ≤ c.buf.length - c.cap := by omega
      obtain ⟨r1, r2, r3⟩ := innerRead_spec c.src c.sched (c.buf.length - c.cap)
      have hz := innerRead_zero c.src c.sched (c.buf.length - c.cap) hdst
      generalize innerRead c.src c.sched (c.buf.length - c.cap) = r at *
      have hcapc := ci.capLe
      have hgot : r.1 = (orig.drop (c.absPos + c.cap)).take r.1.length := by rw [← ci.src]; exact r1
      have hrest : r.2.1 = orig.drop (c.absPos + c.cap + r.1.length) := by
        rw [r2, ci.src, List.drop_drop]
      have ha := append_inv orig c r.1 r.2.1 r.2.2 ci hgot r3 hrest
      have halen : (c.append r.1 r.2.1 r.2.2).buf.length = c.buf.length := by
        show (writeAt c.buf c.cap r.1).length = c.buf.length
        rw [writeAt_length _ _ _ (by omega)]
      split
      · rename_i h0
        have h0' : r.1.length = 0 := by simpa using h0
        have hsrc := hz h0'
        have hend := src_nil_end orig c ci hsrc
        refine ⟨Or.inr hend, ?_, clow⟩
        intro _
        show r.2.1 = []
        rw [r2, hsrc]; simp
      · split
        · rename_i hfull
          have hfull' : r.1.length = c.buf.length - c.cap := by simpa using hfull
          refine ⟨Or.inl ?_, ?_, clow⟩
          · show c.lowMark ≤ c.cap + r.1.length - c.pos
            omega
          · intro h
            have : c.eof = true := h
            rw [ceof, he] at this; cases this
        · rename_i hn0 _
          have hn0' : r.1.length ≠ 0 := by simpa using hn0
          obtain ⟨k1, k2, k3⟩ := ih (c.append r.1 r.2.1 r.2.2) ha (by show c.eof = false; rw [ceof]; exact he)
            (by rw [halen]; show c.lowMark + cacheLine ≤ c.buf.length; omega)
            (by rw [halen]; show c.buf.length < n + (c.cap + r.1.length - c.pos); have := ci.posLe; omega)
          exact ⟨k1, k2, by rw [k3]; exact clow⟩
    · rename_i hw
      refine ⟨Or.inl (by omega), ?_, rfl⟩
      intro h; rw [he] at h; cases h

/-- **low-water mark**: every fill, under every read schedule, ends with a good window; the latch stays honest -/
theorem fill_good (orig : List Nat) (s : LM) (hi : Inv orig s) (he : EofOk s)
    (hcap : s.lowMark + cacheLine ≤ s.buf.length) :
    Good orig s.fill ∧ EofOk s.fill ∧ s.fill.lowMark = s.lowMark := by
  unfold LM.fill
  split
  · rename_i h
    exact ⟨Or.inr (src_nil_end orig s hi (he h)), he, rfl⟩
  · rename_i h
    exact fillLoop_good orig (s.buf.length + 2) s hi (by simpa using h) hcap (by omega)

theorem fill_buflen (orig : List Nat) (s : LM) (hi : Inv orig s) : s.fill.buf.length = s.buf.length := by
  unfold LM.fill
  split
  · rfl
  · exact (fillLoop_inv orig _ s hi).2.2.1

/-- what a good window means for the caller: the window is the source from the logical position on, cut at no less than
    `min lowMark remaining` bytes -/
theorem good_window (orig : List Nat) (s : LM) (hi : Inv orig s) (hg : Good orig s) :
    min s.lowMark (orig.length - (s.absPos + s.pos)) ≤ s.window.length := by
  rw [window_eq orig s hi]
  simp only [List.length_take, List.length_drop]
  have := hi.posLe
  have := hi.inOrig
  cases hg with
  | inl h => omega
  | inr h => omega

end Lmk
