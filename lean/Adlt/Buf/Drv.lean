import Adlt.Buf.LowMark
import Adlt.Util.Parse
/-! glue. case: `cap low | n | sched sizes | ops`   (source byte i = (i*7+3)%251; ops `f`, `c:n`, `r:n`, `s:n`, `k:r`)
    obs per op: `f<len>:<hash>:<buffered>` `c:<buffered>` `r<len>:<hash>:<buffered>` `s<0|1>:<buffered>` `k<0|1>:<buffered>` -/
namespace Lmk
open Util

def srcOf (n : Nat) : List Nat := (List.range n).map fun i => (i * 7 + 3) % 251
def hashOf (l : List Nat) : Nat := l.foldl (fun h b => (h * 31 + b + 1) % 4294967291) 7

inductive Op where
  | fill | consume (n : Nat) | read (n : Nat) | seekStart (n : Nat) | seekCur (r : Int)
deriving Repr

def parseOp (s : String) : Option Op :=
  match s.splitOn ":" with
  | ["f"] => some .fill
  | ["c", n] => some (.consume (nat! n))
  | ["r", n] => some (.read (nat! n))
  | ["s", n] => some (.seekStart (nat! n))
  | ["k", r] => some (.seekCur (int! r))
  | _ => none

/-- what an operation lets the caller observe -/
structure OpObs where
  kind : String
  len : Nat := 0       -- bytes handed out (fill: window length)
  hash : Nat := 0
  ok : Bool := true
  buffered : Nat := 0  -- `buffer().len()` afterwards
deriving Repr, DecidableEq

def showObs (o : OpObs) : String :=
  if o.kind == "f" || o.kind == "r" then s!"{o.kind}{o.len}:{o.hash}:{o.buffered}"
  else if o.kind == "c" then s!"c:{o.buffered}"
  else s!"{o.kind}{b2s o.ok}:{o.buffered}"

def parseObs (s : String) : OpObs :=
  let k := (s.take 1).toString
  match ((s.drop 1).toString.splitOn ":") with
  | [a, b, c] => { kind := k, len := nat! a, hash := nat! b, buffered := nat! c }
  | [a, c] => if k == "c" then { kind := k, buffered := nat! c } else { kind := k, ok := a == "1", buffered := nat! c }
  | _ => { kind := "?" }

def LM.buffered (s : LM) : Nat := s.cap - s.pos

def stepModel (s : LM) : Op → OpObs × LM
  | .fill => let s := s.fill; ({ kind := "f", len := s.window.length, hash := hashOf s.window, buffered := s.buffered }, s)
  | .consume n => let s := s.consume n; ({ kind := "c", buffered := s.buffered }, s)
  | .read n => let r := s.read n; ({ kind := "r", len := r.1.length, hash := hashOf r.1, buffered := r.2.buffered }, r.2)
  | .seekStart n => let r := s.seekStart n; ({ kind := "s", ok := r.1, buffered := r.2.buffered }, r.2)
  | .seekCur d => let r := s.seekCur d; ({ kind := "k", ok := r.1, buffered := r.2.buffered }, r.2)

def runModel (s : LM) : List Op → List OpObs
  | [] => []
  | op :: t => let r := stepModel s op; r.1 :: runModel r.2 t

/-- the reader's contract, evaluated over an observed history: `p` = absolute position of the next byte,
    `avail` = bytes buffered. Every byte handed out is the source's byte at its position, a fill offers at least the
    low mark or everything that is left, nothing signals end-of-data early, consume/seek move as announced. -/
def contract (src : List Nat) (lowMark : Nat) : Nat → Nat → List Op → List OpObs → Option String
  | _, _, [], [] => none
  | p, avail, op :: ops, o :: os =>
    let total := src.length
    match op with
    | .fill =>
      if o.kind != "f" then some "kind" else
      if o.hash != hashOf ((src.drop p).take o.len) || p + o.len > total then some "fill-hands-out-wrong-bytes" else
      if o.len < min lowMark (total - p) then some "fill-below-low-mark" else
      if o.buffered != o.len then some "buffered" else
      contract src lowMark p o.len ops os
    | .consume n =>
      let moved := min n avail
      if o.buffered != avail - moved then some "consume-moves-wrong-amount" else
      contract src lowMark (p + moved) (avail - moved) ops os
    | .read n =>
      if o.hash != hashOf ((src.drop p).take o.len) || p + o.len > total then some "read-hands-out-wrong-bytes" else
      if o.len > n then some "read-too-long" else
      if o.len == 0 && n != 0 && p < total then some "read-signals-end-early" else
      if o.len < min n (min lowMark (total - p)) then some "read-below-low-mark" else
      contract src lowMark (p + o.len) o.buffered ops os
    | .seekStart n =>
      if o.ok then (if n > total then some "seek-beyond-source" else contract src lowMark n o.buffered ops os)
      else contract src lowMark p o.buffered ops os
    | .seekCur d =>
      let tgt : Int := (p : Int) + d
      let n : Nat := if tgt < 0 then 0 else tgt.toNat
      if o.ok then (if n > total then some "seek-beyond-source" else contract src lowMark n o.buffered ops os)
      else contract src lowMark p o.buffered ops os
  | _, _, _, _ => some "length"

def doLine (line : String) : String :=
  let (cs, impl) := match line.splitOn "\t" with
    | [c, i] => (c, i)
    | [c] => (c, "")
    | _ => ("", "")
  match (cs.splitOn "|") with
  | [cfg, n, sched, ops] =>
    let c := nats cfg " "
    let cap := c.getD 0 0
    let low := c.getD 1 1
    let src := srcOf (nat! n)
    let ops := (fields ops " ").filterMap parseOp
    let s := LM.new cap low src (nats sched " ")
    let mo := runModel s ops
    let mobs := " ".intercalate (mo.map showObs)
    let orc (obs : List OpObs) : String :=
      match contract src low 0 0 ops obs with
      | none => "C04=ok"
      | some e => "C04=FAIL:" ++ e
    let oi := if impl == "" then "-" else if impl == "PANIC" then "C04=FAIL:panic" else orc ((fields impl " ").map parseObs)
    let tags : List String :=
      (if mo.any (fun o => o.kind == "f" && o.len > 0) then ["fill"] else []) ++
      (if mo.any (fun o => (o.kind == "s" || o.kind == "k") && o.ok) then ["seek-ok"] else []) ++
      (if mo.any (fun o => (o.kind == "s" || o.kind == "k") && !o.ok) then ["seek-refused"] else []) ++
      (if (nats sched " ").any (· < 10) then ["tiny-reads"] else []) ++
      (if src.length > cap then ["source-exceeds-capacity"] else []) ++
      (if mo.any (fun o => o.kind == "r" && o.len > 0) then ["read"] else [])
    s!"{mobs}\t{oi}\t{orc mo}\t{",".intercalate tags}"
  | _ => "bad\tC04=FAIL:unparsable\tC04=FAIL:unparsable\t"

end Lmk
