import Adlt.Gen.Consts
/-! Model of `LowMarkBufReader` (src/utils/lowmarkbufreader.rs).
    The buffer is a list of fixed length `capacity` *including stale bytes*; the inner reader is a source
    `src` plus a read schedule (`sched`: the k-th inner `read(dst)` returns `min(max 1 sₖ, |dst|, remaining)` bytes). -/
namespace Lmk

structure LM where
  buf : List Nat
  pos : Nat := 0
  cap : Nat := 0
  absPos : Nat := 0
  eof : Bool := false
  lowMark : Nat
  src : List Nat          -- remaining source bytes
  sched : List Nat        -- requested read sizes; exhausted = as much as fits
deriving Repr

def cacheLine : Nat := Gen.cacheLineSize

/-- how many bytes the k-th inner `read(dst)` is willing to deliver: a plain size, or (values ≥ 10^9) a size
    relative to the space offered: 10^9+1 ↦ dst-1, 10^9+d ↦ dst/d -/
def wantOf (sched : List Nat) (dst : Nat) : Nat :=
  match sched with
  | [] => dst
  | s :: _ =>
    if s ≥ 1000000000 then (if s == 1000000001 then max 1 (dst - 1) else max 1 (dst / (s - 1000000000)))
    else max 1 s

/-- the inner reader: (bytes read, rest of source, rest of schedule) for a destination of `dst` bytes -/
def innerRead (src : List Nat) (sched : List Nat) (dst : Nat) : List Nat × List Nat × List Nat :=
  (src.take (min (min (wantOf sched dst) dst) src.length), src.drop (min (min (wantOf sched dst) dst) src.length), sched.drop 1)

/-- overwrite `bs` into `a` starting at `off` (length of `a` unchanged) -/
def writeAt (a : List Nat) (off : Nat) (bs : List Nat) : List Nat :=
  a.take off ++ bs.take (a.length - off) ++ a.drop (off + bs.length)

/-- offset so that the new end of the moved data is CACHE_LINE_SIZE aligned -/
def alignOff (newCap : Nat) : Nat :=
  if cacheLine - (newCap % cacheLine) == cacheLine then 0 else cacheLine - (newCap % cacheLine)

/-- `copy_within(pos - offset..cap, 0)` (the `offset` already consumed bytes before `pos` are kept so that the
    whole of `buf[0..cap)` stays valid) followed by the bookkeeping of the compaction -/
def LM.compact (s : LM) : LM :=
  if s.pos ≥ cacheLine then
    { s with buf := writeAt s.buf 0 ((s.buf.drop (s.pos - alignOff (s.cap - s.pos))).take (s.cap - s.pos + alignOff (s.cap - s.pos))),
             cap := s.cap - s.pos + alignOff (s.cap - s.pos),
             absPos := s.absPos + (s.pos - alignOff (s.cap - s.pos)), pos := alignOff (s.cap - s.pos) }
  else s

/-- the inner reader delivered `got` (appended at `cap`), leaving `rest` / `sched'` -/
def LM.append (s : LM) (got rest sched' : List Nat) : LM :=
  { s with buf := writeAt s.buf s.cap got, cap := s.cap + got.length, src := rest, sched := sched' }

def LM.fillLoop : Nat → LM → LM
  | 0, s => s
  | fuel + 1, s =>
    if s.cap - s.pos < s.lowMark then
      let c := s.compact
      let r := innerRead c.src c.sched (c.buf.length - c.cap)
      if r.1.length == 0 then { c with eof := true, src := r.2.1, sched := r.2.2 }
      else if r.1.length == c.buf.length - c.cap then c.append r.1 r.2.1 r.2.2
      else LM.fillLoop fuel (c.append r.1 r.2.1 r.2.2)
    else s

def LM.fill (s : LM) : LM := if s.eof then s else LM.fillLoop (s.buf.length + 2) s

def LM.window (s : LM) : List Nat := (s.buf.drop s.pos).take (s.cap - s.pos)

def LM.consume (s : LM) (n : Nat) : LM := { s with pos := min (s.pos + n) s.cap }

def LM.read (s : LM) (k : Nat) : List Nat × LM :=
  let s := s.fill
  let bs := s.window.take k
  (bs, s.consume bs.length)

/-- `seek(Start(n))`: only inside the buffered, still valid range -/
def LM.seekStart (s : LM) (n : Nat) : Bool × LM :=
  let s := if s.cap == 0 then s.fill else s
  if n < s.absPos then (false, s)
  else if n > s.absPos + s.cap then (false, s)
  else (true, { s with pos := n - s.absPos })

def LM.seekCur (s : LM) (r : Int) : Bool × LM :=
  let tgt : Int := ((s.absPos + s.pos : Nat) : Int) + r
  let n : Nat := if tgt < 0 then 0 else tgt.toNat
  s.seekStart n

def LM.new (capacity lowMark : Nat) (src sched : List Nat) : LM :=
  { buf := List.replicate capacity 0, lowMark := lowMark, src := src, sched := sched }

end Lmk
