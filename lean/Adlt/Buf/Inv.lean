import Adlt.Buf.LowMark
/-! C04 (reader): the buffered bytes are always exactly the source's bytes at their absolute position —
    through every fill (any read schedule, any compaction), consume, read and accepted seek. -/
namespace Lmk

theorem writeAt_length (a : List Nat) (off : Nat) (bs : List Nat) (h : off + bs.length ≤ a.length) :
    (writeAt a off bs).length = a.length := by
  simp [writeAt]; omega

theorem writeAt_take (a : List Nat) (off : Nat) (bs : List Nat) (h : off + bs.length ≤ a.length) :
    (writeAt a off bs).take (off + bs.length) = a.take off ++ bs := by
  unfold writeAt
  have h1 : bs.take (a.length - off) = bs := List.take_of_length_le (by omega)
  rw [h1, List.take_append_of_le_length (by simp; omega)]
  rw [List.take_of_length_le (by simp; omega)]

/-- `orig` = the whole source as it was at construction. -/
structure Inv (orig : List Nat) (s : LM) : Prop where
  capLe : s.cap ≤ s.buf.length
  posLe : s.pos ≤ s.cap
  data : s.buf.take s.cap = (orig.drop s.absPos).take s.cap
  src : s.src = orig.drop (s.absPos + s.cap)
  inOrig : s.absPos + s.cap ≤ orig.length

theorem new_inv (capacity lowMark : Nat) (src sched : List Nat) : Inv src (LM.new capacity lowMark src sched) := by
  refine { capLe := Nat.zero_le _, posLe := Nat.le_refl _, data := ?_, src := ?_, inOrig := Nat.zero_le _ }
  · show (List.replicate capacity 0).take 0 = (src.drop 0).take 0
    simp
  · show src = src.drop (0 + 0)
    simp

/-- what the caller sees is the source at the logical position `absPos + pos` -/
theorem window_eq (orig : List Nat) (s : LM) (hi : Inv orig s) :
    s.window = (orig.drop (s.absPos + s.pos)).take (s.cap - s.pos) := by
  unfold LM.window
  have h1 : (s.buf.drop s.pos).take (s.cap - s.pos) = (s.buf.take s.cap).drop s.pos := by
    rw [List.drop_take]
  rw [h1, hi.data, List.drop_take, List.drop_drop]

theorem consume_inv (orig : List Nat) (s : LM) (n : Nat) (hi : Inv orig s) : Inv orig (s.consume n) := by
  refine { capLe := hi.capLe, posLe := ?_, data := hi.data, src := hi.src, inOrig := hi.inOrig }
  simp only [LM.consume]; omega

theorem compact_inv (orig : List Nat) (s : LM) (hi : Inv orig s) :
    Inv orig s.compact ∧ s.compact.absPos + s.compact.pos = s.absPos + s.pos
      ∧ s.compact.cap - s.compact.pos = s.cap - s.pos ∧ s.compact.src = s.src ∧ s.compact.buf.length = s.buf.length := by
  unfold LM.compact
  split
  · rename_i hge
    have hcl : 0 < cacheLine := by simp [cacheLine, Gen.cacheLineSize]
    have hoffle : alignOff (s.cap - s.pos) ≤ cacheLine := by
      unfold alignOff; split <;> omega
    generalize alignOff (s.cap - s.pos) = off at *
    have hoffpos : off ≤ s.pos := by omega
    have hp := hi.posLe
    have hc := hi.capLe
    simp only []
    have hlen : ((s.buf.drop (s.pos - off)).take (s.cap - s.pos + off)).length = s.cap - s.pos + off := by
      simp; omega
    have hw := writeAt_take s.buf 0 ((s.buf.drop (s.pos - off)).take (s.cap - s.pos + off)) (by rw [hlen]; omega)
    rw [hlen] at hw
    simp only [Nat.zero_add, List.take_zero, List.nil_append] at hw
    refine ⟨?_, by show s.absPos + (s.pos - off) + off = s.absPos + s.pos; omega, by show s.cap - s.pos + off - off = s.cap - s.pos; omega, by first | rfl | trivial, ?_⟩
    · refine { capLe := ?_, posLe := by show off ≤ s.cap - s.pos + off; omega, data := ?_, src := ?_, inOrig := by show s.absPos + (s.pos - off) + (s.cap - s.pos + off) ≤ orig.length; have := hi.inOrig; omega }
      · simp only []; rw [writeAt_length _ _ _ (by rw [hlen]; omega)]; omega
      · simp only []
        rw [hw]
        -- the kept bytes are buf[pos-off .. cap)
        have : (s.buf.drop (s.pos - off)).take (s.cap - s.pos + off) = ((s.buf.take s.cap).drop (s.pos - off)) := by
          rw [List.drop_take]; congr 1; omega
        rw [this, hi.data, List.drop_take, List.drop_drop]
        congr 1; omega
      · simp only []
        rw [hi.src]; congr 1; omega
    · show (writeAt s.buf 0 _).length = s.buf.length
      rw [writeAt_length _ _ _ (by rw [hlen]; omega)]
  · exact ⟨hi, rfl, rfl, rfl, rfl⟩

theorem innerRead_spec (src sched : List Nat) (dst : Nat) :
    (innerRead src sched dst).1 = src.take (innerRead src sched dst).1.length
      ∧ (innerRead src sched dst).2.1 = src.drop (innerRead src sched dst).1.length
      ∧ (innerRead src sched dst).1.length ≤ dst := by
  unfold innerRead
  generalize wantOf sched dst = want
  have hl : (src.take (min (min want dst) src.length)).length = min (min want dst) src.length := by
    simp
  refine ⟨?_, ?_, ?_⟩
  · show src.take _ = src.take (src.take _).length
    rw [hl]
  · show src.drop _ = src.drop (src.take _).length
    rw [hl]
  · show (src.take _).length ≤ dst
    rw [hl]; omega

theorem append_inv (orig : List Nat) (c : LM) (got rest sched' : List Nat) (ci : Inv orig c)
    (hgot : got = (orig.drop (c.absPos + c.cap)).take got.length) (hfit : got.length ≤ c.buf.length - c.cap)
    (hrest : rest = orig.drop (c.absPos + c.cap + got.length)) :
    Inv orig (c.append got rest sched') := by
  have hcap := ci.capLe
  have hgotlen : c.absPos + c.cap + got.length ≤ orig.length := by
    have h1 : got.length = ((orig.drop (c.absPos + c.cap)).take got.length).length := by rw [← hgot]
    simp only [List.length_take, List.length_drop] at h1
    have := ci.inOrig
    omega
  have hw := writeAt_take c.buf c.cap got (by omega)
  refine { capLe := ?_, posLe := ?_, data := ?_, src := ?_, inOrig := ?_ }
  · show c.cap + got.length ≤ (writeAt c.buf c.cap got).length
    rw [writeAt_length _ _ _ (by omega)]; omega
  · show c.pos ≤ c.cap + got.length
    have := ci.posLe; omega
  · show (writeAt c.buf c.cap got).take (c.cap + got.length) = (orig.drop c.absPos).take (c.cap + got.length)
    rw [hw, ci.data, List.take_add (i := c.cap), List.drop_drop]
    congr 1
  · show rest = orig.drop (c.absPos + (c.cap + got.length))
    rw [hrest]; congr 1; omega
  · show c.absPos + (c.cap + got.length) ≤ orig.length
    omega

theorem fillLoop_inv (orig : List Nat) (fuel : Nat) (s : LM) (hi : Inv orig s) :
    Inv orig (LM.fillLoop fuel s) ∧ (LM.fillLoop fuel s).absPos + (LM.fillLoop fuel s).pos = s.absPos + s.pos
      ∧ (LM.fillLoop fuel s).buf.length = s.buf.length ∧ s.cap - s.pos ≤ (LM.fillLoop fuel s).cap - (LM.fillLoop fuel s).pos := by
  induction fuel generalizing s with
  | zero => exact ⟨hi, rfl, rfl, Nat.le_refl _⟩
  | succ n ih =>
    simp only [LM.fillLoop]
    split
    · obtain ⟨ci, cp, cw, cs, cl⟩ := compact_inv orig s hi
      generalize s.compact = c at *
      obtain ⟨r1, r2, r3⟩ := innerRead_spec c.src c.sched (c.buf.length - c.cap)
      generalize innerRead c.src c.sched (c.buf.length - c.cap) = r at *
      have hcap := ci.capLe
      have hgot : r.1 = (orig.drop (c.absPos + c.cap)).take r.1.length := by rw [← ci.src]; exact r1
      have hrest : r.2.1 = orig.drop (c.absPos + c.cap + r.1.length) := by
        rw [r2, ci.src, List.drop_drop]
      have ha := append_inv orig c r.1 r.2.1 r.2.2 ci hgot r3 hrest
      have halen : (c.append r.1 r.2.1 r.2.2).buf.length = s.buf.length := by
        show (writeAt c.buf c.cap r.1).length = s.buf.length
        rw [writeAt_length _ _ _ (by omega)]; exact cl
      have hapos : (c.append r.1 r.2.1 r.2.2).absPos + (c.append r.1 r.2.1 r.2.2).pos = s.absPos + s.pos := cp
      have hawin : s.cap - s.pos ≤ (c.append r.1 r.2.1 r.2.2).cap - (c.append r.1 r.2.1 r.2.2).pos := by
        show s.cap - s.pos ≤ c.cap + r.1.length - c.pos
        omega
      split
      · rename_i h0
        have h0' : r.1.length = 0 := by simpa using h0
        refine ⟨?_, cp, cl, ?_⟩
        · refine { capLe := ci.capLe, posLe := ci.posLe, data := ci.data, src := ?_, inOrig := ci.inOrig }
          show r.2.1 = orig.drop (c.absPos + c.cap)
          rw [hrest, h0']; rfl
        · show s.cap - s.pos ≤ c.cap - c.pos
          omega
      · split
        · exact ⟨ha, hapos, halen, hawin⟩
        · obtain ⟨k1, k2, k3, k4⟩ := ih _ ha
          exact ⟨k1, by rw [k2]; exact hapos, by rw [k3]; exact halen, by omega⟩
    · exact ⟨hi, rfl, rfl, Nat.le_refl _⟩

theorem fill_inv (orig : List Nat) (s : LM) (hi : Inv orig s) :
    Inv orig s.fill ∧ s.fill.absPos + s.fill.pos = s.absPos + s.pos ∧ s.cap - s.pos ≤ s.fill.cap - s.fill.pos := by
  unfold LM.fill
  split
  · exact ⟨hi, rfl, Nat.le_refl _⟩
  · obtain ⟨h1, h2, _, h4⟩ := fillLoop_inv orig (s.buf.length + 2) s hi
    exact ⟨h1, h2, h4⟩

/-- `read k` hands out exactly the source bytes at the logical position and advances by their number -/
theorem read_spec (orig : List Nat) (s : LM) (k : Nat) (hi : Inv orig s) :
    (s.read k).1 = (orig.drop (s.absPos + s.pos)).take (s.read k).1.length
      ∧ (s.read k).2.absPos + (s.read k).2.pos = s.absPos + s.pos + (s.read k).1.length
      ∧ Inv orig (s.read k).2 := by
  obtain ⟨f1, f2, _⟩ := fill_inv orig s hi
  unfold LM.read
  simp only []
  have hw := window_eq orig s.fill f1
  have hlen : (s.fill.window.take k).length ≤ s.fill.cap - s.fill.pos := by
    rw [hw]; simp; omega
  refine ⟨?_, ?_, consume_inv orig _ _ f1⟩
  · rw [hw, f2, List.take_take]
    simp
  · simp only [LM.consume]
    have := f1.posLe
    omega

/-- an accepted `seek(Start(n))` stands at absolute position `n`; a refused one does not move -/
theorem seekStart_spec (orig : List Nat) (s : LM) (n : Nat) (hi : Inv orig s) :
    Inv orig (s.seekStart n).2 ∧
      (if (s.seekStart n).1 then (s.seekStart n).2.absPos + (s.seekStart n).2.pos = n
       else (s.seekStart n).2.absPos + (s.seekStart n).2.pos = s.absPos + s.pos) := by
  unfold LM.seekStart
  simp only []
  have hs : Inv orig (if s.cap == 0 then s.fill else s) ∧
      (if s.cap == 0 then s.fill else s).absPos + (if s.cap == 0 then s.fill else s).pos = s.absPos + s.pos := by
    split
    · obtain ⟨f1, f2, _⟩ := fill_inv orig s hi; exact ⟨f1, f2⟩
    · exact ⟨hi, rfl⟩
  generalize (if s.cap == 0 then s.fill else s) = t at *
  obtain ⟨ht, hp⟩ := hs
  split
  · exact ⟨ht, by simp [hp]⟩
  · split
    · exact ⟨ht, by simp [hp]⟩
    · rename_i h1 h2
      refine ⟨{ capLe := ht.capLe, posLe := by simp only []; omega, data := ht.data, src := ht.src, inOrig := ht.inOrig }, ?_⟩
      simp only [if_true]; omega

end Lmk
