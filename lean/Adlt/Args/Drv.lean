import Adlt.Args.Text
import Adlt.Util.Parse
/-! glue (C18). case: `<be> <p|s> <trunc|-> <pos:byte|-> | v;v;…`
      v: `b:<0|1>` `u:<tyle>:<hex>` `i:<tyle>:<hex>` `f:<tyle>:<hex>:<texthex>` `s:<hex>[:<texthex>]` `a:<hex>[:<texthex>]` `r:<hex>`
      (`texthex` = what Rust prints for the float / how Rust decodes the non-ASCII bytes: opaque conversions)
    obs: `<payloadhex> | <ti>:<rawhex> … | <texthex>` -/
namespace Arg
open Util

structure VCase where
  be : Bool
  enc : String
  trunc : Option Nat
  corrupt : Option (Nat × Nat)
  vals : List Val
  floats : List (Bytes × String)
  decs : List (Bool × Bytes × String)

def strOfHex (h : String) : String :=
  -- UTF-8 bytes → String
  match String.fromUTF8? (ByteArray.mk (hexBytes h).toArray) with
  | some s => s
  | none => ""

def parseVal (s : String) : Option (Val × Option (Bytes × String) × Option (Bool × Bytes × String)) :=
  match s.splitOn ":" with
  | ["b", x] => some (.bool (x == "1"), none, none)
  | ["u", t, h] => some (.uint (nat! t) (hexBytes h), none, none)
  | ["i", t, h] => some (.sint (nat! t) (hexBytes h), none, none)
  | ["f", t, h, tx] => some (.floa (nat! t) (hexBytes h), some (hexBytes h, strOfHex tx), none)
  | ["s", h] => some (.utf8 (hexBytes h), none, none)
  | ["s", h, tx] => some (.utf8 (hexBytes h), none, some (true, stripNul (hexBytes h), strOfHex tx))
  | ["a", h] => some (.ascii (hexBytes h), none, none)
  | ["a", h, tx] => some (.ascii (hexBytes h), none, some (false, stripNul (hexBytes h), strOfHex tx))
  | ["r", h] => some (.raw (hexBytes h), none, none)
  | _ => none

def parseVCase (line : String) : VCase :=
  match line.splitOn " | " with
  | [hd, body] =>
    let h := fields hd " "
    let ps := (fields body ";").filterMap parseVal
    let tr := h.getD 2 "-"
    let co := h.getD 3 "-"
    { be := h.getD 0 "0" == "1", enc := h.getD 1 "p", trunc := if tr == "-" then none else some (nat! tr),
      corrupt := match co.splitOn ":" with | [a, b] => some (nat! a, nat! b) | _ => none,
      vals := ps.map (·.1), floats := ps.filterMap (·.2.1), decs := ps.filterMap (·.2.2) }
  | _ => { be := false, enc := "p", trunc := none, corrupt := none, vals := [], floats := [], decs := [] }

def VCase.op (c : VCase) : Opaque :=
  { float := fun r _ => match c.floats.find? (·.1 == r) with | some e => e.2 | none => "?",
    decode := fun u b => match c.decs.find? (fun e => e.1 == u && e.2.1 == b) with | some e => e.2.2 | none => "?" }

def mangle (c : VCase) (p : Bytes) : Bytes :=
  let p := match c.trunc with | some k => p.take k | none => p
  match c.corrupt with
  | some (pos, b) => if pos < p.length then p.set pos (UInt8.ofNat b) else p
  | none => p

/-- number of leading arguments whose bytes end in front of the corrupted byte -/
def intactArgs (c : VCase) : Nat :=
  match c.corrupt with
  | some (pos, _) =>
    let rec go (vs : List Val) (off n : Nat) : Nat :=
      match vs with
      | [] => n
      | v :: t => let e := off + (encArg c.be v).length; if e ≤ pos then go t e (n + 1) else n
    go c.vals 0 0
  | none => c.vals.length

def showArgs (as : List DArg) : String := " ".intercalate (as.map fun a => s!"{a.ti}:{hexOf a.raw}")

def parseArgs (s : String) : List DArg :=
  (fields s " ").map fun f => match f.splitOn ":" with
    | [t, h] => { ti := nat! t, raw := hexBytes h }
    | [t] => { ti := nat! t, raw := [] }
    | _ => { ti := 0, raw := [] }

def doLine (line : String) : String :=
  let (cs, impl) := match line.splitOn "\t" with
    | [c, i] => (c, i)
    | [c] => (c, "")
    | _ => ("", "")
  let c := parseVCase cs
  let full := encode c.be c.vals
  let p := mangle c full
  let as := argIter c.be p
  let txt := render c.op c.be as
  -- after a corruption the opaque conversions (float text, lossy decoding) are unknown: the text is not compared
  let mobs := if c.corrupt.isSome then s!"{hexOf full} | {showArgs as} | -" else s!"{hexOf full} | {showArgs as} | {hexOf txt.toUTF8.toList}"
  let orc (obs : String) : String :=
    if obs == "PANIC" then "C18=FAIL:panic" else
    match obs.splitOn " | " with
    | [ph, ah, th] =>
      let got := parseArgs ah
      let want := c.vals.map Val.decoded
      if hexBytes ph != full then "C18=FAIL:encoder-output" else
      if got.any (fun a => unsupportedTi a.ti) then "C18=FAIL:decoded-argument-of-unsupported-type" else
      if c.corrupt.isSome then
        -- the arguments in front of the corrupted byte are the original ones; what the changed field decodes to is not prescribed
        let k := intactArgs c
        (if got.take k == want.take k then "C18=ok" else "C18=FAIL:arguments-before-the-corruption-altered")
      else if c.trunc.isSome then
        (if got.length ≤ want.length && got == want.take got.length then "C18=ok" else "C18=FAIL:truncated-payload-not-a-prefix")
      else if got != want then (if got.length != want.length then "C18=FAIL:argument-count" else "C18=FAIL:argument-type-or-value")
      else if strOfHex th != canon c.op c.be c.vals then "C18=FAIL:text-not-canonical"
      else "C18=ok"
    | _ => "C18=FAIL:unparsable"
  let tags : List String :=
    (if c.be then ["big-endian"] else ["little-endian"]) ++ (if c.enc == "s" then ["serde-encoder"] else ["payload_from_args"]) ++
    (if c.trunc.isSome then ["truncated"] else []) ++ (if c.corrupt.isSome then ["corrupted"] else []) ++
    (if c.vals.any (fun v => v.hasLen && v.bytes.isEmpty) then ["empty-string-or-raw"] else []) ++
    (if c.vals.any (fun | .floa _ _ => true | _ => false) then ["float"] else []) ++
    (if !c.decs.isEmpty then ["non-ascii"] else []) ++ (if c.vals.isEmpty then ["no-args"] else []) ++
    (if c.vals.any (fun | .sint _ _ => true | _ => false) then ["signed"] else [])
  let canon := if c.corrupt.isSome then (match impl.splitOn " | " with | [a, b, _] => s!"{a} | {b} | -" | _ => impl) else impl
  s!"{mobs}\t{if impl == "" then "-" else orc impl}\t{orc mobs}\t{",".intercalate tags}\t{canon}"

end Arg
