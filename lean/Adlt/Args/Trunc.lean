import Adlt.Args.Proofs
/-! C18: a truncated argument list decodes to a prefix of the original arguments. -/
namespace Arg

def Val.body (be : Bool) (v : Val) : Bytes := (if v.hasLen then wr16 be v.bytes.length else []) ++ v.bytes

theorem encArg_eq (be : Bool) (v : Val) : encArg be v = wr32 be v.ti ++ v.body be := by
  unfold encArg Val.body; simp

theorem wr32_length (be : Bool) (n : Nat) : (wr32 be n).length = 4 := by
  unfold wr32; cases be <;> simp

theorem wr16_length (be : Bool) (n : Nat) : (wr16 be n).length = 2 := by
  unfold wr16; cases be <;> simp

theorem next_short (be : Bool) (p : Bytes) (h : p.length < 4) : next be p = none := by
  match p, h with
  | [], _ => rfl
  | [_], _ => rfl
  | [_, _], _ => rfl
  | [_, _, _], _ => rfl

/-- the decoder gives up on an argument whose value bytes (or length field) are cut short -/
theorem nextTi_trunc (be : Bool) (v : Val) (hw : v.wf = true) (j : Nat) (hj : j < (v.body be).length) :
    nextTi v.ti ((v.body be).take j) be = none := by
  cases v with
  | bool x =>
    have : j = 0 := by simp [Val.body, Val.hasLen, Val.bytes] at hj; omega
    subst this
    cases x <;> simp [nextTi, Val.ti, Val.body, has, tyleLen, Gen.tiBool, Gen.tiVari, Gen.tiFixp, Gen.tiAray, Gen.tiTrai, Gen.tiStru, Gen.tiMaskTyle]
  | uint t r =>
    simp only [Val.wf, Bool.and_eq_true, decide_eq_true_eq, beq_iff_eq] at hw
    obtain ⟨⟨h1, h2⟩, h3⟩ := hw
    simp only [Val.body, Val.hasLen, Bool.false_eq_true, if_false, List.nil_append, Val.bytes] at hj ⊢
    have ht : t = 1 ∨ t = 2 ∨ t = 3 ∨ t = 4 := by omega
    rcases ht with rfl | rfl | rfl | rfl <;>
      simp [nextTi, Val.ti, has, tyleLen, widthOf, Gen.tiBool, Gen.tiVari, Gen.tiFixp, Gen.tiAray, Gen.tiTrai, Gen.tiStru, Gen.tiMaskTyle, Gen.tiUint, Gen.tiSint] at h3 ⊢ <;> omega
  | sint t r =>
    simp only [Val.wf, Bool.and_eq_true, decide_eq_true_eq, beq_iff_eq] at hw
    obtain ⟨⟨h1, h2⟩, h3⟩ := hw
    simp only [Val.body, Val.hasLen, Bool.false_eq_true, if_false, List.nil_append, Val.bytes] at hj ⊢
    have ht : t = 1 ∨ t = 2 ∨ t = 3 ∨ t = 4 := by omega
    rcases ht with rfl | rfl | rfl | rfl <;>
      simp [nextTi, Val.ti, has, tyleLen, widthOf, Gen.tiBool, Gen.tiVari, Gen.tiFixp, Gen.tiAray, Gen.tiTrai, Gen.tiStru, Gen.tiMaskTyle, Gen.tiUint, Gen.tiSint] at h3 ⊢ <;> omega
  | floa t r =>
    simp only [Val.wf, Bool.and_eq_true, Bool.or_eq_true, beq_iff_eq] at hw
    obtain ⟨ht, h3⟩ := hw
    simp only [Val.body, Val.hasLen, Bool.false_eq_true, if_false, List.nil_append, Val.bytes] at hj ⊢
    rcases ht with rfl | rfl <;>
      simp [nextTi, Val.ti, has, tyleLen, widthOf, Gen.tiBool, Gen.tiVari, Gen.tiFixp, Gen.tiAray, Gen.tiTrai, Gen.tiStru, Gen.tiMaskTyle, Gen.tiUint, Gen.tiSint, Gen.tiFloa] at h3 ⊢ <;> omega
  | utf8 s =>
    simp only [Val.wf, decide_eq_true_eq] at hw
    exact strg_trunc be (Gen.tiStrg + Gen.scodUtf8) s hw j (by simpa [Val.body, Val.hasLen, Val.bytes] using hj) (by decide) (by decide) (by decide) (by decide) (by decide) (by decide) (by decide)
  | ascii s =>
    simp only [Val.wf, decide_eq_true_eq] at hw
    exact strg_trunc be (Gen.tiStrg + Gen.scodAscii) s hw j (by simpa [Val.body, Val.hasLen, Val.bytes] using hj) (by decide) (by decide) (by decide) (by decide) (by decide) (by decide) (by decide)
  | raw s =>
    simp only [Val.wf, decide_eq_true_eq] at hw
    exact strg_trunc be Gen.tiRawd s hw j (by simpa [Val.body, Val.hasLen, Val.bytes] using hj) (by decide) (by decide) (by decide) (by decide) (by decide) (by decide) (by decide)
where
  strg_trunc (be : Bool) (ti : Nat) (s : Bytes) (hs : s.length < 65536) (j : Nat) (hj : j < (wr16 be s.length ++ s).length)
      (h1 : has ti Gen.tiVari = false) (h2 : has ti Gen.tiFixp = false) (h2b : has ti (Gen.tiAray + Gen.tiTrai + Gen.tiStru) = false) (h3 : has ti Gen.tiBool = false)
      (h4 : has ti (Gen.tiSint + Gen.tiUint) = false) (h5 : has ti Gen.tiFloa = false)
      (h6 : has ti (Gen.tiStrg + Gen.tiRawd) = true) :
      nextTi ti ((wr16 be s.length ++ s).take j) be = none := by
    simp only [nextTi, h1, h2, h2b, h3, h4, h5, h6, Bool.false_eq_true, if_false, if_true]
    obtain ⟨l1, l2, e1, e2⟩ := rd16_wr16 be s.length hs s
    rw [e1] at hj ⊢
    match j, hj with
    | 0, _ => rfl
    | 1, _ => rfl
    | j + 2, hj =>
      simp only [List.take_succ_cons, e2]
      simp only [List.length_cons] at hj
      have : ¬ (s.take j).length ≥ s.length := by simp; omega
      simp only [this, if_false]

/-- the first `k` bytes of an encoded argument list decode to a prefix of the original arguments -/
theorem iterFuel_take (be : Bool) (vs : List Val) (hw : ∀ v ∈ vs, v.wf = true) (k fuel : Nat) :
    ∃ n, iterFuel be fuel ((encode be vs).take k) = (vs.map Val.decoded).take n := by
  induction vs generalizing k fuel with
  | nil => exact ⟨0, by cases fuel <;> simp [encode, iterFuel, next]⟩
  | cons v t ih =>
    cases fuel with
    | zero => exact ⟨0, rfl⟩
    | succ f =>
      have hv := hw v (by simp)
      simp only [encode, List.flatMap_cons]
      by_cases hk : (encArg be v).length ≤ k
      · -- the first argument is complete
        rw [List.take_append, List.take_of_length_le hk]
        simp only [iterFuel]
        rw [next_encArg be v hv]
        obtain ⟨n, hn⟩ := ih (fun x hx => hw x (by simp [hx])) (k - (encArg be v).length) f
        refine ⟨n + 1, ?_⟩
        simp only [List.map_cons, List.take_succ_cons]
        congr 1
      · -- cut inside the first argument: the decoder stops
        refine ⟨0, ?_⟩
        have hlt : k < (encArg be v).length := by omega
        rw [List.take_append_of_le_length (by omega)]
        simp only [iterFuel, List.take_zero]
        have hnone : next be ((encArg be v).take k) = none := by
          rw [encArg_eq] at hlt ⊢
          by_cases h4 : k < 4
          · apply next_short
            simp; omega
          · have hl := wr32_length be v.ti
            rw [List.take_append, List.take_of_length_le (by omega), hl]
            obtain ⟨a, b, c, d, e1, e2⟩ := rd32_wr32 be v.ti (ti_lt v hv) ((v.body be).take (k - 4))
            rw [e1, next_cons, e2]
            apply nextTi_trunc be v hv
            simp only [List.length_append, hl] at hlt
            omega
        rw [hnone]

theorem argIter_take (be : Bool) (vs : List Val) (hw : ∀ v ∈ vs, v.wf = true) (k : Nat) :
    ∃ n, argIter be ((encode be vs).take k) = (vs.map Val.decoded).take n :=
  iterFuel_take be vs hw k _

end Arg
