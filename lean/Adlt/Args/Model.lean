import Adlt.Gen.Consts
/-! Model of the verbose-payload argument codec: `DltMessageArgIterator` (src/dlt/mod.rs), the encoders
    `payload_from_args` (src/utils/mod.rs) and the serde serializer (src/serde_verb_payload), and the text rendering
    `DltMessage::process_msg_arg_iter`. -/
namespace Arg

abbrev Bytes := List UInt8

/-- a decoded argument: type info word and raw value bytes -/
structure DArg where
  ti : Nat
  raw : Bytes
deriving Repr, DecidableEq

def has (ti bit : Nat) : Bool := Nat.land ti bit != 0

def u16le (a b : UInt8) : Nat := a.toNat + b.toNat * 256
def u32le (a b c d : UInt8) : Nat := a.toNat + b.toNat * 256 + c.toNat * 65536 + d.toNat * 16777216

def rd16 (be : Bool) (a b : UInt8) : Nat := if be then u16le b a else u16le a b
def rd32 (be : Bool) (a b c d : UInt8) : Nat := if be then u32le d c b a else u32le a b c d

def tyleLen (ti : Nat) : Nat :=
  match Nat.land ti Gen.tiMaskTyle with
  | 1 => 1 | 2 => 2 | 3 => 4 | 4 => 8 | 5 => 16 | _ => 0

/-- a type info the decoder does not support: a modifier that changes the layout of the argument (variable info, fixed
    point, array, trace info, structure), or a fixed-size type with a reserved length code (6..15) -/
def unsupportedTi (ti : Nat) : Bool :=
  has ti Gen.tiVari || has ti Gen.tiFixp || has ti (Gen.tiAray + Gen.tiTrai + Gen.tiStru) ||
  ((has ti Gen.tiBool || has ti (Gen.tiSint + Gen.tiUint) || has ti Gen.tiFloa) && Nat.land ti Gen.tiMaskTyle ≥ 6)

/-- what the decoder does with a given type-info word, independent of the byte order -/
def nextTi (ti : Nat) (rest : Bytes) (be : Bool) : Option (DArg × Bytes) :=
  let len := tyleLen ti
  if has ti Gen.tiVari then none
  else if has ti Gen.tiFixp then none
  else if has ti (Gen.tiAray + Gen.tiTrai + Gen.tiStru) then none
  else if has ti Gen.tiBool then
    -- length code 1, or 0 (what dlt-viewer persists); not the reserved codes
    (if len != 1 && Nat.land ti Gen.tiMaskTyle != 0 then none else
      match rest with
      | x :: rest' => some ({ ti := ti, raw := [x] }, rest')
      | [] => none)
  else if has ti (Gen.tiSint + Gen.tiUint) then
    (if len < 1 then none else if rest.length ≥ len then some ({ ti := ti, raw := rest.take len }, rest.drop len) else none)
  else if has ti Gen.tiFloa then
    (if len < 2 then none else if rest.length ≥ len then some ({ ti := ti, raw := rest.take len }, rest.drop len) else none)
  else if has ti (Gen.tiStrg + Gen.tiRawd) then
    (match rest with
      | l1 :: l2 :: rest' =>
        let n := rd16 be l1 l2
        if rest'.length ≥ n then some ({ ti := ti, raw := rest'.take n }, rest'.drop n) else none
      | _ => none)
  else none

/-- one call of `next()` at the start of `p` (verbose): `none` = iteration stops; otherwise the argument and the rest -/
def next (be : Bool) (p : Bytes) : Option (DArg × Bytes) :=
  match p with
  | a :: b :: c :: d :: rest => nextTi (rd32 be a b c d) rest be
  | _ => none

/-- `for arg in &msg` for a verbose message (fuel = payload length) -/
def iterFuel (be : Bool) : Nat → Bytes → List DArg
  | 0, _ => []
  | fuel + 1, p =>
    match next be p with
    | some (a, rest) => a :: iterFuel be fuel rest
    | none => []

def argIter (be : Bool) (p : Bytes) : List DArg := iterFuel be (p.length + 1) p

/-! ### typed values and the encoders -/

inductive Val where
  | bool (b : Bool)
  | uint (tyle : Nat) (raw : Bytes)     -- tyle 1..4, raw = 1,2,4,8 value bytes in message byte order
  | sint (tyle : Nat) (raw : Bytes)
  | floa (tyle : Nat) (raw : Bytes)     -- tyle 3 (f32) or 4 (f64)
  | utf8 (s : Bytes)                    -- string bytes as carried (usually with a trailing NUL)
  | ascii (s : Bytes)
  | raw (d : Bytes)
deriving Repr, DecidableEq

def widthOf (tyle : Nat) : Nat := match tyle with | 1 => 1 | 2 => 2 | 3 => 4 | 4 => 8 | _ => 0

/-- well-formed: widths match, floats are 32/64 bit, strings / raw data fit the 16-bit length -/
def Val.wf : Val → Bool
  | .bool _ => true
  | .uint t r => 1 ≤ t && t ≤ 4 && r.length == widthOf t
  | .sint t r => 1 ≤ t && t ≤ 4 && r.length == widthOf t
  | .floa t r => (t == 3 || t == 4) && r.length == widthOf t
  | .utf8 s => s.length < 65536
  | .ascii s => s.length < 65536
  | .raw d => d.length < 65536

def Val.ti : Val → Nat
  | .bool _ => Gen.tiBool + 1
  | .uint t _ => Gen.tiUint + t
  | .sint t _ => Gen.tiSint + t
  | .floa t _ => Gen.tiFloa + t
  | .utf8 _ => Gen.tiStrg + Gen.scodUtf8
  | .ascii _ => Gen.tiStrg + Gen.scodAscii
  | .raw _ => Gen.tiRawd

def Val.bytes : Val → Bytes
  | .bool b => [if b then 1 else 0]
  | .uint _ r => r
  | .sint _ r => r
  | .floa _ r => r
  | .utf8 s => s
  | .ascii s => s
  | .raw d => d

def Val.hasLen : Val → Bool
  | .utf8 _ => true | .ascii _ => true | .raw _ => true | _ => false

def wr32 (be : Bool) (n : Nat) : Bytes :=
  let l : Bytes := [UInt8.ofNat (n % 256), UInt8.ofNat (n / 256 % 256), UInt8.ofNat (n / 65536 % 256), UInt8.ofNat (n / 16777216 % 256)]
  if be then l.reverse else l
def wr16 (be : Bool) (n : Nat) : Bytes :=
  let l : Bytes := [UInt8.ofNat (n % 256), UInt8.ofNat (n / 256 % 256)]
  if be then l.reverse else l

/-- one argument on the wire: type info, 16-bit length for strings / raw data (also when empty), value bytes -/
def encArg (be : Bool) (v : Val) : Bytes :=
  wr32 be v.ti ++ (if v.hasLen then wr16 be v.bytes.length else []) ++ v.bytes

def encode (be : Bool) (vs : List Val) : Bytes := vs.flatMap (encArg be)

def Val.decoded (v : Val) : DArg := { ti := v.ti, raw := v.bytes }

end Arg
