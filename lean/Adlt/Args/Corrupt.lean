import Adlt.Args.Proofs
/-! C18, malformed argument lists: whatever the bytes are, every argument the decoder yields has a supported type info
    (no layout-changing modifier, no reserved length code); and the arguments in front of a corrupted field are the
    original ones. -/
namespace Arg

theorem tyleLen_pos (ti : Nat) (h : 1 ≤ tyleLen ti) : Nat.land ti Gen.tiMaskTyle < 6 := by
  unfold tyleLen at h
  split at h <;> omega

theorem tyleLen_one (ti : Nat) (h : tyleLen ti = 1) : Nat.land ti Gen.tiMaskTyle < 6 := tyleLen_pos ti (by omega)

/-- the decoder yields an argument only for a supported type info, and the argument carries that type info -/
theorem nextTi_supported (ti : Nat) (rest : Bytes) (be : Bool) (a : DArg) (r : Bytes)
    (h : nextTi ti rest be = some (a, r)) : a.ti = ti ∧ unsupportedTi ti = false := by
  unfold nextTi at h
  simp only at h
  by_cases h1 : has ti Gen.tiVari = true
  · rw [if_pos h1] at h; cases h
  rw [if_neg h1] at h
  by_cases h2 : has ti Gen.tiFixp = true
  · rw [if_pos h2] at h; cases h
  rw [if_neg h2] at h
  by_cases h3 : has ti (Gen.tiAray + Gen.tiTrai + Gen.tiStru) = true
  · rw [if_pos h3] at h; cases h
  rw [if_neg h3] at h
  have e1 : has ti Gen.tiVari = false := by simpa using h1
  have e2 : has ti Gen.tiFixp = false := by simpa using h2
  have e3 : has ti (Gen.tiAray + Gen.tiTrai + Gen.tiStru) = false := by simpa using h3
  by_cases hb : has ti Gen.tiBool = true
  · rw [if_pos hb] at h
    split at h
    · cases h
    · rename_i hc
      have hlt : Nat.land ti Gen.tiMaskTyle < 6 := by
        simp only [bne_iff_ne, ne_eq, Bool.and_eq_true, decide_eq_true_eq, not_and, Decidable.not_not] at hc
        by_cases hl : tyleLen ti = 1
        · exact tyleLen_one ti hl
        · have := hc hl; omega
      match rest, h with
      | x :: rest', h =>
        simp only [Option.some.injEq, Prod.mk.injEq] at h
        refine ⟨by rw [← h.1], ?_⟩
        simp only [unsupportedTi, e1, e2, e3, Bool.false_or, Bool.and_eq_false_iff, decide_eq_false_iff_not]
        right; omega
  rw [if_neg hb] at h
  have e4 : has ti Gen.tiBool = false := by simpa using hb
  by_cases hi : has ti (Gen.tiSint + Gen.tiUint) = true
  · rw [if_pos hi] at h
    split at h
    · cases h
    · rename_i hc
      split at h
      · simp only [Option.some.injEq, Prod.mk.injEq] at h
        refine ⟨by rw [← h.1], ?_⟩
        have := tyleLen_pos ti (by omega)
        simp only [unsupportedTi, e1, e2, e3, Bool.false_or, Bool.and_eq_false_iff, decide_eq_false_iff_not]
        right; omega
      · cases h
  rw [if_neg hi] at h
  have e5 : has ti (Gen.tiSint + Gen.tiUint) = false := by simpa using hi
  by_cases hf : has ti Gen.tiFloa = true
  · rw [if_pos hf] at h
    split at h
    · cases h
    · rename_i hc
      split at h
      · simp only [Option.some.injEq, Prod.mk.injEq] at h
        refine ⟨by rw [← h.1], ?_⟩
        have := tyleLen_pos ti (by omega)
        simp only [unsupportedTi, e1, e2, e3, Bool.false_or, Bool.and_eq_false_iff, decide_eq_false_iff_not]
        right; omega
      · cases h
  rw [if_neg hf] at h
  have e6 : has ti Gen.tiFloa = false := by simpa using hf
  by_cases hs : has ti (Gen.tiStrg + Gen.tiRawd) = true
  · rw [if_pos hs] at h
    match rest, h with
    | l1 :: l2 :: rest', h =>
      simp only at h
      split at h
      · simp only [Option.some.injEq, Prod.mk.injEq] at h
        refine ⟨by rw [← h.1], ?_⟩
        simp [unsupportedTi, e1, e2, e3, e4, e5, e6]
      · cases h
  · rw [if_neg hs] at h; cases h

theorem next_supported (be : Bool) (p : Bytes) (a : DArg) (r : Bytes) (h : next be p = some (a, r)) :
    unsupportedTi a.ti = false := by
  match p, h with
  | x :: y :: z :: w :: rest, h =>
    rw [next_cons] at h
    obtain ⟨e, hu⟩ := nextTi_supported _ _ _ _ _ h
    rw [e]; exact hu

theorem iterFuel_supported (be : Bool) (fuel : Nat) : ∀ (p : Bytes), ∀ a ∈ iterFuel be fuel p, unsupportedTi a.ti = false := by
  induction fuel with
  | zero => intro p a ha; simp [iterFuel] at ha
  | succ f ih =>
    intro p a ha
    simp only [iterFuel] at ha
    split at ha
    · rename_i x rest hx
      rcases List.mem_cons.mp ha with rfl | ha
      · exact next_supported be p _ _ hx
      · exact ih rest a ha
    · cases ha

/-- **for every byte string**: each decoded argument has a supported type info -/
theorem argIter_supported (be : Bool) (p : Bytes) : ∀ a ∈ argIter be p, unsupportedTi a.ti = false :=
  iterFuel_supported be _ p

/-- an encoded argument list followed by arbitrary bytes: the decoder yields the original arguments first -/
theorem iterFuel_encode_append (be : Bool) (vs : List Val) (hw : ∀ v ∈ vs, v.wf = true) (q : Bytes) (fuel : Nat)
    (hf : vs.length ≤ fuel) : (iterFuel be fuel (encode be vs ++ q)).take vs.length = vs.map Val.decoded := by
  induction vs generalizing fuel with
  | nil => simp
  | cons v t ih =>
    cases fuel with
    | zero => simp at hf
    | succ n =>
      have hv := hw v (by simp)
      simp only [encode, List.flatMap_cons, iterFuel, List.append_assoc]
      rw [next_encArg be v hv]
      simp only [List.length_cons, List.take_succ_cons, List.map_cons]
      congr 1
      exact ih (fun x hx => hw x (by simp [hx])) n (by simp at hf; omega)

theorem argIter_encode_append (be : Bool) (vs : List Val) (hw : ∀ v ∈ vs, v.wf = true) (q : Bytes) :
    (argIter be (encode be vs ++ q)).take vs.length = vs.map Val.decoded := by
  unfold argIter
  apply iterFuel_encode_append be vs hw q
  have := encode_length_ge be vs
  simp only [List.length_append]; omega

end Arg
