import Adlt.Args.Text
import Adlt.Args.Proofs
/-! C18: the rendered text of decoded arguments is the canonical form of the typed values. -/
namespace Arg

theorem ra_bool (op : Opaque) (be : Bool) (x : Bool) : renderArg op be (Val.bool x).decoded = canonVal op be (.bool x) := by
  cases x <;> simp [renderArg, Val.decoded, Val.ti, Val.bytes, canonVal, has, Gen.tiBool]

theorem ra_uint (op : Opaque) (be : Bool) (t : Nat) (r : Bytes) (hw : (Val.uint t r).wf = true) :
    renderArg op be (Val.uint t r).decoded = canonVal op be (.uint t r) := by
  simp only [Val.wf, Bool.and_eq_true, decide_eq_true_eq, beq_iff_eq] at hw
  obtain ⟨⟨h1, h2⟩, h3⟩ := hw
  have ht : t = 1 ∨ t = 2 ∨ t = 3 ∨ t = 4 := by omega
  rcases ht with rfl | rfl | rfl | rfl <;>
    simp [renderArg, Val.decoded, Val.ti, Val.bytes, canonVal, has, widthOf, Gen.tiBool, Gen.tiUint] at h3 ⊢ <;> simp [h3]

theorem ra_sint (op : Opaque) (be : Bool) (t : Nat) (r : Bytes) (hw : (Val.sint t r).wf = true) :
    renderArg op be (Val.sint t r).decoded = canonVal op be (.sint t r) := by
  simp only [Val.wf, Bool.and_eq_true, decide_eq_true_eq, beq_iff_eq] at hw
  obtain ⟨⟨h1, h2⟩, h3⟩ := hw
  have ht : t = 1 ∨ t = 2 ∨ t = 3 ∨ t = 4 := by omega
  rcases ht with rfl | rfl | rfl | rfl <;>
    simp [renderArg, Val.decoded, Val.ti, Val.bytes, canonVal, has, widthOf, Gen.tiBool, Gen.tiUint, Gen.tiSint] at h3 ⊢ <;> simp [h3]

theorem ra_floa (op : Opaque) (be : Bool) (t : Nat) (r : Bytes) (hw : (Val.floa t r).wf = true) :
    renderArg op be (Val.floa t r).decoded = canonVal op be (.floa t r) := by
  simp only [Val.wf, Bool.and_eq_true, Bool.or_eq_true, beq_iff_eq] at hw
  obtain ⟨ht, _⟩ := hw
  rcases ht with rfl | rfl <;>
    simp [renderArg, Val.decoded, Val.ti, Val.bytes, canonVal, has, Gen.tiBool, Gen.tiUint, Gen.tiSint, Gen.tiFloa]

theorem ra_utf8 (op : Opaque) (be : Bool) (s : Bytes) : renderArg op be (Val.utf8 s).decoded = canonVal op be (.utf8 s) := by
  have h1 : has (Gen.tiStrg + Gen.scodUtf8) Gen.tiBool = false := by decide
  have h2 : has (Gen.tiStrg + Gen.scodUtf8) Gen.tiUint = false := by decide
  have h3 : has (Gen.tiStrg + Gen.scodUtf8) Gen.tiSint = false := by decide
  have h4 : has (Gen.tiStrg + Gen.scodUtf8) Gen.tiFloa = false := by decide
  have h5 : has (Gen.tiStrg + Gen.scodUtf8) Gen.tiRawd = false := by decide
  have h6 : has (Gen.tiStrg + Gen.scodUtf8) Gen.tiStrg = true := by decide
  have h7 : Nat.land (Gen.tiStrg + Gen.scodUtf8) Gen.tiMaskScod = Gen.scodUtf8 := by decide
  simp only [renderArg, Val.decoded, Val.ti, Val.bytes, canonVal, h1, h2, h3, h4, h5, h6, h7]
  simp

theorem ra_ascii (op : Opaque) (be : Bool) (s : Bytes) : renderArg op be (Val.ascii s).decoded = canonVal op be (.ascii s) := by
  have h1 : has (Gen.tiStrg + Gen.scodAscii) Gen.tiBool = false := by decide
  have h2 : has (Gen.tiStrg + Gen.scodAscii) Gen.tiUint = false := by decide
  have h3 : has (Gen.tiStrg + Gen.scodAscii) Gen.tiSint = false := by decide
  have h4 : has (Gen.tiStrg + Gen.scodAscii) Gen.tiFloa = false := by decide
  have h5 : has (Gen.tiStrg + Gen.scodAscii) Gen.tiRawd = false := by decide
  have h6 : has (Gen.tiStrg + Gen.scodAscii) Gen.tiStrg = true := by decide
  have h7 : Nat.land (Gen.tiStrg + Gen.scodAscii) Gen.tiMaskScod = Gen.scodAscii := by decide
  have h8 : (Gen.scodAscii == Gen.scodUtf8) = false := by decide
  simp only [renderArg, Val.decoded, Val.ti, Val.bytes, canonVal, h1, h2, h3, h4, h5, h6, h7, h8]
  simp

theorem ra_raw (op : Opaque) (be : Bool) (d : Bytes) : renderArg op be (Val.raw d).decoded = canonVal op be (.raw d) := by
  have h1 : has Gen.tiRawd Gen.tiBool = false := by decide
  have h2 : has Gen.tiRawd Gen.tiUint = false := by decide
  have h3 : has Gen.tiRawd Gen.tiSint = false := by decide
  have h4 : has Gen.tiRawd Gen.tiFloa = false := by decide
  have h5 : has Gen.tiRawd Gen.tiRawd = true := by decide
  simp only [renderArg, Val.decoded, Val.ti, Val.bytes, canonVal, h1, h2, h3, h4, h5]
  simp

theorem renderArg_decoded (op : Opaque) (be : Bool) (v : Val) (hw : v.wf = true) :
    renderArg op be v.decoded = canonVal op be v := by
  cases v with
  | bool x => exact ra_bool op be x
  | uint t r => exact ra_uint op be t r hw
  | sint t r => exact ra_sint op be t r hw
  | floa t r => exact ra_floa op be t r hw
  | utf8 s => exact ra_utf8 op be s
  | ascii s => exact ra_ascii op be s
  | raw d => exact ra_raw op be d

theorem render_decoded (op : Opaque) (be : Bool) (vs : List Val) (hw : ∀ v ∈ vs, v.wf = true) :
    render op be (vs.map Val.decoded) = canon op be vs := by
  unfold render canon
  congr 1
  rw [List.map_map]
  apply List.map_congr_left
  intro v hv
  exact renderArg_decoded op be v (hw v hv)

end Arg
