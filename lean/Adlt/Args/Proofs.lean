import Adlt.Args.Model
/-! C18: decoding what the encoder wrote gives back the same arguments (both byte orders); a truncated payload
    decodes to a prefix. -/
namespace Arg

theorem rd32_wr32 (be : Bool) (n : Nat) (h : n < 4294967296) (rest : Bytes) :
    ∃ a b c d, wr32 be n ++ rest = a :: b :: c :: d :: rest ∧ rd32 be a b c d = n := by
  cases be with
  | false =>
    refine ⟨_, _, _, _, rfl, ?_⟩
    simp [rd32, u32le]; omega
  | true =>
    refine ⟨_, _, _, _, rfl, ?_⟩
    simp [rd32, u32le]; omega

theorem rd16_wr16 (be : Bool) (n : Nat) (h : n < 65536) (rest : Bytes) :
    ∃ a b, wr16 be n ++ rest = a :: b :: rest ∧ rd16 be a b = n := by
  cases be with
  | false => refine ⟨_, _, rfl, ?_⟩; simp [rd16, u16le]; omega
  | true => refine ⟨_, _, rfl, ?_⟩; simp [rd16, u16le]; omega

theorem next_cons (be : Bool) (a b c d : UInt8) (rest : Bytes) :
    next be (a :: b :: c :: d :: rest) = nextTi (rd32 be a b c d) rest be := rfl

theorem ti_lt (v : Val) (hw : v.wf = true) : v.ti < 4294967296 := by
  cases v with
  | bool b => simp [Val.ti, Gen.tiBool]
  | uint t r => simp [Val.wf] at hw; simp [Val.ti, Gen.tiUint]; omega
  | sint t r => simp [Val.wf] at hw; simp [Val.ti, Gen.tiSint]; omega
  | floa t r => simp [Val.wf] at hw; simp [Val.ti, Gen.tiFloa]; rcases hw.1 with h | h <;> omega
  | utf8 s => simp [Val.ti, Gen.tiStrg, Gen.scodUtf8]
  | ascii s => simp [Val.ti, Gen.tiStrg, Gen.scodAscii]
  | raw d => simp [Val.ti, Gen.tiRawd]

theorem tail_len1 (r rest : Bytes) (h : r.length = 1) :
    1 ≤ r.length + rest.length ∧ (r ++ rest).take 1 = r ∧ (r ++ rest).tail = rest := by
  match r, h with
  | [x], _ => simp

/-- one encoded argument decodes to itself, whatever follows -/
theorem next_encArg (be : Bool) (v : Val) (hw : v.wf = true) (rest : Bytes) :
    next be (encArg be v ++ rest) = some (v.decoded, rest) := by
  unfold encArg
  obtain ⟨a, b, c, d, h1, h2⟩ := rd32_wr32 be v.ti (ti_lt v hw) ((if v.hasLen then wr16 be v.bytes.length else []) ++ v.bytes ++ rest)
  rw [List.append_assoc, List.append_assoc, ← List.append_assoc _ v.bytes rest, h1, next_cons, h2]
  cases v with
  | bool x =>
    cases x <;> simp [nextTi, Val.ti, Val.hasLen, Val.bytes, Val.decoded, has, tyleLen, Gen.tiBool, Gen.tiVari, Gen.tiFixp, Gen.tiAray, Gen.tiTrai, Gen.tiStru, Gen.tiMaskTyle]
  | uint t r =>
    simp only [Val.wf, Bool.and_eq_true, decide_eq_true_eq, beq_iff_eq] at hw
    obtain ⟨⟨h1, h2⟩, h3⟩ := hw
    have ht : t = 1 ∨ t = 2 ∨ t = 3 ∨ t = 4 := by omega
    rcases ht with rfl | rfl | rfl | rfl <;>
      simp [nextTi, Val.ti, Val.hasLen, Val.bytes, Val.decoded, has, tyleLen, widthOf, Gen.tiBool, Gen.tiVari, Gen.tiFixp, Gen.tiAray, Gen.tiTrai, Gen.tiStru,
        Gen.tiMaskTyle, Gen.tiUint, Gen.tiSint] at h3 ⊢ <;>
      first
        | (simp [h3]; done)
        | exact tail_len1 r rest h3
  | sint t r =>
    simp only [Val.wf, Bool.and_eq_true, decide_eq_true_eq, beq_iff_eq] at hw
    obtain ⟨⟨h1, h2⟩, h3⟩ := hw
    have ht : t = 1 ∨ t = 2 ∨ t = 3 ∨ t = 4 := by omega
    rcases ht with rfl | rfl | rfl | rfl <;>
      simp [nextTi, Val.ti, Val.hasLen, Val.bytes, Val.decoded, has, tyleLen, widthOf, Gen.tiBool, Gen.tiVari, Gen.tiFixp, Gen.tiAray, Gen.tiTrai, Gen.tiStru,
        Gen.tiMaskTyle, Gen.tiUint, Gen.tiSint] at h3 ⊢ <;>
      first
        | (simp [h3]; done)
        | exact tail_len1 r rest h3
  | floa t r =>
    simp only [Val.wf, Bool.and_eq_true, Bool.or_eq_true, decide_eq_true_eq, beq_iff_eq] at hw
    obtain ⟨ht, h3⟩ := hw
    rcases ht with rfl | rfl <;>
      simp [nextTi, Val.ti, Val.hasLen, Val.bytes, Val.decoded, has, tyleLen, widthOf, Gen.tiBool, Gen.tiVari, Gen.tiFixp, Gen.tiAray, Gen.tiTrai, Gen.tiStru,
        Gen.tiMaskTyle, Gen.tiUint, Gen.tiSint, Gen.tiFloa] at h3 ⊢ <;> simp [h3]
  | utf8 s =>
    simp only [Val.wf, decide_eq_true_eq] at hw
    obtain ⟨l1, l2, e1, e2⟩ := rd16_wr16 be s.length hw (s ++ rest)
    simp only [Val.hasLen, if_true, Val.bytes, List.append_assoc]
    rw [e1]
    simp [nextTi, Val.ti, Val.decoded, Val.bytes, has, tyleLen, Gen.tiBool, Gen.tiVari, Gen.tiFixp, Gen.tiAray, Gen.tiTrai, Gen.tiStru, Gen.tiMaskTyle, Gen.tiUint,
      Gen.tiSint, Gen.tiFloa, Gen.tiStrg, Gen.tiRawd, Gen.scodUtf8, e2]
  | ascii s =>
    simp only [Val.wf, decide_eq_true_eq] at hw
    obtain ⟨l1, l2, e1, e2⟩ := rd16_wr16 be s.length hw (s ++ rest)
    simp only [Val.hasLen, if_true, Val.bytes, List.append_assoc]
    rw [e1]
    simp [nextTi, Val.ti, Val.decoded, Val.bytes, has, tyleLen, Gen.tiBool, Gen.tiVari, Gen.tiFixp, Gen.tiAray, Gen.tiTrai, Gen.tiStru, Gen.tiMaskTyle, Gen.tiUint,
      Gen.tiSint, Gen.tiFloa, Gen.tiStrg, Gen.tiRawd, Gen.scodAscii, e2]
  | raw s =>
    simp only [Val.wf, decide_eq_true_eq] at hw
    obtain ⟨l1, l2, e1, e2⟩ := rd16_wr16 be s.length hw (s ++ rest)
    simp only [Val.hasLen, if_true, Val.bytes, List.append_assoc]
    rw [e1]
    simp [nextTi, Val.ti, Val.decoded, Val.bytes, has, tyleLen, Gen.tiBool, Gen.tiVari, Gen.tiFixp, Gen.tiAray, Gen.tiTrai, Gen.tiStru, Gen.tiMaskTyle, Gen.tiUint,
      Gen.tiSint, Gen.tiFloa, Gen.tiStrg, Gen.tiRawd, e2]

theorem encArg_length_pos (be : Bool) (v : Val) : 4 ≤ (encArg be v).length := by
  unfold encArg wr32
  cases be <;> simp <;> omega

theorem iterFuel_encode (be : Bool) (vs : List Val) (hw : ∀ v ∈ vs, v.wf = true) (fuel : Nat)
    (hf : vs.length < fuel) : iterFuel be fuel (encode be vs) = vs.map Val.decoded := by
  induction vs generalizing fuel with
  | nil =>
    cases fuel with
    | zero => omega
    | succ n => simp [encode, iterFuel, next]
  | cons v t ih =>
    cases fuel with
    | zero => omega
    | succ n =>
      have hv := hw v (by simp)
      simp only [encode, List.flatMap_cons, iterFuel]
      rw [next_encArg be v hv]
      simp only [List.map_cons]
      congr 1
      exact ih (fun x hx => hw x (by simp [hx])) n (by simp at hf; omega)

theorem encode_length_ge (be : Bool) (vs : List Val) : 4 * vs.length ≤ (encode be vs).length := by
  induction vs with
  | nil => simp [encode]
  | cons v t ih =>
    have := encArg_length_pos be v
    simp only [encode, List.flatMap_cons, List.length_append, List.length_cons] at *
    omega

/-- C18 round trip -/
theorem argIter_encode (be : Bool) (vs : List Val) (hw : ∀ v ∈ vs, v.wf = true) :
    argIter be (encode be vs) = vs.map Val.decoded := by
  unfold argIter
  apply iterFuel_encode be vs hw
  have := encode_length_ge be vs
  omega

end Arg
