import Adlt.Args.Model
/-! Text rendering of verbose arguments (`process_msg_arg_iter`). Float formatting and the decoding of non-ASCII
    string bytes are opaque (`Opaque`); everything around them is modelled. -/
namespace Arg

structure Opaque where
  float : Bytes → Bool → String          -- raw bytes, big endian? ↦ text (Rust's `{}` for f32 / f64)
  decode : Bool → Bytes → String         -- utf8? ↦ lossy decoding of non-ASCII bytes

def natLE (bs : Bytes) : Nat := bs.foldr (fun b acc => b.toNat + 256 * acc) 0
def natOf (be : Bool) (bs : Bytes) : Nat := if be then natLE bs.reverse else natLE bs

def intOf (be : Bool) (bs : Bytes) : Int :=
  let n := natOf be bs
  let w := 256 ^ bs.length
  if 2 * n ≥ w then (n : Int) - (w : Int) else (n : Int)

def hexByte (b : UInt8) : String :=
  let d (n : Nat) : Char := if n < 10 then Char.ofNat (48 + n) else Char.ofNat (87 + n)
  String.ofList [d (b.toNat / 16), d (b.toNat % 16)]

def stripNul (bs : Bytes) : Bytes :=
  match bs.getLast? with
  | some 0 => bs.dropLast
  | _ => bs

def newlineToSpace (s : String) : String := s.map fun c => if c == '\r' || c == '\n' || c == '\t' then ' ' else c

def strText (op : Opaque) (utf8 : Bool) (bs : Bytes) : String :=
  let b := stripNul bs
  newlineToSpace (if b.all (·.toNat < 128) then String.ofList (b.map fun x => Char.ofNat x.toNat) else op.decode utf8 b)

/-- text of one decoded argument (`be` = byte order of the message) -/
def renderArg (op : Opaque) (be : Bool) (a : DArg) : String :=
  if has a.ti Gen.tiBool then (match a.raw.head? with | some x => if x.toNat > 0 then "true" else "false" | none => "")
  else if has a.ti Gen.tiUint then
    (if a.raw.length == 1 || a.raw.length == 2 || a.raw.length == 4 || a.raw.length == 8 || a.raw.length == 16
     then toString (natOf be a.raw) else "")
  else if has a.ti Gen.tiSint then
    (if a.raw.length == 1 || a.raw.length == 2 || a.raw.length == 4 || a.raw.length == 8 || a.raw.length == 16
     then toString (intOf be a.raw) else "")
  else if has a.ti Gen.tiFloa then op.float a.raw be
  else if has a.ti Gen.tiRawd then " ".intercalate (a.raw.map hexByte)
  else if has a.ti Gen.tiStrg then
    (let scod := Nat.land a.ti Gen.tiMaskScod
     if a.raw.isEmpty then ""
     else if scod == Gen.scodUtf8 then strText op true a.raw
     else if scod == Gen.scodAscii then strText op false a.raw
     else "<scod>")
  else ""

def render (op : Opaque) (be : Bool) (as : List DArg) : String := " ".intercalate (as.map (renderArg op be))

/-- the canonical form, stated on the typed values: decimal numbers, true/false, lower-case hex bytes separated by single
    spaces, strings with one trailing NUL removed and CR/LF/TAB shown as spaces; arguments separated by single spaces -/
def canonVal (op : Opaque) (be : Bool) : Val → String
  | .bool b => if b then "true" else "false"
  | .uint _ r => toString (natOf be r)
  | .sint _ r => toString (intOf be r)
  | .floa _ r => op.float r be
  | .utf8 s => if s.isEmpty then "" else strText op true s
  | .ascii s => if s.isEmpty then "" else strText op false s
  | .raw d => " ".intercalate (d.map hexByte)

def canon (op : Opaque) (be : Bool) (vs : List Val) : String := " ".intercalate (vs.map (canonVal op be))

end Arg
