import Adlt.Dlt.Spec
import Adlt.Dlt.Fast
import Adlt.Util.Parse
/-! Line-protocol glue for the DLT framing / write model.
    case:  `<i0> <s|d> <n|b> <item>;<item>…`   item = `g:<hex>` | `m:<shhex>,<htyp>,<mcnt>,<addhex>,<payloadhex>`
    obs:   `<msg> <msg> … | <index> <processed> <skipped> <detStorage> <detSerial> | <writehex>:<rt> …` -/
namespace Dp
open Util

def parseItem (s : String) : Item :=
  if s.startsWith "g:" then .g (hexBytes (s.drop 2).toString)
  else match ((s.drop 2).toString.splitOn ",") with
    | [sh, htyp, mcnt, add, pl] =>
      .m { sh := hexBytes sh, htyp := UInt8.ofNat (nat! htyp), mcnt := UInt8.ofNat (nat! mcnt), add := hexBytes add, payload := hexBytes pl }
    | _ => .g []

structure Case where
  i0 : Nat
  serial : Bool
  bigMicros : Bool
  items : List Item

def parseCase (line : String) : Case :=
  match line.splitOn " " with
  | [i0, f, fl, its] => { i0 := nat! i0, serial := f == "s", bigMicros := fl == "b", items := (fields its ";").map parseItem }
  | [i0, f, fl] => { i0 := nat! i0, serial := f == "s", bigMicros := fl == "b", items := [] }
  | _ => { i0 := 0, serial := false, bigMicros := false, items := [] }

def showMsg (m : Msg) : String :=
  s!"{m.index},{m.recvUs},{hexOf m.ecu},{m.tsDms},{m.std.htyp.toNat},{m.std.mcnt.toNat},{m.std.len},{match m.ext with | some e => hexOf e | none => "-"},{hexOf m.payload}"

def parseMsgObs (s : String) : Option Msg :=
  match s.splitOn "," with
  | [i, r, e, t, h, c, l, x, p] =>
    some { index := nat! i, recvUs := nat! r, ecu := hexBytes e, tsDms := nat! t,
           std := { htyp := UInt8.ofNat (nat! h), mcnt := UInt8.ofNat (nat! c), len := nat! l },
           ext := if x == "-" then none else some (hexBytes x), payload := hexBytes p }
  | _ => none

def runModel (c : Case) : List Msg × ItSt :=
  let d := render c.serial c.items
  iterAll (d.length + 2) { index := c.i0 } d

def showWrite (m : Msg) : String :=
  match toWrite m with
  | some w => hexOf w ++ ":1"
  | none => "PANIC:0"

def modelObs (c : Case) : String :=
  let (ms, s) := runModel c
  " ".intercalate (ms.map showMsg) ++ s!" | {s.index} {s.processed} {s.skipped} {b2s s.detStorage} {b2s s.detSerial} | " ++
    " ".intercalate (ms.map showWrite)

def oracleOn (c : Case) (obs : String) : String :=
  match obs.splitOn " | " with
  | [a, b, w] =>
    let msgs := (fields a " ").filterMap parseMsgObs
    let cnt := nats b " "
    let o : ItObs := { msgs := msgs, index := cnt.getD 0 0, processed := cnt.getD 1 0, skipped := cnt.getD 2 0 }
    let c01 :=
      if (fields a " ").length != msgs.length then "FAIL:unparsable"
      else if !Spec.inRange c.serial c.items then "skip:out-of-range"
      else if o.msgs != expected c.serial c.i0 c.items then
        (if o.msgs.length != (expected c.serial c.i0 c.items).length then "FAIL:message-count" else "FAIL:message-content")
      else if Spec.C01 c.serial c.i0 c.items o then "ok" else "FAIL:counters"
    let ws := fields w " "
    let c02 :=
      if c.bigMicros then "skip:micros-out-of-range"
      else if ws.length != msgs.length then "FAIL:write-count"
      else
        let bad := (msgs.zip ws).filter fun (m, wstr) =>
          match wstr.splitOn ":" with
          | [hx, rt] => hx == "PANIC" || rt != "1" || !Spec.C02one m (hexBytes hx)
          | _ => true
        match bad with
        | [] => "ok"
        | (_, wstr) :: _ => if wstr.startsWith "PANIC" then "FAIL:write-panics" else if wstr.endsWith ":0" then "FAIL:impl-roundtrip" else "FAIL:roundtrip-or-normal-form"
    s!"C01={c01};C02={c02}"
  | _ => if obs == "PANIC" then "C01=FAIL:panic;C02=FAIL:panic" else "C01=FAIL:unparsable;C02=FAIL:unparsable"

def branches (c : Case) : String :=
  let (ms, s) := runModel c
  let tags : List String :=
    (if ms.length > 0 then ["msg"] else []) ++ (if ms.length > 1 then ["multi"] else []) ++
    (if s.skipped > 0 then ["skipped"] else []) ++ (if c.serial then ["serial"] else ["storage"]) ++
    (if Spec.inRange c.serial c.items then ["in-range"] else ["malformed"]) ++
    (if ms.any (·.ext.isSome) then ["ext"] else []) ++ (if ms.any (fun m => m.std.hasSid) then ["sid"] else []) ++
    (if ms.any (fun m => m.std.hasEcu) then ["ecu"] else []) ++ (if ms.any (fun m => m.std.hasTs) then ["ts"] else []) ++
    (if ms.any (fun m => m.std.bigEndian) then ["be"] else []) ++
    (if ms.any (fun m => m.payload.length == 0) then ["empty-payload"] else []) ++
    (if ms.any (fun m => m.payload.length > 1000) then ["big-payload"] else [])
  ",".intercalate tags

def doLine (line : String) : String :=
  let (cs, impl) := match line.splitOn "\t" with
    | [c, i] => (c, i)
    | [c] => (c, "")
    | _ => ("", "")
  let c := parseCase cs
  let mobs := modelObs c
  let oi := if impl == "" then "-" else oracleOn c impl
  s!"{mobs}\t{oi}\t{oracleOn c mobs}\t{branches c}"

/-! ### C04 chunking: the iterator over a low-mark buffered reader with short reads vs the parse of the whole byte string -/

def hashBytes (l : Bytes) : Nat := l.foldl (fun h b => (h * 31 + b.toNat + 1) % 4294967291) 7

def showMsgShort (m : Msg) : String :=
  s!"{m.index},{m.recvUs},{hexOf m.ecu},{m.tsDms},{m.std.htyp.toNat},{m.std.len},{m.payload.length},{hashBytes m.payload}"

def doLineLw (line : String) : String :=
  let (cs, impl) := match line.splitOn "\t" with
    | [c, i] => (c, i)
    | [c] => (c, "")
    | _ => ("", "")
  match cs.splitOn " | " with
  | [_cfg, dpc] =>
    let c := parseCase dpc
    let (ms, s) := runModel c
    let mobs := " ".intercalate (ms.map showMsgShort) ++ s!" | {s.index} {s.processed} {s.skipped} {b2s s.detStorage} {b2s s.detSerial}"
    -- the property *is* the correspondence here: whatever the chunking, the implementation must find what the
    -- whole-buffer parse finds
    let oi := if impl == "" then "-" else if impl == mobs then "C04=ok" else if impl == "PANIC" then "C04=FAIL:panic" else "C04=FAIL:chunked-differs-from-whole"
    let tags : List String :=
      (if ms.length > 1 then ["multi"] else []) ++ (if s.skipped > 0 then ["skipped"] else []) ++
      (if ms.any (fun m => m.payload.length > 60000) then ["max-size-msg"] else []) ++
      (if (render c.serial c.items).length > 70000 then ["needs-refill"] else []) ++ (if c.serial then ["serial"] else [])
    s!"{mobs}\t{oi}\tC04=ok\t{",".intercalate tags}"
  | _ => "bad\tC04=FAIL:unparsable\tC04=ok\t"

/-! ### C04 position: a suffix read alone, behind k1 and behind k2 complete messages -/

def prefixBytes (serial : Bool) (k : Nat) : Bytes :=
  (List.range k).flatMap fun i =>
    render serial [.m { sh := if serial then [] else [1,0,0,0,0,0,0,0,80,82,69,48], htyp := 0x20, mcnt := UInt8.ofNat i, add := [],
                        payload := [9, UInt8.ofNat i] }]

def readingPos (serial : Bool) (k : Nat) (s : Bytes) : String :=
  let d := prefixBytes serial k ++ s
  let ms := (iterAll (d.length + 2) { index := 1000 - k } d).1
  if ms.length < k then "PREFIX-LOST" else " ".intercalate ((ms.drop k).map showMsg)

def oraclePos (obs : String) : String :=
  match obs.splitOn " | " with
  | [x, y, z] =>
    if y == "PREFIX-LOST" || z == "PREFIX-LOST" then "C04=FAIL:messages-in-front-not-recognised"
    else if y != z then "C04=FAIL:position-dependent-behind-messages"
    else if x != y then "C04=FAIL:position-dependent-before-format-latched"
    else "C04=ok"
  | _ => if obs == "PANIC" then "C04=FAIL:panic" else "C04=FAIL:unparsable"

def doLinePos (line : String) : String :=
  let (cs, impl) := match line.splitOn "\t" with
    | [c, i] => (c, i)
    | [c] => (c, "")
    | _ => ("", "")
  match cs.splitOn " | " with
  | [cfg, dpc] =>
    let ks := nats cfg " "
    let c := parseCase dpc
    let s := render c.serial c.items
    let a := readingPos c.serial 0 s
    let b := readingPos c.serial (ks.getD 0 1) s
    let cc := readingPos c.serial (ks.getD 1 2) s
    let mobs := s!"{a} | {b} | {cc}"
    let tags : List String :=
      (if c.serial then ["serial"] else ["storage"]) ++ (if a != "" then ["msgs-alone"] else []) ++ (if b != "" then ["msgs-behind"] else []) ++
      (if a != b then ["latch-matters"] else ["same"]) ++ (if Spec.inRange c.serial c.items then ["in-range"] else ["malformed"])
    s!"{mobs}\t{if impl == "" then "-" else oraclePos impl}\t{oraclePos mobs}\t{",".intercalate tags}"
  | _ => "bad\tC04=FAIL:unparsable\tC04=ok\t"

end Dp
