import Adlt.Dlt.Parse
/-! C04: the storage-header parser reads nothing beyond the message and the four look-ahead bytes of its corruption
    heuristic: on any window that holds the announced message plus 4 bytes it answers exactly as on the whole input. -/
namespace Dp

/-- the length field of the standard header of a (candidate) message at the start of `w` -/
def lenOf (w : Bytes) : Nat :=
  match w.drop 18 with
  | l1 :: l2 :: _ => l1.toNat * 256 + l2.toNat
  | _ => 0

theorem take_append_of_le (w rest : Bytes) (n : Nat) (h : n ≤ w.length) : (w ++ rest).take n = w.take n := by
  rw [List.take_append_of_le_length h]

theorem isPat_window (p w rest : Bytes) (k : Nat) (h : k + 4 ≤ w.length) :
    isPat p ((w ++ rest).drop k) = isPat p (w.drop k) := by
  unfold isPat
  rw [List.drop_append_of_le_length (by omega)]
  rw [List.take_append_of_le_length (by simp; omega)]

theorem markerScan_window (p : Bytes) (n : Nat) : ∀ (l rest : Bytes), n + 3 ≤ l.length →
    markerScan p (l ++ rest) n = markerScan p l n := by
  induction n with
  | zero => intro l rest _; cases l <;> cases rest <;> rfl
  | succ n ih =>
    intro l rest h
    cases l with
    | nil => simp at h
    | cons x t =>
      simp only [List.cons_append, markerScan]
      have h1 : isPat p (x :: (t ++ rest)) = isPat p (x :: t) := by
        have := isPat_window p (x :: t) rest 0 (by simp at h ⊢; omega)
        simpa using this
      rw [h1, ih t rest (by simp at h; omega)]

/-- **window lemma**: if the window holds at least a minimal message, and the message its length field announces plus
    four more bytes, the parser's answer (message, bytes consumed, or which error) does not depend on what follows -/
theorem parse_window (i : Nat) (w rest : Bytes) (h20 : 20 ≤ w.length) (hl : 16 + lenOf w + 4 ≤ w.length) :
    parseStorage i (w ++ rest) = parseStorage i w := by
  have hp : isPat storagePat (w ++ rest) = isPat storagePat w := by
    have := isPat_window storagePat w rest 0 (by omega); simpa using this
  have hd16 : (w ++ rest).drop 16 = w.drop 16 ++ rest := List.drop_append_of_le_length (by omega)
  unfold parseStorage
  have n1 : ¬ (w ++ rest).length < 20 := by simp; omega
  have n2 : ¬ w.length < 20 := by omega
  simp only [n1, n2, if_false, hp]
  split
  · rfl
  · -- the four header bytes
    match hw : w.drop 16 with
    | [] => have : (w.drop 16).length = 0 := by rw [hw]; rfl
            simp at this; omega
    | [_] => have : (w.drop 16).length = 1 := by rw [hw]; rfl
             simp at this; omega
    | [_, _] => have : (w.drop 16).length = 2 := by rw [hw]; rfl
                simp at this; omega
    | [_, _, _] => have : (w.drop 16).length = 3 := by rw [hw]; rfl
                   simp at this; omega
    | htyp :: mcnt :: l1 :: l2 :: tl =>
      have hlen : lenOf w = l1.toNat * 256 + l2.toNat := by
        unfold lenOf
        have : w.drop 18 = (w.drop 16).drop 2 := by simp
        rw [this, hw]
        rfl
      rw [hd16, hw]
      simp only [List.cons_append]
      rw [hlen] at hl
      generalize hL : l1.toNat * 256 + l2.toNat = L at *
      split
      · rfl
      · rename_i hsz
        have r1 : ¬ (w ++ rest).length - 16 < L := by simp; omega
        have r2 : ¬ w.length - 16 < L := by omega
        simp only [r1, r2, if_false]
        have g1 : decide ((w ++ rest).length - (16 + L) ≥ 4) = true := by simp; omega
        have g2 : decide (w.length - (16 + L) ≥ 4) = true := by simp; omega
        have g3 : isPat storagePat ((w ++ rest).drop (16 + L)) = isPat storagePat (w.drop (16 + L)) :=
          isPat_window storagePat w rest (16 + L) (by omega)
        have g4 : markerInside storagePat (w ++ rest) (16 + L) = markerInside storagePat w (16 + L) := by
          unfold markerInside
          rw [List.drop_append_of_le_length (by omega)]
          exact markerScan_window storagePat _ _ _ (by simp; omega)
        simp only [g1, g2, g3, g4]
        split
        · rfl
        · -- the fields: every slice lies inside the window
          have t1 : ((w ++ rest).drop 4).take 4 = (w.drop 4).take 4 := by
            rw [List.drop_append_of_le_length (by omega), List.take_append_of_le_length (by simp; omega)]
          have t2 : ((w ++ rest).drop 8).take 4 = (w.drop 8).take 4 := by
            rw [List.drop_append_of_le_length (by omega), List.take_append_of_le_length (by simp; omega)]
          have t3 : ((w ++ rest).drop 12).take 4 = (w.drop 12).take 4 := by
            rw [List.drop_append_of_le_length (by omega), List.take_append_of_le_length (by simp; omega)]
          generalize hH : ({ htyp := htyp, mcnt := mcnt, len := L } : StdHdr) = H at *
          have hHlen : H.len = L := by rw [← hH]
          have hs : H.size ≤ L := by rw [← hHlen]; omega
          have t4 : ((w ++ rest).drop (16 + H.size)).take (L - H.size) = (w.drop (16 + H.size)).take (L - H.size) := by
            rw [List.drop_append_of_le_length (by omega), List.take_append_of_le_length (by simp; omega)]
          have t5 : ((w ++ rest).drop 20).take (H.size - 4) = (w.drop 20).take (H.size - 4) := by
            have : 4 ≤ H.size := by unfold StdHdr.size; omega
            rw [List.drop_append_of_le_length (by omega), List.take_append_of_le_length (by simp; omega)]
          rw [t4, t5, t1, t2, t3]

/-- the length field of a (candidate) serial-framed message at the start of `w` -/
def lenOfSerial (w : Bytes) : Nat :=
  match w.drop 6 with
  | l1 :: l2 :: _ => l1.toNat * 256 + l2.toNat
  | _ => 0

/-- window lemma, serial framing: a window that holds the announced message plus four bytes decides like the whole input -/
theorem parse_window_serial (i : Nat) (w rest : Bytes) (h8 : 8 ≤ w.length) (hl : 4 + lenOfSerial w + 4 ≤ w.length) :
    parseSerial i (w ++ rest) = parseSerial i w := by
  have hp : isPat serialPat (w ++ rest) = isPat serialPat w := by
    have := isPat_window serialPat w rest 0 (by omega); simpa using this
  have hd4 : (w ++ rest).drop 4 = w.drop 4 ++ rest := List.drop_append_of_le_length (by omega)
  unfold parseSerial
  have n1 : ¬ (w ++ rest).length < 8 := by simp; omega
  have n2 : ¬ w.length < 8 := by omega
  simp only [n1, n2, if_false, hp]
  split
  · rfl
  · match hw : w.drop 4 with
    | [] => have : (w.drop 4).length = 0 := by rw [hw]; rfl
            simp at this; omega
    | [_] => have : (w.drop 4).length = 1 := by rw [hw]; rfl
             simp at this; omega
    | [_, _] => have : (w.drop 4).length = 2 := by rw [hw]; rfl
                simp at this; omega
    | [_, _, _] => have : (w.drop 4).length = 3 := by rw [hw]; rfl
                   simp at this; omega
    | htyp :: mcnt :: l1 :: l2 :: tl =>
      have hlen : lenOfSerial w = l1.toNat * 256 + l2.toNat := by
        unfold lenOfSerial
        have : w.drop 6 = (w.drop 4).drop 2 := by simp
        rw [this, hw]
        rfl
      rw [hd4, hw]
      simp only [List.cons_append]
      rw [hlen] at hl
      generalize hL : l1.toNat * 256 + l2.toNat = L at *
      split
      · rfl
      · rename_i hsz
        have r1 : ¬ (w ++ rest).length - 4 < L := by simp; omega
        have r2 : ¬ w.length - 4 < L := by omega
        simp only [r1, r2, if_false]
        have g1 : decide ((w ++ rest).length - (4 + L) ≥ 4) = true := by simp; omega
        have g2 : decide (w.length - (4 + L) ≥ 4) = true := by simp; omega
        have g3 : isPat serialPat ((w ++ rest).drop (4 + L)) = isPat serialPat (w.drop (4 + L)) :=
          isPat_window serialPat w rest (4 + L) (by omega)
        have g4 : markerInside serialPat (w ++ rest) (4 + L) = markerInside serialPat w (4 + L) := by
          unfold markerInside
          rw [List.drop_append_of_le_length (by omega)]
          exact markerScan_window serialPat _ _ _ (by simp; omega)
        simp only [g1, g2, g3, g4]
        split
        · rfl
        · generalize hH : ({ htyp := htyp, mcnt := mcnt, len := L } : StdHdr) = H at *
          have hHlen : H.len = L := by rw [← hH]
          have hs : H.size ≤ L := by rw [← hHlen]; omega
          have t4 : ((w ++ rest).drop (4 + H.size)).take (L - H.size) = (w.drop (4 + H.size)).take (L - H.size) := by
            rw [List.drop_append_of_le_length (by omega), List.take_append_of_le_length (by simp; omega)]
          have t5 : ((w ++ rest).drop 8).take (H.size - 4) = (w.drop 8).take (H.size - 4) := by
            have : 4 ≤ H.size := by unfold StdHdr.size; omega
            rw [List.drop_append_of_le_length (by omega), List.take_append_of_le_length (by simp; omega)]
          rw [t4, t5]

theorem lenOf_le (w : Bytes) : lenOf w ≤ 65535 := by
  unfold lenOf
  split
  · rename_i l1 l2 _ _
    have := l1.toNat_lt; have := l2.toNat_lt; omega
  · omega

theorem lenOfSerial_le (w : Bytes) : lenOfSerial w ≤ 65535 := by
  unfold lenOfSerial
  split
  · rename_i l1 l2 _ _
    have := l1.toNat_lt; have := l2.toNat_lt; omega
  · omega

/-- what the parsers consume lies inside the input; an `invalid` verdict needs at least a minimal message -/
theorem parseStorage_ok_le (i : Nat) (d : Bytes) (n : Nat) (m : Msg) (h : parseStorage i d = .ok (n, m)) : n ≤ d.length ∧ 1 ≤ n := by
  unfold parseStorage at h
  split at h
  · cases h
  · split at h
    · cases h
    · split at h
      · simp only [] at h
        split at h
        · cases h
        · split at h
          · cases h
          · split at h
            · cases h
            · injection h with h; injection h with h1 h2
              subst h1; omega
      · cases h

theorem parseStorage_invalid_len (i : Nat) (d : Bytes) (h : parseStorage i d = .error .invalid) : 20 ≤ d.length := by
  unfold parseStorage at h
  split at h
  · cases h
  · omega

theorem parseSerial_ok_le (i : Nat) (d : Bytes) (n : Nat) (m : Msg) (h : parseSerial i d = .ok (n, m)) : n ≤ d.length ∧ 1 ≤ n := by
  unfold parseSerial at h
  split at h
  · cases h
  · split at h
    · cases h
    · split at h
      · simp only [] at h
        split at h
        · cases h
        · split at h
          · cases h
          · split at h
            · cases h
            · injection h with h; injection h with h1 h2
              subst h1; omega
      · cases h

theorem parseSerial_invalid_len (i : Nat) (d : Bytes) (h : parseSerial i d = .error .invalid) : 8 ≤ d.length := by
  unfold parseSerial at h
  split at h
  · cases h
  · omega

end Dp
