import Adlt.Dlt.Stream
/-! C01, whole stream, serial-header framing (`DLS\\x01`): same statement as `iter_stream`, the unconsumed tail is shorter
    than a minimal serial message (8 bytes). -/
namespace Dp

theorem parseStorage_nomarker (i : Nat) (d : Bytes) (hp : isPat storagePat d = false) :
    parseStorage i d = .error .invalid ∨ parseStorage i d = .error .notEnough := by
  by_cases h : 20 ≤ d.length
  · exact .inl (parseStorage_garbage i d h hp)
  · right; unfold parseStorage; simp; omega

/-- the storage attempt on bytes that do not start with a storage marker never decides anything while storage framing
    is not latched -/
theorem tryStorage_again (s : ItSt) (d : Bytes) (hs : s.detStorage = false) (hp : isPat storagePat d = false) :
    tryStorage s d = .again s := by
  unfold tryStorage
  rcases parseStorage_nomarker s.index d hp with h | h <;> simp [h, hs]

theorem iter_skip_ser (fuel : Nat) (s : ItSt) (d : Bytes) (hs : s.detStorage = false) (hlen : 8 ≤ d.length)
    (hm : anyMarkerAt d = false) :
    iterAll (fuel + 1) s d = iterAll fuel { s with processed := s.processed + 1, skipped := s.skipped + 1 } (d.drop 1) := by
  obtain ⟨h1, h2⟩ := anyMarker_false d hm
  have p2 := parseSerial_garbage s.index d hlen h2
  have ta := tryStorage_again s d hs h1
  rw [iterAll]
  cases hd : s.detSerial with
  | true => simp [hs, trySerial, p2, hd]
  | false => simp [ta, hs, trySerial, p2, hd]

theorem enc_serial_no_storage_marker (r : RawMsg) (rest : Bytes) : isPat storagePat (r.enc true ++ rest) = false := by
  simp [isPat, RawMsg.enc, marker, serialPat, storagePat]

theorem iter_msg_ser (fuel : Nat) (s : ItSt) (r : RawMsg) (rest : Bytes) (hs : s.detStorage = false) (hw : r.wf true = true)
    (hh : heuristicFires serialPat (r.enc true ++ rest) (4 + r.len) = false) :
    iterAll (fuel + 1) s (r.enc true ++ rest) =
      (r.msg true s.index ::
        (iterAll fuel { s with index := s.index + 1, processed := s.processed + (4 + r.len), detSerial := true } rest).1,
       (iterAll fuel { s with index := s.index + 1, processed := s.processed + (4 + r.len), detSerial := true } rest).2) := by
  have p := parseSerial_enc s.index r hw rest hh
  have hl : (r.enc true).length = 4 + r.len := enc_length_serial r (wf_facts true r hw)
  have ta := tryStorage_again s (r.enc true ++ rest) hs (enc_serial_no_storage_marker r rest)
  have hdrop : (r.enc true ++ rest).drop (4 + r.len) = rest := by
    rw [← hl]; exact List.drop_left' rfl
  rw [iterAll]
  cases hd : s.detSerial with
  | true => simp [hs, trySerial, p, hdrop, hd]
  | false => simp [ta, hs, trySerial, p, hdrop, hd]

theorem iter_skip_run_ser (b : Bytes) : ∀ (fuel : Nat) (s : ItSt) (R : Bytes), s.detStorage = false → 8 ≤ R.length →
    NoMarkerIn (b ++ R) b.length →
    iterAll (fuel + b.length) s (b ++ R) =
      iterAll fuel { s with processed := s.processed + b.length, skipped := s.skipped + b.length } R := by
  induction b with
  | nil => intro fuel s R _ _ _; simp
  | cons x t ih =>
    intro fuel s R hs hR hn
    have h0 : anyMarkerAt (x :: t ++ R) = false := by simpa using hn 0 (by simp)
    have hl : 8 ≤ (x :: t ++ R).length := by simp; omega
    have e : fuel + (x :: t).length = (fuel + t.length) + 1 := by simp; omega
    rw [e, iter_skip_ser _ s _ hs hl h0]
    simp only [List.cons_append, List.drop_succ_cons, List.drop_zero]
    rw [ih fuel { s with processed := s.processed + 1, skipped := s.skipped + 1 } R hs hR (noMarker_tail x t R t.length (by simpa using hn))]
    congr 1
    simp only [List.length_cons]
    congr 1 <;> omega

theorem iter_tail_ser (d : Bytes) : ∀ (fuel : Nat) (s : ItSt), s.detStorage = false → d.length < fuel → NoMarkerIn d d.length →
    (iterAll fuel s d).1 = [] ∧ (iterAll fuel s d).2.index = s.index ∧
    ∃ u, u ≤ d.length ∧ u < 8 ∧ (iterAll fuel s d).2.processed = s.processed + (d.length - u) ∧
      (iterAll fuel s d).2.skipped = s.skipped + (d.length - u) := by
  induction d with
  | nil =>
    intro fuel s hs hf _
    cases fuel with
    | zero => simp at hf
    | succ f =>
      have p2 : parseSerial s.index [] = .error .notEnough := by simp [parseSerial]
      have ta := tryStorage_again s [] hs (by decide)
      rw [iterAll]
      cases hd : s.detSerial with
      | true => simp [hs, trySerial, p2, hd]
      | false => simp [ta, hs, trySerial, p2, hd]
  | cons x t ih =>
    intro fuel s hs hf hn
    cases fuel with
    | zero => simp at hf
    | succ f =>
      have h0 : anyMarkerAt (x :: t) = false := by simpa using hn 0 (by simp)
      obtain ⟨m1, m2⟩ := anyMarker_false _ h0
      have hnt : NoMarkerIn t t.length := by
        intro j hj
        have := hn (j + 1) (by simp; omega)
        simpa using this
      have hft : t.length < f := by simp at hf; omega
      by_cases hlong : 8 ≤ (x :: t).length
      · rw [iter_skip_ser f s _ hs hlong h0]
        simp only [List.drop_succ_cons, List.drop_zero]
        obtain ⟨i1, i2, u, hu1, hu2, hu3, hu4⟩ := ih f { s with processed := s.processed + 1, skipped := s.skipped + 1 } hs hft hnt
        refine ⟨i1, i2, u, by simp; omega, hu2, ?_, ?_⟩
        · rw [hu3]; simp only [List.length_cons]; omega
        · rw [hu4]; simp only [List.length_cons]; omega
      · have p2 : parseSerial s.index (x :: t) = .error .notEnough := by
          unfold parseSerial; simp only [List.length_cons] at hlong ⊢; simp; omega
        have ta := tryStorage_again s (x :: t) hs m1
        have hshort : (x :: t).length < 8 := by omega
        rw [iterAll]
        cases hd : s.detSerial with
        | true =>
          refine ⟨by simp [hs, trySerial, p2, hd], by simp [hs, trySerial, p2, hd], (x :: t).length, Nat.le_refl _, hshort,
            by simp [hs, trySerial, p2, hd], by simp [hs, trySerial, p2, hd]⟩
        | false =>
          refine ⟨by simp [ta, hs, trySerial, p2, hd], by simp [ta, hs, trySerial, p2, hd], (x :: t).length, Nat.le_refl _, hshort,
            by simp [ta, hs, trySerial, p2, hd], by simp [ta, hs, trySerial, p2, hd]⟩

theorem enc_len_ge_ser (r : RawMsg) (hw : r.wf true = true) : 8 ≤ (r.enc true).length := by
  rw [enc_length_serial r (wf_facts true r hw)]; unfold RawMsg.len; omega

theorem hasMsg_len_ser (items : List Item) (hw : allWf true items = true) (hm : hasMsg items = true) :
    8 ≤ (render true items).length := by
  induction items with
  | nil => simp [hasMsg] at hm
  | cons it t ih =>
    cases it with
    | g b =>
      have hw' : allWf true t = true := by simpa [allWf] using hw
      have := ih hw' (by simpa [hasMsg] using hm)
      rw [render_cons]; simp [Item.bytes]; omega
    | m r =>
      have hwr : r.wf true = true := by
        have := hw; simp [allWf] at this; exact this.1
      have := enc_len_ge_ser r hwr
      rw [render_cons]; simp [Item.bytes]; omega

theorem nomsg_facts_ser (items : List Item) (hm : hasMsg items = false) (hc : Clean true items) :
    NoMarkerIn (render true items) (render true items).length ∧ (∀ i, expected true i items = []) ∧
    garbageLen items = (render true items).length ∧ tailGarbage items = (render true items).length := by
  induction items with
  | nil => exact ⟨fun j hj => by simp [render] at hj, fun _ => rfl, rfl, rfl⟩
  | cons it t ih =>
    cases it with
    | m r => simp [hasMsg] at hm
    | g b =>
      have hm' : hasMsg t = false := by simpa [hasMsg] using hm
      obtain ⟨hcb, hct⟩ := hc
      obtain ⟨i1, i2, i3, i4⟩ := ih hm' hct
      refine ⟨?_, ?_, ?_, ?_⟩
      · intro j hj
        rw [render_cons] at hj ⊢
        simp only [Item.bytes, List.length_append] at hj ⊢
        by_cases hjb : j < b.length
        · exact hcb j hjb
        · have hd : (b ++ render true t).drop j = (render true t).drop (j - b.length) := by
            rw [List.drop_append]; simp [List.drop_eq_nil_of_le (Nat.le_of_not_lt hjb)]
          rw [hd]; exact i1 _ (by omega)
      · intro i; simp [expected, i2]
      · rw [render_cons]; simp [garbageLen, Item.bytes, i3]
      · rw [render_cons]; simp [tailGarbage, hm', Item.bytes, i4]

theorem clean_heuristic_ser (r : RawMsg) (hw : r.wf true = true) (R : Bytes)
    (hc : ∀ j, 1 ≤ j → j < (r.enc true).length → anyMarkerAt ((r.enc true ++ R).drop j) = false) :
    heuristicFires serialPat (r.enc true ++ R) (4 + r.len) = false := by
  have hl : (r.enc true).length = 4 + r.len := enc_length_serial r (wf_facts true r hw)
  have hms : markerInside serialPat (r.enc true ++ R) (4 + r.len) = false := by
    unfold markerInside
    apply markerScan_false
    intro i hi
    have hlen4 : 4 ≤ r.len := by unfold RawMsg.len; omega
    have := hc (5 + i) (by omega) (by omega)
    rw [List.drop_drop]
    exact (anyMarker_false _ this).2
  simp [heuristicFires, hms]

/-- the iterator over a clean serial-framed stream, from any state in which storage framing is not latched -/
theorem iter_stream_ser (items : List Item) : ∀ (fuel : Nat) (s : ItSt), s.detStorage = false → allWf true items = true →
    Clean true items → (render true items).length < fuel →
    (iterAll fuel s (render true items)).1 = expected true s.index items ∧
    (iterAll fuel s (render true items)).2.index = s.index + (expected true s.index items).length ∧
    ∃ u, u ≤ tailGarbage items ∧ u ≤ (render true items).length ∧ u < 8 ∧
      (iterAll fuel s (render true items)).2.processed = s.processed + ((render true items).length - u) ∧
      (iterAll fuel s (render true items)).2.skipped + u = s.skipped + garbageLen items := by
  induction items with
  | nil =>
    intro fuel s hs _ _ hf
    obtain ⟨a, b, u, hu1, hu2, hu3, hu4⟩ := iter_tail_ser [] fuel s hs (by simpa [render] using hf) (fun j hj => by simp at hj)
    have hu0 : u = 0 := by simpa using hu1
    subst hu0
    refine ⟨by simpa [render, expected] using a, by simpa [render, expected] using b, 0, by simp [tailGarbage], by simp, by omega, ?_, ?_⟩
    · simpa [render] using hu3
    · simpa [render, garbageLen] using hu4
  | cons it t ih =>
    intro fuel s hs hw hc hf
    cases it with
    | g b =>
      have hw' : allWf true t = true := by simpa [allWf] using hw
      obtain ⟨hcb, hct⟩ := hc
      rw [render_cons] at hf ⊢
      simp only [Item.bytes] at hf ⊢
      cases hm : hasMsg t with
      | true =>
        have hR := hasMsg_len_ser t hw' hm
        obtain ⟨f', hf'⟩ : ∃ f', fuel = f' + b.length := ⟨fuel - b.length, by simp at hf; omega⟩
        subst hf'
        rw [iter_skip_run_ser b f' s (render true t) hs hR hcb]
        obtain ⟨a, bb, u, hu0, hu1, hu2, hu3, hu4⟩ :=
          ih f' { s with processed := s.processed + b.length, skipped := s.skipped + b.length } hs hw' hct (by simp at hf; omega)
        refine ⟨by simpa [expected] using a, by simpa [expected] using bb, u, by simpa [tailGarbage, hm] using hu0,
          by simp; omega, hu2, ?_, ?_⟩
        · rw [hu3]; simp only [List.length_append]; omega
        · rw [hu4]; simp only [garbageLen]; omega
      | false =>
        have hcall : Clean true (.g b :: t) := ⟨hcb, hct⟩
        have hmall : hasMsg (.g b :: t) = false := by simpa [hasMsg] using hm
        obtain ⟨n1, n2, n3, n4⟩ := nomsg_facts_ser (.g b :: t) hmall hcall
        rw [render_cons] at n1 n3 n4
        simp only [Item.bytes] at n1 n3 n4
        obtain ⟨a, bb, u, hu1, hu2, hu3, hu4⟩ := iter_tail_ser (b ++ render true t) fuel s hs hf n1
        refine ⟨by rw [a, n2], by rw [bb, n2]; simp, u, by rw [n4]; exact hu1, hu1, hu2, hu3, ?_⟩
        rw [hu4, n3]; omega
    | m r =>
      have hwr : r.wf true = true := by
        have := hw; simp [allWf] at this; exact this.1
      have hw' : allWf true t = true := by
        have := hw; simp [allWf] at this; simpa [allWf] using this.2
      obtain ⟨hcm, hct⟩ := hc
      rw [render_cons] at hf ⊢
      simp only [Item.bytes] at hf ⊢
      have hl : (r.enc true).length = 4 + r.len := enc_length_serial r (wf_facts true r hwr)
      have hh := clean_heuristic_ser r hwr (render true t) hcm
      obtain ⟨f', hf'⟩ : ∃ f', fuel = f' + 1 := ⟨fuel - 1, by simp at hf; omega⟩
      subst hf'
      rw [iter_msg_ser f' s r (render true t) hs hwr hh]
      obtain ⟨a, bb, u, hu0, hu1, hu2, hu3, hu4⟩ :=
        ih f' { s with index := s.index + 1, processed := s.processed + (4 + r.len), detSerial := true } hs hw' hct
          (by simp at hf; omega)
      refine ⟨by simp only [expected]; rw [a], ?_, u, by simpa [tailGarbage] using hu0, by simp; omega, hu2, ?_, ?_⟩
      · simp only [expected, List.length_cons]; rw [bb]; simp only []; omega
      · rw [hu3]; simp only [List.length_append, hl]; omega
      · rw [hu4]; simp only [garbageLen]

end Dp
