import Adlt.Dlt.Write
/-! Executable statements of C01 (framing) and C02 (write/parse round trip) over observations. -/
namespace Dp

/-- the parts of one well-formed message as the generator chose them -/
structure RawMsg where
  sh : Bytes          -- storage framing: 12 bytes after the marker (secs LE, micros LE, ecu); serial framing: []
  htyp : UInt8
  mcnt : UInt8
  add : Bytes         -- optional header parts (ecu, session id, timestamp) followed by the extended header
  payload : Bytes
deriving Repr, DecidableEq

def RawMsg.len (r : RawMsg) : Nat := 4 + r.add.length + r.payload.length
def RawMsg.std (r : RawMsg) : StdHdr := { htyp := r.htyp, mcnt := r.mcnt, len := r.len }
def RawMsg.wf (serial : Bool) (r : RawMsg) : Bool :=
  (if serial then r.sh.length == 0 else r.sh.length == 12) && r.add.length + 4 == r.std.size && r.len < 65536

def marker (serial : Bool) : Bytes := if serial then serialPat else storagePat

/-- the bytes of a message on the wire -/
def RawMsg.enc (serial : Bool) (r : RawMsg) : Bytes :=
  marker serial ++ r.sh ++ [r.htyp, r.mcnt, UInt8.ofNat (r.len / 256), UInt8.ofNat (r.len % 256)] ++ r.add ++ r.payload

/-- what reading it must yield: every header field and payload byte -/
def RawMsg.msg (serial : Bool) (r : RawMsg) (index : Nat) : Msg :=
  if serial then fromHeaders index ((2023 - 1970) * 365 * 24 * 60 * 60) 0 [0x44, 0x4c, 0x53, 0] r.std r.add r.payload
  else fromHeaders index (le32 (r.sh.take 4)) (le32 ((r.sh.drop 4).take 4)) (r.sh.drop 8) r.std r.add r.payload

inductive Item where
  | g (b : Bytes)
  | m (r : RawMsg)
deriving Repr

def Item.bytes (serial : Bool) : Item → Bytes
  | .g b => b
  | .m r => r.enc serial

def render (serial : Bool) (items : List Item) : Bytes := items.flatMap (Item.bytes serial)

def anyMarkerAt (d : Bytes) : Bool := isPat storagePat d || isPat serialPat d

/-- offsets (into the rendered stream) at which a message starts -/
def starts (serial : Bool) : Nat → List Item → List Nat
  | _, [] => []
  | o, .g b :: t => starts serial (o + b.length) t
  | o, .m r :: t => o :: starts serial (o + (r.enc serial).length) t

/-- linear scan: at every offset that is not a message start no marker begins -/
def markerFreeScan (st : List Nat) : Nat → Bytes → Bool
  | _, [] => true
  | o, x :: t => (st.contains o || !anyMarkerAt (x :: t)) && markerFreeScan st (o + 1) t

/-- neither frame marker occurs anywhere except at the start of each message (incl. straddling boundaries) -/
def markerFree (serial : Bool) (items : List Item) : Bool :=
  markerFreeScan (starts serial 0 items) 0 (render serial items)

def allWf (serial : Bool) (items : List Item) : Bool :=
  items.all fun | .g _ => true | .m r => r.wf serial

def expected (serial : Bool) : Nat → List Item → List Msg
  | _, [] => []
  | i, .g _ :: t => expected serial i t
  | i, .m r :: t => r.msg serial i :: expected serial (i + 1) t

def garbageLen : List Item → Nat
  | [] => 0
  | .g b :: t => b.length + garbageLen t
  | .m _ :: t => garbageLen t

/-- length of the garbage after the last message -/
def trailingGarbage (items : List Item) : Nat :=
  let rec go : List Item → Nat
    | .g b :: t => b.length + go t
    | _ => 0
  go items.reverse

structure ItObs where
  msgs : List Msg
  index : Nat
  processed : Nat
  skipped : Nat
deriving Repr

namespace Spec
/-- C01 for a stream in the property's range -/
def C01 (serial : Bool) (i0 : Nat) (items : List Item) (o : ItObs) : Bool :=
  let total := (render serial items).length
  let unconsumed := total - o.processed
  o.msgs == expected serial i0 items && o.index == i0 + o.msgs.length &&
  o.processed ≤ total && o.skipped + unconsumed == garbageLen items &&
  unconsumed < (if serial then 8 else 20) && unconsumed ≤ trailingGarbage items

def inRange (serial : Bool) (items : List Item) : Bool := allWf serial items && markerFree serial items

/-- C02 for one parsed message `m` and the bytes `w` the implementation wrote for it -/
def C02one (m : Msg) (w : Bytes) : Bool :=
  match parseStorage m.index w with
  | .ok (n, m') =>
    n == w.length && m'.ecu == m.ecu && m'.recvUs == m.recvUs && m'.tsDms == (if m.std.hasTs then m.tsDms else 0) &&
    m'.std.hasTs == m.std.hasTs && m'.std.mcnt == m.std.mcnt && m'.std.bigEndian == m.std.bigEndian &&
    m'.ext == m.ext && m'.payload == m.payload && toWrite m' == some w
  | .error _ => false

/-- the property's range for C02: storage micros below one second -/
def C02inRange (m : Msg) : Bool := m.recvUs / 1000000 < 4294967296
end Spec
end Dp
