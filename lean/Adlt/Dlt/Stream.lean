import Adlt.Dlt.Enc
/-! C01, whole stream (storage-header framing): the iterator over a stream of well-formed messages separated by garbage in
    which no frame marker begins anywhere but at a message start yields exactly the messages, numbered consecutively, and
    counts exactly the garbage as skipped. -/
namespace Dp

/-- no marker (of either kind) begins at the offsets `< k` of `d` -/
def NoMarkerIn (d : Bytes) (k : Nat) : Prop := ∀ j, j < k → anyMarkerAt (d.drop j) = false

/-- "neither frame marker occurs anywhere except at the start of each message" (markers straddling an item boundary
    included: the test looks at the whole remaining stream) -/
def Clean (serial : Bool) : List Item → Prop
  | [] => True
  | .g b :: rest => NoMarkerIn (b ++ render serial rest) b.length ∧ Clean serial rest
  | .m r :: rest =>
    (∀ j, 1 ≤ j → j < (r.enc serial).length → anyMarkerAt ((r.enc serial ++ render serial rest).drop j) = false) ∧
    Clean serial rest

def hasMsg : List Item → Bool
  | [] => false
  | .g _ :: t => hasMsg t
  | .m _ :: _ => true

/-- garbage after the last message -/
def tailGarbage : List Item → Nat
  | [] => 0
  | .g b :: t => if hasMsg t then tailGarbage t else b.length + tailGarbage t
  | .m _ :: t => tailGarbage t

theorem render_cons (serial : Bool) (it : Item) (t : List Item) :
    render serial (it :: t) = it.bytes serial ++ render serial t := by simp [render]

theorem anyMarker_false (d : Bytes) (h : anyMarkerAt d = false) : isPat storagePat d = false ∧ isPat serialPat d = false := by
  simpa [anyMarkerAt] using h

/-! ### single steps of the iterator (storage framing may or may not be latched; serial framing is not) -/

theorem iter_skip (fuel : Nat) (s : ItSt) (d : Bytes) (hs : s.detSerial = false) (hlen : 20 ≤ d.length)
    (hm : anyMarkerAt d = false) :
    iterAll (fuel + 1) s d = iterAll fuel { s with processed := s.processed + 1, skipped := s.skipped + 1 } (d.drop 1) := by
  obtain ⟨h1, h2⟩ := anyMarker_false d hm
  have p1 := parseStorage_garbage s.index d hlen h1
  have p2 := parseSerial_garbage s.index d (by omega) h2
  rw [iterAll]
  simp only [hs, Bool.not_false, if_true, tryStorage, p1]
  cases hl : s.detStorage with
  | true => simp
  | false => simp [trySerial, p2, hl, hs]

theorem iter_msg (fuel : Nat) (s : ItSt) (r : RawMsg) (rest : Bytes) (hs : s.detSerial = false) (hw : r.wf false = true)
    (hh : heuristicFires storagePat (r.enc false ++ rest) (16 + r.len) = false) :
    iterAll (fuel + 1) s (r.enc false ++ rest) =
      (r.msg false s.index ::
        (iterAll fuel { s with index := s.index + 1, processed := s.processed + (16 + r.len), detStorage := true } rest).1,
       (iterAll fuel { s with index := s.index + 1, processed := s.processed + (16 + r.len), detStorage := true } rest).2) := by
  have p := parseStorage_enc s.index r hw rest hh
  have hl : (r.enc false).length = 16 + r.len := enc_length_storage r (wf_facts false r hw)
  rw [iterAll]
  simp only [hs, Bool.not_false, if_true, tryStorage, p]
  have : (r.enc false ++ rest).drop (16 + r.len) = rest := by
    rw [← hl]; exact List.drop_left' rfl
  rw [this]

theorem noMarker_tail (x : UInt8) (t R : Bytes) (k : Nat) (h : NoMarkerIn (x :: t ++ R) (k + 1)) : NoMarkerIn (t ++ R) k := by
  intro j hj
  have := h (j + 1) (by omega)
  simpa using this

/-- a run of garbage that is followed by at least a minimal message is skipped byte by byte -/
theorem iter_skip_run (b : Bytes) : ∀ (fuel : Nat) (s : ItSt) (R : Bytes), s.detSerial = false → 20 ≤ R.length →
    NoMarkerIn (b ++ R) b.length →
    iterAll (fuel + b.length) s (b ++ R) =
      iterAll fuel { s with processed := s.processed + b.length, skipped := s.skipped + b.length } R := by
  induction b with
  | nil => intro fuel s R _ _ _; simp
  | cons x t ih =>
    intro fuel s R hs hR hn
    have h0 : anyMarkerAt (x :: t ++ R) = false := by simpa using hn 0 (by simp)
    have hl : 20 ≤ (x :: t ++ R).length := by simp; omega
    have e : fuel + (x :: t).length = (fuel + t.length) + 1 := by simp; omega
    rw [e, iter_skip _ s _ hs hl h0]
    simp only [List.cons_append, List.drop_succ_cons, List.drop_zero]
    rw [ih fuel { s with processed := s.processed + 1, skipped := s.skipped + 1 } R hs hR (noMarker_tail x t R t.length (by simpa using hn))]
    congr 1
    simp only [List.length_cons]
    congr 1 <;> omega

/-- what is left when only marker-free garbage remains: nothing is yielded; everything but a tail shorter than a minimal
    message is counted as skipped -/
theorem iter_tail (d : Bytes) : ∀ (fuel : Nat) (s : ItSt), s.detSerial = false → d.length < fuel → NoMarkerIn d d.length →
    (iterAll fuel s d).1 = [] ∧ (iterAll fuel s d).2.index = s.index ∧
    ∃ u, u ≤ d.length ∧ u < 20 ∧ (iterAll fuel s d).2.processed = s.processed + (d.length - u) ∧
      (iterAll fuel s d).2.skipped = s.skipped + (d.length - u) := by
  induction d with
  | nil =>
    intro fuel s hs hf _
    cases fuel with
    | zero => simp at hf
    | succ f =>
      rw [iterAll]
      have p1 : parseStorage s.index [] = .error .notEnough := by simp [parseStorage]
      have p2 : parseSerial s.index [] = .error .notEnough := by simp [parseSerial]
      simp only [hs, Bool.not_false, if_true, tryStorage, p1]
      cases hl : s.detStorage with
      | true => simp
      | false => simp [trySerial, p2, hl]
  | cons x t ih =>
    intro fuel s hs hf hn
    cases fuel with
    | zero => simp at hf
    | succ f =>
      have h0 : anyMarkerAt (x :: t) = false := by simpa using hn 0 (by simp)
      obtain ⟨m1, m2⟩ := anyMarker_false _ h0
      have hnt : NoMarkerIn t t.length := by
        intro j hj
        have := hn (j + 1) (by simp; omega)
        simpa using this
      have hft : t.length < f := by simp at hf; omega
      by_cases hlong : 20 ≤ (x :: t).length
      · rw [iter_skip f s _ hs hlong h0]
        simp only [List.drop_succ_cons, List.drop_zero]
        obtain ⟨i1, i2, u, hu1, hu2, hu3, hu4⟩ := ih f { s with processed := s.processed + 1, skipped := s.skipped + 1 } hs hft hnt
        refine ⟨i1, i2, u, by simp; omega, hu2, ?_, ?_⟩
        · rw [hu3]; simp only [List.length_cons]; omega
        · rw [hu4]; simp only [List.length_cons]; omega
      · have p1 : parseStorage s.index (x :: t) = .error .notEnough := by
          unfold parseStorage; simp only [List.length_cons] at hlong ⊢; simp; omega
        rw [iterAll]
        simp only [hs, Bool.not_false, if_true, tryStorage, p1]
        cases hl : s.detStorage with
        | true =>
          refine ⟨by simp, by simp, (x :: t).length, Nat.le_refl _, by omega, by simp, by simp⟩
        | false =>
          by_cases h8 : 8 ≤ (x :: t).length
          · have p2 := parseSerial_garbage s.index (x :: t) h8 m2
            simp only [hl, Bool.false_eq_true, if_false, trySerial, p2, Bool.not_false, if_true, List.tail_cons, List.drop_succ_cons, List.drop_zero]
            obtain ⟨i1, i2, u, hu1, hu2, hu3, hu4⟩ := ih f { s with processed := s.processed + 1, skipped := s.skipped + 1 } hs hft hnt
            simp only [hl] at i1 i2 hu3 hu4
            refine ⟨i1, i2, u, by simp; omega, hu2, ?_, ?_⟩
            · rw [hu3]; simp only [List.length_cons]; omega
            · rw [hu4]; simp only [List.length_cons]; omega
          · have p2 : parseSerial s.index (x :: t) = .error .notEnough := by
              unfold parseSerial; simp only [List.length_cons] at h8 ⊢; simp; omega
            have h8' : (x :: t).length < 20 := by omega
            refine ⟨by simp [trySerial, p2], by simp [trySerial, p2], (x :: t).length, Nat.le_refl _, h8', by simp [trySerial, p2], by simp [trySerial, p2]⟩

/-! ### facts about item lists -/

theorem enc_len_ge (r : RawMsg) (hw : r.wf false = true) : 20 ≤ (r.enc false).length := by
  rw [enc_length_storage r (wf_facts false r hw)]; unfold RawMsg.len; omega

theorem hasMsg_len (items : List Item) (hw : allWf false items = true) (hm : hasMsg items = true) :
    20 ≤ (render false items).length := by
  induction items with
  | nil => simp [hasMsg] at hm
  | cons it t ih =>
    cases it with
    | g b =>
      have hw' : allWf false t = true := by simpa [allWf] using hw
      have := ih hw' (by simpa [hasMsg] using hm)
      rw [render_cons]; simp [Item.bytes]; omega
    | m r =>
      have hwr : r.wf false = true := by
        have := hw; simp [allWf] at this; exact this.1
      have := enc_len_ge r hwr
      rw [render_cons]; simp [Item.bytes]; omega

theorem nomsg_facts (items : List Item) (hm : hasMsg items = false) (hc : Clean false items) :
    NoMarkerIn (render false items) (render false items).length ∧ (∀ i, expected false i items = []) ∧
    garbageLen items = (render false items).length ∧ tailGarbage items = (render false items).length := by
  induction items with
  | nil => exact ⟨fun j hj => by simp [render] at hj, fun _ => rfl, rfl, rfl⟩
  | cons it t ih =>
    cases it with
    | m r => simp [hasMsg] at hm
    | g b =>
      have hm' : hasMsg t = false := by simpa [hasMsg] using hm
      obtain ⟨hcb, hct⟩ := hc
      obtain ⟨i1, i2, i3, i4⟩ := ih hm' hct
      refine ⟨?_, ?_, ?_, ?_⟩
      · intro j hj
        rw [render_cons] at hj ⊢
        simp only [Item.bytes, List.length_append] at hj ⊢
        by_cases hjb : j < b.length
        · exact hcb j hjb
        · have hd : (b ++ render false t).drop j = (render false t).drop (j - b.length) := by
            rw [List.drop_append]; simp [List.drop_eq_nil_of_le (Nat.le_of_not_lt hjb)]
          rw [hd]; exact i1 _ (by omega)
      · intro i; simp [expected, i2]
      · rw [render_cons]; simp [garbageLen, Item.bytes, i3]
      · rw [render_cons]; simp [tailGarbage, hm', Item.bytes, i4]

theorem markerScan_false (p : Bytes) (n : Nat) : ∀ (l : Bytes), (∀ i, i < n → isPat p (l.drop i) = false) → markerScan p l n = false := by
  induction n with
  | zero => intro l _; cases l <;> rfl
  | succ n ih =>
    intro l h
    cases l with
    | nil => rfl
    | cons x t =>
      simp only [markerScan, Bool.or_eq_false_iff]
      refine ⟨by simpa using h 0 (by omega), ih t ?_⟩
      intro i hi
      have := h (i + 1) (by omega)
      simpa using this

/-- at a message start of a clean stream the corruption heuristic does not fire -/
theorem clean_heuristic (r : RawMsg) (hw : r.wf false = true) (R : Bytes)
    (hc : ∀ j, 1 ≤ j → j < (r.enc false).length → anyMarkerAt ((r.enc false ++ R).drop j) = false) :
    heuristicFires storagePat (r.enc false ++ R) (16 + r.len) = false := by
  have hl : (r.enc false).length = 16 + r.len := enc_length_storage r (wf_facts false r hw)
  have hms : markerInside storagePat (r.enc false ++ R) (16 + r.len) = false := by
    unfold markerInside
    apply markerScan_false
    intro i hi
    have := hc (5 + i) (by omega) (by omega)
    rw [List.drop_drop]
    exact (anyMarker_false _ this).1
  simp [heuristicFires, hms]

/-- the iterator over a clean stream, from any state in which serial framing is not latched -/
theorem iter_stream (items : List Item) : ∀ (fuel : Nat) (s : ItSt), s.detSerial = false → allWf false items = true →
    Clean false items → (render false items).length < fuel →
    (iterAll fuel s (render false items)).1 = expected false s.index items ∧
    (iterAll fuel s (render false items)).2.index = s.index + (expected false s.index items).length ∧
    ∃ u, u ≤ tailGarbage items ∧ u ≤ (render false items).length ∧ u < 20 ∧
      (iterAll fuel s (render false items)).2.processed = s.processed + ((render false items).length - u) ∧
      (iterAll fuel s (render false items)).2.skipped + u = s.skipped + garbageLen items := by
  induction items with
  | nil =>
    intro fuel s hs _ _ hf
    obtain ⟨a, b, u, hu1, hu2, hu3, hu4⟩ := iter_tail [] fuel s hs (by simpa [render] using hf) (fun j hj => by simp at hj)
    have hu0 : u = 0 := by simpa using hu1
    subst hu0
    refine ⟨by simpa [render, expected] using a, by simpa [render, expected] using b, 0, by simp [tailGarbage], by simp, by omega, ?_, ?_⟩
    · simpa [render] using hu3
    · simpa [render, garbageLen] using hu4
  | cons it t ih =>
    intro fuel s hs hw hc hf
    cases it with
    | g b =>
      have hw' : allWf false t = true := by simpa [allWf] using hw
      obtain ⟨hcb, hct⟩ := hc
      rw [render_cons] at hf ⊢
      simp only [Item.bytes] at hf ⊢
      cases hm : hasMsg t with
      | true =>
        have hR := hasMsg_len t hw' hm
        have hfl : b.length ≤ fuel := by simp at hf; omega
        obtain ⟨f', hf'⟩ : ∃ f', fuel = f' + b.length := ⟨fuel - b.length, by omega⟩
        subst hf'
        rw [iter_skip_run b f' s (render false t) hs hR hcb]
        obtain ⟨a, bb, u, hu0, hu1, hu2, hu3, hu4⟩ :=
          ih f' { s with processed := s.processed + b.length, skipped := s.skipped + b.length } hs hw' hct (by simp at hf; omega)
        refine ⟨by simpa [expected] using a, by simpa [expected] using bb, u, by simpa [tailGarbage, hm] using hu0,
          by simp; omega, hu2, ?_, ?_⟩
        · rw [hu3]; simp only [List.length_append]; omega
        · rw [hu4]; simp only [garbageLen]; omega
      | false =>
        have hcall : Clean false (.g b :: t) := ⟨hcb, hct⟩
        have hmall : hasMsg (.g b :: t) = false := by simpa [hasMsg] using hm
        obtain ⟨n1, n2, n3, n4⟩ := nomsg_facts (.g b :: t) hmall hcall
        rw [render_cons] at n1 n3 n4
        simp only [Item.bytes] at n1 n3 n4
        obtain ⟨a, bb, u, hu1, hu2, hu3, hu4⟩ := iter_tail (b ++ render false t) fuel s hs hf n1
        refine ⟨by rw [a, n2], by rw [bb, n2]; simp, u, by rw [n4]; exact hu1, hu1, hu2, hu3, ?_⟩
        rw [hu4, n3]; omega
    | m r =>
      have hwr : r.wf false = true := by
        have := hw; simp [allWf] at this; exact this.1
      have hw' : allWf false t = true := by
        have := hw; simp [allWf] at this; simpa [allWf] using this.2
      obtain ⟨hcm, hct⟩ := hc
      rw [render_cons] at hf ⊢
      simp only [Item.bytes] at hf ⊢
      have hl : (r.enc false).length = 16 + r.len := enc_length_storage r (wf_facts false r hwr)
      have hh := clean_heuristic r hwr (render false t) hcm
      obtain ⟨f', hf'⟩ : ∃ f', fuel = f' + 1 := ⟨fuel - 1, by simp at hf; omega⟩
      subst hf'
      rw [iter_msg f' s r (render false t) hs hwr hh]
      obtain ⟨a, bb, u, hu0, hu1, hu2, hu3, hu4⟩ :=
        ih f' { s with index := s.index + 1, processed := s.processed + (16 + r.len), detStorage := true } hs hw' hct
          (by simp at hf; omega)
      refine ⟨by simp only [expected]; rw [a], ?_, u, by simpa [tailGarbage] using hu0, by simp; omega, hu2, ?_, ?_⟩
      · simp only [expected, List.length_cons]; rw [bb]; simp only []; omega
      · rw [hu3]; simp only [List.length_append, hl]; omega
      · rw [hu4]; simp only [garbageLen]

end Dp
