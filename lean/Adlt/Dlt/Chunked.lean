import Adlt.Buf.Fill
import Adlt.Dlt.Window
/-! C04 (composition): `DltMessageIterator` over `LowMarkBufReader` over a source that answers reads in any sizes yields,
    for every such schedule and every admissible capacity, exactly what the iterator yields over the whole remaining
    byte string. -/
namespace Dp
open Lmk

def bytesOf (l : List Nat) : Bytes := l.map Nat.toUInt8

theorem bytesOf_drop (l : List Nat) (n : Nat) : bytesOf (l.drop n) = (bytesOf l).drop n := by
  unfold bytesOf; rw [List.map_drop]

/-- the `loop` of `DltMessageIterator::next`, run over the buffered reader: every parse attempt sees `fill_buf()`,
    every success or skipped byte is `consume`d -/
def iterLM : Nat → ItSt → LM → List Msg × ItSt
  | 0, s, _ => ([], s)
  | fuel + 1, s, r =>
    let r1 : LM := if !s.detSerial then r.fill else r
    let res1 : LoopRes := if !s.detSerial then tryStorage s (bytesOf r1.window) else .again s
    match res1 with
    | .yield m n s' => let (ms, sf) := iterLM fuel s' (r1.consume n); (m :: ms, sf)
    | .stop s' => ([], s')
    | .skip s' => iterLM fuel s' (r1.consume 1)
    | .again s' =>
      if !s'.detStorage then
        let r2 := r1.fill
        match trySerial s' (bytesOf r2.window) with
        | .yield m n s'' => let (ms, sf) := iterLM fuel s'' (r2.consume n); (m :: ms, sf)
        | .stop s'' => ([], s'')
        | .skip s'' => iterLM fuel s'' (r2.consume 1)
        | .again s'' => ([], s'')
      else ([], s')

/-- the reader is in a state the iterator can rely on -/
structure Ready (orig : List Nat) (r : LM) : Prop where
  inv : Inv orig r
  eofOk : EofOk r
  low : 16 + 65535 + Gen.dltParseLookAhead ≤ r.lowMark
  room : r.lowMark + cacheLine ≤ r.buf.length

/-- the rest of the source as the iterator's input -/
def restOf (orig : List Nat) (r : LM) : Bytes := bytesOf (orig.drop (r.absPos + r.pos))

theorem ready_fill (orig : List Nat) (r : LM) (h : Ready orig r) :
    Ready orig r.fill ∧ Good orig r.fill ∧ restOf orig r.fill = restOf orig r := by
  obtain ⟨f1, f2, _⟩ := fill_inv orig r h.inv
  obtain ⟨g1, g2, g3⟩ := fill_good orig r h.inv h.eofOk h.room
  have hb := fill_buflen orig r h.inv
  refine ⟨⟨f1, g2, by rw [g3]; exact h.low, by rw [g3, hb]; exact h.room⟩, g1, ?_⟩
  unfold restOf; rw [f2]

theorem ready_consume (orig : List Nat) (r : LM) (n : Nat) (h : Ready orig r) (hn : n ≤ r.window.length) :
    Ready orig (r.consume n) ∧ restOf orig (r.consume n) = (restOf orig r).drop n := by
  have hw := window_eq orig r h.inv
  have hlen : r.window.length ≤ r.cap - r.pos := by rw [hw]; simp; omega
  have hp := h.inv.posLe
  refine ⟨⟨consume_inv orig r n h.inv, h.eofOk, h.low, h.room⟩, ?_⟩
  unfold restOf
  rw [← bytesOf_drop, List.drop_drop]
  show bytesOf (orig.drop (r.absPos + min (r.pos + n) r.cap)) = _
  have : min (r.pos + n) r.cap = r.pos + n := by omega
  rw [this]; congr 2; omega

/-- a good window splits the rest of the source; either it is the whole rest, or it is at least the low mark long -/
theorem good_split (orig : List Nat) (r : LM) (h : Ready orig r) (hg : Good orig r) :
    ∃ tl, restOf orig r = bytesOf r.window ++ tl ∧ (tl = [] ∨ 16 + 65535 + Gen.dltParseLookAhead ≤ (bytesOf r.window).length) := by
  have hw := window_eq orig r h.inv
  refine ⟨bytesOf ((orig.drop (r.absPos + r.pos)).drop (r.cap - r.pos)), ?_, ?_⟩
  · unfold restOf bytesOf
    rw [hw, ← List.map_append, List.take_append_drop]
  · have hp := h.inv.posLe
    have hio := h.inv.inOrig
    cases hg with
    | inl hl =>
      right
      have : (bytesOf r.window).length = r.window.length := by unfold bytesOf; simp
      rw [this, hw]
      simp only [List.length_take, List.length_drop]
      have := h.low
      omega
    | inr he =>
      left
      unfold bytesOf
      rw [List.drop_drop, List.drop_eq_nil_of_le (by omega)]
      rfl

theorem tryStorage_window (s : ItSt) (w tl : Bytes) (h : tl = [] ∨ 16 + 65535 + Gen.dltParseLookAhead ≤ w.length) :
    tryStorage s (w ++ tl) = tryStorage s w := by
  cases h with
  | inl h => rw [h, List.append_nil]
  | inr h =>
    have hla : Gen.dltParseLookAhead = 4 := by decide
    unfold tryStorage
    rw [parse_window s.index w tl (by omega) (by have := lenOf_le w; omega)]

theorem trySerial_window (s : ItSt) (w tl : Bytes) (h : tl = [] ∨ 16 + 65535 + Gen.dltParseLookAhead ≤ w.length) :
    trySerial s (w ++ tl) = trySerial s w := by
  cases h with
  | inl h => rw [h, List.append_nil]
  | inr h =>
    have hla : Gen.dltParseLookAhead = 4 := by decide
    unfold trySerial
    rw [parse_window_serial s.index w tl (by omega) (by have := lenOfSerial_le w; omega)]

theorem tryStorage_yield_le (s : ItSt) (d : Bytes) (m : Msg) (n : Nat) (s' : ItSt) (h : tryStorage s d = .yield m n s') : n ≤ d.length := by
  unfold tryStorage at h
  split at h
  · rename_i n' m' hp
    injection h with h1 h2 h3
    subst h2
    exact (parseStorage_ok_le _ _ _ _ hp).1
  · split at h <;> cases h
  · split at h <;> cases h

theorem tryStorage_skip_len (s : ItSt) (d : Bytes) (s' : ItSt) (h : tryStorage s d = .skip s') : 1 ≤ d.length := by
  unfold tryStorage at h
  split at h
  · cases h
  · rename_i hp
    have := parseStorage_invalid_len _ _ hp
    omega
  · split at h <;> cases h

theorem trySerial_yield_le (s : ItSt) (d : Bytes) (m : Msg) (n : Nat) (s' : ItSt) (h : trySerial s d = .yield m n s') : n ≤ d.length := by
  unfold trySerial at h
  split at h
  · rename_i n' m' hp
    injection h with h1 h2 h3
    subst h2
    exact (parseSerial_ok_le _ _ _ _ hp).1
  · cases h
  · cases h

theorem trySerial_skip_len (s : ItSt) (d : Bytes) (s' : ItSt) (h : trySerial s d = .skip s') : 1 ≤ d.length := by
  unfold trySerial at h
  split at h
  · cases h
  · rename_i hp
    have := parseSerial_invalid_len _ _ hp
    omega
  · cases h

theorem bytesOf_length (l : List Nat) : (bytesOf l).length = l.length := by unfold bytesOf; simp

/-- **chunking independence**: for every read schedule of the source, every capacity with room for the low mark plus a
    cache line, every low mark of at least `DLT_MIN_PARSE_BUFFER_SIZE`, and every position the reader stands at, the
    iterator over the buffered reader yields the messages, counters and latch flags of the iterator over the whole rest -/
theorem iterLM_eq (orig : List Nat) (fuel : Nat) (s : ItSt) (r : LM) (h : Ready orig r) :
    iterLM fuel s r = iterAll fuel s (restOf orig r) := by
  induction fuel generalizing s r with
  | zero => rfl
  | succ k ih =>
    rw [iterLM, iterAll]
    by_cases hds : s.detSerial = true
    · -- serial latched: no storage attempt, no first fill
      simp only [hds, Bool.not_true, Bool.false_eq_true, if_false]
      split
      · obtain ⟨hr2, hg2, he2⟩ := ready_fill orig r h
        obtain ⟨tl, ht, hgood⟩ := good_split orig r.fill hr2 hg2
        rw [← he2, ht, trySerial_window s _ tl hgood]
        generalize hres : trySerial s (bytesOf r.fill.window) = res
        cases res with
        | yield m n s'' =>
          have hn := trySerial_yield_le _ _ _ _ _ hres
          rw [bytesOf_length] at hn
          obtain ⟨hc, hrest⟩ := ready_consume orig r.fill n hr2 hn
          simp only []
          rw [ih s'' _ hc, hrest, ht]
        | stop s'' => rfl
        | skip s'' =>
          have hn := trySerial_skip_len _ _ _ hres
          rw [bytesOf_length] at hn
          obtain ⟨hc, hrest⟩ := ready_consume orig r.fill 1 hr2 hn
          simp only []
          rw [ih s'' _ hc, hrest, ht]
        | again s'' => rfl
      · rfl
    · have hds' : s.detSerial = false := by simpa using hds
      simp only [hds', Bool.not_false, if_true]
      obtain ⟨hr1, hg1, he1⟩ := ready_fill orig r h
      obtain ⟨tl, ht, hgood⟩ := good_split orig r.fill hr1 hg1
      rw [← he1, ht, tryStorage_window s _ tl hgood]
      generalize hres : tryStorage s (bytesOf r.fill.window) = res
      cases res with
      | yield m n s' =>
        have hn := tryStorage_yield_le _ _ _ _ _ hres
        rw [bytesOf_length] at hn
        obtain ⟨hc, hrest⟩ := ready_consume orig r.fill n hr1 hn
        simp only []
        rw [ih s' _ hc, hrest, ht]
      | stop s' => rfl
      | skip s' =>
        have hn := tryStorage_skip_len _ _ _ hres
        rw [bytesOf_length] at hn
        obtain ⟨hc, hrest⟩ := ready_consume orig r.fill 1 hr1 hn
        simp only []
        rw [ih s' _ hc, hrest, ht]
      | again s' =>
        simp only []
        split
        · obtain ⟨hr2, hg2, he2⟩ := ready_fill orig r.fill hr1
          obtain ⟨tl2, ht2, hgood2⟩ := good_split orig r.fill.fill hr2 hg2
          rw [← ht, ← he2, ht2, trySerial_window s' _ tl2 hgood2]
          generalize hres2 : trySerial s' (bytesOf r.fill.fill.window) = res2
          cases res2 with
          | yield m n s'' =>
            have hn := trySerial_yield_le _ _ _ _ _ hres2
            rw [bytesOf_length] at hn
            obtain ⟨hc, hrest⟩ := ready_consume orig r.fill.fill n hr2 hn
            simp only []
            rw [ih s'' _ hc, hrest, ht2]
          | stop s'' => rfl
          | skip s'' =>
            have hn := trySerial_skip_len _ _ _ hres2
            rw [bytesOf_length] at hn
            obtain ⟨hc, hrest⟩ := ready_consume orig r.fill.fill 1 hr2 hn
            simp only []
            rw [ih s'' _ hc, hrest, ht2]
          | again s'' => rfl
        · rfl

end Dp
