import Adlt.Dlt.Stream
/-! C04 (position): what the iterator recognises in a suffix of the stream does not depend on how many complete messages
    precede it - they only renumber the messages and advance the byte counter. -/
namespace Dp

def Msg.shift (k : Nat) (m : Msg) : Msg := { m with index := m.index + k }
def ItSt.shift (k p : Nat) (s : ItSt) : ItSt := { s with index := s.index + k, processed := s.processed + p }

def shiftRes (k : Nat) : Except PErr (Nat × Msg) → Except PErr (Nat × Msg)
  | .ok (n, m) => .ok (n, m.shift k)
  | .error e => .error e

theorem parseStorage_shift (i k : Nat) (d : Bytes) : parseStorage (i + k) d = shiftRes k (parseStorage i d) := by
  unfold parseStorage
  split
  · rfl
  · split
    · rfl
    · split
      · simp only []
        split
        · rfl
        · split
          · rfl
          · split
            · rfl
            · rfl
      · rfl

theorem parseSerial_shift (i k : Nat) (d : Bytes) : parseSerial (i + k) d = shiftRes k (parseSerial i d) := by
  unfold parseSerial
  split
  · rfl
  · split
    · rfl
    · split
      · simp only []
        split
        · rfl
        · split
          · rfl
          · split
            · rfl
            · rfl
      · rfl

def shiftLoop (k p : Nat) : LoopRes → LoopRes
  | .yield m n s => .yield (m.shift k) n (s.shift k p)
  | .skip s => .skip (s.shift k p)
  | .again s => .again (s.shift k p)
  | .stop s => .stop (s.shift k p)

theorem tryStorage_shift (k p : Nat) (s : ItSt) (d : Bytes) : tryStorage (s.shift k p) d = shiftLoop k p (tryStorage s d) := by
  unfold tryStorage
  show (match parseStorage (s.index + k) d with | .ok (n, m) => _ | .error .invalid => _ | .error .notEnough => _) = _
  rw [parseStorage_shift]
  cases h : parseStorage s.index d with
  | ok v =>
    obtain ⟨n, m⟩ := v
    simp only [shiftRes, shiftLoop, ItSt.shift]
    congr 1
    simp only [ItSt.mk.injEq, and_true]
    omega
  | error e =>
    cases e with
    | invalid =>
      simp only [shiftRes]
      show (if s.detStorage then _ else _) = shiftLoop k p (if s.detStorage then _ else _)
      split
      · simp only [shiftLoop, ItSt.shift]
        congr 1
        simp only [ItSt.mk.injEq, and_true, true_and]
        omega
      · rfl
    | notEnough =>
      simp only [shiftRes]
      show (if s.detStorage then _ else _) = shiftLoop k p (if s.detStorage then _ else _)
      split <;> rfl

theorem trySerial_shift (k p : Nat) (s : ItSt) (d : Bytes) : trySerial (s.shift k p) d = shiftLoop k p (trySerial s d) := by
  unfold trySerial
  show (match parseSerial (s.index + k) d with | .ok (n, m) => _ | .error .invalid => _ | .error .notEnough => _) = _
  rw [parseSerial_shift]
  cases h : parseSerial s.index d with
  | ok v =>
    obtain ⟨n, m⟩ := v
    simp only [shiftRes, shiftLoop, ItSt.shift]
    congr 1
    simp only [ItSt.mk.injEq, and_true]
    omega
  | error e =>
    cases e with
    | invalid =>
      simp only [shiftRes, shiftLoop, ItSt.shift]
      congr 1
      simp only [ItSt.mk.injEq, and_true, true_and]
      omega
    | notEnough => rfl

/-- **renumbering**: started with a larger index and byte counter, the iterator finds the same messages (renumbered), skips
    the same bytes and ends with the same latches -/
theorem iterAll_shift (k p : Nat) (fuel : Nat) : ∀ (s : ItSt) (d : Bytes),
    iterAll fuel (s.shift k p) d = ((iterAll fuel s d).1.map (Msg.shift k), (iterAll fuel s d).2.shift k p) := by
  induction fuel with
  | zero => intro s d; rfl
  | succ n ih =>
    intro s d
    rw [iterAll, iterAll]
    have hser : (s.shift k p).detSerial = s.detSerial := rfl
    rw [hser, tryStorage_shift]
    by_cases hds : s.detSerial = true
    · simp only [hds, Bool.not_true, Bool.false_eq_true, if_false]
      have hst : (s.shift k p).detStorage = s.detStorage := rfl
      rw [hst]
      split
      · rw [trySerial_shift]
        cases trySerial s d with
        | yield m c s' => simp only [shiftLoop]; rw [ih]; rfl
        | stop s' => rfl
        | skip s' => simp only [shiftLoop]; rw [ih]
        | again s' => rfl
      · rfl
    · have hds' : s.detSerial = false := by simpa using hds
      simp only [hds', Bool.not_false, if_true]
      cases tryStorage s d with
      | yield m c s' => simp only [shiftLoop]; rw [ih]; rfl
      | stop s' => rfl
      | skip s' => simp only [shiftLoop]; rw [ih]
      | again s' =>
        simp only [shiftLoop]
        have hst : (s'.shift k p).detStorage = s'.detStorage := rfl
        rw [hst]
        split
        · rw [trySerial_shift]
          cases trySerial s' d with
          | yield m c s'' => simp only [shiftLoop]; rw [ih]; rfl
          | stop s'' => rfl
          | skip s'' => simp only [shiftLoop]; rw [ih]
          | again s'' => rfl
        · rfl

/-! ### a prefix of whole messages -/

def encAll : List RawMsg → Bytes
  | [] => []
  | r :: t => r.enc false ++ encAll t

def msgsOf : Nat → List RawMsg → List Msg
  | _, [] => []
  | i, r :: t => r.msg false i :: msgsOf (i + 1) t

/-- each message of the prefix is well-formed and is accepted where it stands (the corruption heuristic, which looks at
    the four bytes behind a message, does not reject it) -/
def PrefixOk : List RawMsg → Bytes → Prop
  | [], _ => True
  | r :: t, d => r.wf false = true ∧ heuristicFires storagePat (r.enc false ++ (encAll t ++ d)) (16 + r.len) = false ∧ PrefixOk t d

/-- the iterator state behind the prefix -/
def after (s : ItSt) : List RawMsg → ItSt
  | [] => s
  | r :: t => after { s with index := s.index + 1, processed := s.processed + (16 + r.len), detStorage := true } t

theorem after_fields (rs : List RawMsg) : ∀ (s : ItSt) (d : Bytes), PrefixOk rs d →
    (after s rs).index = s.index + rs.length ∧ (after s rs).processed = s.processed + (encAll rs).length ∧
    (after s rs).skipped = s.skipped ∧ (after s rs).detSerial = s.detSerial ∧
    (after s rs).detStorage = (s.detStorage || !rs.isEmpty) := by
  induction rs with
  | nil => intro s d _; simp [after, encAll]
  | cons r t ih =>
    intro s d h
    obtain ⟨hw, _, ht⟩ := h
    have hl : (r.enc false).length = 16 + r.len := enc_length_storage r (wf_facts false r hw)
    obtain ⟨a, b, c, e, f⟩ := ih { s with index := s.index + 1, processed := s.processed + (16 + r.len), detStorage := true } d ht
    simp only [after, encAll, List.length_cons, List.length_append]
    refine ⟨by rw [a]; show s.index + 1 + t.length = _; omega, by rw [b, hl]; show s.processed + (16 + r.len) + _ = _; omega, c, e, ?_⟩
    rw [f]; simp

/-- **position independence**: behind any number of complete messages the iterator continues on the suffix exactly as an
    iterator started on the suffix alone in the state `after` (storage framing latched, index and byte counter advanced) -/
theorem iter_prefix (rs : List RawMsg) : ∀ (fuel : Nat) (s : ItSt) (d : Bytes), s.detSerial = false → PrefixOk rs d →
    iterAll (fuel + rs.length) s (encAll rs ++ d) =
      (msgsOf s.index rs ++ (iterAll fuel (after s rs) d).1, (iterAll fuel (after s rs) d).2) := by
  induction rs with
  | nil =>
    intro fuel s d _ _
    simp only [encAll, List.nil_append, List.length_nil, Nat.add_zero, msgsOf, after]
  | cons r t ih =>
    intro fuel s d hs h
    obtain ⟨hw, hh, ht⟩ := h
    have e1 : fuel + (r :: t).length = (fuel + t.length) + 1 := by simp; omega
    have e2 : encAll (r :: t) ++ d = r.enc false ++ (encAll t ++ d) := by simp [encAll]
    rw [e1, e2, iter_msg (fuel + t.length) s r (encAll t ++ d) hs hw hh]
    have hs1 : ({ s with index := s.index + 1, processed := s.processed + (16 + r.len), detStorage := true } : ItSt).detSerial = false := hs
    rw [ih fuel _ d hs1 ht]
    simp only [msgsOf, after, List.cons_append]

end Dp
