import Adlt.Dlt.StreamSerial
/-! The executable hypothesis of C01 used by the oracle (`markerFree`: a linear scan over absolute offsets) implies the
    hypothesis of the stream theorems (`Clean`). -/
namespace Dp

theorem scan_spec (st : List Nat) : ∀ (d : Bytes) (o : Nat), markerFreeScan st o d = true →
    ∀ j, j < d.length → (o + j) ∉ st → anyMarkerAt (d.drop j) = false := by
  intro d
  induction d with
  | nil => intro o _ j hj; simp at hj
  | cons x t ih =>
    intro o h j hj hn
    simp only [markerFreeScan, Bool.and_eq_true, Bool.or_eq_true, Bool.not_eq_true'] at h
    cases j with
    | zero =>
      rcases h.1 with h1 | h1
      · exfalso; apply hn; simpa using h1
      · simpa using h1
    | succ j =>
      have := ih (o + 1) h.2 j (by simpa using hj) (by rw [show o + 1 + j = o + (j + 1) by omega]; exact hn)
      simpa using this

theorem starts_ge (serial : Bool) (items : List Item) : ∀ (o x : Nat), x ∈ starts serial o items → o ≤ x := by
  induction items with
  | nil => intro o x h; simp [starts] at h
  | cons it t ih =>
    intro o x h
    cases it with
    | g b => simp only [starts] at h; have := ih _ _ h; omega
    | m r =>
      simp only [starts, List.mem_cons] at h
      rcases h with h | h
      · omega
      · have := ih _ _ h; omega

/-- scanning the rest of the stream from the absolute offset `o` of `items`, against the starts of `items` themselves
    plus any set of offsets below `o` -/
theorem clean_of_scan (serial : Bool) (items : List Item) : ∀ (o : Nat) (low : List Nat), (∀ x ∈ low, x < o) →
    (∀ j, j < (render serial items).length → (o + j) ∉ low ++ starts serial o items →
      anyMarkerAt ((render serial items).drop j) = false) →
    Clean serial items := by
  induction items with
  | nil => intro _ _ _ _; trivial
  | cons it t ih =>
    intro o low hlow H
    cases it with
    | g b =>
      refine ⟨?_, ?_⟩
      · intro j hj
        have := H j (by rw [render_cons]; simp [Item.bytes]; omega) (by
          intro hm
          simp only [List.mem_append, starts] at hm
          rcases hm with hm | hm
          · have := hlow _ hm; omega
          · have := starts_ge serial t _ _ hm; omega)
        rw [render_cons] at this
        simpa [Item.bytes] using this
      · apply ih (o + b.length) low (fun x hx => by have := hlow x hx; omega)
        intro j hj hn
        have := H (b.length + j) (by rw [render_cons]; simp [Item.bytes]; omega) (by
          intro hm; apply hn
          simp only [List.mem_append, starts] at hm ⊢
          rw [show o + b.length + j = o + (b.length + j) by omega]; exact hm)
        rw [render_cons] at this
        simp only [Item.bytes] at this
        rwa [List.drop_append, List.drop_eq_nil_of_le (by omega), List.nil_append, show b.length + j - b.length = j by omega] at this
    | m r =>
      refine ⟨?_, ?_⟩
      · intro j h1 h2
        have := H j (by rw [render_cons]; simp [Item.bytes]; omega) (by
          intro hm
          simp only [List.mem_append, starts, List.mem_cons] at hm
          rcases hm with hm | hm | hm
          · have := hlow _ hm; omega
          · omega
          · have := starts_ge serial t _ _ hm; omega)
        rw [render_cons] at this
        simpa [Item.bytes] using this
      · apply ih (o + (r.enc serial).length) (low ++ [o]) (fun x hx => by
          simp only [List.mem_append, List.mem_singleton] at hx
          rcases hx with hx | hx
          · have := hlow x hx; omega
          · have : 0 < (r.enc serial).length := by simp [RawMsg.enc]; omega
            omega)
        intro j hj hn
        have := H ((r.enc serial).length + j) (by rw [render_cons]; simp only [Item.bytes, List.length_append]; omega) (by
          intro hm; apply hn
          simp only [List.mem_append, starts, List.mem_cons, List.mem_singleton] at hm ⊢
          rw [show o + (r.enc serial).length + j = o + ((r.enc serial).length + j) by omega]
          rcases hm with hm | hm | hm
          · exact .inl (.inl hm)
          · exact .inl (.inr (.inl hm))
          · exact .inr hm)
        rw [render_cons] at this
        simp only [Item.bytes] at this
        rwa [List.drop_append, List.drop_eq_nil_of_le (by omega), List.nil_append,
          show (r.enc serial).length + j - (r.enc serial).length = j by omega] at this

/-- what the oracle checks implies what the theorems assume -/
theorem markerFree_clean (serial : Bool) (items : List Item) (h : markerFree serial items = true) : Clean serial items := by
  apply clean_of_scan serial items 0 [] (by simp)
  intro j hj hn
  have := scan_spec _ _ 0 h j hj (by simpa using hn)
  exact this

end Dp
