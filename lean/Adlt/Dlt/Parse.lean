/-! Byte-level model of `parse_dlt_with_storage_header`, `parse_dlt_with_serial_header`, `DltMessage::from_headers`
    (src/dlt/mod.rs) and `DltMessageIterator::next` (src/utils/dltmessageiterator.rs). -/
namespace Dp

abbrev Bytes := List UInt8

def storagePat : Bytes := [0x44, 0x4c, 0x54, 0x01]
def serialPat  : Bytes := [0x44, 0x4c, 0x53, 0x01]

def isPat (p : Bytes) (d : Bytes) : Bool := d.take 4 == p

structure StdHdr where
  htyp : UInt8
  mcnt : UInt8
  len : Nat
deriving Repr, DecidableEq

def StdHdr.hasExt (h : StdHdr) : Bool := h.htyp &&& 1 != 0
def StdHdr.bigEndian (h : StdHdr) : Bool := h.htyp &&& 2 != 0
def StdHdr.hasEcu (h : StdHdr) : Bool := h.htyp &&& 4 != 0
def StdHdr.hasSid (h : StdHdr) : Bool := h.htyp &&& 8 != 0
def StdHdr.hasTs (h : StdHdr) : Bool := h.htyp &&& 16 != 0

def StdHdr.size (h : StdHdr) : Nat :=
  4 + (if h.hasEcu then 4 else 0) + (if h.hasSid then 4 else 0) + (if h.hasTs then 4 else 0)
    + (if h.hasExt then 10 else 0)

def be32 (b : Bytes) : Nat := match b with
  | [a, b, c, d] => ((a.toNat * 256 + b.toNat) * 256 + c.toNat) * 256 + d.toNat
  | _ => 0
def le32 (b : Bytes) : Nat := be32 b.reverse

structure Msg where
  index : Nat
  recvUs : Nat
  ecu : Bytes
  tsDms : Nat
  std : StdHdr
  ext : Option Bytes      -- 10 raw bytes
  payload : Bytes
deriving Repr, DecidableEq

inductive PErr where | invalid | notEnough
deriving Repr, DecidableEq

def fromHeaders (index secs micros : Nat) (shEcu : Bytes) (h : StdHdr) (add : Bytes) (payload : Bytes) : Msg :=
  let ecu := if h.hasEcu then add.take 4 else shEcu
  let off := (if h.hasEcu then 4 else 0) + (if h.hasSid then 4 else 0)
  let ts := if h.hasTs then be32 ((add.drop off).take 4) else 0
  let ext := if h.hasExt then some (add.drop (add.length - 10)) else none
  { index, recvUs := secs * 1000000 + micros, ecu, tsDms := ts, std := h, ext, payload }

/-- is there a marker at some i in [5, toConsume) of data (linear scan, like the Rust loop) -/
def markerScan (p : Bytes) : Bytes → Nat → Bool
  | _, 0 => false
  | [], _ => false
  | x :: t, n + 1 => isPat p (x :: t) || markerScan p t n

def markerInside (p : Bytes) (d : Bytes) (toConsume : Nat) : Bool :=
  markerScan p (d.drop 5) (toConsume - 5)

def parseStorage (index : Nat) (d : Bytes) : Except PErr (Nat × Msg) :=
  if d.length < 20 then .error .notEnough else
  if !isPat storagePat d then .error .invalid else
  let rem := d.length - 16
  match d.drop 16 with
  | htyp :: mcnt :: l1 :: l2 :: _ =>
    let h : StdHdr := { htyp, mcnt, len := l1.toNat * 256 + l2.toNat }
    if h.len < h.size then .error .invalid else
    if rem < h.len then .error .notEnough else
    let toConsume := 16 + h.len
    let remaining := d.length - toConsume
    if remaining ≥ 4 && !isPat storagePat (d.drop toConsume) && markerInside storagePat d toConsume then .error .invalid else
    let payload := (d.drop (16 + h.size)).take (h.len - h.size)
    let add := (d.drop 20).take (h.size - 4)
    .ok (toConsume, fromHeaders index (le32 ((d.drop 4).take 4)) (le32 ((d.drop 8).take 4)) ((d.drop 12).take 4) h add payload)
  | _ => .error .notEnough

def parseSerial (index : Nat) (d : Bytes) : Except PErr (Nat × Msg) :=
  if d.length < 8 then .error .notEnough else
  if !isPat serialPat d then .error .invalid else
  let rem := d.length - 4
  match d.drop 4 with
  | htyp :: mcnt :: l1 :: l2 :: _ =>
    let h : StdHdr := { htyp, mcnt, len := l1.toNat * 256 + l2.toNat }
    if h.len < h.size then .error .invalid else
    if rem < h.len then .error .invalid else
    let toConsume := 4 + h.len
    let remaining := d.length - toConsume
    if remaining ≥ 4 && !isPat serialPat (d.drop toConsume) && markerInside serialPat d toConsume then .error .invalid else
    let payload := (d.drop (4 + h.size)).take (h.len - h.size)
    let add := (d.drop 8).take (h.size - 4)
    .ok (toConsume, fromHeaders index ((2023 - 1970) * 365 * 24 * 60 * 60) 0 [0x44, 0x4c, 0x53, 0] h add payload)
  | _ => .error .notEnough

/-! ### compiled-code replacements (`@[csimp]`, proved equal): parsing without measuring the whole remaining input -/

def hasLen : Bytes → Nat → Bool
  | _, 0 => true
  | [], _ + 1 => false
  | _ :: t, n + 1 => hasLen t n

theorem hasLen_iff (d : Bytes) (n : Nat) : hasLen d n = true ↔ n ≤ d.length := by
  induction d generalizing n with
  | nil => cases n <;> simp [hasLen]
  | cons x t ih => cases n <;> simp [hasLen, ih]

theorem hasLen_false_iff (d : Bytes) (n : Nat) : hasLen d n = false ↔ d.length < n := by
  rw [← Bool.not_eq_true, hasLen_iff]; omega

def parseStorageFast (index : Nat) (d : Bytes) : Except PErr (Nat × Msg) :=
  if !hasLen d 20 then .error .notEnough else
  if !isPat storagePat d then .error .invalid else
  match d.drop 16 with
  | htyp :: mcnt :: l1 :: l2 :: _ =>
    let h : StdHdr := { htyp, mcnt, len := l1.toNat * 256 + l2.toNat }
    if h.len < h.size then .error .invalid else
    if !hasLen (d.drop 16) h.len then .error .notEnough else
    let toConsume := 16 + h.len
    if hasLen (d.drop toConsume) 4 && !isPat storagePat (d.drop toConsume) && markerInside storagePat d toConsume then .error .invalid else
    let payload := (d.drop (16 + h.size)).take (h.len - h.size)
    let add := (d.drop 20).take (h.size - 4)
    .ok (toConsume, fromHeaders index (le32 ((d.drop 4).take 4)) (le32 ((d.drop 8).take 4)) ((d.drop 12).take 4) h add payload)
  | _ => .error .notEnough

@[csimp] theorem parseStorage_eq_fast : @parseStorage = @parseStorageFast := by
  funext index d
  unfold parseStorage parseStorageFast
  by_cases h20 : d.length < 20
  · have : hasLen d 20 = false := (hasLen_false_iff d 20).mpr h20
    simp [h20, this]
  · have h1 : hasLen d 20 = true := (hasLen_iff d 20).mpr (by omega)
    simp only [h20, h1, if_false, Bool.not_true, Bool.false_eq_true]
    split
    · rfl
    · generalize hd : d.drop 16 = l
      match l, hd with
      | [], _ => rfl
      | [_], _ => rfl
      | [_, _], _ => rfl
      | [_, _, _], _ => rfl
      | htyp :: mcnt :: l1 :: l2 :: rest, hd =>
        simp only []
        split
        · rfl
        · have hlen : (d.drop 16).length = d.length - 16 := by simp
          by_cases hr : d.length - 16 < l1.toNat * 256 + l2.toNat
          · have : hasLen (htyp :: mcnt :: l1 :: l2 :: rest) (l1.toNat * 256 + l2.toNat) = false := by
              rw [hasLen_false_iff, ← hd]; omega
            simp [hr, this]
          · have : hasLen (htyp :: mcnt :: l1 :: l2 :: rest) (l1.toNat * 256 + l2.toNat) = true := by
              rw [hasLen_iff, ← hd]; omega
            simp only [hr, this, if_false, Bool.not_true, Bool.false_eq_true]
            have e2 : decide (d.length - (16 + (l1.toNat * 256 + l2.toNat)) ≥ 4) = hasLen (d.drop (16 + (l1.toNat * 256 + l2.toNat))) 4 := by
              by_cases h4 : d.length - (16 + (l1.toNat * 256 + l2.toNat)) ≥ 4
              · have : hasLen (d.drop (16 + (l1.toNat * 256 + l2.toNat))) 4 = true := by rw [hasLen_iff]; simp; omega
                simp [h4, this]
              · have : hasLen (d.drop (16 + (l1.toNat * 256 + l2.toNat))) 4 = false := by rw [hasLen_false_iff]; simp; omega
                simp [h4, this]
            rw [e2]

def parseSerialFast (index : Nat) (d : Bytes) : Except PErr (Nat × Msg) :=
  if !hasLen d 8 then .error .notEnough else
  if !isPat serialPat d then .error .invalid else
  match d.drop 4 with
  | htyp :: mcnt :: l1 :: l2 :: _ =>
    let h : StdHdr := { htyp, mcnt, len := l1.toNat * 256 + l2.toNat }
    if h.len < h.size then .error .invalid else
    if !hasLen (d.drop 4) h.len then .error .invalid else
    let toConsume := 4 + h.len
    if hasLen (d.drop toConsume) 4 && !isPat serialPat (d.drop toConsume) && markerInside serialPat d toConsume then .error .invalid else
    let payload := (d.drop (4 + h.size)).take (h.len - h.size)
    let add := (d.drop 8).take (h.size - 4)
    .ok (toConsume, fromHeaders index ((2023 - 1970) * 365 * 24 * 60 * 60) 0 [0x44, 0x4c, 0x53, 0] h add payload)
  | _ => .error .notEnough

@[csimp] theorem parseSerial_eq_fast : @parseSerial = @parseSerialFast := by
  funext index d
  unfold parseSerial parseSerialFast
  by_cases h8 : d.length < 8
  · have : hasLen d 8 = false := (hasLen_false_iff d 8).mpr h8
    simp [h8, this]
  · have h1 : hasLen d 8 = true := (hasLen_iff d 8).mpr (by omega)
    simp only [h8, h1, if_false, Bool.not_true, Bool.false_eq_true]
    split
    · rfl
    · generalize hd : d.drop 4 = l
      match l, hd with
      | [], _ => rfl
      | [_], _ => rfl
      | [_, _], _ => rfl
      | [_, _, _], _ => rfl
      | htyp :: mcnt :: l1 :: l2 :: rest, hd =>
        simp only []
        split
        · rfl
        · have hlen : (d.drop 4).length = d.length - 4 := by simp
          by_cases hr : d.length - 4 < l1.toNat * 256 + l2.toNat
          · have : hasLen (htyp :: mcnt :: l1 :: l2 :: rest) (l1.toNat * 256 + l2.toNat) = false := by
              rw [hasLen_false_iff, ← hd]; omega
            simp [hr, this]
          · have : hasLen (htyp :: mcnt :: l1 :: l2 :: rest) (l1.toNat * 256 + l2.toNat) = true := by
              rw [hasLen_iff, ← hd]; omega
            simp only [hr, this, if_false, Bool.not_true, Bool.false_eq_true]
            have e2 : decide (d.length - (4 + (l1.toNat * 256 + l2.toNat)) ≥ 4) = hasLen (d.drop (4 + (l1.toNat * 256 + l2.toNat))) 4 := by
              by_cases h4 : d.length - (4 + (l1.toNat * 256 + l2.toNat)) ≥ 4
              · have : hasLen (d.drop (4 + (l1.toNat * 256 + l2.toNat))) 4 = true := by rw [hasLen_iff]; simp; omega
                simp [h4, this]
              · have : hasLen (d.drop (4 + (l1.toNat * 256 + l2.toNat))) 4 = false := by rw [hasLen_false_iff]; simp; omega
                simp [h4, this]
            rw [e2]

structure ItSt where
  index : Nat
  processed : Nat := 0
  skipped : Nat := 0
  detStorage : Bool := false
  detSerial : Bool := false
deriving Repr

/-- one pass of the `loop` body of `DltMessageIterator::next`.
    Returns `none` = break (iterator returns None). -/
inductive LoopRes where
  | yield (m : Msg) (consumed : Nat) (s : ItSt)
  | skip (s : ItSt)         -- consumed exactly one byte... or zero (see `again`)
  | again (s : ItSt)        -- nothing consumed, loop again (cannot happen twice in a row)
  | stop (s : ItSt)

def tryStorage (s : ItSt) (d : Bytes) : LoopRes :=
  match parseStorage s.index d with
  | .ok (n, m) => .yield m n { s with index := s.index + 1, processed := s.processed + n, detStorage := true }
  | .error .invalid => if s.detStorage then .skip { s with processed := s.processed + 1, skipped := s.skipped + 1 } else .again s
  | .error .notEnough => if s.detStorage then .stop s else .again s   -- a (shorter) serial message might still fit

def trySerial (s : ItSt) (d : Bytes) : LoopRes :=
  match parseSerial s.index d with
  | .ok (n, m) => .yield m n { s with index := s.index + 1, processed := s.processed + n, detSerial := true }
  | .error .invalid => .skip { s with processed := s.processed + 1, skipped := s.skipped + 1 }
  | .error .notEnough => .stop s

/-- all messages of the stream (fuel = length + 1 is always enough; fuel only to keep it structural) -/
def iterAll : Nat → ItSt → Bytes → List Msg × ItSt
  | 0, s, _ => ([], s)
  | fuel + 1, s, d =>
    -- storage attempt
    let r1 : LoopRes := if !s.detSerial then tryStorage s d else .again s
    match r1 with
    | .yield m n s' => let (ms, sf) := iterAll fuel s' (d.drop n); (m :: ms, sf)
    | .stop s' => ([], s')
    | .skip s' => iterAll fuel s' (d.drop 1)       -- storage latched: loop again (serial part skipped)
    | .again s' =>
      if !s'.detStorage then
        match trySerial s' d with
        | .yield m n s'' => let (ms, sf) := iterAll fuel s'' (d.drop n); (m :: ms, sf)
        | .stop s'' => ([], s'')
        | .skip s'' => iterAll fuel s'' (d.drop 1)
        | .again s'' => ([], s'')
      else ([], s')   -- unreachable: detStorage && detSerial never both
end Dp
