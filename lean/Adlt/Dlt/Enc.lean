import Adlt.Dlt.Spec
/-! Lemmas: parsing at the start of an encoded well-formed message, and at a non-marker offset. -/
namespace Dp

theorem size_indep (a b : UInt8) (l1 l2 : Nat) :
    ({ htyp := a, mcnt := b, len := l1 } : StdHdr).size = ({ htyp := a, mcnt := b, len := l2 } : StdHdr).size := rfl

theorem len_bytes (n : Nat) (h : n < 65536) :
    (UInt8.ofNat (n / 256)).toNat * 256 + (UInt8.ofNat (n % 256)).toNat = n := by
  simp; omega

structure WfFacts (serial : Bool) (r : RawMsg) : Prop where
  hsh : r.sh.length = if serial then 0 else 12
  hadd : r.add.length + 4 = r.std.size
  hlen : r.len < 65536

theorem wf_facts (serial : Bool) (r : RawMsg) (h : r.wf serial = true) : WfFacts serial r := by
  simp only [RawMsg.wf, Bool.and_eq_true, beq_iff_eq, decide_eq_true_eq] at h
  refine ⟨?_, h.1.2, h.2⟩
  cases serial <;> simp_all

theorem enc_length_storage (r : RawMsg) (h : WfFacts false r) : (r.enc false).length = 16 + r.len := by
  have h1 : r.sh.length = 12 := by simpa using h.hsh
  simp [RawMsg.enc, RawMsg.len, marker, storagePat, h1]; omega

theorem enc_length_serial (r : RawMsg) (h : WfFacts true r) : (r.enc true).length = 4 + r.len := by
  have h1 : r.sh.length = 0 := by simpa using h.hsh
  simp [RawMsg.enc, RawMsg.len, marker, serialPat, h1]; omega

/-- the corruption heuristic of the storage parser: ≥ 4 bytes follow, they are no marker, and a marker
    occurs at some offset in `[5, toConsume)` -/
def heuristicFires (p : Bytes) (d : Bytes) (toConsume : Nat) : Bool :=
  decide (d.length - toConsume ≥ 4) && !isPat p (d.drop toConsume) && markerInside p d toConsume

/-- storage framing: an encoded well-formed message followed by any `rest` on which the heuristic does
    not fire parses to exactly that message (all header fields, all payload bytes) and consumes exactly its length -/
theorem parseStorage_enc (i : Nat) (r : RawMsg) (hw : r.wf false = true) (rest : Bytes)
    (hh : heuristicFires storagePat (r.enc false ++ rest) (16 + r.len) = false) :
    parseStorage i (r.enc false ++ rest) = .ok (16 + r.len, r.msg false i) := by
  have hf := wf_facts false r hw
  have hl := enc_length_storage r hf
  have hlen := hf.hlen
  have hsh : r.sh.length = 12 := by simpa using hf.hsh
  have hsz : r.std.size = 4 + r.add.length := by have := hf.hadd; omega
  unfold parseStorage
  have h1 : ¬ (r.enc false ++ rest).length < 20 := by simp [hl, RawMsg.len]; omega
  simp only [h1, if_false]
  have h2 : isPat storagePat (r.enc false ++ rest) = true := by
    simp [isPat, RawMsg.enc, marker, storagePat]
  simp only [h2, Bool.not_true, Bool.false_eq_true, if_false]
  have hdrop : (r.enc false ++ rest).drop 16 =
      r.htyp :: r.mcnt :: UInt8.ofNat (r.len / 256) :: UInt8.ofNat (r.len % 256) :: (r.add ++ r.payload ++ rest) := by
    have : r.enc false ++ rest = (storagePat ++ r.sh) ++ ([r.htyp, r.mcnt, UInt8.ofNat (r.len / 256), UInt8.ofNat (r.len % 256)] ++ r.add ++ r.payload ++ rest) := by
      simp [RawMsg.enc, marker]
    rw [this, List.drop_left' (by simp [storagePat, hsh])]
    simp
  rw [hdrop]
  simp only []
  have hlb := len_bytes r.len hlen
  rw [hlb]
  have hsz' : ({ htyp := r.htyp, mcnt := r.mcnt, len := r.len } : StdHdr).size = 4 + r.add.length := hsz
  have hwl : r.len = 4 + r.add.length + r.payload.length := rfl
  simp only [hsz']
  have h3 : ¬ r.len < 4 + r.add.length := by omega
  simp only [h3, if_false]
  have h4 : ¬ (r.enc false ++ rest).length - 16 < r.len := by
    simp only [List.length_append, hl]; omega
  simp only [h4, if_false]
  have h5 : (decide ((r.enc false ++ rest).length - (16 + r.len) ≥ 4) && !isPat storagePat ((r.enc false ++ rest).drop (16 + r.len))
      && markerInside storagePat (r.enc false ++ rest) (16 + r.len)) = false := hh
  simp only [h5, Bool.false_eq_true, if_false]
  -- the message
  have hpay : ((r.enc false ++ rest).drop (16 + (4 + r.add.length))).take (r.len - (4 + r.add.length)) = r.payload := by
    have : r.enc false ++ rest = (storagePat ++ r.sh ++ [r.htyp, r.mcnt, UInt8.ofNat (r.len / 256), UInt8.ofNat (r.len % 256)] ++ r.add) ++ (r.payload ++ rest) := by
      simp [RawMsg.enc, marker]
    rw [this, List.drop_left' (by simp [storagePat, hsh]; omega)]
    have : r.len - (4 + r.add.length) = r.payload.length := by omega
    rw [this]; simp
  have hadd : ((r.enc false ++ rest).drop 20).take (4 + r.add.length - 4) = r.add := by
    have : r.enc false ++ rest = (storagePat ++ r.sh ++ [r.htyp, r.mcnt, UInt8.ofNat (r.len / 256), UInt8.ofNat (r.len % 256)]) ++ (r.add ++ (r.payload ++ rest)) := by
      simp [RawMsg.enc, marker]
    rw [this, List.drop_left' (by simp [storagePat, hsh])]
    have : 4 + r.add.length - 4 = r.add.length := by omega
    rw [this]; simp
  have hshp : ∀ k n, k + n ≤ 12 → ((r.enc false ++ rest).drop (4 + k)).take n = (r.sh.drop k).take n := by
    intro k n hkn
    have : r.enc false ++ rest = storagePat ++ (r.sh ++ ([r.htyp, r.mcnt, UInt8.ofNat (r.len / 256), UInt8.ofNat (r.len % 256)] ++ r.add ++ r.payload ++ rest)) := by
      simp [RawMsg.enc, marker]
    rw [this]
    have h4 : storagePat.length = 4 := rfl
    rw [show 4 + k = storagePat.length + k by rw [h4], ← List.drop_drop, List.drop_left, List.drop_append_of_le_length (by omega),
      List.take_append_of_le_length (by simp; omega)]
  have e1 := hshp 0 4 (by omega)
  have e2 := hshp 4 4 (by omega)
  have e3 := hshp 8 4 (by omega)
  simp only [Nat.add_zero, List.drop_zero] at e1
  simp only [hpay, hadd, e1, show (8:Nat) = 4 + 4 from rfl, show (12:Nat) = 4 + 8 from rfl, e2, e3]
  have e4 : (r.sh.drop 8).take 4 = r.sh.drop 8 := by
    apply List.take_of_length_le; simp [hsh]
  simp [RawMsg.msg, RawMsg.std, e4]


/-- serial framing: same statement -/
theorem parseSerial_enc (i : Nat) (r : RawMsg) (hw : r.wf true = true) (rest : Bytes)
    (hh : heuristicFires serialPat (r.enc true ++ rest) (4 + r.len) = false) :
    parseSerial i (r.enc true ++ rest) = .ok (4 + r.len, r.msg true i) := by
  have hf := wf_facts true r hw
  have hl := enc_length_serial r hf
  have hlen := hf.hlen
  have hsh : r.sh.length = 0 := by simpa using hf.hsh
  have hshnil : r.sh = [] := List.eq_nil_of_length_eq_zero hsh
  have hsz : r.std.size = 4 + r.add.length := by have := hf.hadd; omega
  unfold parseSerial
  have h1 : ¬ (r.enc true ++ rest).length < 8 := by simp [hl, RawMsg.len]; omega
  simp only [h1, if_false]
  have h2 : isPat serialPat (r.enc true ++ rest) = true := by
    simp [isPat, RawMsg.enc, marker, serialPat]
  simp only [h2, Bool.not_true, Bool.false_eq_true, if_false]
  have hdrop : (r.enc true ++ rest).drop 4 =
      r.htyp :: r.mcnt :: UInt8.ofNat (r.len / 256) :: UInt8.ofNat (r.len % 256) :: (r.add ++ r.payload ++ rest) := by
    have : r.enc true ++ rest = serialPat ++ ([r.htyp, r.mcnt, UInt8.ofNat (r.len / 256), UInt8.ofNat (r.len % 256)] ++ r.add ++ r.payload ++ rest) := by
      simp [RawMsg.enc, marker, hshnil]
    rw [this, List.drop_left' (by simp [serialPat])]
    simp
  rw [hdrop]
  simp only []
  have hlb := len_bytes r.len hlen
  rw [hlb]
  have hsz' : ({ htyp := r.htyp, mcnt := r.mcnt, len := r.len } : StdHdr).size = 4 + r.add.length := hsz
  have hwl : r.len = 4 + r.add.length + r.payload.length := rfl
  simp only [hsz']
  have h3 : ¬ r.len < 4 + r.add.length := by omega
  simp only [h3, if_false]
  have h4 : ¬ (r.enc true ++ rest).length - 4 < r.len := by
    simp only [List.length_append, hl]; omega
  simp only [h4, if_false]
  have h5 : (decide ((r.enc true ++ rest).length - (4 + r.len) ≥ 4) && !isPat serialPat ((r.enc true ++ rest).drop (4 + r.len))
      && markerInside serialPat (r.enc true ++ rest) (4 + r.len)) = false := hh
  simp only [h5, Bool.false_eq_true, if_false]
  have hpay : ((r.enc true ++ rest).drop (4 + (4 + r.add.length))).take (r.len - (4 + r.add.length)) = r.payload := by
    have : r.enc true ++ rest = (serialPat ++ [r.htyp, r.mcnt, UInt8.ofNat (r.len / 256), UInt8.ofNat (r.len % 256)] ++ r.add) ++ (r.payload ++ rest) := by
      simp [RawMsg.enc, marker, hshnil]
    rw [this, List.drop_left' (by simp [serialPat]; omega)]
    have : r.len - (4 + r.add.length) = r.payload.length := by omega
    rw [this]; simp
  have hadd : ((r.enc true ++ rest).drop 8).take (4 + r.add.length - 4) = r.add := by
    have : r.enc true ++ rest = (serialPat ++ [r.htyp, r.mcnt, UInt8.ofNat (r.len / 256), UInt8.ofNat (r.len % 256)]) ++ (r.add ++ (r.payload ++ rest)) := by
      simp [RawMsg.enc, marker, hshnil]
    rw [this, List.drop_left' (by simp [serialPat])]
    have : 4 + r.add.length - 4 = r.add.length := by omega
    rw [this]; simp
  simp only [hpay, hadd]
  simp [RawMsg.msg, RawMsg.std]

/-- at an offset that does not start with the storage marker (and with ≥ 20 bytes left) the storage parser reports invalid data -/
theorem parseStorage_garbage (i : Nat) (d : Bytes) (hlen : 20 ≤ d.length) (hp : isPat storagePat d = false) :
    parseStorage i d = .error .invalid := by
  unfold parseStorage
  have : ¬ d.length < 20 := by omega
  simp [this, hp]

theorem parseSerial_garbage (i : Nat) (d : Bytes) (hlen : 8 ≤ d.length) (hp : isPat serialPat d = false) :
    parseSerial i d = .error .invalid := by
  unfold parseSerial
  have : ¬ d.length < 8 := by omega
  simp [this, hp]

end Dp
