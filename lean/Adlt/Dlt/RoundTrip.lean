import Adlt.Dlt.Enc
/-! C02: `toWrite` of a message in the range of the parser emits the encoding of a well-formed raw message (the *normal
    form*: version 1, no ECU id / session id in the standard header, length recomputed), whose parse gives back every
    field the property names; writing the re-read message reproduces the bytes. -/
namespace Dp

/-- a message as the parsers produce them (plus the property's range: sub-second microseconds) -/
structure InRange (m : Msg) : Prop where
  ecu4 : m.ecu.length = 4
  ext10 : ∀ e, m.ext = some e → e.length = 10
  ts32 : m.tsDms < 4294967296
  noTs : m.std.hasTs = false → m.tsDms = 0
  secs32 : m.recvUs / 1000000 < 4294967296
  fits : writeLen m < 65536

/-- the raw message `toWrite` emits -/
def rawOf (m : Msg) : RawMsg :=
  { sh := le32Bytes (m.recvUs / 1000000 % 4294967296) ++ le32Bytes (m.recvUs % 1000000) ++ m.ecu,
    htyp := writeHtyp m, mcnt := m.std.mcnt,
    add := (if m.std.hasTs then be32Bytes m.tsDms else []) ++ (m.ext.getD []),
    payload := m.payload }

theorem le32Bytes_length (n : Nat) : (le32Bytes n).length = 4 := rfl
theorem be32Bytes_length (n : Nat) : (be32Bytes n).length = 4 := by simp [be32Bytes, le32Bytes]

theorem toNat_ofNat_mod (n : Nat) : (UInt8.ofNat (n % 256)).toNat = n % 256 := by
  simp [UInt8.toNat_ofNat']

theorem be32_be32Bytes (n : Nat) (h : n < 4294967296) : be32 (be32Bytes n) = n := by
  simp only [be32Bytes, le32Bytes, List.reverse_cons, List.reverse_nil, List.nil_append, List.cons_append, be32, toNat_ofNat_mod]
  omega

theorem le32_le32Bytes (n : Nat) (h : n < 4294967296) : le32 (le32Bytes n) = n := by
  simp only [le32, le32Bytes, List.reverse_cons, List.reverse_nil, List.nil_append, List.cons_append, be32, toNat_ofNat_mod]
  omega

/-- the flags of the rewritten htyp -/
theorem writeHtyp_flags (m : Msg) :
    ({ htyp := writeHtyp m, mcnt := m.std.mcnt, len := 0 } : StdHdr).hasExt = m.ext.isSome ∧
    ({ htyp := writeHtyp m, mcnt := m.std.mcnt, len := 0 } : StdHdr).bigEndian = m.std.bigEndian ∧
    ({ htyp := writeHtyp m, mcnt := m.std.mcnt, len := 0 } : StdHdr).hasEcu = false ∧
    ({ htyp := writeHtyp m, mcnt := m.std.mcnt, len := 0 } : StdHdr).hasSid = false ∧
    ({ htyp := writeHtyp m, mcnt := m.std.mcnt, len := 0 } : StdHdr).hasTs = m.std.hasTs := by
  unfold writeHtyp
  generalize m.std.bigEndian = be
  generalize m.std.hasTs = ts
  generalize m.ext.isSome = ex
  cases be <;> cases ts <;> cases ex <;>
    (refine ⟨?_, ?_, ?_, ?_, ?_⟩ <;> simp only [StdHdr.hasExt, StdHdr.bigEndian, StdHdr.hasEcu, StdHdr.hasSid, StdHdr.hasTs] <;> decide)

theorem flags_len (h : UInt8) (c : UInt8) (l : Nat) :
    ({ htyp := h, mcnt := c, len := l } : StdHdr).hasExt = ({ htyp := h, mcnt := c, len := 0 } : StdHdr).hasExt ∧
    ({ htyp := h, mcnt := c, len := l } : StdHdr).bigEndian = ({ htyp := h, mcnt := c, len := 0 } : StdHdr).bigEndian ∧
    ({ htyp := h, mcnt := c, len := l } : StdHdr).hasEcu = ({ htyp := h, mcnt := c, len := 0 } : StdHdr).hasEcu ∧
    ({ htyp := h, mcnt := c, len := l } : StdHdr).hasSid = ({ htyp := h, mcnt := c, len := 0 } : StdHdr).hasSid ∧
    ({ htyp := h, mcnt := c, len := l } : StdHdr).hasTs = ({ htyp := h, mcnt := c, len := 0 } : StdHdr).hasTs :=
  ⟨rfl, rfl, rfl, rfl, rfl⟩

/-- the flags of the standard header of the raw message `toWrite` emits -/
theorem rawOf_std_flags (m : Msg) :
    (rawOf m).std.hasExt = m.ext.isSome ∧ (rawOf m).std.bigEndian = m.std.bigEndian ∧ (rawOf m).std.hasEcu = false ∧
    (rawOf m).std.hasSid = false ∧ (rawOf m).std.hasTs = m.std.hasTs := by
  have f := writeHtyp_flags m
  have g := flags_len (writeHtyp m) m.std.mcnt (rawOf m).len
  unfold RawMsg.std
  show ({ htyp := writeHtyp m, mcnt := m.std.mcnt, len := (rawOf m).len } : StdHdr).hasExt = _ ∧ _
  exact ⟨g.1.trans f.1, g.2.1.trans f.2.1, g.2.2.1.trans f.2.2.1, g.2.2.2.1.trans f.2.2.2.1, g.2.2.2.2.trans f.2.2.2.2⟩

theorem ext_len (m : Msg) (h : InRange m) : (m.ext.getD []).length = if m.ext.isSome then 10 else 0 := by
  cases he : m.ext with
  | none => simp
  | some e => simp [h.ext10 e he]

theorem rawOf_add_len (m : Msg) (h : InRange m) :
    (rawOf m).add.length = (if m.std.hasTs then 4 else 0) + (if m.ext.isSome then 10 else 0) := by
  simp only [rawOf, List.length_append, ext_len m h]
  cases m.std.hasTs <;> simp [be32Bytes_length]

theorem rawOf_len (m : Msg) (h : InRange m) : (rawOf m).len = writeLen m := by
  unfold RawMsg.len writeLen
  rw [rawOf_add_len m h]
  simp only [rawOf]; omega

theorem rawOf_wf (m : Msg) (h : InRange m) : (rawOf m).wf false = true := by
  obtain ⟨f1, _, f3, f4, f5⟩ := rawOf_std_flags m
  simp only [RawMsg.wf, Bool.false_eq_true, if_false, Bool.and_eq_true, beq_iff_eq, decide_eq_true_eq]
  refine ⟨⟨?_, ?_⟩, ?_⟩
  · simp [rawOf, le32Bytes_length, h.ecu4]
  · unfold StdHdr.size
    rw [f1, f3, f4, f5, rawOf_add_len m h]
    simp; omega
  · rw [rawOf_len m h]; exact h.fits

/-- `to_write` emits exactly the encoding of that raw message -/
theorem toWrite_eq_enc (m : Msg) (h : InRange m) : toWrite m = some ((rawOf m).enc false) := by
  have hf : ¬ writeLen m ≥ 65536 := by have := h.fits; omega
  unfold toWrite
  simp only [hf, if_false]
  unfold RawMsg.enc marker
  simp only [Bool.false_eq_true, if_false, rawOf_len m h]
  simp [rawOf, List.append_assoc]

/-- what re-reading the written bytes yields, field by field -/
theorem rawOf_msg_fields (m : Msg) (h : InRange m) (i : Nat) :
    ((rawOf m).msg false i).ecu = m.ecu ∧ ((rawOf m).msg false i).recvUs = m.recvUs ∧
    ((rawOf m).msg false i).tsDms = m.tsDms ∧ ((rawOf m).msg false i).std.hasTs = m.std.hasTs ∧
    ((rawOf m).msg false i).std.mcnt = m.std.mcnt ∧ ((rawOf m).msg false i).std.bigEndian = m.std.bigEndian ∧
    ((rawOf m).msg false i).ext = m.ext ∧ ((rawOf m).msg false i).payload = m.payload ∧ ((rawOf m).msg false i).index = i := by
  obtain ⟨f1, f2, f3, f4, f5⟩ := rawOf_std_flags m
  have hsh : (rawOf m).sh = le32Bytes (m.recvUs / 1000000 % 4294967296) ++ (le32Bytes (m.recvUs % 1000000) ++ m.ecu) := by
    simp [rawOf, List.append_assoc]
  have t4 : (rawOf m).sh.take 4 = le32Bytes (m.recvUs / 1000000 % 4294967296) := by
    rw [hsh]; exact List.take_left' (le32Bytes_length _)
  have d4 : (rawOf m).sh.drop 4 = le32Bytes (m.recvUs % 1000000) ++ m.ecu := by
    rw [hsh]; exact List.drop_left' (le32Bytes_length _)
  have t8 : ((rawOf m).sh.drop 4).take 4 = le32Bytes (m.recvUs % 1000000) := by
    rw [d4]; exact List.take_left' (le32Bytes_length _)
  have d8 : (rawOf m).sh.drop 8 = m.ecu := by
    have : (rawOf m).sh.drop 8 = ((rawOf m).sh.drop 4).drop 4 := by simp
    rw [this, d4]; exact List.drop_left' (le32Bytes_length _)
  have hsecs : m.recvUs / 1000000 % 4294967296 = m.recvUs / 1000000 := Nat.mod_eq_of_lt h.secs32
  refine ⟨?_, ?_, ?_, ?_, ?_, ?_, ?_, ?_, ?_⟩
  · simp only [RawMsg.msg, Bool.false_eq_true, if_false, fromHeaders, f3, d8]
  · simp only [RawMsg.msg, Bool.false_eq_true, if_false, fromHeaders, t4, t8]
    rw [le32_le32Bytes _ (by omega), le32_le32Bytes _ (by omega), hsecs]
    exact Nat.div_add_mod' m.recvUs 1000000
  · simp only [RawMsg.msg, Bool.false_eq_true, if_false, fromHeaders, f3, f4, f5]
    cases hts : m.std.hasTs with
    | false => simp [h.noTs hts]
    | true =>
      simp only [if_true]
      have : ((rawOf m).add.drop 0).take 4 = be32Bytes m.tsDms := by
        simp only [rawOf, hts, if_true, List.drop_zero]
        exact List.take_left' (be32Bytes_length _)
      simp only [Nat.add_zero] at *
      rw [this, be32_be32Bytes _ h.ts32]
  · simp only [RawMsg.msg, Bool.false_eq_true, if_false, fromHeaders]; exact f5
  · simp only [RawMsg.msg, Bool.false_eq_true, if_false, fromHeaders]; rfl
  · simp only [RawMsg.msg, Bool.false_eq_true, if_false, fromHeaders]; exact f2
  · simp only [RawMsg.msg, Bool.false_eq_true, if_false, fromHeaders, f1]
    cases he : m.ext with
    | none => simp
    | some e =>
      simp only [Option.isSome_some, if_true, Option.some.injEq]
      have he10 := h.ext10 e he
      simp only [rawOf, he, Option.getD_some]
      have : ((if m.std.hasTs = true then be32Bytes m.tsDms else []) ++ e).length - 10 = (if m.std.hasTs = true then be32Bytes m.tsDms else []).length := by
        simp [he10]
      rw [this]
      exact List.drop_left' rfl
  · simp only [RawMsg.msg, Bool.false_eq_true, if_false, fromHeaders]; rfl
  · simp only [RawMsg.msg, Bool.false_eq_true, if_false, fromHeaders]

/-- `to_write` looks only at these fields -/
theorem toWrite_congr (a b : Msg) (h1 : a.recvUs = b.recvUs) (h2 : a.ecu = b.ecu) (h3 : a.tsDms = b.tsDms)
    (h4 : a.std.hasTs = b.std.hasTs) (h5 : a.std.mcnt = b.std.mcnt) (h6 : a.std.bigEndian = b.std.bigEndian)
    (h7 : a.ext = b.ext) (h8 : a.payload = b.payload) : toWrite a = toWrite b := by
  unfold toWrite writeLen writeHtyp
  rw [h1, h2, h3, h4, h5, h6, h7, h8]

/-- the re-read message is in the range again -/
theorem rawOf_msg_inRange (m : Msg) (h : InRange m) (i : Nat) : InRange ((rawOf m).msg false i) := by
  obtain ⟨e1, e2, e3, e4, _, _, e7, e8, _⟩ := rawOf_msg_fields m h i
  refine ⟨by rw [e1]; exact h.ecu4, by rw [e7]; exact h.ext10, by rw [e3]; exact h.ts32, ?_, by rw [e2]; exact h.secs32, ?_⟩
  · intro hn; rw [e3]; apply h.noTs; rw [← e4]; exact hn
  · unfold writeLen; rw [e4, e7, e8]; exact h.fits

/-- C02 on the model: for every message in the range of the parser (4-byte ECU, 10-byte extended header if any, 32-bit
    timestamp / seconds, sub-second microseconds are implied by `recvUs`, length fits 16 bits): `to_write` succeeds; parsing
    what was written (followed by anything on which the corruption heuristic does not fire - in particular nothing) consumes
    exactly the bytes written and gives back ECU, reception time, timestamp and its presence, counter, byte order, extended
    header and payload; and writing the re-read message again produces the same bytes (normal form) -/
theorem roundtrip (m : Msg) (h : InRange m) (i : Nat) (rest : Bytes)
    (hh : ∀ w, toWrite m = some w → heuristicFires storagePat (w ++ rest) w.length = false) :
    ∃ w m', toWrite m = some w ∧ parseStorage i (w ++ rest) = .ok (w.length, m') ∧
      m'.ecu = m.ecu ∧ m'.recvUs = m.recvUs ∧ m'.tsDms = m.tsDms ∧ m'.std.hasTs = m.std.hasTs ∧ m'.std.mcnt = m.std.mcnt ∧
      m'.std.bigEndian = m.std.bigEndian ∧ m'.ext = m.ext ∧ m'.payload = m.payload ∧ m'.index = i ∧ toWrite m' = some w := by
  have hw := toWrite_eq_enc m h
  have hwf := rawOf_wf m h
  have hlen := enc_length_storage (rawOf m) (wf_facts false _ hwf)
  have hp := parseStorage_enc i (rawOf m) hwf rest (by rw [← hlen]; exact hh _ hw)
  obtain ⟨e1, e2, e3, e4, e5, e6, e7, e8, e9⟩ := rawOf_msg_fields m h i
  refine ⟨(rawOf m).enc false, (rawOf m).msg false i, hw, ?_, e1, e2, e3, e4, e5, e6, e7, e8, e9, ?_⟩
  · rw [hlen]; exact hp
  · rw [toWrite_congr _ m e2 e1 e3 e4 e5 e6 e7 e8]; exact hw

theorem heuristic_nil (w : Bytes) : heuristicFires storagePat (w ++ []) w.length = false := by
  simp [heuristicFires]

end Dp

namespace Dp

theorem be32_lt (b : Bytes) : be32 b < 4294967296 := by
  unfold be32
  split
  · rename_i a b c d
    have := a.toNat_lt; have := b.toNat_lt; have := c.toNat_lt; have := d.toNat_lt
    omega
  · omega

theorem le32_lt (b : Bytes) : le32 b < 4294967296 := be32_lt _

theorem fromHeaders_inRange (i secs micros : Nat) (shEcu : Bytes) (H : StdHdr) (add payload : Bytes) (L : Nat)
    (hs : secs < 4294967296) (hm : micros < 1000000) (hE : shEcu.length = 4) (hadd : add.length = H.size - 4)
    (hpl : payload.length = L - H.size) (hL : H.size ≤ L) (hL2 : L < 65536) :
    InRange (fromHeaders i secs micros shEcu H add payload) := by
  have hsz2 : H.size = 4 + (if H.hasEcu then 4 else 0) + (if H.hasSid then 4 else 0) + (if H.hasTs then 4 else 0) + (if H.hasExt then 10 else 0) := rfl
  refine ⟨?_, ?_, ?_, ?_, ?_, ?_⟩
  · simp only [fromHeaders]
    split
    · rename_i he
      simp only [List.length_take, hadd]
      simp [he] at hsz2; omega
    · exact hE
  · intro e he
    simp only [fromHeaders] at he
    split at he
    · rename_i hx
      simp only [Option.some.injEq] at he
      subst he
      simp only [List.length_drop, hadd]
      simp [hx] at hsz2; omega
    · cases he
  · simp only [fromHeaders]
    split
    · exact be32_lt _
    · omega
  · intro hn
    simp only [fromHeaders] at hn ⊢
    simp [hn]
  · simp only [fromHeaders]; omega
  · simp only [writeLen, fromHeaders, hpl]
    rcases Bool.eq_false_or_eq_true H.hasTs with h1 | h1 <;> rcases Bool.eq_false_or_eq_true H.hasExt with h2 | h2 <;>
      rcases Bool.eq_false_or_eq_true H.hasEcu with h3 | h3 <;> rcases Bool.eq_false_or_eq_true H.hasSid with h4 | h4 <;>
      simp [h1, h2, h3, h4] at hsz2 ⊢ <;> omega

/-- every message the storage parser yields, from a storage header with sub-second microseconds, is in the range of
    `roundtrip` -/
theorem parse_inRange (i : Nat) (d : Bytes) (n : Nat) (m : Msg) (h : parseStorage i d = .ok (n, m))
    (hmic : le32 ((d.drop 8).take 4) < 1000000) : InRange m := by
  unfold parseStorage at h
  split at h
  · cases h
  · rename_i hlen
    split at h
    · cases h
    · split at h
      · rename_i htyp mcnt l1 l2 rest hd
        dsimp only at h
        split at h
        · cases h
        · rename_i hsz
          split at h
          · cases h
          · rename_i hrem
            split at h
            · cases h
            · simp only [Except.ok.injEq, Prod.mk.injEq] at h
              obtain ⟨_, hm⟩ := h
              subst hm
              have hl2' : l1.toNat * 256 + l2.toNat < 65536 := by
                have := l1.toNat_lt; have := l2.toNat_lt; omega
              apply fromHeaders_inRange (L := l1.toNat * 256 + l2.toNat)
              · exact le32_lt _
              · exact hmic
              · simp only [List.length_take, List.length_drop]; omega
              · simp only [List.length_take, List.length_drop]; omega
              · simp only [List.length_take, List.length_drop]; omega
              · omega
              · exact hl2'
      · cases h

end Dp
