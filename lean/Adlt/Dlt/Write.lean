import Adlt.Dlt.Parse
/-! Model of `DltMessage::to_write` = `DltStorageHeader::from_msg/to_write` + `DltStandardHeader::to_write`
    (ecu and session id are never written into the standard header; htyp and len are recomputed). -/
namespace Dp

def le32Bytes (n : Nat) : Bytes :=
  [UInt8.ofNat (n % 256), UInt8.ofNat (n / 256 % 256), UInt8.ofNat (n / 65536 % 256), UInt8.ofNat (n / 16777216 % 256)]
def be32Bytes (n : Nat) : Bytes := (le32Bytes n).reverse

/-- rewritten htyp: version 1, endianness kept, timestamp/ext flags as present -/
def writeHtyp (m : Msg) : UInt8 :=
  UInt8.ofNat (32 + (if m.std.bigEndian then 2 else 0) + (if m.std.hasTs then 16 else 0) + (if m.ext.isSome then 1 else 0))

def writeLen (m : Msg) : Nat :=
  4 + (if m.std.hasTs then 4 else 0) + (if m.ext.isSome then 10 else 0) + m.payload.length

/-- `none` = arithmetic overflow of the `u16` length (a panic in debug builds, a wrong length otherwise) -/
def toWrite (m : Msg) : Option Bytes :=
  if writeLen m ≥ 65536 then none else
  some (storagePat ++ le32Bytes (m.recvUs / 1000000 % 4294967296) ++ le32Bytes (m.recvUs % 1000000) ++ m.ecu ++
    [writeHtyp m, m.std.mcnt, UInt8.ofNat (writeLen m / 256), UInt8.ofNat (writeLen m % 256)] ++
    (if m.std.hasTs then be32Bytes m.tsDms else []) ++ (m.ext.getD []) ++ m.payload)

end Dp
