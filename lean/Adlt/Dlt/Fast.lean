import Adlt.Dlt.Parse
/-! (the `@[csimp]` replacements live in Parse.lean, before their first use) -/
