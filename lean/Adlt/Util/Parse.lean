/-! Line-protocol helpers shared by all drivers (glue only; nothing here is part of a model). -/
namespace Util

def splitOn (s : String) (sep : String) : List String := (s.splitOn sep)

def fields (s : String) (sep : String) : List String := (s.splitOn sep).filter (· != "")

def nat! (s : String) : Nat := s.trimAscii.toString.toNat?.getD 0

def nats (s : String) (sep : String) : List Nat := (fields s sep).map nat!

def int! (s : String) : Int :=
  let t := s.trimAscii.toString
  if t.startsWith "-" then - (Int.ofNat (nat! (t.drop 1).toString)) else Int.ofNat (nat! t)

def hexDigit (c : Char) : Nat :=
  if '0' ≤ c ∧ c ≤ '9' then c.toNat - '0'.toNat
  else if 'a' ≤ c ∧ c ≤ 'f' then c.toNat - 'a'.toNat + 10
  else if 'A' ≤ c ∧ c ≤ 'F' then c.toNat - 'A'.toNat + 10 else 0

/-- "0a ff" / "0aff" -> bytes -/
def hexBytes (s : String) : List UInt8 :=
  let cs := s.toList.filter (fun c => c != ' ')
  let rec go : List Char → List UInt8
    | a :: b :: t => UInt8.ofNat (hexDigit a * 16 + hexDigit b) :: go t
    | _ => []
  go cs

def hexOf (bs : List UInt8) : String :=
  let d (n : Nat) : Char := if n < 10 then Char.ofNat (48 + n) else Char.ofNat (87 + n)
  String.ofList (bs.flatMap fun b => [d (b.toNat / 16), d (b.toNat % 16)])

def b2s (b : Bool) : String := if b then "1" else "0"

/-- canonical renumbering of ids by first appearance (1-based); unknown ids map to 0 -/
def canonIdx (ids : List Nat) (id : Nat) : Nat :=
  match ids.idxOf? id with
  | some k => k + 1
  | none => 0

def firstSeen (xs : List Nat) : List Nat :=
  xs.foldl (fun acc x => if acc.contains x then acc else acc ++ [x]) []

partial def loop (h : IO.FS.Stream) (f : String → String) : IO Unit := do
  let line ← h.getLine
  if line.isEmpty then return ()
  IO.println (f (line.dropEndWhile (fun c => c == '\n' || c == '\r')).toString)
  loop h f

end Util
