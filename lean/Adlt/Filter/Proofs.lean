import Adlt.Filter.Model
/-! C11: the sequential matcher equals the conjunction of the criteria; C12: set semantics. -/
namespace Flt

/-- `Filter::matches` decides exactly: enabled ∧ (all specified criteria hold ≠ negated) — for every filter, every
    message and every regular-expression engine -/
theorem matchesImpl_eq_spec (re : Re) (f : Filter) (m : MsgView) : matchesImpl re f m = Spec.decides re f m := by
  unfold matchesImpl Spec.decides Spec.conj
  cases he : f.enabled with
  | false => simp
  | true =>
    simp only [Bool.not_true, Bool.false_eq_true, if_false, Bool.true_and]
    -- each early return corresponds to one false conjunct
    have e1 : ecuFails re f m = !Spec.ecuOk re f m := by
      unfold ecuFails Spec.ecuOk; cases f.ecu <;> simp
    have e2 : apidFails re f m = !Spec.apidOk re f m := by
      unfold apidFails Spec.apidOk; cases f.apid <;> cases m.ext <;> simp
    have e3 : ctidFails re f m = !Spec.ctidOk re f m := by
      unfold ctidFails Spec.ctidOk; cases f.ctid <;> cases m.ext <;> simp
    have e4 : typeFails f m = !Spec.typeOk f m := by
      unfold typeFails Spec.typeOk; cases f.vmm <;> cases m.ext <;> simp [bne]
    have e5 : lvlMinFails f m = !Spec.lvlMinOk f m := by
      unfold lvlMinFails Spec.lvlMinOk; cases f.lvlMin <;> cases m.ext <;> simp
    have e6 : lvlMaxFails f m = !Spec.lvlMaxOk f m := by
      unfold lvlMaxFails Spec.lvlMaxOk; cases f.lvlMax <;> cases m.ext <;> simp
    have e7 : payloadFails re f m = !Spec.payloadOk re f m := by
      unfold payloadFails Spec.payloadOk; cases f.payloadRegex <;> cases f.payload <;> cases f.payloadCi <;> simp
    have e8 : lcFails f m = !Spec.lcOk f m := by
      unfold lcFails Spec.lcOk; cases f.lifecycles <;> simp
    rw [e1, e2, e3, e4, e5, e6, e7, e8]
    cases Spec.ecuOk re f m <;> cases Spec.apidOk re f m <;> cases Spec.ctidOk re f m <;> cases Spec.typeOk f m <;>
      cases Spec.lvlMinOk f m <;> cases Spec.lvlMaxOk f m <;> cases Spec.payloadOk re f m <;> cases Spec.lcOk f m <;>
      cases f.negate <;> rfl

/-- application id, context id, type and level criteria never hold for a message without extended header -/
theorem noext_criteria_false (re : Re) (f : Filter) (m : MsgView) (hm : m.ext = none)
    (hc : f.apid.isSome ∨ f.ctid.isSome ∨ f.vmm.isSome ∨ f.lvlMin.isSome ∨ f.lvlMax.isSome) :
    Spec.conj re f m = false := by
  unfold Spec.conj Spec.apidOk Spec.ctidOk Spec.typeOk Spec.lvlMinOk Spec.lvlMaxOk
  rcases hc with h | h | h | h | h
  · cases ha : f.apid with
    | none => simp [ha] at h
    | some c => simp [hm]
  · cases ha : f.ctid with
    | none => simp [ha] at h
    | some c => simp [hm]
  · cases ha : f.vmm with
    | none => simp [ha] at h
    | some c => simp [hm]
  · cases ha : f.lvlMin with
    | none => simp [ha] at h
    | some c => simp [hm]
  · cases ha : f.lvlMax with
    | none => simp [ha] at h
    | some c => simp [hm]

/-! ### C12 -/

theorem filterAsStreams_spec (mt : Filter → MsgView → Bool) (fs : List Filter) (ms : List MsgView) :
    (filterAsStreams mt fs ms).1 = ms.filter (Spec.keepStream mt fs) ∧
    (filterAsStreams mt fs ms).2.1 + (filterAsStreams mt fs ms).2.2 = ms.length := by
  unfold filterAsStreams
  simp only []
  have hk : (fun m =>
      (if (if (!(fs.filter fun f => f.enabled && f.kind == Kind.positive).isEmpty) = true
            then (fs.filter fun f => f.enabled && f.kind == Kind.positive).any (fun f => mt f m) else true) = true ∧
          (!(fs.filter fun f => f.enabled && f.kind == Kind.negative).isEmpty) = true
        then !(fs.filter fun f => f.enabled && f.kind == Kind.negative).any (fun f => mt f m)
        else (if (!(fs.filter fun f => f.enabled && f.kind == Kind.positive).isEmpty) = true
            then (fs.filter fun f => f.enabled && f.kind == Kind.positive).any (fun f => mt f m) else true)))
      = Spec.keepStream mt fs := by
    funext m
    unfold Spec.keepStream
    simp only []
    generalize (fs.filter fun f => f.enabled && f.kind == Kind.positive) = pos
    generalize (fs.filter fun f => f.enabled && f.kind == Kind.negative) = neg
    cases hp : pos.isEmpty <;> cases hn : neg.isEmpty <;> cases pos.any (fun f => mt f m) <;>
      cases hna : neg.any (fun f => mt f m) <;> simp_all
  constructor
  · simp only [Bool.and_eq_true] at hk ⊢
    rw [← hk]
  · have := List.length_filter_le (fun m =>
      (if (if (!(fs.filter fun f => f.enabled && f.kind == Kind.positive).isEmpty) = true
            then (fs.filter fun f => f.enabled && f.kind == Kind.positive).any (fun f => mt f m) else true) = true ∧
          (!(fs.filter fun f => f.enabled && f.kind == Kind.negative).isEmpty) = true
        then !(fs.filter fun f => f.enabled && f.kind == Kind.negative).any (fun f => mt f m)
        else (if (!(fs.filter fun f => f.enabled && f.kind == Kind.positive).isEmpty) = true
            then (fs.filter fun f => f.enabled && f.kind == Kind.positive).any (fun f => mt f m) else true))) ms
    simp only [Bool.and_eq_true] at this ⊢
    omega

theorem filter_filter_enabled (fs : List Filter) (k : Kind) :
    (keepEnabled fs).filter (·.kind == k) = fs.filter fun f => f.enabled && f.kind == k := by
  unfold keepEnabled
  rw [List.filter_filter]
  congr 1
  funext f
  cases f.enabled <;> simp

theorem matchFilters_spec (mt : Filter → MsgView → Bool) (fs : List Filter) (m : MsgView) :
    matchFilters mt (keepEnabled fs) m = Spec.keepSet mt fs m := by
  unfold matchFilters Spec.keepSet
  simp only [filter_filter_enabled]
  generalize (fs.filter fun f => f.enabled && f.kind == Kind.positive) = pos
  generalize (fs.filter fun f => f.enabled && f.kind == Kind.negative) = neg
  generalize (fs.filter fun f => f.enabled && f.kind == Kind.event) = ev
  cases pos.isEmpty <;> cases pos.any (fun f => mt f m) <;> cases neg.any (fun f => mt f m) <;>
    cases ev.isEmpty <;> cases ev.any (fun f => mt f m) <;> rfl

/-- without event filters both implementations agree -/
theorem stream_set_agree (mt : Filter → MsgView → Bool) (fs : List Filter) (m : MsgView)
    (hev : (fs.filter fun f => f.enabled && f.kind == Kind.event) = []) :
    Spec.keepSet mt fs m = Spec.keepStream mt fs m := by
  unfold Spec.keepSet Spec.keepStream
  simp [hev]

end Flt
