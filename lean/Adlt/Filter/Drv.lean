import Adlt.Filter.Front
import Adlt.Util.Parse
/-! glue for filters (C11, C12).
    case: `<filter>;<filter>… | <msg>;<msg>… | <regex table>`
      filter: `t=0,en=1,not=0,ecu=<hex>,ecure=<0|1|->,apid=…,apidre=…,ctid=…,ctidre=…,vmm=<n>,mstp=<n>,pl=<hex>,plre=<hex>,ic=<0|1>,lmin=<n>,lmax=<n>,lcs=<a+b>`
      msg: `<ecuhex>,<ext 0|1>,<apidhex>,<ctidhex>,<vmm>,<lc>,<texthex>`
      regex table: `I<pathex>:<hayhex>:<0|1>` (ids) `T<pathex>:<hayhex>:<0|1>` (payload text) `B<pathex>` (pattern does not compile)
    obs: `J<i>:<bits>` `D<i>:<bits>` `R<i>:<bits>` `L<i>:<bits>` (filter i loaded from JSON / DLF / JSON round trip / dlt-convert list, one bit per message; `E` = load error,
         `-` = not expressible) … `S:<kept>:<passed>:<filtered>` `M:<bits>` -/
namespace Flt
open Util

def strOfHex (h : String) : String := String.ofList ((hexBytes h).map fun b => Char.ofNat b.toNat)

def parseKV (s : String) : List (String × String) :=
  (fields s ",").filterMap fun kv => match kv.splitOn "=" with | [k, v] => some (k, v) | _ => none

def parseAFilter (s : String) : AFilter :=
  let kv := parseKV s
  let get (k : String) : Option String := (kv.find? (·.1 == k)).map (·.2)
  let flag (k : String) : Option Bool := match get k with | some "0" => some false | some "1" => some true | _ => none
  { kind := (get "t").map nat! |>.getD 0, enabled := (get "en") != some "0", negate := (get "not") == some "1",
    ecu := (get "ecu").map strOfHex, ecuRe := flag "ecure", apid := (get "apid").map strOfHex, apidRe := flag "apidre",
    ctid := (get "ctid").map strOfHex, ctidRe := flag "ctidre", vmm := (get "vmm").map nat!, mstp := (get "mstp").map nat!,
    payload := (get "pl").map strOfHex, payloadRegex := (get "plre").map strOfHex, ignoreCase := (get "ic") == some "1",
    lvlMin := (get "lmin").map nat!, lvlMax := (get "lmax").map nat!,
    lifecycles := (get "lcs").map fun l => (fields l "+").map nat! }

def parseMsg (s : String) : Option MsgView :=
  match s.splitOn "," with
  | e :: x :: a :: c :: v :: l :: t :: _ =>
    some { ecu := hexBytes e, ext := if x == "1" then some (hexBytes a, hexBytes c, nat! v) else none,
           lifecycle := nat! l, text := strOfHex t }
  | _ => none

structure Tbl where
  ids : List (String × List UInt8 × Bool)
  texts : List (String × String × Bool)
  bad : List String

def parseTbl (s : String) : Tbl :=
  (fields s " ").foldl (fun t e =>
    let body := (e.drop 1).toString
    if e.startsWith "B" then { t with bad := strOfHex body :: t.bad } else
    match body.splitOn ":" with
    | [p, h, r] =>
      if e.startsWith "I" then { t with ids := (strOfHex p, hexBytes h, r == "1") :: t.ids }
      else { t with texts := (strOfHex p, strOfHex h, r == "1") :: t.texts }
    | _ => t) { ids := [], texts := [], bad := [] }

/-- the regular-expression engines, as observed by the harness on exactly the pattern/haystack pairs of this case -/
def Tbl.re (t : Tbl) : Re :=
  { idMatch := fun p h => match t.ids.find? (fun e => e.1 == p && e.2.1 == h) with | some e => e.2.2 | none => false,
    textMatch := fun p h => match t.texts.find? (fun e => e.1 == p && e.2.1 == h) with | some e => e.2.2 | none => false }

def bits (l : List Bool) : String := String.ofList (l.map fun b => if b then '1' else '0')

def doLine (line : String) : String :=
  let (cs, impl) := match line.splitOn "\t" with
    | [c, i] => (c, i)
    | [c] => (c, "")
    | _ => ("", "")
  match cs.splitOn " | " with
  | [fsS, msS, tbS] =>
    let afs := (fields fsS ";").map parseAFilter
    let ms := (fields msS ";").filterMap parseMsg
    let tbl := parseTbl tbS
    let re := tbl.re
    let reOk (p : String) : Bool := !tbl.bad.contains p
    let js := afs.map (fromJson reOk)
    let perFilter := afs.zipIdx.map fun (a, i) =>
      let j := fromJson reOk a
      let jbits := match j with | some f => bits (ms.map (matchesImpl re f)) | none => "E"
      let dbits := if dlfExpressible a then bits (ms.map (matchesImpl re (fromDlf reOk a))) else "-"
      let rbits := match j with
        | some f => (match fromJson reOk (toJson f) with | some g => bits (ms.map (matchesImpl re g)) | none => "E")
        | none => "E"
      let lbits := if listExpressible a then bits (ms.map (matchesImpl re (fromList a))) else "-"
      s!"J{i}:{jbits} D{i}:{dbits} R{i}:{rbits} L{i}:{lbits}"
    let allOk := js.all (·.isSome)
    let fl := js.filterMap id
    let setPart :=
      if allOk then
        let r := filterAsStreams (matchesImpl re) fl ms
        let keptIdx := (ms.zipIdx.filter fun (m, _) => Spec.keepStream (matchesImpl re) fl m).map (·.2)
        s!"S:{"+".intercalate (keptIdx.map toString)}:{r.2.1}:{r.2.2} M:{bits (ms.map (matchFilters (matchesImpl re) (keepEnabled fl)))}"
      else "S:E M:E"
    let mobs := " ".intercalate perFilter ++ " " ++ setPart
    -- oracles: evaluated on any observation in that format
    let orc (obs : String) : String :=
      if obs == "PANIC" then "C11=FAIL:panic;C12=FAIL:panic" else
      let toks := fields obs " "
      let find (pre : String) : Option String := (toks.find? (·.startsWith pre)).map fun t => (t.drop pre.length).toString
      -- C11: every front-end decides like the specification of the abstract filter
      let c11 := (afs.zipIdx.filterMap fun (a, i) =>
        match fromJson reOk a with
        | none => (match find s!"J{i}:" with | some "E" => none | _ => some "FAIL:invalid-filter-accepted")
        | some f =>
          let want := bits (ms.map (Spec.decides re f))
          if find s!"J{i}:" != some want then some "FAIL:json-front-end-decides-differently"
          else if dlfExpressible a && find s!"D{i}:" != some want then some "FAIL:dlf-front-end-decides-differently"
          else if find s!"R{i}:" != some want then some "FAIL:json-round-trip-decides-differently"
          else if listExpressible a && find s!"L{i}:" != some want then some "FAIL:list-front-end-decides-differently"
          else none).head?
      -- C12
      let c12 :=
        if !allOk then "skip:invalid-filter" else
        let keep := ms.map (Spec.keepStream (Spec.decides re) fl)
        let keptIdx := (keep.zipIdx.filter (·.1)).map (·.2)
        let wantS := s!"{"+".intercalate (keptIdx.map toString)}:{keptIdx.length}:{ms.length - keptIdx.length}"
        let wantM := bits (ms.map (Spec.keepSet (Spec.decides re) fl))
        if find "S:" != some wantS then "FAIL:stream-filter-selection-or-counts"
        else if find "M:" != some wantM then "FAIL:set-matcher-selection" else "ok"
      s!"C11={c11.getD "ok"};C12={c12}"
    let tags : List String :=
      (if afs.any (·.negate) then ["negated"] else []) ++ (if afs.any (fun a => !a.enabled) then ["disabled"] else []) ++
      (if afs.any (fun a => a.ecuRe == some true || a.apidRe == some true || a.ctidRe == some true) then ["id-regex"] else []) ++
      (if afs.any (fun a => a.ecuRe.isNone && a.ecu.isSome || a.apidRe.isNone && a.apid.isSome) then ["autodetect"] else []) ++
      (if afs.any (·.payloadRegex.isSome) then ["payload-regex"] else []) ++ (if afs.any (·.payload.isSome) then ["payload-literal"] else []) ++
      (if afs.any (·.ignoreCase) then ["ignore-case"] else []) ++ (if afs.any (fun a => a.vmm.isSome || a.mstp.isSome) then ["type"] else []) ++
      (if afs.any (fun a => a.lvlMin.isSome || a.lvlMax.isSome) then ["level"] else []) ++ (if afs.any (·.lifecycles.isSome) then ["lifecycles"] else []) ++
      (if afs.any (·.kind == 1) then ["negative"] else []) ++ (if afs.any (·.kind == 3) then ["event"] else []) ++ (if afs.any (·.kind == 2) then ["marker"] else []) ++
      (if ms.any (·.ext.isNone) then ["no-ext-header"] else []) ++ (if !allOk then ["invalid-filter"] else [])
    s!"{mobs}\t{if impl == "" then "-" else orc impl}\t{orc mobs}\t{",".intercalate tags}"
  | _ => "bad\tC11=FAIL:unparsable;C12=FAIL:unparsable\tC11=FAIL:unparsable;C12=FAIL:unparsable\t"

end Flt
