/-! Model of `Filter::matches` (src/filter/filter_impl.rs), `filter_as_streams` (src/filter/functions.rs) and
    `match_filters` (src/utils/remote_utils.rs). Regular-expression engines are parameters (`Re`). -/
namespace Flt

/-- the regex engines (crate `regex::bytes` for ids, `fancy_regex` for payload text), opaque -/
structure Re where
  idMatch : String → List UInt8 → Bool
  textMatch : String → String → Bool

/-- what a filter can see of a message -/
structure MsgView where
  ecu : List UInt8
  ext : Option (List UInt8 × List UInt8 × Nat)   -- apid, ctid, verb_mstp_mtin: present iff the message has an extended header
  lifecycle : Nat
  text : String                                   -- payload_as_text
deriving Repr, DecidableEq

inductive IdCrit where
  | lit (id : List UInt8)      -- DltChar4: exactly 4 bytes
  | re (pattern : String)
deriving Repr, DecidableEq

inductive Kind where | positive | negative | marker | event
deriving Repr, DecidableEq

structure Filter where
  kind : Kind := .positive
  enabled : Bool := true
  negate : Bool := false
  ecu : Option IdCrit := none
  apid : Option IdCrit := none
  ctid : Option IdCrit := none
  vmm : Option (Nat × Nat) := none          -- value, mask
  payload : Option String := none
  payloadRegex : Option String := none      -- pattern as compiled (incl. a `(?i)` prefix)
  ignoreCase : Bool := false
  payloadCi : Bool := false                 -- the cached case-insensitive regex of a literal payload exists
  lvlMin : Option Nat := none
  lvlMax : Option Nat := none
  lifecycles : Option (List Nat) := none
deriving Repr, DecidableEq

def lower (s : String) : String := s.map Char.toLower

/-- substring test -/
def containsStr (hay needle : String) : Bool :=
  let h := hay.toList
  let n := needle.toList
  (List.range (h.length + 1)).any fun i => (h.drop i).take n.length == n

def idHolds (re : Re) (c : IdCrit) (id : List UInt8) : Bool :=
  match c with
  | .lit x => x == id
  | .re p => re.idMatch p id

def mstpOf (v : Nat) : Nat := (v / 2) % 8
def mtinOf (v : Nat) : Nat := (v / 16) % 16

/-! one function per `if … { return negated; }` block of `Filter::matches` -/
def ecuFails (re : Re) (f : Filter) (m : MsgView) : Bool :=
  match f.ecu with | some c => !idHolds re c m.ecu | none => false
def apidFails (re : Re) (f : Filter) (m : MsgView) : Bool :=
  match f.apid with
  | some c => (match m.ext with | some (a, _, _) => !idHolds re c a | none => true)
  | none => false
def ctidFails (re : Re) (f : Filter) (m : MsgView) : Bool :=
  match f.ctid with
  | some c => (match m.ext with | some (_, ct, _) => !idHolds re c ct | none => true)
  | none => false
def typeFails (f : Filter) (m : MsgView) : Bool :=
  match f.vmm with
  | some (v, mask) => (match m.ext with | some (_, _, x) => Nat.land x mask != v | none => true)
  | none => false
def lvlMinFails (f : Filter) (m : MsgView) : Bool :=
  match f.lvlMin with
  | some l => (match m.ext with | some (_, _, x) => !(mstpOf x == 0 && mtinOf x ≥ l) | none => true)
  | none => false
def lvlMaxFails (f : Filter) (m : MsgView) : Bool :=
  match f.lvlMax with
  | some l => (match m.ext with | some (_, _, x) => !(mstpOf x == 0 && mtinOf x ≤ l) | none => true)
  | none => false
def payloadFails (re : Re) (f : Filter) (m : MsgView) : Bool :=
  match f.payloadRegex with
  | some p => !re.textMatch p m.text
  | none =>
    if f.payloadCi then (match f.payload with | some p => !containsStr (lower m.text) (lower p) | none => false)
    else (match f.payload with | some p => !containsStr m.text p | none => false)
def lcFails (f : Filter) (m : MsgView) : Bool :=
  match f.lifecycles with | some lcs => !lcs.isEmpty && !lcs.contains m.lifecycle | none => false

/-- the sequential early-return code -/
def matchesImpl (re : Re) (f : Filter) (m : MsgView) : Bool :=
  if !f.enabled then false
  else if ecuFails re f m then f.negate
  else if apidFails re f m then f.negate
  else if ctidFails re f m then f.negate
  else if typeFails f m then f.negate
  else if lvlMinFails f m then f.negate
  else if lvlMaxFails f m then f.negate
  else if payloadFails re f m then f.negate
  else if lcFails f m then f.negate
  else !f.negate

namespace Spec
/-- the criteria, each `true` when absent -/
def ecuOk (re : Re) (f : Filter) (m : MsgView) : Bool := match f.ecu with | some c => idHolds re c m.ecu | none => true
def apidOk (re : Re) (f : Filter) (m : MsgView) : Bool :=
  match f.apid with | some c => (match m.ext with | some (a, _, _) => idHolds re c a | none => false) | none => true
def ctidOk (re : Re) (f : Filter) (m : MsgView) : Bool :=
  match f.ctid with | some c => (match m.ext with | some (_, ct, _) => idHolds re c ct | none => false) | none => true
def typeOk (f : Filter) (m : MsgView) : Bool :=
  match f.vmm with | some (v, mask) => (match m.ext with | some (_, _, x) => Nat.land x mask == v | none => false) | none => true
def lvlMinOk (f : Filter) (m : MsgView) : Bool :=
  match f.lvlMin with | some l => (match m.ext with | some (_, _, x) => mstpOf x == 0 && mtinOf x ≥ l | none => false) | none => true
def lvlMaxOk (f : Filter) (m : MsgView) : Bool :=
  match f.lvlMax with | some l => (match m.ext with | some (_, _, x) => mstpOf x == 0 && mtinOf x ≤ l | none => false) | none => true
def payloadOk (re : Re) (f : Filter) (m : MsgView) : Bool :=
  match f.payloadRegex with
  | some p => re.textMatch p m.text
  | none => match f.payload with
    | some p => if f.payloadCi then containsStr (lower m.text) (lower p) else containsStr m.text p
    | none => true
def lcOk (f : Filter) (m : MsgView) : Bool :=
  match f.lifecycles with | some lcs => lcs.isEmpty || lcs.contains m.lifecycle | none => true

/-- all specified criteria hold -/
def conj (re : Re) (f : Filter) (m : MsgView) : Bool :=
  ecuOk re f m && apidOk re f m && ctidOk re f m && typeOk f m && lvlMinOk f m && lvlMaxOk f m && payloadOk re f m && lcOk f m

/-- C11: enabled, and the conjunction of the criteria, inverted for a negated filter -/
def decides (re : Re) (f : Filter) (m : MsgView) : Bool := f.enabled && (conj re f m != f.negate)
end Spec

/-! ### filter sets -/

/-- `filter_as_streams`: (kept messages in order, passed, filtered) -/
def filterAsStreams (mt : Filter → MsgView → Bool) (fs : List Filter) (ms : List MsgView) : List MsgView × Nat × Nat :=
  let pos := fs.filter fun f => f.enabled && f.kind == .positive
  let neg := fs.filter fun f => f.enabled && f.kind == .negative
  let keep (m : MsgView) : Bool :=
    let a := if !pos.isEmpty then pos.any (fun f => mt f m) else true
    if a && !neg.isEmpty then !(neg.any fun f => mt f m) else a
  let kept := ms.filter keep
  (kept, kept.length, ms.length - kept.length)

/-- the container used by `match_filters`: enabled filters only, by kind (`StreamContext::from`, export plugin, search) -/
def keepEnabled (fs : List Filter) : List Filter := fs.filter (·.enabled)

/-- `match_filters` over a container built from `fs` -/
def matchFilters (mt : Filter → MsgView → Bool) (fs : List Filter) (m : MsgView) : Bool :=
  let pos := fs.filter (·.kind == .positive)
  let neg := fs.filter (·.kind == .negative)
  let ev := fs.filter (·.kind == .event)
  if pos.isEmpty || pos.any (fun f => mt f m) then
    if !(neg.any fun f => mt f m) then ev.isEmpty || ev.any (fun f => mt f m) else false
  else false

namespace Spec
/-- C12 for sets (remote streams, searches, export): positive OR, negative veto, event AND, over the enabled filters -/
def keepSet (mt : Filter → MsgView → Bool) (fs : List Filter) (m : MsgView) : Bool :=
  let pos := fs.filter fun f => f.enabled && f.kind == .positive
  let neg := fs.filter fun f => f.enabled && f.kind == .negative
  let ev := fs.filter fun f => f.enabled && f.kind == .event
  (pos.isEmpty || pos.any (fun f => mt f m)) && !(neg.any fun f => mt f m) && (ev.isEmpty || ev.any (fun f => mt f m))

/-- C12 for streams: (no enabled positive filter or some positive matches) and no enabled negative matches -/
def keepStream (mt : Filter → MsgView → Bool) (fs : List Filter) (m : MsgView) : Bool :=
  let pos := fs.filter fun f => f.enabled && f.kind == .positive
  let neg := fs.filter fun f => f.enabled && f.kind == .negative
  (pos.isEmpty || pos.any (fun f => mt f m)) && !(neg.any fun f => mt f m)
end Spec

end Flt
