import Adlt.Filter.Front
/-! C11: a filter serialised to JSON and loaded again is the same filter (`fromJson (toJson f) = some f`), for every filter
    the JSON front-end can produce whose literal ids are printable. -/
namespace Flt

/-- a literal id that `Display for DltChar4` shows faithfully: printable ASCII, zero-padded to four bytes -/
def Showable (c : Option IdCrit) : Prop :=
  match c with
  | some (.lit b) => ∃ pre k, b = pre ++ List.replicate k 0 ∧ b.length = 4 ∧ ∀ x ∈ pre, 0x20 ≤ x.toNat ∧ x.toNat ≤ 0x7e
  | _ => True

/-- a regular-expression id whose pattern compiles (what the constructor guarantees) -/
def ReOk (reOk : String → Bool) (c : Option IdCrit) : Prop :=
  match c with
  | some (.re p) => reOk p = true
  | _ => True

theorem kindOf_kindNum (k : Kind) : kindOf (kindNum k) = some k := by cases k <;> rfl

theorem char_small : ∀ n, n < 127 → (Char.ofNat n).toNat = n := by decide +kernel

theorem takeWhile_pre (pre : List UInt8) (k : Nat) (h : ∀ x ∈ pre, 0x20 ≤ x.toNat ∧ x.toNat ≤ 0x7e) :
    (pre ++ List.replicate k 0).takeWhile (· != 0) = pre := by
  induction pre with
  | nil => cases k <;> simp [List.replicate]
  | cons x t ih =>
    have hx := h x (by simp)
    have hne : (x != 0) = true := by
      simp only [bne_iff_ne, ne_eq]
      intro h0; rw [h0] at hx; simp at hx
    simp only [List.cons_append, List.takeWhile, hne]
    rw [ih (fun y hy => h y (by simp [hy]))]

theorem char4_showId (b : List UInt8) (h : Showable (some (.lit b))) : char4 (showId b) = some b := by
  obtain ⟨pre, k, hb, hl, hp⟩ := h
  subst hb
  unfold showId
  rw [takeWhile_pre pre k hp]
  have hconv : pre.map (fun x => if x.toNat < 0x20 then '-' else if x.toNat > 0x7e then '?' else Char.ofNat x.toNat)
      = pre.map (fun x => Char.ofNat x.toNat) := by
    apply List.map_congr_left
    intro x hx
    obtain ⟨h1, h2⟩ := hp x hx
    have n1 : ¬ x.toNat < 0x20 := by omega
    have n2 : ¬ x.toNat > 0x7e := by omega
    simp only [n1, n2, if_false]
  rw [hconv]
  unfold char4
  simp only [String.toList_ofList]
  have hall : (pre.map (fun x => Char.ofNat x.toNat)).all (fun c => c.toNat < 128) = true := by
    simp only [List.all_map, List.all_eq_true, Function.comp_apply, decide_eq_true_eq]
    intro x hx
    obtain ⟨h1, h2⟩ := hp x hx
    rw [char_small _ (by omega)]; omega
  rw [hall]
  simp only [if_true, List.map_map]
  have hback : pre.map ((fun c => UInt8.ofNat c.toNat) ∘ (fun x => Char.ofNat x.toNat)) = pre := by
    have : pre.map ((fun c => UInt8.ofNat c.toNat) ∘ (fun x => Char.ofNat x.toNat)) = pre.map id := by
      apply List.map_congr_left
      intro x hx
      obtain ⟨h1, h2⟩ := hp x hx
      simp only [Function.comp_apply, id]
      rw [char_small _ (by omega)]
      simp
    rw [this, List.map_id]
  rw [hback]
  have hlen : pre.length + k = 4 := by simpa using hl
  rw [List.take_of_length_le (by omega)]
  have : 4 - pre.length = k := by omega
  rw [this]

theorem jId_idOut (reOk : String → Bool) (c : Option IdCrit) (hs : Showable c) (hr : ReOk reOk c) :
    jId reOk (idOut c).1 (idOut c).2 = some c := by
  cases c with
  | none => rfl
  | some c =>
    cases c with
    | lit b =>
      simp only [idOut, jId, idCrit, Option.getD_some, Bool.false_eq_true, if_false]
      rw [char4_showId b hs]; rfl
    | re p =>
      have : reOk p = true := hr
      simp [idOut, jId, idCrit, this]

/-- what loading from JSON guarantees about an id criterion -/
theorem jId_reOk (reOk : String → Bool) (s : Option String) (flag : Option Bool) (c : Option IdCrit)
    (h : jId reOk s flag = some c) : ReOk reOk c := by
  cases s with
  | none => simp only [jId, Option.some.injEq] at h; subst h; trivial
  | some s =>
    simp only [jId, idCrit] at h
    split at h
    · split at h
      · rename_i hr
        simp only [Option.map_some, Option.some.injEq] at h; subst h; exact hr
      · simp at h
    · cases hc : char4 s with
      | none => simp [hc] at h
      | some b => simp [hc] at h; subst h; trivial

theorem vmm_roundtrip (a : AFilter) (f : Filter) (hf : f.vmm = vmmOf a) : vmmOf (toJson f) = vmmOf a := by
  unfold toJson
  simp only [vmmOf]
  rw [hf]
  unfold vmmOf
  cases hv : a.vmm with
  | some v =>
    simp only []
    have hm : mtinOf (v % 256) = 0 ∨ mtinOf (v % 256) ≠ 0 := by omega
    rcases hm with h | h
    · simp [h]
    · simp [h]
  | none =>
    cases hm : a.mstp with
    | some m =>
      simp only [mstpOf]
      have : m % 8 * 2 / 2 % 8 % 8 * 2 = m % 8 * 2 := by omega
      simp [this]
    | none => simp

theorem plre_isSome (reOk : String → Bool) (a : AFilter) (r : Option String) (h : jPlre reOk a = some r) :
    r.isSome = a.payloadRegex.isSome := by
  unfold jPlre at h
  cases hp : a.payloadRegex with
  | none => rw [hp] at h; simp only [Option.some.injEq] at h; subst h; rfl
  | some p =>
    rw [hp] at h
    simp only [] at h
    by_cases hok : reOk (if a.ignoreCase then "(?i)" ++ p else p) = true
    · simp only [hok, if_true, Option.some.injEq] at h; subst h; rfl
    · simp only [hok] at h; cases h

theorem stripCi_prefix (p : String) : stripCiOf true ("(?i)" ++ p) = p := by
  unfold stripCiOf
  have h1 : ("(?i)" ++ p).toList = ['(', '?', 'i', ')'] ++ p.toList := by
    rw [String.toList_append]; rfl
  rw [h1]
  simp

theorem plre_roundtrip (reOk : String → Bool) (a : AFilter) (r : Option String) (h : jPlre reOk a = some r)
    (a' : AFilter) (h1 : a'.payloadRegex = r.map (stripCiOf a.ignoreCase)) (h2 : a'.ignoreCase = a.ignoreCase) :
    jPlre reOk a' = some r := by
  unfold jPlre at h ⊢
  rw [h1, h2]
  cases hp : a.payloadRegex with
  | none =>
    rw [hp] at h
    simp only [Option.some.injEq] at h
    subst h; rfl
  | some p =>
    rw [hp] at h
    cases hic : a.ignoreCase with
    | true =>
      rw [hic] at h
      simp only [if_true] at h
      by_cases hok : reOk ("(?i)" ++ p) = true
      · simp only [hok, if_true, Option.some.injEq] at h
        subst h
        simp only [Option.map_some, stripCi_prefix, if_true, hok]
      · simp only [hok] at h
        cases h
    | false =>
      rw [hic] at h
      simp only [Bool.false_eq_true, if_false] at h
      by_cases hok : reOk p = true
      · simp only [hok, if_true, Option.some.injEq] at h
        subst h
        simp only [Option.map_some, stripCiOf, Bool.false_and, Bool.false_eq_true, if_false, hok, if_true]
      · simp only [hok] at h
        cases h

theorem lvl_roundtrip (l r : Option Nat) (h : jLvl l = some r) : jLvl r = some r := by
  unfold jLvl at h ⊢
  cases l with
  | none => simp only [Option.some.injEq] at h; subst h; rfl
  | some v =>
    simp only [] at h
    split at h
    · rename_i hv
      simp only [Option.some.injEq] at h; subst h
      simp [hv]
    · cases h

/-- **JSON fixpoint**: a filter that the JSON front-end produced, written with `to_json` and loaded again, is the same
    filter - every criterion, flag and cached pattern - provided its literal ids are printable -/
theorem json_fixpoint (reOk : String → Bool) (a : AFilter) (f : Filter) (h : fromJson reOk a = some f)
    (hs : Showable f.ecu ∧ Showable f.apid ∧ Showable f.ctid) : fromJson reOk (toJson f) = some f := by
  unfold fromJson at h
  split at h
  · rename_i kind ecu apid ctid plre lmin lmax hkind hecu hapid hctid hplre hlmin hlmax
    simp only [Option.some.injEq] at h
    obtain ⟨s1, s2, s3⟩ := hs
    have f1 : f.kind = kind := by rw [← h]
    have f2 : f.ecu = ecu := by rw [← h]
    have f3 : f.apid = apid := by rw [← h]
    have f4 : f.ctid = ctid := by rw [← h]
    have f5 : f.vmm = vmmOf a := by rw [← h]
    have f6 : f.payloadRegex = plre := by rw [← h]
    have f7 : f.ignoreCase = a.ignoreCase := by rw [← h]
    have f8 : f.lvlMin = lmin := by rw [← h]
    have f9 : f.lvlMax = lmax := by rw [← h]
    have f10 : f.payload = if a.payloadRegex.isSome then none else a.payload := by rw [← h]
    have f11 : f.payloadCi = (a.payloadRegex.isNone && a.payload.isSome && a.ignoreCase) := by rw [← h]
    have f12 : f.enabled = a.enabled := by rw [← h]
    have f13 : f.negate = a.negate := by rw [← h]
    have f14 : f.lifecycles = a.lifecycles := by rw [← h]
    rw [f2] at s1; rw [f3] at s2; rw [f4] at s3
    have e1 := jId_idOut reOk ecu s1 (jId_reOk reOk _ _ _ hecu)
    have e2 := jId_idOut reOk apid s2 (jId_reOk reOk _ _ _ hapid)
    have e3 := jId_idOut reOk ctid s3 (jId_reOk reOk _ _ _ hctid)
    have e4 := lvl_roundtrip _ _ hlmin
    have e5 := lvl_roundtrip _ _ hlmax
    have e6 := plre_roundtrip reOk a plre hplre
    have e7 := plre_isSome reOk a plre hplre
    have k1 : kindOf (toJson f).kind = some kind := by show kindOf (kindNum f.kind) = _; rw [f1]; exact kindOf_kindNum kind
    have k2 : jId reOk (toJson f).ecu (toJson f).ecuRe = some ecu := by show jId reOk (idOut f.ecu).1 (idOut f.ecu).2 = _; rw [f2]; exact e1
    have k3 : jId reOk (toJson f).apid (toJson f).apidRe = some apid := by show jId reOk (idOut f.apid).1 (idOut f.apid).2 = _; rw [f3]; exact e2
    have k4 : jId reOk (toJson f).ctid (toJson f).ctidRe = some ctid := by show jId reOk (idOut f.ctid).1 (idOut f.ctid).2 = _; rw [f4]; exact e3
    have k5 : jPlre reOk (toJson f) = some plre := by
      apply e6
      · show f.payloadRegex.map (stripCiOf f.ignoreCase) = _; rw [f6, f7]
      · exact f7
    have k6 : jLvl (toJson f).lvlMin = some lmin := by show jLvl f.lvlMin = _; rw [f8]; exact e4
    have k7 : jLvl (toJson f).lvlMax = some lmax := by show jLvl f.lvlMax = _; rw [f9]; exact e5
    have k8 : vmmOf (toJson f) = vmmOf a := vmm_roundtrip a f f5
    unfold fromJson
    rw [k1, k2, k3, k4, k5, k6, k7, k8]
    simp only []
    have t1 : (toJson f).enabled = f.enabled := rfl
    have t2 : (toJson f).negate = f.negate := rfl
    have t3 : (toJson f).ignoreCase = f.ignoreCase := rfl
    have t4 : (toJson f).lifecycles = f.lifecycles := rfl
    have t5 : (toJson f).payloadRegex = f.payloadRegex.map (stripCiOf f.ignoreCase) := rfl
    have t6 : (toJson f).payload = if f.payloadRegex.isSome then none else f.payload := rfl
    have t7 : (f.payloadRegex.map (stripCiOf f.ignoreCase)).isSome = a.payloadRegex.isSome := by
      rw [Option.isSome_map, f6, e7]
    have t8 : (f.payloadRegex.map (stripCiOf f.ignoreCase)).isNone = a.payloadRegex.isNone := by
      cases hx : f.payloadRegex.map (stripCiOf f.ignoreCase) <;> cases hy : a.payloadRegex <;> simp_all
    rw [t1, t2, t3, t4, t5, t6, t7, t8, f6, e7, f10]
    congr 1
    rw [← h]
    simp only [Filter.mk.injEq, true_and, and_true]
    cases a.payloadRegex <;> simp
  · cases h

end Flt
