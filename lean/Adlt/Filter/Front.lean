import Adlt.Filter.Model
/-! Models of the filter front-ends on an abstract configuration (`AFilter` = the key/value content of a JSON filter
    object; the DLF attribute set and the dlt-convert APID/CTID list are renderings of the same abstract filter). -/
namespace Flt

structure AFilter where
  kind : Nat := 0
  enabled : Bool := true
  negate : Bool := false
  ecu : Option String := none
  ecuRe : Option Bool := none        -- `ecuIsRegex` given? (none = omitted → auto-detection)
  apid : Option String := none
  apidRe : Option Bool := none
  ctid : Option String := none
  ctidRe : Option Bool := none
  vmm : Option Nat := none           -- key `verb_mstp_mtin`
  mstp : Option Nat := none          -- key `mstp`
  payload : Option String := none
  payloadRegex : Option String := none
  ignoreCase : Bool := false
  lvlMin : Option Nat := none
  lvlMax : Option Nat := none
  lifecycles : Option (List Nat) := none
deriving Repr, DecidableEq

def regexChars : List Char := ['^', '$', '*', '+', '?', '(', ')', '[', ']', '{', '}', '|', '.', '-', '\\', '=', '!', '<', '>', ',']
def containsRegexChars (s : String) : Bool := s.toList.any fun c => regexChars.contains c

/-- `DltChar4::from_str`: ASCII only, truncated / zero-padded to 4 bytes -/
def char4 (s : String) : Option (List UInt8) :=
  if s.toList.all (fun c => c.toNat < 128) then
    let b := (s.toList.map fun c => UInt8.ofNat c.toNat).take 4
    some (b ++ List.replicate (4 - b.length) 0)
  else none

/-- `Char4OrRegex::from_str(s, is_regex)`; `reOk` = the pattern compiles -/
def idCrit (reOk : String → Bool) (s : String) (flag : Option Bool) : Option IdCrit :=
  if flag.getD (containsRegexChars s) then (if reOk s then some (.re s) else none)
  else (char4 s).map .lit

def kindOf : Nat → Option Kind
  | 0 => some .positive | 1 => some .negative | 2 => some .marker | 3 => some .event | _ => none

def vmmOf (a : AFilter) : Option (Nat × Nat) :=
  match a.vmm with
  | some v => let v := v % 256; some (v, if mtinOf v == 0 then 15 else 255)
  | none => match a.mstp with
    | some m => some ((m % 8) * 2, 14)
    | none => none

/-- one id criterion of the JSON object: `none` = error, `some none` = key absent -/
def jId (reOk : String → Bool) (s : Option String) (flag : Option Bool) : Option (Option IdCrit) :=
  match s with
  | some s => (idCrit reOk s flag).map some
  | none => some none

def jPlre (reOk : String → Bool) (a : AFilter) : Option (Option String) :=
  match a.payloadRegex with
  | some p => if reOk (if a.ignoreCase then "(?i)" ++ p else p) then some (some (if a.ignoreCase then "(?i)" ++ p else p)) else none
  | none => some none

def jLvl (l : Option Nat) : Option (Option Nat) :=
  match l with
  | some l => if l ≤ 6 then some (some l) else none
  | none => some none

/-- `Filter::from_json` (`none` = an error is returned) -/
def fromJson (reOk : String → Bool) (a : AFilter) : Option Filter :=
  match kindOf a.kind, jId reOk a.ecu a.ecuRe, jId reOk a.apid a.apidRe, jId reOk a.ctid a.ctidRe, jPlre reOk a,
        jLvl a.lvlMin, jLvl a.lvlMax with
  | some kind, some ecu, some apid, some ctid, some plre, some lmin, some lmax =>
    some { kind := kind, enabled := a.enabled, negate := a.negate, ecu := ecu, apid := apid, ctid := ctid,
           vmm := vmmOf a,
           payload := if a.payloadRegex.isSome then none else a.payload,
           payloadRegex := plre, ignoreCase := a.ignoreCase,
           payloadCi := a.payloadRegex.isNone && a.payload.isSome && a.ignoreCase,
           lvlMin := lmin, lvlMax := lmax, lifecycles := a.lifecycles }
  | _, _, _, _, _, _, _ => none

/-- can the abstract filter be written as a dlt-viewer `<filter>` element? (no negation, no lifecycle list, type only
    "control messages", literal ECU) -/
def dlfExpressible (a : AFilter) : Bool :=
  !a.negate && a.lifecycles.isNone && a.vmm.isNone && (a.mstp.isNone || a.mstp == some 3) && a.kind ≤ 3 &&
  (match a.ecu with | some _ => a.ecuRe == some false | none => true)

/-- `Filter::from_quick_xml_reader` on the attribute set the harness renders for `a` (invalid regexes / ids are dropped
    silently by `.ok()`) -/
def fromDlf (reOk : String → Bool) (a : AFilter) : Filter :=
  { kind := (kindOf a.kind).getD .positive, enabled := a.enabled, negate := false,
    ecu := a.ecu.bind fun s => (char4 s).map .lit,
    apid := (jId reOk a.apid a.apidRe).getD none,
    ctid := (jId reOk a.ctid a.ctidRe).getD none,
    vmm := if a.mstp == some 3 then some (6, 14) else none,
    payload := if a.payloadRegex.isSome then none else a.payload,
    payloadRegex := (jPlre reOk a).getD none,
    ignoreCase := if a.payload.isSome || a.payloadRegex.isSome then a.ignoreCase else false,
    payloadCi := a.payloadRegex.isNone && a.payload.isSome && a.ignoreCase,
    lvlMin := (jLvl a.lvlMin).getD none,
    lvlMax := (jLvl a.lvlMax).getD none,
    lifecycles := none }

/-- can the abstract filter be written as one entry of a dlt-convert APID/CTID list? (positive, enabled, each id either not
    given - written `----` - or a literal of at most four ASCII bytes without the padding character `-`, nothing else) -/
def listIdOk (s : Option String) (flag : Option Bool) : Bool :=
  match s, flag with
  | some x, some false => !x.isEmpty && x.toList.length ≤ 4 && x.toList.all (fun c => c.toNat < 128) && !x.toList.contains '-'
  | none, _ => true          -- not given: written as `----`
  | _, _ => false

def listExpressible (a : AFilter) : Bool :=
  a.kind == 0 && a.enabled && !a.negate && a.ecu.isNone && listIdOk a.apid a.apidRe && listIdOk a.ctid a.ctidRe &&
  a.vmm.isNone && a.mstp.isNone && a.payload.isNone && a.payloadRegex.isNone && a.lvlMin.isNone && a.lvlMax.isNone &&
  a.lifecycles.isNone

/-- `filters_from_convert_format` on the entry the harness renders for `a`: the bytes up to the first `-` (at most four),
    zero padded, as literal ids of a positive filter -/
def fromList (a : AFilter) : Filter :=
  { apid := a.apid.bind fun s => (char4 s).map .lit, ctid := a.ctid.bind fun s => (char4 s).map .lit }

/-- `Filter::to_json` as an abstract configuration -/
def showId (b : List UInt8) : String :=
  -- `Display for DltChar4`: stops at the first NUL; < 0x20 -> '-', > 0x7e -> '?'
  String.ofList ((b.takeWhile (· != 0)).map fun x => if x.toNat < 0x20 then '-' else if x.toNat > 0x7e then '?' else Char.ofNat x.toNat)

/-- `to_json` writes a case-insensitive pattern without the `(?i)` prefix the constructor had put in front of it -/
def stripCiOf (ic : Bool) (p : String) : String :=
  if ic && p.toList.take 4 == ['(', '?', 'i', ')'] then String.ofList (p.toList.drop 4) else p

def idOut (c : Option IdCrit) : Option String × Option Bool :=
  match c with
  | some (.lit b) => (some (showId b), some false)
  | some (.re p) => (some p, some true)
  | none => (none, none)

def kindNum : Kind → Nat
  | .positive => 0 | .negative => 1 | .marker => 2 | .event => 3

def toJson (f : Filter) : AFilter :=
  let stripCi (p : String) : String := stripCiOf f.ignoreCase p
  { kind := kindNum f.kind, enabled := f.enabled, negate := f.negate,
    ecu := (idOut f.ecu).1, ecuRe := (idOut f.ecu).2,
    apid := (idOut f.apid).1, apidRe := (idOut f.apid).2,
    ctid := (idOut f.ctid).1, ctidRe := (idOut f.ctid).2,
    vmm := match f.vmm with | some (v, mask) => if mask == 14 then none else some v | none => none,
    mstp := match f.vmm with | some (v, mask) => if mask == 14 then some (mstpOf v) else none | none => none,
    payload := if f.payloadRegex.isSome then none else f.payload,
    payloadRegex := f.payloadRegex.map stripCi,
    ignoreCase := f.ignoreCase, lvlMin := f.lvlMin, lvlMax := f.lvlMax, lifecycles := f.lifecycles }

end Flt
