import Adlt.Net.Complete
/-! C13, liveness side on the abstract network: with channels of capacity ≥ 1 a bounded pipeline never deadlocks — in
    every reachable state either some action is enabled *under the capacity restriction*, or the run is complete. -/
namespace Net
variable {M : Type}

/-- length of what the first element downstream (node or consumer) has taken from the channel in front of it -/
def takenLen : List (Node M) → List M → Nat
  | [], got => got.length
  | n :: _, _ => n.consumed.length

/-- a step that is enabled when every channel has the capacity listed in `caps` (channel i feeds node i; the last one
    feeds the consumer): a push additionally needs room in its channel -/
inductive StepC : List Nat → List M → Bool → Nat → List (Node M) → List M → Nat → List (Node M) → List M → Prop
  | push (c caps up e s nodes got) (h : s < up.length) (hroom : s - takenLen nodes got < c) :
      StepC (c :: caps) up e s nodes got (s + 1) nodes got
  | consRecv (caps up e s got) (h : got.length < s) (hs : s ≤ up.length) :
      StepC caps up e s [] got s [] (got ++ [up[got.length]'(Nat.lt_of_lt_of_le h hs)])
  | headRecv (caps up e s) (n : Node M) (rest got) (h : n.consumed.length < s) (hs : s ≤ up.length)
      (hidle : n.sent = n.produced.length) :
      StepC caps up e s (n :: rest) got s
        ({ n with consumed := n.consumed ++ [up[n.consumed.length]'(Nat.lt_of_lt_of_le h hs)] } :: rest) got
  | headEnd (caps up s) (n : Node M) (rest got) (hs : s = up.length) (hc : n.consumed.length = up.length)
      (hne : n.ended = false) (hidle : n.sent = n.produced.length) :
      StepC caps up true s (n :: rest) got s ({ n with ended := true } :: rest) got
  | deeper (c caps up e s) (n : Node M) (rest got s' rest' got')
      (h : StepC caps n.produced n.ended n.sent rest got s' rest' got') :
      StepC (c :: caps) up e s (n :: rest) got s ({ n with sent := s' } :: rest') got'

/-- a capacity-restricted step is a step of the unrestricted network (so safety and completeness apply to it) -/
theorem StepC.toStep {caps : List Nat} {up : List M} {e : Bool} {s : Nat} {nodes : List (Node M)} {got : List M}
    {s' : Nat} {nodes' : List (Node M)} {got' : List M}
    (h : StepC caps up e s nodes got s' nodes' got') : Step up e s nodes got s' nodes' got' := by
  induction h with
  | push c caps up e s nodes got h _ => exact .push up e s nodes got h
  | consRecv caps up e s got h hs => exact .consRecv up e s got h hs
  | headRecv caps up e s n rest got h hs hidle => exact .headRecv up e s n rest got h hs hidle
  | headEnd caps up s n rest got hs hc hne hidle => exact .headEnd up s n rest got hs hc hne hidle
  | deeper c caps up e s n rest got s' rest' got' _ ih => exact .deeper up e s n rest got s' rest' got' ih

/-- nothing left to do *given what the upstream neighbour has produced so far*: everything produced upstream was sent
    and taken, every node is idle, and a node whose upstream has ended has ended too -/
def Quiet : (upLen : Nat) → (upEnded : Bool) → (upSent : Nat) → List (Node M) → (got : List M) → Prop
  | upLen, _, upSent, [], got => upSent = upLen ∧ got.length = upSent
  | upLen, e, upSent, n :: rest, got =>
    upSent = upLen ∧ n.consumed.length = upSent ∧ (e = true → n.ended = true) ∧
    Quiet n.produced.length n.ended n.sent rest got

theorem quiet_sent (upLen : Nat) (e : Bool) (s : Nat) (nodes : List (Node M)) (got : List M)
    (h : Quiet upLen e s nodes got) : s = upLen := by
  cases nodes with
  | nil => exact h.1
  | cons n rest => exact h.1

/-- with the input complete, a quiet state is a terminal one -/
theorem quiet_terminal (nodes : List (Node M)) (upLen : Nat) (s : Nat) (got : List M)
    (h : Quiet upLen true s nodes got) : Terminal upLen s nodes got := by
  induction nodes generalizing upLen s with
  | nil => exact h
  | cons n rest ih =>
    obtain ⟨h1, _, h3, h4⟩ := h
    have he := h3 rfl
    rw [he] at h4
    exact ⟨h1, he, ih _ _ h4⟩

/-- **no deadlock**: in every state satisfying the invariant, with one capacity ≥ 1 per channel, either a
    capacity-restricted action is enabled or the state is quiet -/
theorem progress (nodes : List (Node M)) : ∀ (caps : List Nat) (up : List M) (e : Bool) (s : Nat) (got : List M),
    caps.length = nodes.length + 1 → (∀ c ∈ caps, 1 ≤ c) → Good up e s nodes got →
    Quiet up.length e s nodes got ∨ ∃ s' nodes' got', StepC caps up e s nodes got s' nodes' got' := by
  induction nodes with
  | nil =>
    intro caps up e s got hl hc hg
    obtain ⟨h1, h2, _⟩ := hg
    cases caps with
    | nil => simp at hl
    | cons c caps' =>
      have hc1 : 1 ≤ c := hc c (by simp)
      by_cases hr : got.length < s
      · exact .inr ⟨_, _, _, .consRecv _ up e s got hr h1⟩
      · have hgs : got.length = s := by omega
        by_cases hp : s < up.length
        · refine .inr ⟨_, _, _, .push c caps' up e s [] got hp ?_⟩
          simp only [takenLen]; omega
        · exact .inl ⟨by omega, hgs⟩
  | cons n rest ih =>
    intro caps up e s got hl hc hg
    obtain ⟨h1, h2, h3, h4, h5⟩ := hg
    cases caps with
    | nil => simp at hl
    | cons c caps' =>
      have hc1 : 1 ≤ c := hc c (by simp)
      have hl' : caps'.length = rest.length + 1 := by simpa using hl
      have hc' : ∀ x ∈ caps', 1 ≤ x := fun x hx => hc x (by simp [hx])
      rcases ih caps' n.produced n.ended n.sent got hl' hc' h5 with hq | ⟨s', rest', got', hstep⟩
      · -- downstream is quiet: the head node is idle
        have hidle : n.sent = n.produced.length := quiet_sent _ _ _ _ _ hq
        by_cases hr : n.consumed.length < s
        · exact .inr ⟨_, _, _, .headRecv _ up e s n rest got hr h1 hidle⟩
        · have hcs : n.consumed.length = s := by omega
          by_cases hp : s < up.length
          · refine .inr ⟨_, _, _, .push c caps' up e s (n :: rest) got hp ?_⟩
            simp only [takenLen]; omega
          · have hsu : s = up.length := by omega
            cases hne : n.ended with
            | true =>
              refine .inl ⟨hsu, hcs, fun _ => hne, ?_⟩
              rw [hne] at hq; rw [hne]; exact hq
            | false =>
              cases e with
              | true =>
                exact .inr ⟨_, _, _, .headEnd _ up s n rest got hsu (by omega) hne hidle⟩
              | false =>
                have hq' : Quiet up.length false s (n :: rest) got := by
                  refine ⟨hsu, hcs, ?_, hq⟩
                  intro h; cases h
                exact .inl hq'
      · exact .inr ⟨_, _, _, .deeper c caps' up e s n rest got s' rest' got' hstep⟩

/-- any schedule of capacity-restricted steps -/
inductive StepsC : List Nat → List M → Bool → Nat → List (Node M) → List M → Nat → List (Node M) → List M → Prop
  | refl (caps up e s nodes got) : StepsC caps up e s nodes got s nodes got
  | cons {caps up e s nodes got s1 nodes1 got1 s2 nodes2 got2}
      (h1 : StepC caps up e s nodes got s1 nodes1 got1) (h2 : StepsC caps up e s1 nodes1 got1 s2 nodes2 got2) :
      StepsC caps up e s nodes got s2 nodes2 got2

theorem StepsC.toSteps {caps : List Nat} {up : List M} {e : Bool} {s : Nat} {nodes : List (Node M)} {got : List M}
    {s' : Nat} {nodes' : List (Node M)} {got' : List M}
    (h : StepsC caps up e s nodes got s' nodes' got') : Steps up e s nodes got s' nodes' got' := by
  induction h with
  | refl => exact .refl _ _ _ _ _
  | cons h1 _ ih => exact .cons h1.toStep ih

theorem stepC_len {caps : List Nat} {up : List M} {e : Bool} {s : Nat} {nodes : List (Node M)} {got : List M}
    {s' : Nat} {nodes' : List (Node M)} {got' : List M}
    (h : StepC caps up e s nodes got s' nodes' got') : nodes'.length = nodes.length := by
  induction h with
  | push => rfl
  | consRecv => rfl
  | headRecv => rfl
  | headEnd => rfl
  | deeper c caps up e s n rest got s' rest' got' _ ih => simp [ih]

theorem stepsC_len {caps : List Nat} {up : List M} {e : Bool} {s : Nat} {nodes : List (Node M)} {got : List M}
    {s' : Nat} {nodes' : List (Node M)} {got' : List M}
    (h : StepsC caps up e s nodes got s' nodes' got') : nodes'.length = nodes.length := by
  induction h with
  | refl => rfl
  | cons h1 _ ih => rw [ih, stepC_len h1]

/-- C13 no deadlock: from the initial state, under any schedule that respects channel capacities (each ≥ 1), the
    pipeline is never stuck: either another action is enabled, or every stage has ended and drained and the consumer
    holds exactly the sequential result -/
theorem C13_no_deadlock (input : List M) (stages : List (Stage M)) (caps : List Nat)
    (hl : caps.length = stages.length + 1) (hc : ∀ c ∈ caps, 1 ≤ c)
    (s' : Nat) (nodes' : List (Node M)) (got' : List M)
    (hs : StepsC caps input true 0 (initNodes stages) [] s' nodes' got') :
    (∃ s'' nodes'' got'', StepC caps input true s' nodes' got' s'' nodes'' got'') ∨ got' = pipe stages input := by
  have hg := steps_good hs.toSteps (init_good input stages)
  have hlen : nodes'.length = stages.length := by
    rw [stepsC_len hs]; simp [initNodes]
  rcases progress nodes' caps input true s' got' (by rw [hlen]; exact hl) hc hg with hq | hstep
  · exact .inr (C13_complete input stages s' nodes' got' hs.toSteps (quiet_terminal nodes' _ _ _ hq))
  · exact .inl hstep

end Net

namespace Net
variable {M : Type}

/-! ### termination: every schedule is finite -/

/-- remaining work, measured against the *final* output `UP` of the upstream neighbour -/
def work : List M → Nat → List (Node M) → List M → Nat
  | UP, s, [], got => (UP.length - s) + (UP.length - got.length)
  | UP, s, n :: rest, got =>
    (UP.length - s) + (UP.length - n.consumed.length) + (if n.ended then 0 else 1) + work (n.st.full UP) n.sent rest got

theorem pre_len {a b : List M} (h : Pre a b) : a.length ≤ b.length := by
  obtain ⟨t, rfl⟩ := h; simp

/-- every action strictly decreases the remaining work -/
theorem step_work {up : List M} {e : Bool} {s : Nat} {nodes : List (Node M)} {got : List M}
    {s' : Nat} {nodes' : List (Node M)} {got' : List M}
    (hs : Step up e s nodes got s' nodes' got') :
    ∀ (UP : List M), Pre up UP → (e = true → up = UP) → Good up e s nodes got →
      work UP s' nodes' got' < work UP s nodes got := by
  induction hs with
  | push up e s nodes got h =>
    intro UP hp _ _
    have := pre_len hp
    cases nodes with
    | nil => simp only [work]; omega
    | cons n rest => simp only [work]; omega
  | consRecv up e s got h hs =>
    intro UP hp _ _
    have := pre_len hp
    simp only [work, List.length_append, List.length_singleton]; omega
  | headRecv up e s n rest got h hs hidle =>
    intro UP hp _ _
    have := pre_len hp
    simp only [work, List.length_append, List.length_singleton]; omega
  | headEnd up s n rest got hs hc hne hidle =>
    intro UP _ _ _
    simp only [work, hne]; simp
  | deeper up e s n rest got s' rest' got' h ih =>
    intro UP hp he hg
    obtain ⟨_, _, h3, h4, h5⟩ := hg
    have hcp : Pre n.consumed UP := by rw [h3]; exact (Pre.take up _).trans hp
    have hce : n.ended = true → n.consumed = UP := by
      intro hn; obtain ⟨e1, e2⟩ := h4 hn; rw [e2]; exact he e1
    have hpp : Pre n.produced (n.st.full UP) := produced_pre n.st n.consumed UP n.ended hcp hce
    have hpe : n.ended = true → n.produced = n.st.full UP := by
      intro hn
      unfold Node.produced Stage.full
      rw [hn, hce hn]
    have := ih (n.st.full UP) hpp hpe h5
    simp only [work]; omega

/-- schedules with their length -/
inductive StepsN : Nat → List M → Bool → Nat → List (Node M) → List M → Nat → List (Node M) → List M → Prop
  | refl (up e s nodes got) : StepsN 0 up e s nodes got s nodes got
  | cons {k up e s nodes got s1 nodes1 got1 s2 nodes2 got2}
      (h1 : Step up e s nodes got s1 nodes1 got1) (h2 : StepsN k up e s1 nodes1 got1 s2 nodes2 got2) :
      StepsN (k + 1) up e s nodes got s2 nodes2 got2

theorem stepsN_bound {k : Nat} {up : List M} {e : Bool} {s : Nat} {nodes : List (Node M)} {got : List M}
    {s' : Nat} {nodes' : List (Node M)} {got' : List M}
    (hs : StepsN k up e s nodes got s' nodes' got') (UP : List M) (hp : Pre up UP) (he : e = true → up = UP)
    (hg : Good up e s nodes got) : k + work UP s' nodes' got' ≤ work UP s nodes got := by
  induction hs with
  | refl => omega
  | cons h1 _ ih =>
    have hd := step_work h1 UP hp he hg
    have := ih hp he (step_good h1 hg)
    omega

/-- C13 termination (no consumer loss): every schedule from the initial state is finite — its length is bounded by the
    initial amount of work, which depends only on the input and the stage functions (not on capacities or scheduling);
    together with `C13_no_deadlock`: every maximal capacity-respecting run ends, and ends with the sequential result -/
theorem C13_terminates (input : List M) (stages : List (Stage M)) (k : Nat) (s' : Nat) (nodes' : List (Node M)) (got' : List M)
    (hs : StepsN k input true 0 (initNodes stages) [] s' nodes' got') :
    k ≤ work input 0 (initNodes stages) [] := by
  have := stepsN_bound hs input (Pre.refl _) (fun _ => rfl) (init_good input stages)
  omega

end Net
