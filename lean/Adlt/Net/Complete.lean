import Adlt.Net.Model
/-! C13: a run that has come to rest with every stage finished has delivered exactly the sequential result. -/
namespace Net
variable {M : Type}

/-- everything that was produced upstream has been sent, every node has ended and sent everything, and the
    consumer has taken everything that was sent to it -/
def Terminal : (upLen : Nat) → (upSent : Nat) → List (Node M) → (got : List M) → Prop
  | upLen, upSent, [], got => upSent = upLen ∧ got.length = upSent
  | upLen, upSent, n :: rest, got =>
    upSent = upLen ∧ n.ended = true ∧ Terminal n.produced.length n.sent rest got

theorem good_complete (nodes : List (Node M)) (up : List M) (upSent : Nat) (got : List M)
    (hg : Good up true upSent nodes got) (ht : Terminal up.length upSent nodes got) :
    got = pipe (nodes.map (·.st)) up := by
  induction nodes generalizing up upSent with
  | nil =>
    obtain ⟨_, _, h3⟩ := hg
    obtain ⟨t1, t2⟩ := ht
    simp only [List.map_nil, pipe, List.foldl_nil]
    rw [h3, t2, t1]; simp
  | cons n rest ih =>
    obtain ⟨_, _, _, h4, h5⟩ := hg
    obtain ⟨_, te, tr⟩ := ht
    obtain ⟨_, hc⟩ := h4 te
    simp only [List.map_cons, pipe, List.foldl_cons]
    have hp : n.produced = n.st.full up := by
      unfold Node.produced Stage.full; rw [te, hc]
    rw [te] at h5
    have := ih n.produced n.sent h5 tr
    rw [this, hp]; rfl

/-- C13 completeness: whatever the channel capacities and the interleaving were, once the pipeline has come to
    rest (input fully sent, every stage ended and drained, consumer caught up) the consumer holds exactly the
    sequential composition applied to the input — the same sequence as with unbounded channels -/
theorem C13_complete (input : List M) (stages : List (Stage M)) (s' : Nat) (nodes' : List (Node M)) (got' : List M)
    (hs : Steps input true 0 (initNodes stages) [] s' nodes' got')
    (ht : Terminal input.length s' nodes' got') :
    got' = pipe stages input := by
  have hg := steps_good hs (init_good input stages)
  have hst := steps_stages hs
  have := good_complete nodes' input s' got' hg ht
  rw [hst] at this
  have hm : (initNodes stages).map (·.st) = stages := by
    simp [initNodes, List.map_map, Function.comp_def]
  rwa [hm] at this

end Net
