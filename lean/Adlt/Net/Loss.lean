import Adlt.Net.Live
/-! C13, consumer loss on the abstract network. Every element of the pipeline - the source, each stage, the consumer - can
    be *gone*: the consumer may leave at any moment; a sender whose receiver is gone gets an error from its next send
    (also one that was waiting for room) and is gone itself. Nothing else changes.

    Shown: in every reachable state either an action is enabled or every stage thread has terminated (ended normally with
    everything sent, or stopped by a failed send) and the source has stopped; and every schedule is finite. -/
namespace Net
variable {M : Type}

/-- is the first element downstream (a stage, or the consumer) gone -/
def downGone : List (Node M × Bool) → Bool → Bool
  | [], cg => cg
  | (_, g) :: _, _ => g

def proj (l : List (Node M × Bool)) : List (Node M) := l.map (·.1)

/-- `StepL caps up e s ug nodes got cg  s' ug' nodes' got' cg'`: `ug` = the upstream neighbour is gone, each node carries
    its own flag, `cg` = the consumer is gone -/
inductive StepL : List Nat → List M → Bool → Nat → Bool → List (Node M × Bool) → List M → Bool →
    Nat → Bool → List (Node M × Bool) → List M → Bool → Prop
  | push (c caps up e s nodes got cg) (h : s < up.length) (hd : downGone nodes cg = false)
      (hroom : s - takenLen (proj nodes) got < c) :
      StepL (c :: caps) up e s false nodes got cg (s + 1) false nodes got cg
  | pushFail (caps up e s nodes got cg) (h : s < up.length) (hd : downGone nodes cg = true) :
      StepL caps up e s false nodes got cg s true nodes got cg
  | consRecv (caps up e s ug got) (h : got.length < s) (hs : s ≤ up.length) :
      StepL caps up e s ug [] got false s ug [] (got ++ [up[got.length]'(Nat.lt_of_lt_of_le h hs)]) false
  | consLeave (caps up e s ug got) : StepL caps up e s ug [] got false s ug [] got true
  | headRecv (caps up e s ug) (n : Node M) (rest got cg) (h : n.consumed.length < s) (hs : s ≤ up.length)
      (hidle : n.sent = n.produced.length) :
      StepL caps up e s ug ((n, false) :: rest) got cg s ug
        (({ n with consumed := n.consumed ++ [up[n.consumed.length]'(Nat.lt_of_lt_of_le h hs)] }, false) :: rest) got cg
  | headEnd (caps up s ug) (n : Node M) (rest got cg) (hs : s = up.length) (hc : n.consumed.length = up.length)
      (hne : n.ended = false) (hidle : n.sent = n.produced.length) :
      StepL caps up true s ug ((n, false) :: rest) got cg s ug (({ n with ended := true }, false) :: rest) got cg
  | deeper (c caps up e s ug) (n : Node M) (g : Bool) (rest got cg s' g' rest' got' cg')
      (h : StepL caps n.produced n.ended n.sent g rest got cg s' g' rest' got' cg') :
      StepL (c :: caps) up e s ug ((n, g) :: rest) got cg s ug (({ n with sent := s' }, g') :: rest') got' cg'

def b01 (x : Bool) : Nat := if x then 0 else 1

/-- how many elements (source, stages, consumer) are not gone -/
def alive : Bool → List (Node M × Bool) → Bool → Nat
  | ug, [], cg => b01 ug + b01 cg
  | ug, (_, g) :: rest, cg => b01 ug + alive g rest cg

/-- a lossy step is a step of the plain network with nobody leaving, or exactly one element leaves and nothing else changes -/
theorem stepL_sim {caps : List Nat} {up : List M} {e : Bool} {s : Nat} {ug : Bool} {nodes : List (Node M × Bool)}
    {got : List M} {cg : Bool} {s' : Nat} {ug' : Bool} {nodes' : List (Node M × Bool)} {got' : List M} {cg' : Bool}
    (h : StepL caps up e s ug nodes got cg s' ug' nodes' got' cg') :
    (Step up e s (proj nodes) got s' (proj nodes') got' ∧ alive ug' nodes' cg' = alive ug nodes cg) ∨
    (s' = s ∧ proj nodes' = proj nodes ∧ got' = got ∧ alive ug' nodes' cg' + 1 = alive ug nodes cg) := by
  induction h with
  | push c caps up e s nodes got cg h hd hroom => exact .inl ⟨.push up e s _ got h, rfl⟩
  | pushFail caps up e s nodes got cg h hd =>
    refine .inr ⟨rfl, rfl, rfl, ?_⟩
    cases nodes with
    | nil => simp [alive, b01]; omega
    | cons p rest => obtain ⟨n, g⟩ := p; simp [alive, b01]; omega
  | consRecv caps up e s ug got h hs => exact .inl ⟨.consRecv up e s got h hs, rfl⟩
  | consLeave caps up e s ug got => exact .inr ⟨rfl, rfl, rfl, by simp [alive, b01]⟩
  | headRecv caps up e s ug n rest got cg h hs hidle => exact .inl ⟨.headRecv up e s n (proj rest) got h hs hidle, rfl⟩
  | headEnd caps up s ug n rest got cg hs hc hne hidle => exact .inl ⟨.headEnd up s n (proj rest) got hs hc hne hidle, rfl⟩
  | deeper c caps up e s ug n g rest got cg s' g' rest' got' cg' _ ih =>
    rcases ih with ⟨hst, ha⟩ | ⟨h1, h2, h3, ha⟩
    · exact .inl ⟨.deeper up e s n (proj rest) got s' (proj rest') got' hst, by simp only [alive]; omega⟩
    · refine .inr ⟨rfl, ?_, h3, by simp only [alive]; omega⟩
      subst h1
      show ({ n with sent := n.sent } : Node M) :: proj rest' = n :: proj rest
      rw [h2]

/-- a sender is only ever gone when its receiver is: gone elements form a suffix of the pipeline -/
def InvL : Bool → List (Node M × Bool) → Bool → Prop
  | ug, [], cg => ug = true → cg = true
  | ug, (_, g) :: rest, cg => (ug = true → g = true) ∧ InvL g rest cg

theorem stepL_ug_mono {caps : List Nat} {up : List M} {e : Bool} {s : Nat} {ug : Bool} {nodes : List (Node M × Bool)}
    {got : List M} {cg : Bool} {s' : Nat} {ug' : Bool} {nodes' : List (Node M × Bool)} {got' : List M} {cg' : Bool}
    (h : StepL caps up e s ug nodes got cg s' ug' nodes' got' cg') (hu : ug = true) : ug' = true := by
  induction h with
  | push => cases hu
  | pushFail => rfl
  | consRecv => exact hu
  | consLeave => exact hu
  | headRecv => exact hu
  | headEnd => exact hu
  | deeper => exact hu

theorem stepL_inv {caps : List Nat} {up : List M} {e : Bool} {s : Nat} {ug : Bool} {nodes : List (Node M × Bool)}
    {got : List M} {cg : Bool} {s' : Nat} {ug' : Bool} {nodes' : List (Node M × Bool)} {got' : List M} {cg' : Bool}
    (h : StepL caps up e s ug nodes got cg s' ug' nodes' got' cg') (hi : InvL ug nodes cg) : InvL ug' nodes' cg' := by
  induction h with
  | push => exact hi
  | pushFail caps up e s nodes got cg h hd =>
    cases nodes with
    | nil => exact fun _ => hd
    | cons p rest => obtain ⟨n, g⟩ := p; exact ⟨fun _ => hd, hi.2⟩
  | consRecv => exact hi
  | consLeave => exact fun _ => rfl
  | headRecv => exact hi
  | headEnd => exact hi
  | deeper c caps up e s ug n g rest got cg s' g' rest' got' cg' hstep ih =>
    refine ⟨?_, ih hi.2⟩
    intro hu
    -- a gone sender does not act: its flag stays
    exact stepL_ug_mono hstep (hi.1 hu)

theorem invL_all_gone (nodes : List (Node M × Bool)) (cg : Bool) (h : InvL true nodes cg) :
    (∀ x ∈ nodes, x.2 = true) ∧ cg = true := by
  induction nodes with
  | nil => exact ⟨(by intro x hx; cases hx), h rfl⟩
  | cons p rest ih =>
    obtain ⟨n, g⟩ := p
    obtain ⟨h1, h2⟩ := h
    have hg : g = true := h1 rfl
    subst hg
    obtain ⟨i1, i2⟩ := ih h2
    refine ⟨?_, i2⟩
    intro x hx
    rcases List.mem_cons.mp hx with rfl | hx
    · rfl
    · exact i1 x hx

/-- nothing left to do, given what the upstream neighbour has produced so far - or the element concerned is gone -/
def QuietL : Nat → Bool → Nat → Bool → List (Node M × Bool) → List M → Bool → Prop
  | upLen, _, s, ug, [], got, cg => (ug = true ∨ s = upLen) ∧ (cg = true ∨ got.length = s)
  | upLen, e, s, ug, (n, g) :: rest, got, cg =>
    (ug = true ∨ s = upLen) ∧ (g = true ∨ (n.consumed.length = s ∧ (e = true → n.ended = true))) ∧
    QuietL n.produced.length n.ended n.sent g rest got cg

theorem quietL_sent (upLen : Nat) (e : Bool) (s : Nat) (nodes : List (Node M × Bool)) (got : List M) (cg : Bool)
    (h : QuietL upLen e s false nodes got cg) : s = upLen := by
  cases nodes with
  | nil => rcases h.1 with h | h; cases h; exact h
  | cons p rest => obtain ⟨n, g⟩ := p; rcases h.1 with h | h; cases h; exact h

/-- **never blocked**: with one capacity ≥ 1 per channel, in every state that satisfies the invariants either an action
    is enabled or the state is quiet -/
theorem progressL (nodes : List (Node M × Bool)) : ∀ (caps : List Nat) (up : List M) (e : Bool) (s : Nat) (ug : Bool)
    (got : List M) (cg : Bool),
    caps.length = nodes.length + 1 → (∀ c ∈ caps, 1 ≤ c) → Good up e s (proj nodes) got → InvL ug nodes cg →
    QuietL up.length e s ug nodes got cg ∨
      ∃ s' ug' nodes' got' cg', StepL caps up e s ug nodes got cg s' ug' nodes' got' cg' := by
  induction nodes with
  | nil =>
    intro caps up e s ug got cg hl hc hg hi
    obtain ⟨h1, h2, _⟩ := hg
    cases caps with
    | nil => simp at hl
    | cons c caps' =>
      have hc1 : 1 ≤ c := hc c (by simp)
      cases cg with
      | true =>
        cases ug with
        | true => exact .inl ⟨.inl rfl, .inl rfl⟩
        | false =>
          by_cases hp : s < up.length
          · exact .inr ⟨_, _, _, _, _, .pushFail _ up e s [] got true hp rfl⟩
          · exact .inl ⟨.inr (by omega), .inl rfl⟩
      | false =>
        have hug : ug = false := by
          cases ug with
          | false => rfl
          | true => have := hi rfl; cases this
        subst hug
        by_cases hr : got.length < s
        · exact .inr ⟨_, _, _, _, _, .consRecv _ up e s false got hr h1⟩
        · have hgs : got.length = s := by omega
          by_cases hp : s < up.length
          · refine .inr ⟨_, _, _, _, _, .push c caps' up e s [] got false hp rfl ?_⟩
            simp only [proj, List.map_nil, takenLen]; omega
          · exact .inl ⟨.inr (by omega), .inr hgs⟩
  | cons p rest ih =>
    obtain ⟨n, g⟩ := p
    intro caps up e s ug got cg hl hc hg hi
    have hg' : Good up e s (n :: proj rest) got := hg
    obtain ⟨h1, h2, h3, h4, h5⟩ := hg'
    obtain ⟨i1, i2⟩ := hi
    cases caps with
    | nil => simp at hl
    | cons c caps' =>
      have hc1 : 1 ≤ c := hc c (by simp)
      have hl' : caps'.length = rest.length + 1 := by simpa using hl
      have hc' : ∀ x ∈ caps', 1 ≤ x := fun x hx => hc x (by simp [hx])
      rcases ih caps' n.produced n.ended n.sent g got cg hl' hc' h5 i2 with hq | ⟨s', g', rest', got', cg', hstep⟩
      · cases g with
        | true =>
          cases ug with
          | true => exact .inl ⟨.inl rfl, .inl rfl, hq⟩
          | false =>
            by_cases hp : s < up.length
            · exact .inr ⟨_, _, _, _, _, .pushFail _ up e s ((n, true) :: rest) got cg hp rfl⟩
            · exact .inl ⟨.inr (by omega), .inl rfl, hq⟩
        | false =>
          have hug : ug = false := by
            cases ug with
            | false => rfl
            | true => have := i1 rfl; cases this
          subst hug
          have hidle : n.sent = n.produced.length := quietL_sent _ _ _ _ _ _ hq
          by_cases hr : n.consumed.length < s
          · exact .inr ⟨_, _, _, _, _, .headRecv _ up e s false n rest got cg hr h1 hidle⟩
          · have hcs : n.consumed.length = s := by omega
            by_cases hp : s < up.length
            · refine .inr ⟨_, _, _, _, _, .push c caps' up e s ((n, false) :: rest) got cg hp rfl ?_⟩
              show s - n.consumed.length < c
              omega
            · have hsu : s = up.length := by omega
              cases hne : n.ended with
              | true =>
                refine .inl ⟨.inr hsu, .inr ⟨hcs, fun _ => hne⟩, ?_⟩
                rw [hne] at hq; rw [hne]; exact hq
              | false =>
                cases e with
                | true =>
                  exact .inr ⟨_, _, _, _, _, .headEnd _ up s false n rest got cg hsu (by omega) hne hidle⟩
                | false =>
                  refine .inl ⟨.inr hsu, .inr ⟨hcs, ?_⟩, hq⟩
                  intro h; cases h
      · exact .inr ⟨_, _, _, _, _, .deeper c caps' up e s ug n g rest got cg s' g' rest' got' cg' hstep⟩

/-- every stage thread has terminated: gone, or ended with everything sent -/
def AllDone (nodes : List (Node M × Bool)) : Prop :=
  ∀ x ∈ nodes, x.2 = true ∨ (x.1.ended = true ∧ x.1.sent = x.1.produced.length)

theorem quietL_done (nodes : List (Node M × Bool)) : ∀ (upLen s : Nat) (ug : Bool) (got : List M) (cg : Bool),
    QuietL upLen true s ug nodes got cg → InvL ug nodes cg → AllDone nodes := by
  induction nodes with
  | nil => intro _ _ _ _ _ _ _ x hx; cases hx
  | cons p rest ih =>
    obtain ⟨n, g⟩ := p
    intro upLen s ug got cg hq hi
    obtain ⟨_, q2, q3⟩ := hq
    obtain ⟨_, i2⟩ := hi
    intro x hx
    cases g with
    | true =>
      obtain ⟨a1, _⟩ := invL_all_gone rest cg i2
      rcases List.mem_cons.mp hx with rfl | hx
      · exact .inl rfl
      · exact .inl (a1 x hx)
    | false =>
      have he : n.ended = true := by
        rcases q2 with h | h
        · cases h
        · exact h.2 rfl
      rw [he] at q3
      rcases List.mem_cons.mp hx with rfl | hx
      · exact .inr ⟨he, quietL_sent _ _ _ _ _ _ q3⟩
      · exact ih _ _ _ _ _ q3 i2 x hx

/-! ### schedules -/

inductive StepsL : Nat → List Nat → List M → Bool → Nat → Bool → List (Node M × Bool) → List M → Bool →
    Nat → Bool → List (Node M × Bool) → List M → Bool → Prop
  | refl (caps up e s ug nodes got cg) : StepsL 0 caps up e s ug nodes got cg s ug nodes got cg
  | cons {k caps up e s ug nodes got cg s1 ug1 nodes1 got1 cg1 s2 ug2 nodes2 got2 cg2}
      (h1 : StepL caps up e s ug nodes got cg s1 ug1 nodes1 got1 cg1)
      (h2 : StepsL k caps up e s1 ug1 nodes1 got1 cg1 s2 ug2 nodes2 got2 cg2) :
      StepsL (k + 1) caps up e s ug nodes got cg s2 ug2 nodes2 got2 cg2

theorem stepL_good {caps : List Nat} {up : List M} {e : Bool} {s : Nat} {ug : Bool} {nodes : List (Node M × Bool)}
    {got : List M} {cg : Bool} {s' : Nat} {ug' : Bool} {nodes' : List (Node M × Bool)} {got' : List M} {cg' : Bool}
    (h : StepL caps up e s ug nodes got cg s' ug' nodes' got' cg') (hg : Good up e s (proj nodes) got) :
    Good up e s' (proj nodes') got' := by
  rcases stepL_sim h with ⟨hst, _⟩ | ⟨h1, h2, h3, _⟩
  · exact step_good hst hg
  · rw [h1, h2, h3]; exact hg

theorem stepL_len {caps : List Nat} {up : List M} {e : Bool} {s : Nat} {ug : Bool} {nodes : List (Node M × Bool)}
    {got : List M} {cg : Bool} {s' : Nat} {ug' : Bool} {nodes' : List (Node M × Bool)} {got' : List M} {cg' : Bool}
    (h : StepL caps up e s ug nodes got cg s' ug' nodes' got' cg') : nodes'.length = nodes.length := by
  induction h with
  | push => rfl
  | pushFail => rfl
  | consRecv => rfl
  | consLeave => rfl
  | headRecv => rfl
  | headEnd => rfl
  | deeper c caps up e s ug n g rest got cg s' g' rest' got' cg' _ ih => simp [ih]

/-- what every schedule keeps: the data invariant, the suffix shape of the gone elements, the number of stages, and a
    bound on its own length -/
theorem stepsL_facts {k : Nat} {caps : List Nat} {up : List M} {e : Bool} {s : Nat} {ug : Bool} {nodes : List (Node M × Bool)}
    {got : List M} {cg : Bool} {s' : Nat} {ug' : Bool} {nodes' : List (Node M × Bool)} {got' : List M} {cg' : Bool}
    (hs : StepsL k caps up e s ug nodes got cg s' ug' nodes' got' cg') (UP : List M) (hp : Pre up UP) (he : e = true → up = UP)
    (hg : Good up e s (proj nodes) got) (hi : InvL ug nodes cg) :
    Good up e s' (proj nodes') got' ∧ InvL ug' nodes' cg' ∧ nodes'.length = nodes.length ∧
    k + (work UP s' (proj nodes') got' + alive ug' nodes' cg') ≤ work UP s (proj nodes) got + alive ug nodes cg := by
  induction hs with
  | refl => exact ⟨hg, hi, rfl, by omega⟩
  | cons h1 _ ih =>
    have hg1 := stepL_good h1 hg
    have hi1 := stepL_inv h1 hi
    obtain ⟨a, b, c, d⟩ := ih hp he hg1 hi1
    refine ⟨a, b, by rw [c, stepL_len h1], ?_⟩
    rcases stepL_sim h1 with ⟨hst, ha⟩ | ⟨e1, e2, e3, ha⟩
    · have := step_work hst UP hp he hg
      omega
    · rw [e1, e2, e3] at d
      omega

def initL (stages : List (Stage M)) : List (Node M × Bool) := (initNodes stages).map fun n => (n, false)

theorem proj_initL (stages : List (Stage M)) : proj (initL stages) = initNodes stages := by
  simp [proj, initL, List.map_map, Function.comp_def]

theorem alive_init (l : List (Node M)) : alive false (l.map fun n => (n, false)) false = l.length + 2 := by
  induction l with
  | nil => rfl
  | cons n t ih => simp only [List.map_cons, alive, List.length_cons, ih, b01]; simp; omega

theorem initL_inv (l : List (Node M)) : InvL false (l.map fun n => (n, false)) false := by
  induction l with
  | nil => intro h; cases h
  | cons n t ih => exact ⟨(fun h => by cases h), ih⟩

/-- **C13, consumer loss, no blocking**: from the initial state, under every schedule that respects the capacities (each ≥ 1),
    with the consumer leaving at any moment or never: the pipeline is never stuck - either another action is enabled, or
    every stage thread has terminated (ended with everything sent, or stopped by a failed send) and the source has
    stopped or sent everything -/
theorem C13_loss_never_blocks (input : List M) (stages : List (Stage M)) (caps : List Nat)
    (hl : caps.length = stages.length + 1) (hc : ∀ c ∈ caps, 1 ≤ c)
    (k s' : Nat) (ug' : Bool) (nodes' : List (Node M × Bool)) (got' : List M) (cg' : Bool)
    (hs : StepsL k caps input true 0 false (initL stages) [] false s' ug' nodes' got' cg') :
    (∃ s'' ug'' nodes'' got'' cg'', StepL caps input true s' ug' nodes' got' cg' s'' ug'' nodes'' got'' cg'') ∨
    (AllDone nodes' ∧ (ug' = true ∨ s' = input.length)) := by
  have hg0 : Good input true 0 (proj (initL stages)) [] := by rw [proj_initL]; exact init_good input stages
  obtain ⟨hg, hi, hlen, _⟩ := stepsL_facts hs input (Pre.refl _) (fun _ => rfl) hg0 (initL_inv _)
  have hlen' : nodes'.length = stages.length := by rw [hlen]; simp [initL, initNodes]
  rcases progressL nodes' caps input true s' ug' got' cg' (by rw [hlen']; exact hl) hc hg hi with hq | hstep
  · refine .inr ⟨quietL_done nodes' _ _ _ _ _ hq hi, ?_⟩
    cases nodes' with
    | nil => exact hq.1
    | cons p rest => obtain ⟨n, g⟩ := p; exact hq.1
  · exact .inl hstep

/-- **C13, consumer loss, termination**: every schedule - with or without consumer loss - is finite: its length is bounded
    by the initial amount of work plus the number of elements that can leave -/
theorem C13_loss_terminates (input : List M) (stages : List (Stage M)) (caps : List Nat)
    (k s' : Nat) (ug' : Bool) (nodes' : List (Node M × Bool)) (got' : List M) (cg' : Bool)
    (hs : StepsL k caps input true 0 false (initL stages) [] false s' ug' nodes' got' cg') :
    k ≤ work input 0 (initNodes stages) [] + (stages.length + 2) := by
  have hg0 : Good input true 0 (proj (initL stages)) [] := by rw [proj_initL]; exact init_good input stages
  obtain ⟨_, _, _, hb⟩ := stepsL_facts hs input (Pre.refl _) (fun _ => rfl) hg0 (initL_inv _)
  rw [proj_initL] at hb
  have ha : alive false (initL stages) false = stages.length + 2 := by
    unfold initL; rw [alive_init]; simp [initNodes]
  omega

end Net
