/-! Bounded-channel pipeline (C13): deterministic stream transducers connected by FIFO channels; any interleaving of
    sends, receives and end-of-input notifications. -/
namespace Net

variable {M : Type}

structure Stage (M : Type) where
  inc : List M → M → List M      -- outputs caused by one more input after history
  flush : List M → List M        -- outputs at end of input

/-- outputs produced while consuming `xs` after history `h` -/
def Stage.incAll (st : Stage M) : List M → List M → List M
  | _, [] => []
  | h, x :: xs => st.inc h x ++ st.incAll (h ++ [x]) xs

def Stage.produced (st : Stage M) (consumed : List M) (ended : Bool) : List M :=
  st.incAll [] consumed ++ (if ended then st.flush consumed else [])

def Stage.full (st : Stage M) (xs : List M) : List M := st.produced xs true

def pipe (stages : List (Stage M)) (xs : List M) : List M := stages.foldl (fun acc st => st.full acc) xs

theorem incAll_append (st : Stage M) (h xs ys : List M) :
    st.incAll h (xs ++ ys) = st.incAll h xs ++ st.incAll (h ++ xs) ys := by
  induction xs generalizing h with
  | nil => simp [Stage.incAll]
  | cons x t ih => simp [Stage.incAll, ih, List.append_assoc]

/-- prefix relation -/
def Pre (a b : List M) : Prop := ∃ t, b = a ++ t

theorem Pre.refl (a : List M) : Pre a a := ⟨[], by simp⟩
theorem Pre.trans {a b c : List M} (h1 : Pre a b) (h2 : Pre b c) : Pre a c := by
  obtain ⟨t1, rfl⟩ := h1; obtain ⟨t2, rfl⟩ := h2; exact ⟨t1 ++ t2, by simp⟩
theorem Pre.take (a : List M) (k : Nat) : Pre (a.take k) a := ⟨a.drop k, by simp⟩

/-- monotonicity: a stage that has consumed a prefix (and may or may not have ended, but if it ended it
    consumed everything) has produced a prefix of its full output -/
theorem produced_pre (st : Stage M) (c up : List M) (e : Bool) (hc : Pre c up) (he : e = true → c = up) :
    Pre (st.produced c e) (st.full up) := by
  obtain ⟨t, rfl⟩ := hc
  cases e with
  | true =>
    have := he rfl
    have ht : t = [] := by simpa using this
    subst ht; simp [Stage.full]; exact Pre.refl _
  | false =>
    simp only [Stage.produced, Stage.full, incAll_append]
    exact ⟨st.incAll ([] ++ c) t ++ st.flush (c ++ t), by simp⟩

/-- one node of the running pipeline -/
structure Node (M : Type) where
  st : Stage M
  consumed : List M := []
  ended : Bool := false
  sent : Nat := 0            -- how many of its produced items it has pushed downstream

def Node.produced (n : Node M) : List M := n.st.produced n.consumed n.ended

/-- `Good up upEnded upSent nodes got`: every node (and finally the consumer) has consumed exactly a prefix of
    what its upstream neighbour has *sent*, which is a prefix of what that neighbour produced -/
def Good : (up : List M) → (upEnded : Bool) → (upSent : Nat) → List (Node M) → (got : List M) → Prop
  | up, _, upSent, [], got => upSent ≤ up.length ∧ got.length ≤ upSent ∧ got = up.take got.length
  | up, upEnded, upSent, n :: rest, got =>
    upSent ≤ up.length ∧ n.consumed.length ≤ upSent ∧ n.consumed = up.take n.consumed.length
    ∧ (n.ended = true → upEnded = true ∧ n.consumed = up)
    ∧ Good n.produced n.ended n.sent rest got

/-- Safety: whatever the consumer has received is a prefix of the sequential pipeline result. -/
theorem good_safe (nodes : List (Node M)) (up UP : List M) (upEnded : Bool) (upSent : Nat) (got : List M)
    (hup : Pre up UP) (hupE : upEnded = true → up = UP)
    (hg : Good up upEnded upSent nodes got) :
    Pre got (pipe (nodes.map (·.st)) UP) := by
  induction nodes generalizing up UP upEnded upSent with
  | nil =>
    obtain ⟨_, _, h3⟩ := hg
    simp only [List.map_nil, pipe, List.foldl_nil]
    rw [h3]; exact (Pre.take up _).trans hup
  | cons n rest ih =>
    obtain ⟨_, _, h3, h4, h5⟩ := hg
    simp only [List.map_cons, pipe, List.foldl_cons]
    apply ih n.produced (n.st.full UP) n.ended n.sent
    · apply produced_pre
      · rw [h3]; exact (Pre.take up _).trans hup
      · intro he
        obtain ⟨e1, e2⟩ := h4 he
        rw [e2]; exact hupE e1
    · intro he
      obtain ⟨e1, e2⟩ := h4 he
      have : up = UP := hupE e1
      unfold Node.produced Stage.full
      rw [he, e2, this]
    · exact h5

/-! ### steps -/

/-- `Step up upEnded upSent nodes got upSent' nodes' got'` — one atomic action somewhere in the pipeline
    fed by a neighbour that has produced `up` (and `upEnded`) and pushed `upSent` items so far.
    Channel capacities only restrict *when* `push` is enabled, so they do not appear in the safety proof. -/
inductive Step : List M → Bool → Nat → List (Node M) → List M → Nat → List (Node M) → List M → Prop
  | push (up e s nodes got) (h : s < up.length) : Step up e s nodes got (s + 1) nodes got
  | consRecv (up e s got) (h : got.length < s) (hs : s ≤ up.length) :
      Step up e s [] got s [] (got ++ [up[got.length]'(Nat.lt_of_lt_of_le h hs)])
  | headRecv (up e s) (n : Node M) (rest got) (h : n.consumed.length < s) (hs : s ≤ up.length)
      (hidle : n.sent = n.produced.length) :
      Step up e s (n :: rest) got s
        ({ n with consumed := n.consumed ++ [up[n.consumed.length]'(Nat.lt_of_lt_of_le h hs)] } :: rest) got
  | headEnd (up s) (n : Node M) (rest got) (hs : s = up.length) (hc : n.consumed.length = up.length)
      (hne : n.ended = false) (hidle : n.sent = n.produced.length) :
      Step up true s (n :: rest) got s ({ n with ended := true } :: rest) got
  | deeper (up e s) (n : Node M) (rest got s' rest' got')
      (h : Step n.produced n.ended n.sent rest got s' rest' got') :
      Step up e s (n :: rest) got s ({ n with sent := s' } :: rest') got'

theorem take_succ_eq (l : List M) (k : Nat) (h : k < l.length) : l.take (k + 1) = l.take k ++ [l[k]] := by
  rw [List.take_add_one]; simp [List.getElem?_eq_getElem h]

/-- `Good` survives growth of the upstream output as long as the upstream had not ended -/
theorem good_extend (up t : List M) (e' : Bool) (s : Nat) (nodes : List (Node M)) (got : List M)
    (hg : Good up false s nodes got) : Good (up ++ t) e' s nodes got := by
  cases nodes with
  | nil =>
    obtain ⟨h1, h2, h3⟩ := hg
    refine ⟨by simp; omega, h2, ?_⟩
    rw [h3, List.take_append_of_le_length (by simp; omega)]
    simp
  | cons n rest =>
    obtain ⟨h1, h2, h3, h4, h5⟩ := hg
    refine ⟨by simp; omega, h2, ?_, ?_, h5⟩
    · rw [List.take_append_of_le_length (by omega)]; exact h3
    · intro he; have := (h4 he).1; cases this

theorem produced_recv (n : Node M) (x : M) (hne : n.ended = false) :
    ({ n with consumed := n.consumed ++ [x] } : Node M).produced = n.produced ++ n.st.inc n.consumed x := by
  simp [Node.produced, Stage.produced, hne, incAll_append, Stage.incAll]

theorem produced_end (n : Node M) (hne : n.ended = false) :
    ({ n with ended := true } : Node M).produced = n.produced ++ n.st.flush n.consumed := by
  simp [Node.produced, Stage.produced, hne]

/-- every step preserves the invariant -/
theorem step_good {up : List M} {e : Bool} {s : Nat} {nodes : List (Node M)} {got : List M}
    {s' : Nat} {nodes' : List (Node M)} {got' : List M}
    (hs : Step up e s nodes got s' nodes' got') (hg : Good up e s nodes got) : Good up e s' nodes' got' := by
  induction hs with
  | push up e s nodes got h =>
    cases nodes with
    | nil => obtain ⟨h1, h2, h3⟩ := hg; exact ⟨h, by omega, h3⟩
    | cons n rest => obtain ⟨h1, h2, h3, h4, h5⟩ := hg; exact ⟨h, by omega, h3, h4, h5⟩
  | consRecv up e s got h hs =>
    obtain ⟨h1, h2, h3⟩ := hg
    refine ⟨h1, by simp; omega, ?_⟩
    have hk : got.length < up.length := Nat.lt_of_lt_of_le h hs
    simp only [List.length_append, List.length_singleton]
    rw [take_succ_eq up got.length hk, ← h3]
  | headRecv up e s n rest got h hs hidle =>
    obtain ⟨h1, h2, h3, h4, h5⟩ := hg
    have hk : n.consumed.length < up.length := Nat.lt_of_lt_of_le h hs
    have hne : n.ended = false := by
      cases he : n.ended with
      | false => rfl
      | true =>
        have := (h4 he).2
        rw [this] at hk; exact absurd hk (Nat.lt_irrefl _)
    refine ⟨h1, by simp; omega, ?_, ?_, ?_⟩
    · simp only [List.length_append, List.length_singleton]
      rw [take_succ_eq up n.consumed.length hk, ← h3]
    · intro he; simp only at he; rw [hne] at he; cases he
    · rw [produced_recv n _ hne]
      simp only
      rw [hne] at h5 ⊢
      exact good_extend _ _ _ _ _ _ h5
  | headEnd up s n rest got hs hc hne hidle =>
    obtain ⟨h1, h2, h3, h4, h5⟩ := hg
    refine ⟨h1, h2, h3, ?_, ?_⟩
    · intro _
      refine ⟨rfl, ?_⟩
      show n.consumed = up
      rw [h3, hc]; simp
    · rw [produced_end n hne]
      simp only
      rw [hne] at h5
      exact good_extend _ _ _ _ _ _ h5
  | deeper up e s n rest got s' rest' got' h ih =>
    obtain ⟨h1, h2, h3, h4, h5⟩ := hg
    exact ⟨h1, h2, h3, h4, ih h5⟩

/-- reflexive-transitive closure: any schedule -/
inductive Steps : List M → Bool → Nat → List (Node M) → List M → Nat → List (Node M) → List M → Prop
  | refl (up e s nodes got) : Steps up e s nodes got s nodes got
  | cons {up e s nodes got s1 nodes1 got1 s2 nodes2 got2}
      (h1 : Step up e s nodes got s1 nodes1 got1) (h2 : Steps up e s1 nodes1 got1 s2 nodes2 got2) :
      Steps up e s nodes got s2 nodes2 got2

theorem steps_good {up : List M} {e : Bool} {s : Nat} {nodes : List (Node M)} {got : List M}
    {s' : Nat} {nodes' : List (Node M)} {got' : List M}
    (hs : Steps up e s nodes got s' nodes' got') (hg : Good up e s nodes got) : Good up e s' nodes' got' := by
  induction hs with
  | refl => exact hg
  | cons h1 _ ih => exact ih (step_good h1 hg)

theorem steps_stages {up : List M} {e : Bool} {s : Nat} {nodes : List (Node M)} {got : List M}
    {s' : Nat} {nodes' : List (Node M)} {got' : List M}
    (hs : Steps up e s nodes got s' nodes' got') : nodes'.map (·.st) = nodes.map (·.st) := by
  have one : ∀ {up : List M} {e s nodes got s' nodes' got'}, Step up e s nodes got s' nodes' got' →
      nodes'.map (·.st) = nodes.map (·.st) := by
    intro up e s nodes got s' nodes' got' h
    induction h with
    | push => rfl
    | consRecv => rfl
    | headRecv => rfl
    | headEnd => rfl
    | deeper up e s n rest got s' rest' got' h ih => simp [ih]
  induction hs with
  | refl => rfl
  | cons h1 _ ih => rw [ih, one h1]

def initNodes (stages : List (Stage M)) : List (Node M) := stages.map fun st => { st := st }

theorem node_init_produced (st : Stage M) : ({ st := st } : Node M).produced = [] := by
  simp [Node.produced, Stage.produced, Stage.incAll]

theorem init_good_empty (l : List (Stage M)) : Good ([] : List M) false 0 (initNodes l) [] := by
  induction l with
  | nil => simp [initNodes, Good]
  | cons a t iht =>
    have h : initNodes (a :: t) = ({ st := a } : Node M) :: initNodes t := rfl
    rw [h]; unfold Good
    refine ⟨Nat.le_refl _, Nat.le_refl _, rfl, ?_, ?_⟩
    · intro he; cases he
    · rw [node_init_produced]; exact iht

theorem init_good (input : List M) (stages : List (Stage M)) : Good input true 0 (initNodes stages) [] := by
  cases stages with
  | nil => simp [initNodes, Good]
  | cons st rest =>
    have h : initNodes (st :: rest) = ({ st := st } : Node M) :: initNodes rest := rfl
    rw [h]; unfold Good
    refine ⟨Nat.zero_le _, Nat.le_refl _, by simp, ?_, ?_⟩
    · intro he; cases he
    · rw [node_init_produced]; exact init_good_empty rest

/-- C13 safety (prototype): for every pipeline of deterministic stages, every channel capacity and
    every interleaving of sends, receives and end-of-input notifications, what the consumer has received
    at any moment is a prefix of the sequential composition applied to the input:
    nothing is dropped, duplicated or reordered. -/
theorem C13_safety (input : List M) (stages : List (Stage M)) (s' : Nat) (nodes' : List (Node M)) (got' : List M)
    (hs : Steps input true 0 (initNodes stages) [] s' nodes' got') :
    Pre got' (pipe stages input) := by
  have hg := steps_good hs (init_good input stages)
  have hst := steps_stages hs
  have := good_safe nodes' input input true s' got' (Pre.refl _) (fun _ => rfl) hg
  rw [hst] at this
  have hm : (initNodes stages).map (·.st) = stages := by
    simp [initNodes, List.map_map, Function.comp_def]
  rwa [hm] at this


end Net
