import Adlt.Lc.Drv
/-! glue for the pipeline area (C13). case: `c0 c1 c2 c3 c4 | producer pacing | consumer pacing | drop sort filterEcu tail | <lc case>`
    obs: `B <seq> | <table> # U <seq> | <table> # term=<0|1> # perr=<1|0|->` (perr: a live producer - `tail` > 0 - got a send error after the consumer had gone)  (B = bounded channels with pacing, U = unbounded reference) -/
namespace Net
open Util Lcm

structure PCase where
  drop : Int
  sort : Bool
  filterEcu : Int
  tail : Int
  restarting : Bool
  caps : List Nat
  ms : List Msg

def parsePCase (s : String) : PCase :=
  match s.splitOn "|" with
  | [cp, _, _, o, m] =>
    let os := (fields o " ").map int!
    { drop := os.getD 0 (-1), sort := os.getD 1 0 == 1, filterEcu := os.getD 2 (-1), tail := os.getD 3 0, restarting := os.getD 4 0 == 1,
      caps := nats cp " ", ms := Lcm.parseCase m.trimAscii.toString }
  | _ => { drop := -1, sort := false, filterEcu := -1, tail := 0, restarting := false, caps := [], ms := [] }

/-- the sequential composition: lifecycle detection, (no plugins), [sort: compared as a set], positive ECU filter -/
def sequential (c : PCase) : String :=
  let s := Lcm.run c.ms
  let out := s.out.reverse.map (·.m)
  let kept := out.filter fun m => c.filterEcu < 0 || (m.ecu : Int) == c.filterEcu
  let ids := firstSeen (kept.map (·.lc))     -- delivery order = index order for the unsorted pipeline
  let seq := kept.map fun m => s!"{m.index}:{canonIdx ids m.lc}"
  let tbl := s.published.map fun (id, l) => s!"{canonIdx ids id},{l.nrMsgs},{l.start},{l.endTime}"
  let tbl := (tbl.toArray.qsort (fun a b => decide (a < b))).toList
  " ".intercalate seq ++ " | " ++ " ".intercalate tbl

def seqPart (s : String) : String := ((s.splitOn " | ").headD "")

def doLine (line : String) : String :=
  let (cs, impl) := match line.splitOn "\t" with
    | [c, i] => (c, i)
    | [c] => (c, "")
    | _ => ("", "")
  let c := parsePCase cs
  let m := sequential c
  -- a live source is stopped only when the lifecycle stage gets to forward a message directly, i.e. when no lifecycle stays
  -- buffered: decided on the model for the first 250 of the 300 tail messages (same construction as in the harness);
  -- streams that keep a lifecycle buffered for good (e.g. a bogus huge timestamp) say nothing about this clause
  let tailMsgs : List Msg :=
    let lastTs := match (c.ms.filter (·.ecu == 0)).getLast? with | some x => x.tsDms | none => 0
    let baseRecv := c.ms.foldl (fun a x => max a x.recv) (match (c.ms.filter (·.ecu == 0)).getLast? with | some x => x.recv | none => 1700000000000000)
    ((List.range 250).filter fun k => !(c.restarting && k % 30 > 25)).map fun k =>
      { index := c.ms.length + k, recv := baseRecv + (k + 1) * 1000000, ecu := 0,
        tsDms := if c.restarting then (min (k % 30) 25) * 10000 else min (lastTs + (k + 1) * 10000) 4294967295,
        hasTs := true, ctrlReq := false }
  -- a restarting source keeps a lifecycle under observation: the detector meets the closed channel when a confirmation releases
  -- queued messages. A failed send travels upstream one stage per message: demanded when, during the first 250 tail messages,
  -- the model delivers more messages than the channels behind the detector hold plus one per stage
  let sBefore := c.ms.foldl Lcm.St.step {}
  let sAfter := tailMsgs.foldl Lcm.St.step sBefore
  let room := ((c.caps.drop 1).foldl (· + ·) 0) + 6
  -- behind the lifecycle stage the sort stage holds a message back for (2 s + the largest recent buffering delay): with every
  -- message of the case at most 100 s behind its calculated time (measured against the final lifecycle starts, an upper bound
  -- for the starts the sort stage saw) it releases - and meets the closed channel - well inside the 250 tail messages
  let delaysSmall : Bool :=
    let sf := sAfter.finish
    sf.out.all fun o => match assocGet o.m.lc sf.published with
      | some l => decide (o.m.recv - min o.m.recv (l.start + o.m.tsUs) ≤ 100000000)
      | none => false
  let live := c.tail > 0 && (if c.restarting then decide (sAfter.out.length ≥ sBefore.out.length + room) else sAfter.bufLcs.isEmpty) &&
    (!c.sort || delaysSmall)
  let mobs := s!"B {m} # U {m} # term=1 # perr={if live then "1" else "-"}"
  let parts := impl.splitOn " # "
  let (b, u, t, pe) := match parts with
    | [b, u, t] => ((b.drop 2).toString, (u.drop 2).toString, t, "perr=-")
    | [b, u, t, pe] => ((b.drop 2).toString, (u.drop 2).toString, t, pe)
    | _ => ("", "", "", "")
  let dropped := c.drop ≥ 0
  let bSeq := fields (seqPart b) " "
  let uSeq := fields (seqPart u) " "
  let isPrefix := bSeq.length ≤ uSeq.length && bSeq == uSeq.take bSeq.length
  let oi :=
    if impl == "" then "-" else if impl == "PANIC" then "C13=FAIL:panic"
    else if t != "term=1" then "C13=FAIL:stage-does-not-terminate"
    else if !dropped && b != u then (if seqPart b != seqPart u then "C13=FAIL:bounded-sequence-differs-from-unbounded" else "C13=FAIL:final-table-differs")
    else if dropped && !c.sort && !isPrefix then "C13=FAIL:delivered-not-a-prefix"
    else if live && pe != "perr=1" then "C13=FAIL:live-producer-not-stopped-after-consumer-loss"
    else "C13=ok"
  -- after consumer loss only termination and the prefix property are specified
  let pe' := if live then pe else "perr=-"
  let canon := if dropped && (c.sort || isPrefix) && t == "term=1" then s!"B {u} # U {u} # term=1 # {pe'}" else impl
  let tags : List String :=
    (if dropped then ["consumer-lost"] else []) ++ (if live then ["live-source"] else if c.tail > 0 then ["live-source-undecided"] else []) ++ (if c.restarting then ["restarting-source"] else []) ++ (if c.sort then ["sorted"] else []) ++
    (if c.filterEcu ≥ 0 then ["filtered"] else []) ++
    (if ((cs.splitOn "|").headD "").splitOn " " |>.any (· == "0") then ["rendezvous"] else []) ++
    (if (fields ((cs.splitOn "|").headD "") " ").any (fun x => x == "1" || x == "2") then ["tiny-capacity"] else [])
  s!"{mobs}\t{oi}\tC13=ok\t{",".intercalate tags}\t{canon}"

end Net
