/-! Model of `SortingMultiReaderIterator` and `SequentialMultiIterator` (src/utils/sorting_multi_readeriterator.rs).
    The order in which `BinaryHeap` returns entries with equal reception time is unspecified, so the merge is
    modelled as an *acceptor*: every output the code may produce is accepted; the theorems hold for everything accepted. -/
namespace Mrg

structure MMsg where
  src : Nat      -- which source
  pos : Nat      -- position inside the source
  recv : Nat     -- reception time
  index : Nat := 0
deriving Repr, DecidableEq

/-- heads of the non-exhausted sources -/
def heads (srcs : List (List MMsg)) : List MMsg := srcs.filterMap List.head?

/-- remove the head of source `i` -/
def popAt : List (List MMsg) → Nat → List (List MMsg)
  | [], _ => []
  | s :: t, 0 => s.tail :: t
  | s :: t, i + 1 => s :: popAt t i

/-- greedy acceptor: `out` (indices erased) can be produced by repeatedly emitting the head of some source
    whose head has a minimal reception time among all heads, until all sources are exhausted -/
def accepts : List (List MMsg) → List MMsg → Bool
  | srcs, [] => (heads srcs).isEmpty
  | srcs, m :: out =>
    match srcs[m.src]? with
    | some (h :: _) =>
      h.pos == m.pos && h.recv == m.recv && h.src == m.src &&
      (heads srcs).all (fun x => m.recv ≤ x.recv) && accepts (popAt srcs m.src) out
    | _ => false

/-- a deterministic instance (first minimal head wins): what the driver prints as *the* model output -/
def pickMin : List MMsg → Option MMsg
  | [] => none
  | h :: t => match pickMin t with
    | some m => if m.recv < h.recv then some m else some h
    | none => some h

def mergeFuel : Nat → List (List MMsg) → List MMsg
  | 0, _ => []
  | fuel + 1, srcs =>
    match pickMin (heads srcs) with
    | none => []
    | some m => m :: mergeFuel fuel (popAt srcs m.src)

def total (srcs : List (List MMsg)) : Nat := (srcs.map List.length).sum

def merge (srcs : List (List MMsg)) : List MMsg := mergeFuel (total srcs) srcs

/-- consecutive numbering from `i0` -/
def renumber (i0 : Nat) (l : List MMsg) : List MMsg := l.zipIdx.map fun (m, k) => { m with index := i0 + k }

/-- `SequentialMultiIterator`: concatenation, renumbered -/
def seqChain (i0 : Nat) (srcs : List (List MMsg)) : List MMsg := renumber i0 srcs.flatten

/-- `SortingMultiReaderIterator::new_or_single_it`: exactly one source is handed back as it is - "the start_index is
    ignored for the single iterator case" (doc comment) - otherwise the merge -/
def mergeOrSingle (i0 : Nat) (srcs : List (List MMsg)) : List MMsg :=
  match srcs with
  | [s] => s
  | _ => renumber i0 (merge srcs)

/-- `SequentialMultiIterator::new_or_single_it`: the same shortcut for a family of exactly one source -/
def chainOrSingle (i0 : Nat) (srcs : List (List MMsg)) : List MMsg :=
  match srcs with
  | [s] => s
  | _ => seqChain i0 srcs

end Mrg
