import Adlt.Merge.Model
import Adlt.Util.Parse
/-! glue. case: `<mode> <i0> | r,r,r;r,r;…`   mode: m = merge, M = merge new_or_single_it, c = chain, C = chain new_or_single_it;
    each source is a `,`-list of reception times (`-` = empty source, `-*N` = N empty sources); own indices of source s are 100*s + pos.
    obs: `index:src:pos …` -/
namespace Mrg
open Util

/-- `-*N` stands for N empty sources -/
def expandSrcs (l : List String) : List String :=
  l.flatMap fun src =>
    let t := src.trimAscii.toString
    if t.startsWith "-*" then List.replicate (nat! (t.drop 2).toString) "-" else [src]

def parseSrcs (s : String) : List (List MMsg) :=
  (expandSrcs ((s.trimAscii.toString.splitOn ";").filter (· != ""))).zipIdx.map fun (src, i) =>
    if src.trimAscii.toString == "-" then [] else
    ((src.splitOn ",").filter (· != "")).zipIdx.map fun (r, p) => { src := i, pos := p, recv := nat! r, index := 100 * i + p }

def showOut (l : List MMsg) : String := " ".intercalate (l.map fun m => s!"{m.index}:{m.src}:{m.pos}")

def parseOut (srcs : List (List MMsg)) (s : String) : List MMsg :=
  (fields s " ").map fun f =>
    match (f.splitOn ":").map nat! with
    | [i, sr, p] =>
      let recv := match srcs[sr]? with
        | some l => (match l[p]? with | some m => m.recv | none => 0)
        | none => 0
      { src := sr, pos := p, recv := recv, index := i }
    | _ => { src := 999, pos := 0, recv := 0 }

def modelOut (mode : String) (i0 : Nat) (srcs : List (List MMsg)) : List MMsg :=
  if mode == "m" then renumber i0 (merge srcs)
  else if mode == "M" then mergeOrSingle i0 srcs
  else if mode == "c" then seqChain i0 srcs
  else chainOrSingle i0 srcs

def oracle (mode : String) (i0 : Nat) (srcs : List (List MMsg)) (out : List MMsg) : String :=
  let merging := mode == "m" || mode == "M"
  let numbered := out.map (·.index) == List.range' i0 out.length
  let keys (l : List MMsg) := l.map fun m => (m.src, m.pos)
  -- the documented shortcut of `new_or_single_it` (one source: handed back with its own numbering) has its own clause
  let numberingClause := if (mode == "M" || mode == "C") && srcs.length == 1 && out == srcs.flatten
    then "FAIL:single-source-keeps-its-own-numbering" else "FAIL:numbering"
  if merging then
    if out.length != total srcs then "FAIL:message-count"
    else if !(srcs.zipIdx.all fun (s, i) => keys (out.filter (·.src == i)) == keys s) then "FAIL:per-source-order-or-loss"
    else if !numbered then numberingClause
    else if (srcs.all fun s => (s.zip s.tail).all fun (a, b) => a.recv ≤ b.recv) && !((out.zip out.tail).all fun (a, b) => a.recv ≤ b.recv) then "FAIL:not-sorted-by-reception-time"
    else if !accepts srcs out then "FAIL:not-a-valid-merge"
    else "ok"
  else
    if keys out != keys srcs.flatten then "FAIL:chain-not-concatenation" else if !numbered then numberingClause else "ok"

def doLine (line : String) : String :=
  let (cs, impl) := match line.splitOn "\t" with
    | [c, i] => (c, i)
    | [c] => (c, "")
    | _ => ("", "")
  match cs.splitOn " | " with
  | [hd, body] =>
    let h := fields hd " "
    let mode := h.getD 0 "m"
    let i0 := nat! (h.getD 1 "0")
    let srcs := parseSrcs body
    let mo := modelOut mode i0 srcs
    let mobs := showOut mo
    let io := parseOut srcs impl
    let oi := if impl == "" && total srcs != 0 then "C09=FAIL:message-count" else if impl == "PANIC" then "C09=FAIL:panic" else "C09=" ++ oracle mode i0 srcs io
    -- ties in reception time: BinaryHeap's choice is unspecified; any accepted order is as good as the model's
    let canon := if (mode == "m" || mode == "M") && oracle mode i0 srcs io == "ok" then mobs else impl
    let tags : List String :=
      (if srcs.any (·.isEmpty) then ["empty-source"] else []) ++ (if srcs.length == 1 then ["single"] else []) ++
      (if srcs.length == 0 then ["no-source"] else []) ++ (if srcs.length > 1 then ["multi"] else []) ++
      (if (srcs.flatten.map (·.recv)).eraseDups.length < srcs.flatten.length then ["ties"] else []) ++
      (if srcs.all fun s => (s.zip s.tail).all fun (a, b) => a.recv ≤ b.recv then ["sources-sorted"] else ["unordered-source"]) ++ [mode]
    s!"{mobs}\t{oi}\tC09={oracle mode i0 srcs mo}\t{",".intercalate tags}\t{canon}"
  | _ => "bad\tC09=FAIL:unparsable\tC09=FAIL:unparsable\t"

end Mrg
