import Adlt.Merge.Model
/-! C09: everything the merge acceptor accepts is a permutation of the sources that keeps each source's order,
    and is sorted by reception time when every source is; chaining is concatenation. -/
namespace Mrg

def key (m : MMsg) : Nat × Nat × Nat := (m.src, m.pos, m.recv)

theorem popAt_flatten (srcs : List (List MMsg)) (i : Nat) (h : MMsg) (t : List MMsg)
    (hi : srcs[i]? = some (h :: t)) : srcs.flatten.Perm (h :: (popAt srcs i).flatten) := by
  induction srcs generalizing i with
  | nil => simp at hi
  | cons s rest ih =>
    cases i with
    | zero =>
      simp at hi; subst hi
      simp [popAt]
    | succ j =>
      simp only [List.getElem?_cons_succ] at hi
      have := ih j hi
      simp only [popAt, List.flatten_cons]
      refine (List.Perm.append_left s this).trans ?_
      exact List.perm_middle

theorem popAt_get (srcs : List (List MMsg)) (i j : Nat) :
    (popAt srcs i)[j]? = if j = i then (srcs[j]?).map List.tail else srcs[j]? := by
  induction srcs generalizing i j with
  | nil => simp [popAt]
  | cons s rest ih =>
    cases i with
    | zero => cases j <;> simp [popAt]
    | succ i' =>
      cases j with
      | zero => simp [popAt]
      | succ j' => simp [popAt, ih i' j']

/-- the head test of `accepts`, as propositions -/
theorem accepts_cons (srcs : List (List MMsg)) (m : MMsg) (out : List MMsg) (h : accepts srcs (m :: out) = true) :
    ∃ hd tl, srcs[m.src]? = some (hd :: tl) ∧ key hd = key m ∧ (∀ x ∈ heads srcs, m.recv ≤ x.recv)
      ∧ accepts (popAt srcs m.src) out = true := by
  unfold accepts at h
  split at h
  · rename_i hd tl hs
    simp only [Bool.and_eq_true, beq_iff_eq, List.all_eq_true, decide_eq_true_eq] at h
    obtain ⟨⟨⟨⟨h1, h2⟩, h3⟩, h4⟩, h5⟩ := h
    exact ⟨hd, tl, hs, by simp [key, h1, h2, h3], h4, h5⟩
  · cases h

/-- every message of every source exactly once -/
theorem accepts_perm (srcs : List (List MMsg)) (out : List MMsg) (h : accepts srcs out = true) :
    (out.map key).Perm (srcs.flatten.map key) := by
  induction out generalizing srcs with
  | nil =>
    have hh : heads srcs = [] := by simpa [accepts] using h
    have aux : ∀ (l : List (List MMsg)), heads l = [] → l.flatten = [] := by
      intro l
      induction l with
      | nil => intro _; rfl
      | cons s rest ih =>
        intro hl
        cases s with
        | nil => simp only [heads, List.filterMap_cons, List.head?_nil] at hl; simpa using ih hl
        | cons x t => simp [heads] at hl
    simp [aux srcs hh]
  | cons m out ih =>
    obtain ⟨hd, tl, hs, hk, _, hrest⟩ := accepts_cons srcs m out h
    have p1 := (popAt_flatten srcs m.src hd tl hs).map key
    simp only [List.map_cons] at p1 ⊢
    rw [← hk]
    exact (List.Perm.cons (key hd) (ih _ hrest)).trans p1.symm

/-- sources are tagged with their position in the family -/
def Tagged (srcs : List (List MMsg)) : Prop := ∀ (i : Nat) (s : List MMsg), srcs[i]? = some s → ∀ m ∈ s, MMsg.src m = i

theorem tagged_popAt (srcs : List (List MMsg)) (i : Nat) (ht : Tagged srcs) : Tagged (popAt srcs i) := by
  intro j s hs m hm
  rw [popAt_get] at hs
  split at hs
  · cases hsj : srcs[j]? with
    | none => simp [hsj] at hs
    | some s0 =>
      simp [hsj] at hs; subst hs
      exact ht j s0 hsj m (List.mem_of_mem_tail hm)
  · exact ht j s hs m hm

/-- the relative order of the messages of one source is kept -/
theorem accepts_order (srcs : List (List MMsg)) (out : List MMsg) (ht : Tagged srcs) (h : accepts srcs out = true)
    (i : Nat) : (out.filter (·.src == i)).map key = ((srcs[i]?).getD []).map key := by
  induction out generalizing srcs with
  | nil =>
    have hh : heads srcs = [] := by simpa [accepts] using h
    cases hs : srcs[i]? with
    | none => simp
    | some s =>
      cases s with
      | nil => simp
      | cons x t =>
        have : x ∈ heads srcs := by
          simp only [heads, List.mem_filterMap]
          exact ⟨x :: t, List.mem_of_getElem? hs, rfl⟩
        rw [hh] at this; cases this
  | cons m out ih =>
    obtain ⟨hd, tl, hs, hk, _, hrest⟩ := accepts_cons srcs m out h
    have ih' := ih (popAt srcs m.src) (tagged_popAt srcs m.src ht) hrest
    rw [popAt_get] at ih'
    by_cases hmi : m.src = i
    · subst hmi
      simp only [List.filter_cons, beq_self_eq_true, if_true, List.map_cons, hs, Option.getD_some]
      simp only [if_true, hs, Option.map_some, Option.getD_some, List.tail_cons] at ih'
      rw [ih', hk]
    · have : (m.src == i) = false := by simp [hmi]
      simp only [List.filter_cons, this, Bool.false_eq_true, if_false]
      have hne : ¬ i = m.src := fun e => hmi e.symm
      simp only [hne, if_false] at ih'
      exact ih'

theorem head_le_all (s : List MMsg) (hsort : s.Pairwise (fun a b => a.recv ≤ b.recv)) (r : Nat)
    (hh : ∀ x ∈ s.head?, r ≤ x.recv) : ∀ x ∈ s, r ≤ x.recv := by
  cases s with
  | nil => simp
  | cons a t =>
    rw [List.pairwise_cons] at hsort
    intro x hx
    have ha : r ≤ a.recv := hh a (by simp)
    rcases List.mem_cons.mp hx with h | h
    · subst h; exact ha
    · exact Nat.le_trans ha (hsort.1 x h)

/-- if every source is ordered by reception time, the merged stream is ordered by reception time -/
theorem accepts_sorted (srcs : List (List MMsg)) (out : List MMsg)
    (hsort : ∀ s ∈ srcs, s.Pairwise (fun a b => a.recv ≤ b.recv)) (h : accepts srcs out = true) :
    out.Pairwise (fun a b => a.recv ≤ b.recv) := by
  induction out generalizing srcs with
  | nil => exact List.Pairwise.nil
  | cons m out ih =>
    obtain ⟨hd, tl, hs, hk, hmin, hrest⟩ := accepts_cons srcs m out h
    have hsort' : ∀ s ∈ popAt srcs m.src, s.Pairwise (fun a b => a.recv ≤ b.recv) := by
      intro s hsm
      obtain ⟨j, hj⟩ := List.getElem?_of_mem hsm
      rw [popAt_get] at hj
      split at hj
      · cases hsj : srcs[j]? with
        | none => simp [hsj] at hj
        | some s0 =>
          simp [hsj] at hj; subst hj
          exact (hsort s0 (List.mem_of_getElem? hsj)).sublist (List.tail_sublist s0)
      · exact hsort s (List.mem_of_getElem? hj)
    rw [List.pairwise_cons]
    refine ⟨?_, ih _ hsort' hrest⟩
    -- every later element is a remaining element of some source
    intro x hx
    have hp := accepts_perm _ _ hrest
    have hxk : key x ∈ (popAt srcs m.src).flatten.map key := hp.mem_iff.mp (List.mem_map.mpr ⟨x, hx, rfl⟩)
    obtain ⟨y, hy, hyk⟩ := List.mem_map.mp hxk
    have hyrecv : y.recv = x.recv := by simp [key] at hyk; exact hyk.2.2
    rw [← hyrecv]
    -- y is in some remaining source s; m.recv ≤ head of the original source ≤ y
    obtain ⟨s, hs_mem, hys⟩ := List.mem_flatten.mp hy
    obtain ⟨j, hj⟩ := List.getElem?_of_mem hs_mem
    rw [popAt_get] at hj
    have key_fact : ∀ s0, srcs[j]? = some s0 → ∀ z ∈ s0, m.recv ≤ z.recv := by
      intro s0 hs0 z hz
      apply head_le_all s0 (hsort s0 (List.mem_of_getElem? hs0)) m.recv _ z hz
      intro w hw
      apply hmin w
      simp only [heads, List.mem_filterMap]
      exact ⟨s0, List.mem_of_getElem? hs0, hw⟩
    split at hj
    · cases hsj : srcs[j]? with
      | none => simp [hsj] at hj
      | some s0 =>
        simp [hsj] at hj; subst hj
        exact key_fact s0 hsj y (List.mem_of_mem_tail hys)
    · exact key_fact s hj y hys

/-- chaining: the concatenation, numbered consecutively (empty sources anywhere make no difference) -/
theorem zipIdx_map_key (l : List MMsg) (i0 k : Nat) :
    ((l.zipIdx k).map fun (x : MMsg × Nat) => ({ x.1 with index := i0 + x.2 } : MMsg)).map key = l.map key := by
  induction l generalizing k with
  | nil => rfl
  | cons a t ih =>
    simp only [List.zipIdx_cons, List.map_cons]
    rw [ih (k + 1)]
    rfl

theorem zipIdx_map_index (l : List MMsg) (i0 k : Nat) :
    ((l.zipIdx k).map fun (x : MMsg × Nat) => ({ x.1 with index := i0 + x.2 } : MMsg)).map (·.index)
      = List.range' (i0 + k) l.length := by
  induction l generalizing k with
  | nil => rfl
  | cons a t ih =>
    simp only [List.zipIdx_cons, List.map_cons, List.length_cons, List.range'_succ]
    rw [ih (k + 1)]
    rfl

/-- chaining: the concatenation, numbered consecutively (empty sources anywhere make no difference) -/
theorem seqChain_spec (i0 : Nat) (srcs : List (List MMsg)) :
    (seqChain i0 srcs).map key = srcs.flatten.map key ∧
    (seqChain i0 srcs).map (·.index) = List.range' i0 srcs.flatten.length := by
  unfold seqChain renumber
  exact ⟨zipIdx_map_key _ i0 0, by simpa using zipIdx_map_index srcs.flatten i0 0⟩

end Mrg
