import Adlt.Sort.Spec
/-! C10, permutation part: for every stream, table and configuration the output is a permutation of the input. -/
namespace Srt

def SSt.seq (s : SSt) : List SMsg := s.out.reverse ++ s.heap.map (·.2)

theorem insertSorted_perm (x : Nat × SMsg) (l : List (Nat × SMsg)) : (insertSorted x l).Perm (x :: l) := by
  induction l with
  | nil => exact List.Perm.refl _
  | cons y t ih =>
    simp only [insertSorted]; split
    · exact List.Perm.refl _
    · exact (List.Perm.cons y ih).trans (List.Perm.swap x y t)

theorem releaseLoop_seq (r : Nat) (l : List (Nat × SMsg)) (s : SSt) :
    (releaseLoop r s l).seq = s.out.reverse ++ l.map (·.2) := by
  induction l generalizing s with
  | nil => simp [releaseLoop, SSt.seq]
  | cons p t ih =>
    obtain ⟨c, m⟩ := p
    simp only [releaseLoop]; split
    · rw [ih]; simp [SSt.emit]
    · simp [SSt.seq]

theorem step_seq (table : List (Nat × Nat)) (w d : Nat) (s : SSt) (m : SMsg) :
    (s.step table w d m).seq.Perm (s.seq ++ [m]) := by
  unfold SSt.step
  simp only []
  rw [releaseLoop_seq]
  show (s.out.reverse ++ (insertSorted (s.calc table m, m) s.heap).map (·.2)).Perm _
  have h := (insertSorted_perm (s.calc table m, m) s.heap).map (·.2)
  simp only [List.map_cons] at h
  refine (List.Perm.append_left _ h).trans ?_
  simp only [SSt.seq]
  rw [List.append_assoc]
  exact List.Perm.append_left _ (List.perm_append_singleton m _).symm

theorem steps_seq (table : List (Nat × Nat)) (w d : Nat) (ms : List SMsg) (s : SSt) :
    (ms.foldl (SSt.step table w d) s).seq.Perm (s.seq ++ ms) := by
  induction ms generalizing s with
  | nil => simp
  | cons m t ih =>
    simp only [List.foldl_cons]
    refine (ih _).trans ?_
    refine (List.Perm.append_right t (step_seq table w d s m)).trans ?_
    simp

theorem finish_out (s : SSt) : s.finish.out.reverse = s.seq := by
  simp [SSt.finish, SSt.seq]

theorem runSort_perm (table : List (Nat × Nat)) (w d : Nat) (ms : List SMsg) :
    (runSort table w d ms).Perm ms := by
  unfold runSort
  rw [finish_out]
  simpa [SSt.seq] using steps_seq table w d ms { T := d }

end Srt
