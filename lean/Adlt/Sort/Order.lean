import Adlt.Sort.Perm
/-! C10, ordering part: under bounded buffering delay the output is sorted by (calculated time, arrival number). -/
namespace Srt

/-- strict order on heap entries (calculated time, then arrival number): Prop version of `keyLt` -/
def klt (a b : Nat × SMsg) : Prop := a.1 < b.1 ∨ (a.1 = b.1 ∧ a.2.seq < b.2.seq)

theorem keyLt_iff (a b : Nat × SMsg) : keyLt a b = true ↔ klt a b := by
  simp [keyLt, klt]

theorem klt_trans {a b c : Nat × SMsg} (h1 : klt a b) (h2 : klt b c) : klt a c := by
  unfold klt at *; omega

theorem mem_insertSorted (x y : Nat × SMsg) (l : List (Nat × SMsg)) : y ∈ insertSorted x l ↔ y = x ∨ y ∈ l := by
  rw [(insertSorted_perm x l).mem_iff]; simp

theorem insertSorted_sorted (x : Nat × SMsg) (l : List (Nat × SMsg)) (hs : l.Pairwise klt)
    (htri : ∀ h ∈ l, klt x h ∨ klt h x) : (insertSorted x l).Pairwise klt := by
  induction l with
  | nil => simp [insertSorted]
  | cons y t ih =>
    rw [List.pairwise_cons] at hs
    simp only [insertSorted]; split
    · rename_i hxy
      have hxy' := (keyLt_iff x y).mp hxy
      rw [List.pairwise_cons]
      refine ⟨?_, List.pairwise_cons.mpr hs⟩
      intro z hz
      rcases List.mem_cons.mp hz with h | h
      · subst h; exact hxy'
      · exact klt_trans hxy' (hs.1 z h)
    · rename_i hxy
      have hyx : klt y x := by
        rcases htri y (by simp) with h | h
        · exact absurd ((keyLt_iff x y).mpr h) hxy
        · exact h
      rw [List.pairwise_cons]
      refine ⟨?_, ih hs.2 (fun h hh => htri h (by simp [hh]))⟩
      intro z hz
      rcases (mem_insertSorted x z t).mp hz with h | h
      · subst h; exact hyx
      · exact hs.1 z h

/-! ### the lifecycle-start cache never disagrees with the (static) table -/

def CacheOk (table : List (Nat × Nat)) (c : List (Nat × Nat)) : Prop :=
  ∀ k v, aGet k c = some v → v = (aGet k table).getD 0

theorem aGet_aSet {α} (k k' : Nat) (v : α) (l : List (Nat × α)) :
    aGet k' (aSet k v l) = if k' = k then some v else aGet k' l := by
  induction l with
  | nil =>
    simp only [aSet, aGet]
    by_cases h : k' = k
    · subst h; simp
    · have : (k == k') = false := by simp; exact fun x => h x.symm
      simp [h, this]
  | cons p t ih =>
    obtain ⟨a, b⟩ := p
    simp only [aSet]
    by_cases hak : a = k
    · subst hak
      simp only [beq_self_eq_true, if_true, aGet]
      by_cases h : k' = a
      · subst h; simp
      · have : (a == k') = false := by simp; exact fun x => h x.symm
        simp [h, this]
    · have h1 : (a == k) = false := by simp [hak]
      simp only [h1, Bool.false_eq_true, if_false, aGet, ih]
      by_cases h : k' = k
      · subst h
        have : (a == k') = false := by simp [hak]
        simp [this]
      · simp [h]

theorem cacheAfter_ok (table : List (Nat × Nat)) (s : SSt) (m : SMsg) (h : CacheOk table s.lcCache) :
    CacheOk table (s.cacheAfter table m) := by
  unfold SSt.cacheAfter
  split
  · exact h
  · split
    · exact h
    · intro k v hk
      rw [aGet_aSet] at hk
      split at hk
      · rename_i hkk; subst hkk; simp at hk; exact hk.symm
      · exact h k v hk

theorem calc_eq (table : List (Nat × Nat)) (s : SSt) (m : SMsg) (h : CacheOk table s.lcCache) :
    s.calc table m = calcTime table m := by
  unfold SSt.calc calcTime SSt.lcStart
  cases hc : aGet m.lc s.lcCache with
  | none => by_cases hcr : m.ctrlReq = true <;> simp [hcr]
  | some v => by_cases hcr : m.ctrlReq = true <;> simp [hcr, h m.lc v hc]

/-! ### the release loop -/

theorem releaseLoop_split (r : Nat) (l : List (Nat × SMsg)) (s : SSt) :
    ∃ pre, l = pre ++ (releaseLoop r s l).heap ∧ (releaseLoop r s l).out = (pre.map (·.2)).reverse ++ s.out
      ∧ (∀ p ∈ pre, p.1 + s.T < r) ∧ (releaseLoop r s l).T = s.T ∧ (releaseLoop r s l).lcCache = s.lcCache := by
  induction l generalizing s with
  | nil => exact ⟨[], by simp [releaseLoop]⟩
  | cons p t ih =>
    obtain ⟨c, m⟩ := p
    simp only [releaseLoop]; split
    · rename_i hc
      obtain ⟨pre, h1, h2, h3, h4, h5⟩ := ih (s.emit m)
      refine ⟨(c, m) :: pre, ?_, ?_, ?_, ?_, ?_⟩
      · simp only [List.cons_append]; rw [← h1]
      · rw [h2]; simp [SSt.emit]
      · intro p hp
        rcases List.mem_cons.mp hp with h | h
        · subst h; exact hc
        · exact h3 p h
      · rw [h4]; rfl
      · rw [h5]; rfl
    · exact ⟨[], by simp⟩

/-! ### the invariant -/

/-- order on messages induced by the sort key -/
def K (table : List (Nat × Nat)) (a b : SMsg) : Prop := klt (calcTime table a, a) (calcTime table b, b)

structure OInv (table : List (Nat × Nat)) (d R bound : Nat) (s : SSt) : Prop where
  cache : CacheOk table s.lcCache
  T : d ≤ s.T
  hkey : ∀ h ∈ s.heap, h.1 = calcTime table h.2
  hsorted : s.heap.Pairwise klt
  outB : ∀ e ∈ s.out, calcTime table e + d < R
  outHeap : ∀ e ∈ s.out, ∀ h ∈ s.heap, klt (calcTime table e, e) h
  outSorted : s.out.reverse.Pairwise (K table)
  idx : ∀ h ∈ s.heap, h.2.seq < bound

theorem newT_ge (w d : Nat) (s : SSt) (m : SMsg) (ct : Nat) (h : d ≤ s.T) : d ≤ (s.newT w d m ct).2 := by
  unfold SSt.newT
  simp only []
  split
  · omega
  · exact h

theorem step_inv (table : List (Nat × Nat)) (w d R bound : Nat) (s : SSt) (m : SMsg)
    (hi : OInv table d R bound s) (hR : R ≤ m.recv) (hb : bound ≤ m.seq)
    (hd : m.recv - calcTime table m ≤ d) :
    OInv table d m.recv (m.seq + 1) (s.step table w d m) := by
  have hct : s.calc table m = calcTime table m := calc_eq table s m hi.cache
  -- the state after insertion
  have hcm : calcTime table m ≤ m.recv := by
    unfold calcTime; split
    · exact Nat.le_refl _
    · simp only []; split <;> omega
  have hout_m : ∀ e ∈ s.out, klt (calcTime table e, e) (calcTime table m, m) := by
    intro e he
    have := hi.outB e he
    left; show calcTime table e < calcTime table m; omega
  have htri : ∀ h ∈ s.heap, klt (calcTime table m, m) h ∨ klt h (calcTime table m, m) := by
    intro h hh
    have := hi.idx h hh
    unfold klt; simp only []; omega
  have hl_sorted : (insertSorted (calcTime table m, m) s.heap).Pairwise klt :=
    insertSorted_sorted _ _ hi.hsorted htri
  have hl_key : ∀ h ∈ insertSorted (calcTime table m, m) s.heap, h.1 = calcTime table h.2 := by
    intro h hh
    rcases (mem_insertSorted _ _ _).mp hh with h1 | h1
    · subst h1; rfl
    · exact hi.hkey h h1
  have hl_out : ∀ e ∈ s.out, ∀ h ∈ insertSorted (calcTime table m, m) s.heap, klt (calcTime table e, e) h := by
    intro e he h hh
    rcases (mem_insertSorted _ _ _).mp hh with h1 | h1
    · subst h1; exact hout_m e he
    · exact hi.outHeap e he h h1
  have hl_idx : ∀ h ∈ insertSorted (calcTime table m, m) s.heap, h.2.seq < m.seq + 1 := by
    intro h hh
    rcases (mem_insertSorted _ _ _).mp hh with h1 | h1
    · subst h1; exact Nat.lt_succ_self _
    · have := hi.idx h h1; omega
  unfold SSt.step
  simp only []
  generalize hs1 : s.insert table w d m = s1
  have e_heap : s1.heap = insertSorted (calcTime table m, m) s.heap := by
    subst hs1; simp only [SSt.insert]; rw [hct]
  have e_out : s1.out = s.out := by subst hs1; rfl
  have e_T : d ≤ s1.T := by subst hs1; exact newT_ge w d s m _ hi.T
  have e_cache : CacheOk table s1.lcCache := by subst hs1; exact cacheAfter_ok table s m hi.cache
  obtain ⟨pre, h1, h2, h3, h4, h5⟩ := releaseLoop_split m.recv s1.heap s1
  generalize releaseLoop m.recv s1 s1.heap = s2 at *
  rw [e_heap] at h1
  have hmem_pre : ∀ p ∈ pre, p ∈ insertSorted (calcTime table m, m) s.heap := by
    intro p hp; rw [h1]; simp [hp]
  have hmem_heap : ∀ p ∈ s2.heap, p ∈ insertSorted (calcTime table m, m) s.heap := by
    intro p hp; rw [h1]; simp [hp]
  have hsplit := hl_sorted
  rw [h1, List.pairwise_append] at hsplit
  refine { cache := by rw [h5]; exact e_cache, T := by rw [h4]; exact e_T,
           hkey := fun h hh => hl_key h (hmem_heap h hh), hsorted := hsplit.2.1,
           outB := ?_, outHeap := ?_, outSorted := ?_, idx := fun h hh => hl_idx h (hmem_heap h hh) }
  · intro e he
    rw [h2, e_out] at he
    simp only [List.mem_append, List.mem_reverse, List.mem_map] at he
    rcases he with ⟨p, hp, rfl⟩ | he
    · have := h3 p hp
      rw [hl_key p (hmem_pre p hp)] at this
      omega
    · have := hi.outB e he; omega
  · intro e he h hh
    rw [h2, e_out] at he
    simp only [List.mem_append, List.mem_reverse, List.mem_map] at he
    rcases he with ⟨p, hp, rfl⟩ | he
    · have := hsplit.2.2 p hp h hh
      rw [← hl_key p (hmem_pre p hp)]; exact this
    · exact hl_out e he h (hmem_heap h hh)
  · rw [h2, e_out]
    simp only [List.reverse_append, List.reverse_reverse]
    rw [List.pairwise_append]
    refine ⟨hi.outSorted, ?_, ?_⟩
    · rw [List.pairwise_map]
      refine List.Pairwise.imp_of_mem ?_ hsplit.1
      intro a b ha hb hab
      show klt (calcTime table a.2, a.2) (calcTime table b.2, b.2)
      rw [← hl_key a (hmem_pre a ha), ← hl_key b (hmem_pre b hb)]; exact hab
    · intro a ha b hb
      simp only [List.mem_reverse] at ha
      simp only [List.mem_map] at hb
      obtain ⟨p, hp, rfl⟩ := hb
      show klt (calcTime table a, a) (calcTime table p.2, p.2)
      rw [← hl_key p (hmem_pre p hp)]
      exact hl_out a ha p (hmem_pre p hp)

/-- the hypothesis of the ordering part, threaded through the stream -/
def InRange (table : List (Nat × Nat)) (d : Nat) : Nat → Nat → List SMsg → Prop
  | _, _, [] => True
  | R, bound, m :: t => R ≤ m.recv ∧ bound ≤ m.seq ∧ m.recv - calcTime table m ≤ d ∧ InRange table d m.recv (m.seq + 1) t

theorem steps_inv (table : List (Nat × Nat)) (w d : Nat) (ms : List SMsg) (R bound : Nat) (s : SSt)
    (hi : OInv table d R bound s) (hr : InRange table d R bound ms) :
    ∃ R' b', OInv table d R' b' (ms.foldl (SSt.step table w d) s) := by
  induction ms generalizing R bound s with
  | nil => exact ⟨R, bound, hi⟩
  | cons m t ih =>
    obtain ⟨h1, h2, h3, h4⟩ := hr
    exact ih m.recv (m.seq + 1) _ (step_inv table w d R bound s m hi h1 h2 h3) h4

theorem inRange_of_spec (table : List (Nat × Nat)) (d : Nat) (m : SMsg) (t : List SMsg) (R bound : Nat)
    (hR : R ≤ m.recv) (hb : bound ≤ m.seq)
    (h : Spec.orderingInRange table d (m :: t) = true) : InRange table d R bound (m :: t) := by
  induction t generalizing m R bound with
  | nil =>
    simp only [Spec.orderingInRange, Spec.recvMonotone, Spec.seqIncreasing, Spec.delayBounded, List.all_cons,
      List.all_nil, Bool.and_true, Bool.true_and, decide_eq_true_eq] at h
    exact ⟨hR, hb, h, trivial⟩
  | cons m2 t2 ih =>
    simp only [Spec.orderingInRange, Spec.recvMonotone, Spec.seqIncreasing, Spec.delayBounded, List.all_cons,
      Bool.and_eq_true, decide_eq_true_eq] at h
    obtain ⟨⟨⟨h1, h2⟩, h3, h4⟩, h5, h6⟩ := h
    refine ⟨hR, hb, h5, ih m2 m.recv (m.seq + 1) h1 (by omega) ?_⟩
    simp only [Spec.orderingInRange, Spec.delayBounded, Bool.and_eq_true, List.all_cons, decide_eq_true_eq]
    exact ⟨⟨h2, h4⟩, h6⟩

theorem sortedByCalc_of_pairwise (table : List (Nat × Nat)) (l : List SMsg) (h : l.Pairwise (K table)) :
    Spec.sortedByCalc table l = true := by
  induction l with
  | nil => rfl
  | cons a t ih =>
    cases t with
    | nil => rfl
    | cons b t2 =>
      rw [List.pairwise_cons] at h
      simp only [Spec.sortedByCalc, Bool.and_eq_true]
      refine ⟨?_, ih h.2⟩
      have := h.1 b (by simp)
      simp only [K, klt] at this
      simp only [Spec.keyLe, Bool.or_eq_true, decide_eq_true_eq, Bool.and_eq_true, beq_iff_eq]
      omega

theorem runSort_sorted (table : List (Nat × Nat)) (w d : Nat) (ms : List SMsg)
    (h : Spec.orderingInRange table d ms = true) : Spec.sortedByCalc table (runSort table w d ms) = true := by
  apply sortedByCalc_of_pairwise
  have init : OInv table d 0 0 ({ T := d } : SSt) :=
    { cache := by intro k v hk; simp [aGet] at hk, T := Nat.le_refl _, hkey := by simp, hsorted := by simp,
      outB := by simp, outHeap := by simp, outSorted := by simp, idx := by simp }
  have hr : InRange table d 0 0 ms := by
    cases ms with
    | nil => trivial
    | cons m t => exact inRange_of_spec table d m t 0 0 (Nat.zero_le _) (Nat.zero_le _) h
  obtain ⟨R', b', hi⟩ := steps_inv table w d ms 0 0 _ init hr
  unfold runSort
  rw [finish_out]
  generalize ms.foldl (SSt.step table w d) { T := d } = s at *
  simp only [SSt.seq]
  rw [List.pairwise_append]
  refine ⟨hi.outSorted, ?_, ?_⟩
  · rw [List.pairwise_map]
    refine List.Pairwise.imp_of_mem ?_ hi.hsorted
    intro a b ha hb hab
    show klt (calcTime table a.2, a.2) (calcTime table b.2, b.2)
    rw [← hi.hkey a ha, ← hi.hkey b hb]; exact hab
  · intro a ha b hb
    simp only [List.mem_reverse] at ha
    simp only [List.mem_map] at hb
    obtain ⟨p, hp, rfl⟩ := hb
    show klt (calcTime table a, a) (calcTime table p.2, p.2)
    rw [← hi.hkey p hp]
    exact hi.outHeap a ha p hp

end Srt
