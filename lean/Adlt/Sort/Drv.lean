import Adlt.Sort.Seq
import Adlt.Util.Parse
/-! glue. case: `window minDelay | id:start id:start … | idx,recv,ecu,lc,tsUs,ctrl;…`  obs: output index sequence -/
namespace Srt
open Util

structure Case where
  window : Nat
  minDelay : Nat
  table : List (Nat × Nat)
  ms : List SMsg

def parseCase (line : String) : Case :=
  match line.splitOn "|" with
  | [cfg, tbl, msgs] =>
    let c := nats cfg " "
    let table := (fields tbl " ").filterMap fun e =>
      match e.splitOn ":" with | [a, b] => some (nat! a, nat! b) | _ => none
    let ms := (fields msgs ";").filterMap fun e =>
      match (e.splitOn ",").map nat! with
      | [i, r, ec, lc, ts, c] => some { index := i, recv := r, ecu := ec, lc := lc, tsUs := ts, ctrlReq := c == 1 : SMsg }
      | _ => none
    { window := c.getD 0 1, minDelay := c.getD 1 0, table := table, ms := ms }
  | _ => { window := 1, minDelay := 0, table := [], ms := [] }

/-- rebuild the observed output sequence from the observed (position-in-input) sequence -/
def outOf (c : Case) (obs : String) : Option (List SMsg) :=
  let ps := nats obs " "
  if ps.any (· ≥ c.ms.length) then none else some (ps.filterMap fun p => (number 0 c.ms)[p]?)

def oracleOn (c : Case) (obs : String) : String :=
  if obs == "PANIC" then "C10=FAIL:panic" else
  match outOf c obs with
  | none => "C10=FAIL:unknown-message"
  | some out =>
    if !Spec.isPermIdx (number 0 c.ms) out then "C10=FAIL:not-a-permutation"
    else if Spec.premise c.table c.minDelay c.ms && !Spec.sortedByCalc c.table out then "C10=FAIL:not-sorted-within-bound"
    else "C10=ok"

def modelObs (c : Case) : String :=
  -- positions in the input = the arrival numbers
  " ".intercalate ((runSortSeq c.table c.window c.minDelay c.ms).map fun m => toString m.seq)

/-- `BinaryHeap` leaves the order of entries with equal (calculated time, index) unspecified: sort each
    maximal run of adjacent positions with equal key by position before comparing model and implementation -/
def canonTies (c : Case) (ps : List Nat) : List Nat :=
  let key (p : Nat) : Nat × Nat := match c.ms[p]? with
    | some _ => (p, 0)   -- no ties: the arrival number breaks them
    | none => (0, 0)
  let rec go (cur : List Nat) : List Nat → List Nat
    | [] => (cur.toArray.qsort (· < ·)).toList
    | p :: t =>
      match cur with
      | [] => go [p] t
      | q :: _ => if key q == key p then go (p :: cur) t else (cur.toArray.qsort (· < ·)).toList ++ go [p] t
  go [] ps

def canonObs (c : Case) (obs : String) : String :=
  if obs == "PANIC" then obs else " ".intercalate ((canonTies c (nats obs " ")).map toString)

def branches (c : Case) : String :=
  let out := (runSortSeq c.table c.window c.minDelay c.ms).map SMsg.clearSeq
  let tags : List String :=
    (if out != c.ms then ["reordered"] else []) ++
    (if Spec.premise c.table c.minDelay c.ms then ["within-bound"] else ["outside-bound"]) ++
    (if Spec.seqIncreasing (c.ms.map fun m => { m with seq := m.index }) then [] else ["indices-not-increasing"]) ++
    (if c.ms.any (·.ctrlReq) then ["ctrl"] else []) ++
    (if c.ms.any (fun m => (aGet m.lc c.table).isNone) then ["lc-missing"] else []) ++
    (if (firstSeen (c.ms.map (·.ecu))).length > 1 then ["multi-ecu"] else []) ++
    (if (firstSeen (c.ms.map (·.lc))).length > 1 then ["multi-lc"] else [])
  ",".intercalate tags

def doLine (line : String) : String :=
  let (cs, impl) := match line.splitOn "\t" with
    | [c, i] => (c, i)
    | [c] => (c, "")
    | _ => ("", "")
  let c := parseCase cs
  let mobs := modelObs c
  let oi := if impl == "" then "-" else oracleOn c impl
  s!"{canonObs c mobs}\t{oi}\t{oracleOn c mobs}\t{branches c}\t{canonObs c impl}"

end Srt
