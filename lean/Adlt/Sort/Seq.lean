import Adlt.Sort.Order
import Adlt.Sort.Perm
/-! C10: `buffer_sort_messages` numbers the messages as they arrive and breaks ties of the calculated time by that
    number, so the ordering part needs no assumption about the messages' own indices. -/
namespace Srt

def SMsg.clearSeq (m : SMsg) : SMsg := { m with seq := 0 }

theorem calcTime_seq (table : List (Nat × Nat)) (m : SMsg) (k : Nat) : calcTime table { m with seq := k } = calcTime table m := rfl

theorem number_clear (k : Nat) (ms : List SMsg) : (number k ms).map SMsg.clearSeq = ms.map SMsg.clearSeq := by
  induction ms generalizing k with
  | nil => rfl
  | cons m t ih => simp only [number, List.map_cons, ih]; rfl

theorem number_seq_ge (k : Nat) (ms : List SMsg) : ∀ m ∈ number k ms, k ≤ m.seq := by
  induction ms generalizing k with
  | nil => intro m hm; cases hm
  | cons a t ih =>
    intro m hm
    simp only [number, List.mem_cons] at hm
    rcases hm with rfl | hm
    · exact Nat.le_refl _
    · have := ih (k + 1) m hm; omega

theorem number_seqIncreasing (k : Nat) (ms : List SMsg) : Spec.seqIncreasing (number k ms) = true := by
  induction ms generalizing k with
  | nil => rfl
  | cons a t ih =>
    cases t with
    | nil => rfl
    | cons b u =>
      have h2 := ih (k + 1)
      simp only [number] at h2 ⊢
      simp only [Spec.seqIncreasing, Bool.and_eq_true, decide_eq_true_eq]
      exact ⟨by omega, h2⟩

theorem number_recvMonotone (k : Nat) (ms : List SMsg) : Spec.recvMonotone (number k ms) = Spec.recvMonotone ms := by
  induction ms generalizing k with
  | nil => rfl
  | cons a t ih =>
    cases t with
    | nil => rfl
    | cons b u =>
      have h2 := ih (k + 1)
      simp only [number] at h2 ⊢
      simp only [Spec.recvMonotone, h2]

theorem number_delayBounded (table : List (Nat × Nat)) (d k : Nat) (ms : List SMsg) :
    Spec.delayBounded table d (number k ms) = Spec.delayBounded table d ms := by
  induction ms generalizing k with
  | nil => rfl
  | cons a t ih =>
    have h2 := ih (k + 1)
    simp only [Spec.delayBounded] at h2 ⊢
    simp only [number, List.all_cons, calcTime_seq]
    rw [h2]
    rfl

/-- the stated premise of the ordering part: reception times never decrease, no message's calculated time lies more
    than the minimum buffering delay before its reception time -/
def Spec.premise (table : List (Nat × Nat)) (minDelay : Nat) (ms : List SMsg) : Bool :=
  Spec.recvMonotone ms && Spec.delayBounded table minDelay ms

theorem runSortSeq_sorted (table : List (Nat × Nat)) (w d : Nat) (ms : List SMsg) (h : Spec.premise table d ms = true) :
    Spec.sortedByCalc table (runSortSeq table w d ms) = true := by
  unfold runSortSeq
  apply runSort_sorted
  simp only [Spec.premise, Bool.and_eq_true] at h
  simp only [Spec.orderingInRange, Bool.and_eq_true, number_seqIncreasing, number_recvMonotone, number_delayBounded]
  exact ⟨⟨h.1, trivial⟩, h.2⟩

theorem runSortSeq_perm (table : List (Nat × Nat)) (w d : Nat) (ms : List SMsg) :
    ((runSortSeq table w d ms).map SMsg.clearSeq).Perm (ms.map SMsg.clearSeq) := by
  rw [← number_clear 0 ms]
  exact (runSort_perm table w d (number 0 ms)).map _

end Srt
