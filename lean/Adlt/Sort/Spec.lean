import Adlt.Sort.Model
/-! Executable statement of C10. -/
namespace Srt

/-- calculated time of a message under a lifecycle table, as the sorter defines it: lifecycle start (first
    sight wins; 0 when the lifecycle is not in the table) plus timestamp, capped at the reception time;
    the reception time for control requests -/
def calcTime (table : List (Nat × Nat)) (m : SMsg) : Nat :=
  if m.ctrlReq then m.recv else
  let ct := (aGet m.lc table).getD 0 + m.tsUs
  if ct > m.recv then m.recv else ct

namespace Spec
def isPermIdx (inp out : List SMsg) : Bool :=
  inp.length == out.length && inp.all (fun m => inp.count m == out.count m)

def recvMonotone : List SMsg → Bool
  | a :: b :: t => a.recv ≤ b.recv && recvMonotone (b :: t)
  | _ => true
def seqIncreasing : List SMsg → Bool
  | a :: b :: t => a.seq < b.seq && seqIncreasing (b :: t)
  | _ => true
def delayBounded (table : List (Nat × Nat)) (minDelay : Nat) (ms : List SMsg) : Bool :=
  ms.all fun m => m.recv - calcTime table m ≤ minDelay
def keyLe (table : List (Nat × Nat)) (a b : SMsg) : Bool :=
  calcTime table a < calcTime table b || (calcTime table a == calcTime table b && a.seq ≤ b.seq)
def sortedByCalc (table : List (Nat × Nat)) : List SMsg → Bool
  | a :: b :: t => keyLe table a b && sortedByCalc table (b :: t)
  | _ => true
/-- the hypothesis of the ordering part -/
def orderingInRange (table : List (Nat × Nat)) (minDelay : Nat) (ms : List SMsg) : Bool :=
  recvMonotone ms && seqIncreasing ms && delayBounded table minDelay ms
end Spec
end Srt
