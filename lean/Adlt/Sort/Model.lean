import Adlt.Gen.Consts
/-! Model of `buffer_sort_messages` (src/utils/mod.rs): min-heap as a list kept sorted by (calculated time, arrival number),
    lifecycle-start cache (first sight wins), per-ECU sliding window of maximum buffering delays. -/
namespace Srt

structure SMsg where
  index : Nat             -- the message's own index: carried, not used by the sorter
  seq : Nat := 0          -- arrival number, handed out by `buffer_sort_messages`: the tie-break of the heap
  recv : Nat
  ecu : Nat
  lc : Nat
  tsUs : Nat
  ctrlReq : Bool
deriving Repr, DecidableEq

structure WEntry where
  start : Nat
  maxDelay : Nat
deriving Repr

structure EcuWin where
  lc : Nat
  win : List WEntry      -- front = head
  cur : Nat
deriving Repr

structure SSt where
  heap : List (Nat × SMsg) := []          -- sorted by (calc, index)
  lcCache : List (Nat × Nat) := []
  wins : List (Nat × EcuWin) := []
  T : Nat
  out : List SMsg := []                   -- reversed
deriving Repr

def usPerSec : Nat := Gen.usPerSec

def aGet {α} (k : Nat) : List (Nat × α) → Option α
  | [] => none
  | (k', v) :: t => if k' == k then some v else aGet k t
def aSet {α} (k : Nat) (v : α) : List (Nat × α) → List (Nat × α)
  | [] => [(k, v)]
  | (k', v') :: t => if k' == k then (k, v) :: t else (k', v') :: aSet k v t

def keyLt (a b : Nat × SMsg) : Bool := a.1 < b.1 || (a.1 == b.1 && a.2.seq < b.2.seq)

def insertSorted (x : Nat × SMsg) : List (Nat × SMsg) → List (Nat × SMsg)
  | [] => [x]
  | y :: t => if keyLt x y then x :: y :: t else y :: insertSorted x t

def listMax (l : List Nat) : Nat := l.foldl max 0

/-- the window update for one ECU; returns new window and whether T must be recomputed -/
def EcuWin.update (w : Option EcuWin) (windowSecs lc recv delay : Nat) : EcuWin × Bool :=
  let e0 : EcuWin := w.getD { lc := lc, win := [], cur := 0 }
  let (e1, recalcT1) := if e0.lc != lc then ({ lc := lc, win := [], cur := delay : EcuWin }, true) else (e0, false)
  let insertNew := match e1.win.getLast? with
    | none => true
    | some b => b.start + usPerSec < recv
  if insertNew then
    let (win2, recalcD) := if e1.win.length == windowSecs then
        (e1.win.drop 1, (match e1.win.head? with | some f => f.maxDelay == e1.cur | none => false))
      else (e1.win, false)
    let win3 := win2 ++ [{ start := recv, maxDelay := delay }]
    let (cur3, recalcD3) := if delay > e1.cur then (delay, false) else (e1.cur, recalcD)
    let cur4 := if recalcD3 then listMax (win3.map (·.maxDelay)) else cur3
    ({ lc := lc, win := win3, cur := cur4 }, true)
  else
    match e1.win.getLast? with
    | none => (e1, recalcT1)
    | some b =>
      if b.maxDelay < delay then
        let win2 := e1.win.dropLast ++ [{ b with maxDelay := delay }]
        if delay > e1.cur then ({ e1 with win := win2, cur := delay }, true)
        else ({ e1 with win := win2 }, recalcT1)
      else (e1, recalcT1)

def winValue (windowSecs recv : Nat) (w : EcuWin) : Nat :=
  match w.win.head? with
  | some f => if f.start + (windowSecs - 1) * usPerSec > recv then 1000 * usPerSec else w.cur
  | none => w.cur

def SSt.emit (s : SSt) (m : SMsg) : SSt := { s with out := m :: s.out }

def releaseLoop (recv : Nat) : SSt → List (Nat × SMsg) → SSt
  | s, [] => { s with heap := [] }
  | s, (c, m) :: t => if c + s.T < recv then releaseLoop recv (s.emit m) t else { s with heap := (c, m) :: t }

/-- lifecycle start as the sorter sees it: cached value if present, else the table value (0 if unknown) -/
def SSt.lcStart (table : List (Nat × Nat)) (s : SSt) (m : SMsg) : Nat :=
  match aGet m.lc s.lcCache with
  | some t => t
  | none => (aGet m.lc table).getD 0

def SSt.cacheAfter (table : List (Nat × Nat)) (s : SSt) (m : SMsg) : List (Nat × Nat) :=
  if m.ctrlReq then s.lcCache else
  match aGet m.lc s.lcCache with
  | some _ => s.lcCache
  | none => aSet m.lc ((aGet m.lc table).getD 0) s.lcCache

/-- calculated time: lifecycle start + timestamp capped at the reception time; reception time for control requests -/
def SSt.calc (table : List (Nat × Nat)) (s : SSt) (m : SMsg) : Nat :=
  let ct0 := if m.ctrlReq then m.recv else s.lcStart table m + m.tsUs
  if ct0 > m.recv then m.recv else ct0

def SSt.newT (windowSecs minDelay : Nat) (s : SSt) (m : SMsg) (ct : Nat) : List (Nat × EcuWin) × Nat :=
  let r := EcuWin.update (aGet m.ecu s.wins) windowSecs m.lc m.recv (m.recv - ct)
  let wins' := aSet m.ecu r.1 s.wins
  (wins', if r.2 then minDelay + listMax (wins'.map fun p => winValue windowSecs m.recv p.2) else s.T)

/-- everything up to the insertion into the heap -/
def SSt.insert (table : List (Nat × Nat)) (windowSecs minDelay : Nat) (s : SSt) (m : SMsg) : SSt :=
  let ct := s.calc table m
  let wt := s.newT windowSecs minDelay m ct
  { s with lcCache := s.cacheAfter table m, wins := wt.1, T := wt.2, heap := insertSorted (ct, m) s.heap }

def SSt.step (table : List (Nat × Nat)) (windowSecs minDelay : Nat) (s : SSt) (m : SMsg) : SSt :=
  let s' := s.insert table windowSecs minDelay m
  releaseLoop m.recv s' s'.heap

def SSt.finish (s : SSt) : SSt := { s with out := (s.heap.map (·.2)).reverse ++ s.out, heap := [] }

/-- the arrival numbers `buffer_sort_messages` hands out: 0, 1, 2, … -/
def number (k : Nat) : List SMsg → List SMsg
  | [] => []
  | m :: t => { m with seq := k } :: number (k + 1) t

def runSort (table : List (Nat × Nat)) (windowSecs minDelay : Nat) (ms : List SMsg) : List SMsg :=
  ((ms.foldl (SSt.step table windowSecs minDelay) { T := minDelay }).finish).out.reverse

/-- `buffer_sort_messages`: number the messages as they arrive, sort -/
def runSortSeq (table : List (Nat × Nat)) (windowSecs minDelay : Nat) (ms : List SMsg) : List SMsg :=
  runSort table windowSecs minDelay (number 0 ms)
end Srt
