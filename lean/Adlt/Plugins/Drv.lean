import Adlt.Plugins.Anon
import Adlt.Dlt.Spec
import Adlt.Lc.Model
import Adlt.Util.Parse
/-! glue for plugins (C19).
    case `P <plugin letters> | <msghex>;…`  obs: `<loaded> | idx,recv,ecuhex,ts,lc,exthex|-,payloadhash,texthash …`
    case `A | <msghex>;…`                   obs: `ecuhex,apidhex|-,ctidhex|-,recv,ts,keep … # n,start,end;… # n,start,end;…` -/
namespace Plg
open Util

def hashOf (l : List UInt8) : Nat := l.foldl (fun h b => (h * 31 + b.toNat + 1) % 4294967291) 7

def parseMsgs (s : String) : List Dp.Msg :=
  ((fields s ";").zipIdx.filterMap fun (h, i) =>
    match Dp.parseStorage i (hexBytes h) with
    | .ok (_, m) => some m
    | .error _ => none)

structure OutP where
  idx : Nat
  recv : Nat
  ecu : String
  ts : Nat
  lc : Nat
  ext : String
  plHash : Nat
  text : String
deriving Repr

def parseOutP (s : String) : Option OutP :=
  match s.splitOn "," with
  | [a, b, c, d, e, f, g, h] => some { idx := nat! a, recv := nat! b, ecu := c, ts := nat! d, lc := nat! e, ext := f, plHash := nat! g, text := h }
  | _ => none

def showOutP (o : OutP) : String := s!"{o.idx},{o.recv},{o.ecu},{o.ts},{o.lc},{o.ext},{o.plHash},{o.text}"

/-- what a decoding plugin chain may produce for input message `m` at position `i`: identity fields fixed, the opaque
    decoder results (text, a missing extended header, with Rewrite the timestamp) taken from the observation `o` -/
def expectP (rewrite : Bool) (i : Nat) (m : Dp.Msg) (o : OutP) : OutP :=
  { idx := i, recv := m.recvUs, ecu := hexOf m.ecu, ts := if rewrite then o.ts else m.tsDms, lc := i % 3 + 1,
    ext := match m.ext with | some e => hexOf e | none => o.ext, plHash := hashOf m.payload, text := o.text }

def asciiBytes (cs : List Char) : List UInt8 := cs.map fun c => UInt8.ofNat c.toNat

def pseudo (c : Char) (n : Nat) : String := hexOf (asciiBytes (Anon.fmt c n))

def lcTable (ms : List Dp.Msg) : String :=
  let ecus := firstSeen (ms.map fun m => hashOf m.ecu)
  let lms : List Lcm.Msg := ms.zipIdx.map fun (m, i) =>
    { index := i, recv := m.recvUs, ecu := canonIdx ecus (hashOf m.ecu), tsDms := m.tsDms, hasTs := m.std.hasTs,
      ctrlReq := match m.ext with | some (b :: _) => (b.toNat / 2) % 8 == 3 && b.toNat / 16 == 1 | _ => false }
  let s := Lcm.run lms
  let t := s.published.map fun (_, l) => (l.start, l.endTime, l.nrMsgs)
  let t := (t.toArray.qsort fun a b => a.1 < b.1 || (a.1 == b.1 && (a.2.1 < b.2.1 || (a.2.1 == b.2.1 && a.2.2 < b.2.2)))).toList
  ";".intercalate (t.map fun (st, en, n) => s!"{n},{st},{en}")

def doLine (line : String) : String :=
  let (cs, impl) := match line.splitOn "\t" with
    | [c, i] => (c, i)
    | [c] => (c, "")
    | _ => ("", "")
  match cs.splitOn " | " with
  | [hd, body] =>
    let ms := parseMsgs body
    let h := fields hd " "
    if h.headD "" == "A" then
      -- anonymisation
      let inputs := ms.map fun m => (m.ecu, match m.ext with | some e => some ((e.drop 2).take 4, (e.drop 6).take 4) | none => none)
      let nums := Anon.run {} inputs
      let exp := (ms.zip nums).map fun (m, (en, ac)) =>
        let a := match ac with | some (an, _) => pseudo 'A' an | none => "-"
        let c := match ac with | some (_, cn) => pseudo 'C' cn | none => "-"
        s!"{pseudo 'E' en},{a},{c},{m.recvUs},{m.tsDms},1"
      let tbl := lcTable ms
      let mobs := " ".intercalate exp ++ " # " ++ tbl ++ " # " ++ tbl
      let orc (obs : String) : String :=
        if obs == "PANIC" then "C19=FAIL:panic" else
        match obs.splitOn " # " with
        | [a, l1, l2] =>
          let rows := (fields a " ").map fun r => r.splitOn ","
          let orig := ms
          if rows.length != orig.length then "C19=FAIL:anonymise-changes-message-count" else
          let pairs := orig.zip rows
          -- equal ids ↦ equal pseudonyms, distinct ↦ distinct (ECU globally; APID per ECU; CTID per ECU and APID)
          let keyE (m : Dp.Msg) := hexOf m.ecu
          let okE := pairs.all fun (m1, r1) => pairs.all fun (m2, r2) => (keyE m1 == keyE m2) == (r1.getD 0 "" == r2.getD 0 "")
          let ap (m : Dp.Msg) := match m.ext with | some e => some (hexOf ((e.drop 2).take 4)) | none => none
          let ct (m : Dp.Msg) := match m.ext with | some e => some (hexOf ((e.drop 6).take 4)) | none => none
          let okA := pairs.all fun (m1, r1) => pairs.all fun (m2, r2) =>
            !(keyE m1 == keyE m2 && (ap m1).isSome && (ap m2).isSome) || ((ap m1 == ap m2) == (r1.getD 1 "" == r2.getD 1 ""))
          let okC := pairs.all fun (m1, r1) => pairs.all fun (m2, r2) =>
            !(keyE m1 == keyE m2 && ap m1 == ap m2 && (ct m1).isSome && (ct m2).isSome) || ((ct m1 == ct m2) == (r1.getD 2 "" == r2.getD 2 ""))
          let okT := pairs.all fun (m, r) => r.getD 3 "" == toString m.recvUs && r.getD 4 "" == toString m.tsDms && r.getD 5 "" == "1"
          if !okE then "C19=FAIL:ecu-pseudonyms-not-injective" else if !okA then "C19=FAIL:apid-pseudonyms-not-injective"
          else if !okC then "C19=FAIL:ctid-pseudonyms-not-injective" else if !okT then "C19=FAIL:anonymise-changes-times-or-drops"
          else if l1 != l2 then "C19=FAIL:lifecycles-differ-on-anonymised-trace" else "C19=ok"
        | _ => "C19=FAIL:unparsable"
      s!"{mobs}\t{if impl == "" then "-" else orc impl}\t{orc mobs}\tanonymise{if (firstSeen (ms.map fun m => hashOf m.ecu)).length > 1 then ",multi-ecu" else ""}"
    else
      let order := fields (h.getD 1 "") ","
      let rewrite := order.contains "R"
      let parts := impl.splitOn " | "
      let outs := (fields (parts.getD 1 "") " ").filterMap parseOutP
      let loaded := parts.headD ""
      -- the model: same length, same order, identity fields fixed
      let exp := ms.zipIdx.map fun (m, i) =>
        match outs[i]? with
        | some o => expectP rewrite i m o
        | none => expectP rewrite i m { idx := i, recv := 0, ecu := "", ts := m.tsDms, lc := 0, ext := "-", plHash := 0, text := "?" }
      let mobs := s!"{loaded} | {" ".intercalate (exp.map showOutP)}"
      let oi :=
        if impl == "" then "-" else if impl == "PANIC" then "C19=FAIL:panic"
        else if loaded != toString order.length then "C19=FAIL:plugin-not-loaded"
        else if outs.length != ms.length then "C19=FAIL:decoding-plugin-drops-or-duplicates-messages"
        else if (outs.map showOutP) != (exp.map showOutP) then
          (if (outs.map (·.idx)) != (exp.map (·.idx)) then "C19=FAIL:decoding-plugin-reorders-messages" else "C19=FAIL:decoding-plugin-alters-identity-fields")
        else "C19=ok"
      s!"{mobs}\t{oi}\tC19=ok\tplugins:{",".intercalate order}"
  | _ => "bad\tC19=FAIL:unparsable\tC19=FAIL:unparsable\t"

end Plg
