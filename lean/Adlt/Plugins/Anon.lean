/-! Model of the id pseudonymisation of `AnonymizePlugin` (src/plugins/anonymize.rs): ECU ids get `E001, E002, …` in order of
    first appearance; APIDs get `A001, …` per (pseudonymised) ECU; CTIDs get `C001, …` per (ECU, APID).
    `DltChar4::from_str` keeps the first four characters of the formatted string, so the scheme has room for 999 ids per table. -/
namespace Anon

abbrev Id := List UInt8

/-- position-based assignment: the k-th distinct key (1-based) -/
def rankOf (keys : List Id) (k : Id) : Option Nat := (keys.idxOf? k).map (· + 1)

/-- `format!("{c}{:03}", n)` truncated to 4 characters -/
def fmt (c : Char) (n : Nat) : List Char :=
  let ds := (toString n).toList
  (c :: (List.replicate (3 - ds.length) '0' ++ ds)).take 4

structure ApidEntry where
  apid : Id
  num : Nat
  ctids : List Id          -- in order of first appearance
deriving Repr, DecidableEq

structure St where
  ecus : List Id := []                          -- in order of first appearance
  apids : List (Nat × List ApidEntry) := []     -- per ECU number
deriving Repr

def getApids (s : St) (e : Nat) : List ApidEntry := match s.apids.find? (·.1 == e) with | some p => p.2 | none => []
def setApids (s : St) (e : Nat) (l : List ApidEntry) : St :=
  if s.apids.any (·.1 == e) then { s with apids := s.apids.map fun p => if p.1 == e then (e, l) else p }
  else { s with apids := s.apids ++ [(e, l)] }

/-- one message: old ecu, optional (apid, ctid) ↦ new state and the pseudonym numbers (ecu, apid?, ctid?) -/
def step (s : St) (ecu : Id) (ac : Option (Id × Id)) : St × Nat × Option (Nat × Nat) :=
  let (s, en) := match rankOf s.ecus ecu with
    | some n => (s, n)
    | none => ({ s with ecus := s.ecus ++ [ecu] }, s.ecus.length + 1)
  match ac with
  | none => (s, en, none)
  | some (a, c) =>
    let l := getApids s en
    let (l, ae) := match l.find? (·.apid == a) with
      | some e => (l, e)
      | none => let e : ApidEntry := { apid := a, num := l.length + 1, ctids := [] }; (l ++ [e], e)
    let (ae', cn) := match rankOf ae.ctids c with
      | some n => (ae, n)
      | none => ({ ae with ctids := ae.ctids ++ [c] }, ae.ctids.length + 1)
    let l := l.map fun x => if x.apid == a then ae' else x
    (setApids s en l, en, some (ae.num, cn))

def run : St → List (Id × Option (Id × Id)) → List (Nat × Option (Nat × Nat))
  | _, [] => []
  | s, (e, ac) :: t => let r := step s e ac; r.2 :: run r.1 t

/-! ### theorems -/

theorem idxOf?_eq_iff (keys : List Id) (hnd : keys.Nodup) (a b : Id) (i : Nat)
    (ha : keys.idxOf? a = some i) (hb : keys.idxOf? b = some i) : a = b := by
  induction keys generalizing i with
  | nil => simp [List.idxOf?] at ha
  | cons x t ih =>
    rw [List.nodup_cons] at hnd
    simp only [List.idxOf?_cons] at ha hb
    by_cases hxa : x = a
    · by_cases hxb : x = b
      · rw [← hxa, ← hxb]
      · subst hxa
        have h1 : (x == x) = true := by simp
        have h2 : (x == b) = false := by simp [hxb]
        simp only [h1, if_true, Option.some.injEq] at ha
        simp only [h2, Bool.false_eq_true, if_false, Option.map_eq_some_iff] at hb
        obtain ⟨j, _, hj⟩ := hb
        omega
    · have h1 : (x == a) = false := by simp [hxa]
      simp only [h1, Bool.false_eq_true, if_false, Option.map_eq_some_iff] at ha
      obtain ⟨j, hja, hj⟩ := ha
      by_cases hxb : x = b
      · subst hxb
        have h2 : (x == x) = true := by simp
        simp only [h2, if_true, Option.some.injEq] at hb
        omega
      · have h2 : (x == b) = false := by simp [hxb]
        simp only [h2, Bool.false_eq_true, if_false, Option.map_eq_some_iff] at hb
        obtain ⟨j', hjb, hj'⟩ := hb
        exact ih hnd.2 j hja (by rw [hjb]; congr 1; omega)

/-- within one table: equal ids ↦ equal numbers (it is a function of the id), distinct ids ↦ distinct numbers -/
theorem rank_injective (keys : List Id) (hnd : keys.Nodup) (a b : Id) (n : Nat)
    (ha : rankOf keys a = some n) (hb : rankOf keys b = some n) : a = b := by
  simp only [rankOf, Option.map_eq_some_iff] at ha hb
  obtain ⟨i, hi, hin⟩ := ha
  obtain ⟨j, hj, hjn⟩ := hb
  have : i = j := by omega
  subst this
  exact idxOf?_eq_iff keys hnd a b i hi hj

/-- three decimal digits: the formatter is injective on 1 … 999 (beyond that `E1000` is cut to `E100`) -/
def digits3 (n : Nat) : List Nat := [n / 100 % 10, n / 10 % 10, n % 10]

theorem digits3_injective (a b : Nat) (ha : a < 1000) (hb : b < 1000) (h : digits3 a = digits3 b) : a = b := by
  simp only [digits3, List.cons.injEq, and_true] at h
  omega

/-- the capacity limit is real: 1000 and 100 get the same pseudonym text -/
theorem fmt_collides_beyond_999 : fmt 'E' 1000 = fmt 'E' 100 := by decide

end Anon

namespace Anon

/-- for every number below 1000 the pseudonym text is the prefix letter followed by its three decimal digits
    (checked by the kernel over the whole table) -/
theorem fmt_eq_digits : ∀ n, n < 1000 → fmt 'E' n = 'E' :: (digits3 n).map (fun d => Char.ofNat (48 + d)) := by
  decide +kernel

theorem digitChar_injective (x y : Nat) (hx : x < 10) (hy : y < 10) (h : Char.ofNat (48 + x) = Char.ofNat (48 + y)) : x = y := by
  have : ∀ x, x < 10 → ∀ y, y < 10 → Char.ofNat (48 + x) = Char.ofNat (48 + y) → x = y := by decide
  exact this x hx y hy h

/-- distinct numbers up to 999 give distinct pseudonym texts (the letter is the same for one table) -/
theorem fmt_injective (a b : Nat) (ha : a < 1000) (hb : b < 1000) (h : fmt 'E' a = fmt 'E' b) : a = b := by
  rw [fmt_eq_digits a ha, fmt_eq_digits b hb] at h
  simp only [digits3, List.map_cons, List.map_nil, List.cons.injEq, true_and, and_true] at h
  obtain ⟨h1, h2, h3⟩ := h
  have e1 := digitChar_injective _ _ (Nat.mod_lt _ (by decide)) (Nat.mod_lt _ (by decide)) h1
  have e2 := digitChar_injective _ _ (Nat.mod_lt _ (by decide)) (Nat.mod_lt _ (by decide)) h2
  have e3 := digitChar_injective _ _ (Nat.mod_lt _ (by decide)) (Nat.mod_lt _ (by decide)) h3
  omega

end Anon
