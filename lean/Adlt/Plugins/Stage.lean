/-! Model of the plugin stage `plugins_process_msgs` (src/plugins/mod.rs): every message is passed through the active
    plugins in order; a plugin may rewrite the message and may veto it (`process_msg` returns false: the remaining plugins
    are skipped and the message is not forwarded). A plugin is any deterministic function of the messages it has been
    handed so far (its state) and the current message. -/
namespace Plg

structure PMsg where
  index : Nat
  recv : Nat
  ecu : List UInt8
  ts : Nat
  lifecycle : Nat
  payload : List UInt8
  ext : Option (List UInt8)      -- extended header bytes, if present
  text : Option String           -- decoded payload text set by a plugin
deriving Repr, DecidableEq

structure Plugin where
  proc : List PMsg → PMsg → PMsg × Bool

/-- a plugin instance: the plugin and what it has been handed so far -/
abbrev Inst := Plugin × List PMsg

/-- one message through the plugin list: (updated instances, message after the plugins that saw it, forwarded?) -/
def through : List Inst → PMsg → List Inst × PMsg × Bool
  | [], m => ([], m, true)
  | (p, h) :: rest, m =>
    let r := p.proc h m
    if r.2 then
      let t := through rest r.1
      ((p, h ++ [m]) :: t.1, t.2.1, t.2.2)
    else ((p, h ++ [m]) :: rest, r.1, false)

def stage : List Inst → List PMsg → List PMsg
  | _, [] => []
  | ps, m :: ms =>
    let r := through ps m
    if r.2.2 then r.2.1 :: stage r.1 ms else stage r.1 ms

def pluginsProcess (ps : List Plugin) (ms : List PMsg) : List PMsg := stage (ps.map fun p => (p, [])) ms

/-- what a decoding plugin must leave alone: index, reception time, ECU, payload bytes, lifecycle, and an extended
    header that exists -/
def Keeps (a b : PMsg) : Prop :=
  a.index = b.index ∧ a.recv = b.recv ∧ a.ecu = b.ecu ∧ a.payload = b.payload ∧ a.lifecycle = b.lifecycle ∧
  (b.ext.isSome = true → a.ext = b.ext)

theorem Keeps.refl (a : PMsg) : Keeps a a := ⟨rfl, rfl, rfl, rfl, rfl, fun _ => rfl⟩
theorem Keeps.trans {a b c : PMsg} (h1 : Keeps a b) (h2 : Keeps b c) : Keeps a c := by
  obtain ⟨a1, a2, a3, a4, a5, a6⟩ := h1
  obtain ⟨b1, b2, b3, b4, b5, b6⟩ := h2
  refine ⟨a1.trans b1, a2.trans b2, a3.trans b3, a4.trans b4, a5.trans b5, ?_⟩
  intro hc
  have hb := b6 hc
  have : b.ext.isSome = true := by rw [hb]; exact hc
  rw [a6 this, hb]

/-- a decoder: never vetoes, keeps the protected fields (and, unless it is the rewrite plugin, the timestamp) -/
def Conservative (p : Plugin) : Prop := ∀ h m, (p.proc h m).2 = true ∧ Keeps (p.proc h m).1 m
def KeepsTs (p : Plugin) : Prop := ∀ h m, (p.proc h m).1.ts = m.ts

theorem through_cons_true (p : Plugin) (h : List PMsg) (rest : List Inst) (m : PMsg) (h1 : (p.proc h m).2 = true) :
    through ((p, h) :: rest) m =
      ((p, h ++ [m]) :: (through rest (p.proc h m).1).1, (through rest (p.proc h m).1).2.1, (through rest (p.proc h m).1).2.2) := by
  simp [through, h1]

theorem through_conservative (ps : List Inst) (hc : ∀ i ∈ ps, Conservative i.1) (m : PMsg) :
    (through ps m).2.2 = true ∧ Keeps (through ps m).2.1 m ∧
    (∀ i ∈ (through ps m).1, Conservative i.1) ∧ (through ps m).1.map (·.1) = ps.map (·.1) := by
  induction ps generalizing m with
  | nil => exact ⟨rfl, Keeps.refl m, by simp [through], rfl⟩
  | cons i rest ih =>
    obtain ⟨p, h⟩ := i
    have hp := hc (p, h) (by simp)
    obtain ⟨h1, h2⟩ := hp h m
    have hr : ∀ i ∈ rest, Conservative i.1 := fun i hi => hc i (by simp [hi])
    obtain ⟨i1, i2, i3, i4⟩ := ih hr (p.proc h m).1
    rw [through_cons_true p h rest m h1]
    refine ⟨i1, i2.trans h2, ?_, ?_⟩
    · intro j hj
      simp only [List.mem_cons] at hj
      rcases hj with hj | hj
      · subst hj; exact hp
      · exact i3 j hj
    · simp [i4]

theorem through_ts (ps : List Inst) (hc : ∀ i ∈ ps, Conservative i.1) (ht : ∀ i ∈ ps, KeepsTs i.1) (m : PMsg) :
    (through ps m).2.1.ts = m.ts := by
  induction ps generalizing m with
  | nil => rfl
  | cons i rest ih =>
    obtain ⟨p, h⟩ := i
    have h1 := (hc (p, h) (by simp) h m).1
    have h2 := ht (p, h) (by simp) h m
    rw [through_cons_true p h rest m h1]
    show (through rest (p.proc h m).1).2.1.ts = m.ts
    rw [ih (fun i hi => hc i (by simp [hi])) (fun i hi => ht i (by simp [hi])), h2]

/-- the stage with decoders only: one output per input, in order, protected fields kept -/
theorem stage_conservative (ms : List PMsg) : ∀ (ps : List Inst), (∀ i ∈ ps, Conservative i.1) →
    (stage ps ms).length = ms.length ∧ ∀ k (h1 : k < (stage ps ms).length) (h2 : k < ms.length), Keeps (stage ps ms)[k] ms[k] := by
  induction ms with
  | nil => intro ps _; exact ⟨rfl, fun k h1 _ => absurd h1 (by simp [stage])⟩
  | cons m t ih =>
    intro ps hc
    obtain ⟨f1, f2, f3, _⟩ := through_conservative ps hc m
    obtain ⟨l, hk⟩ := ih (through ps m).1 f3
    have hst : stage ps (m :: t) = (through ps m).2.1 :: stage (through ps m).1 t := by simp [stage, f1]
    rw [hst]
    refine ⟨by simp [l], ?_⟩
    intro k h1 h2
    cases k with
    | zero => simpa using f2
    | succ k =>
      simp only [List.getElem_cons_succ]
      exact hk k (by simpa using h1) (by simpa using h2)

end Plg
