import Adlt.Plugins.Anon
/-! C19, anonymiser at stream level: over a whole stream, the pseudonym numbers handed out by `Anon.run` are a function of the
    ids and injective: two messages get the same ECU number iff they have the same ECU id; with the same ECU, the same APID
    number iff the same APID; with the same ECU and APID, the same CTID number iff the same CTID. Proof: every number handed
    out is the number found in the *final* tables (numbers are never re-assigned), and in a well-formed state the tables are
    injective. -/
namespace Anon

def ecuStep (s : St) (ecu : Id) : St × Nat :=
  match rankOf s.ecus ecu with
  | some n => (s, n)
  | none => ({ s with ecus := s.ecus ++ [ecu] }, s.ecus.length + 1)

def findA (l : List ApidEntry) (a : Id) : Option ApidEntry := l.find? (·.apid == a)

def newEntry (l : List ApidEntry) (a : Id) : ApidEntry := { apid := a, num := l.length + 1, ctids := [] }

def entryStep (ae : ApidEntry) (c : Id) : ApidEntry × Nat :=
  match rankOf ae.ctids c with
  | some n => (ae, n)
  | none => ({ ae with ctids := ae.ctids ++ [c] }, ae.ctids.length + 1)

def apidStep (l : List ApidEntry) (a c : Id) : List ApidEntry × Nat × Nat :=
  let p : List ApidEntry × ApidEntry := match findA l a with
    | some e => (l, e)
    | none => (l ++ [newEntry l a], newEntry l a)
  let q := entryStep p.2 c
  (p.1.map fun x => if x.apid == a then q.1 else x, p.2.num, q.2)

theorem step_eq (s : St) (ecu : Id) (ac : Option (Id × Id)) : step s ecu ac =
    match ac with
    | none => ((ecuStep s ecu).1, (ecuStep s ecu).2, none)
    | some (a, c) =>
      (setApids (ecuStep s ecu).1 (ecuStep s ecu).2 (apidStep (getApids (ecuStep s ecu).1 (ecuStep s ecu).2) a c).1,
       (ecuStep s ecu).2,
       some ((apidStep (getApids (ecuStep s ecu).1 (ecuStep s ecu).2) a c).2.1, (apidStep (getApids (ecuStep s ecu).1 (ecuStep s ecu).2) a c).2.2)) := by
  unfold step ecuStep
  cases hr : rankOf s.ecus ecu <;> cases ac with
  | none => rfl
  | some p =>
    obtain ⟨a, c⟩ := p
    simp only []
    unfold apidStep findA entryStep newEntry
    simp only []
    generalize getApids _ _ = l
    cases hf : List.find? (fun x => x.apid == a) l with
    | none =>
      simp only []
      cases hc : rankOf ([] : List Id) c <;> rfl
    | some e =>
      simp only []
      cases hc : rankOf e.ctids c <;> rfl

/-! ### rank in a growing table -/

theorem idxOf?_append_stable (keys more : List Id) (k : Id) (i : Nat) (h : keys.idxOf? k = some i) :
    (keys ++ more).idxOf? k = some i := by
  induction keys generalizing i with
  | nil => simp [List.idxOf?] at h
  | cons x t ih =>
    simp only [List.cons_append, List.idxOf?_cons] at h ⊢
    by_cases hx : x = k
    · have h1 : (x == k) = true := by simp [hx]
      simp only [h1, if_true] at h ⊢; exact h
    · have h1 : (x == k) = false := by simp [hx]
      simp only [h1, Bool.false_eq_true, if_false, Option.map_eq_some_iff] at h ⊢
      obtain ⟨j, hj, hji⟩ := h
      exact ⟨j, ih j hj, hji⟩

theorem rank_append_stable (keys more : List Id) (k : Id) (n : Nat) (h : rankOf keys k = some n) :
    rankOf (keys ++ more) k = some n := by
  simp only [rankOf, Option.map_eq_some_iff] at h ⊢
  obtain ⟨i, hi, hin⟩ := h
  exact ⟨i, idxOf?_append_stable keys more k i hi, hin⟩

theorem idxOf?_none_iff (keys : List Id) (k : Id) : keys.idxOf? k = none ↔ k ∉ keys := by
  induction keys with
  | nil => simp [List.idxOf?]
  | cons x t ih =>
    simp only [List.idxOf?_cons, List.mem_cons, not_or]
    by_cases hx : x = k
    · simp [hx]
    · have : (x == k) = false := by simp [hx]
      simp only [this, Bool.false_eq_true, if_false, Option.map_eq_none_iff, ih]
      exact ⟨fun h => ⟨fun hc => hx hc.symm, h⟩, fun h => h.2⟩

theorem rank_none_iff (keys : List Id) (k : Id) : rankOf keys k = none ↔ k ∉ keys := by
  simp only [rankOf, Option.map_eq_none_iff]; exact idxOf?_none_iff keys k

theorem idxOf?_snoc_new (keys : List Id) (k : Id) (h : k ∉ keys) : (keys ++ [k]).idxOf? k = some keys.length := by
  induction keys with
  | nil => simp [List.idxOf?_cons]
  | cons x t ih =>
    simp only [List.mem_cons, not_or] at h
    have : (x == k) = false := by simp; exact fun hc => h.1 hc.symm
    simp only [List.cons_append, List.idxOf?_cons, this, Bool.false_eq_true, if_false, ih h.2, Option.map_some, List.length_cons]

theorem rank_snoc_new (keys : List Id) (k : Id) (h : rankOf keys k = none) : rankOf (keys ++ [k]) k = some (keys.length + 1) := by
  rw [rank_none_iff] at h
  simp [rankOf, idxOf?_snoc_new keys k h]

theorem idxOf?_lt (keys : List Id) (k : Id) (i : Nat) (h : keys.idxOf? k = some i) : i < keys.length := by
  induction keys generalizing i with
  | nil => simp [List.idxOf?] at h
  | cons x t ih =>
    simp only [List.idxOf?_cons] at h
    by_cases hx : x = k
    · have h1 : (x == k) = true := by simp [hx]
      simp only [h1, if_true, Option.some.injEq] at h
      simp only [List.length_cons]; omega
    · have h1 : (x == k) = false := by simp [hx]
      simp only [h1, Bool.false_eq_true, if_false, Option.map_eq_some_iff] at h
      obtain ⟨j, hj, hji⟩ := h
      have := ih j hj
      simp only [List.length_cons]; omega

theorem rank_bounds (keys : List Id) (k : Id) (n : Nat) (h : rankOf keys k = some n) : 1 ≤ n ∧ n ≤ keys.length := by
  simp only [rankOf, Option.map_eq_some_iff] at h
  obtain ⟨i, hi, hin⟩ := h
  have := idxOf?_lt keys k i hi
  omega

/-! ### the ECU table -/

theorem ecuStep_rank (s : St) (e : Id) : rankOf (ecuStep s e).1.ecus e = some (ecuStep s e).2 := by
  unfold ecuStep
  cases h : rankOf s.ecus e with
  | some n => exact h
  | none => exact rank_snoc_new s.ecus e h

theorem ecuStep_stable (s : St) (e k : Id) (n : Nat) (h : rankOf s.ecus k = some n) : rankOf (ecuStep s e).1.ecus k = some n := by
  unfold ecuStep
  cases rankOf s.ecus e with
  | some _ => exact h
  | none => exact rank_append_stable s.ecus [e] k n h

theorem ecuStep_nodup (s : St) (e : Id) (h : s.ecus.Nodup) : (ecuStep s e).1.ecus.Nodup := by
  unfold ecuStep
  cases hr : rankOf s.ecus e with
  | some _ => exact h
  | none =>
    rw [rank_none_iff] at hr
    show (s.ecus ++ [e]).Nodup
    rw [List.nodup_append]
    exact ⟨h, by simp, by intro a ha b hb; simp only [List.mem_singleton] at hb; subst hb; exact fun hc => hr (hc ▸ ha)⟩

theorem ecuStep_apids (s : St) (e : Id) : (ecuStep s e).1.apids = s.apids := by
  unfold ecuStep; cases rankOf s.ecus e <;> rfl

/-! ### the APID tables as a function of the ECU number -/

theorem find_key_map_other (e e' : Nat) (l : List ApidEntry) (h : e' ≠ e) (T : List (Nat × List ApidEntry)) :
    List.find? (fun x => x.1 == e') (T.map fun p => if p.1 == e then (e, l) else p) = List.find? (fun x => x.1 == e') T := by
  induction T with
  | nil => rfl
  | cons q u ihu =>
    rw [List.map_cons]
    by_cases hq : q.1 = e
    · have g1 : (q.1 == e) = true := by simp [hq]
      rw [if_pos g1, List.find?_cons_of_neg (by simp; exact fun hc => h hc.symm), List.find?_cons_of_neg (by simp [hq]; exact fun hc => h hc.symm)]
      exact ihu
    · have g1 : ¬ (q.1 == e) = true := by simp [hq]
      rw [if_neg g1]
      by_cases hqe : q.1 = e'
      · rw [List.find?_cons_of_pos (by simp [hqe]), List.find?_cons_of_pos (by simp [hqe])]
      · rw [List.find?_cons_of_neg (by simp [hqe]), List.find?_cons_of_neg (by simp [hqe])]
        exact ihu

theorem find_key_map_same (e : Nat) (l : List ApidEntry) (T : List (Nat × List ApidEntry)) (h : T.any (fun x => x.1 == e) = true) :
    List.find? (fun x => x.1 == e) (T.map fun p => if p.1 == e then (e, l) else p) = some (e, l) := by
  induction T with
  | nil => simp at h
  | cons q u ihu =>
    rw [List.map_cons]
    by_cases hq : q.1 = e
    · have g1 : (q.1 == e) = true := by simp [hq]
      rw [if_pos g1, List.find?_cons_of_pos (by simp)]
    · have g1 : ¬ (q.1 == e) = true := by simp [hq]
      rw [if_neg g1, List.find?_cons_of_neg (by simp [hq])]
      apply ihu
      simp only [List.any_cons, Bool.or_eq_true] at h
      rcases h with h | h
      · exact absurd h g1
      · exact h

theorem getApids_setApids (s : St) (e : Nat) (l : List ApidEntry) (e' : Nat) :
    getApids (setApids s e l) e' = if e' = e then l else getApids s e' := by
  by_cases hany : s.apids.any (fun x => x.1 == e) = true
  · have hs : setApids s e l = { s with apids := s.apids.map fun p => if p.1 == e then (e, l) else p } := by
      unfold setApids; rw [if_pos hany]
    rw [hs]
    unfold getApids
    by_cases he : e' = e
    · subst he
      rw [if_pos rfl]
      show (match List.find? (fun x => x.1 == e') (s.apids.map fun p => if p.1 == e' then (e', l) else p) with | some p => p.2 | none => []) = l
      rw [find_key_map_same e' l s.apids hany]
    · rw [if_neg he]
      show (match List.find? (fun x => x.1 == e') (s.apids.map fun p => if p.1 == e then (e, l) else p) with | some p => p.2 | none => []) = _
      rw [find_key_map_other e e' l he]
      rfl
  · have hs : setApids s e l = { s with apids := s.apids ++ [(e, l)] } := by
      unfold setApids; rw [if_neg hany]
    rw [hs]
    unfold getApids
    show (match List.find? (fun x => x.1 == e') (s.apids ++ [(e, l)]) with | some p => p.2 | none => []) = _
    rw [List.find?_append]
    cases hf : List.find? (fun x => x.1 == e') s.apids with
    | some p =>
      have hp := List.find?_some hf
      have hm := List.mem_of_find?_eq_some hf
      have : e' ≠ e := by
        intro hc
        apply hany
        rw [List.any_eq_true]
        exact ⟨p, hm, by rw [← hc]; exact hp⟩
      rw [if_neg this]; rfl
    | none =>
      by_cases he : e' = e
      · subst he
        rw [if_pos rfl, Option.none_or, List.find?_cons_of_pos (by simp)]
      · rw [if_neg he, Option.none_or, List.find?_cons_of_neg (by simp; exact fun hc => he hc.symm)]
        rfl

theorem findA_some (l : List ApidEntry) (a : Id) (x : ApidEntry) (h : findA l a = some x) : x.apid = a ∧ x ∈ l := by
  unfold findA at h
  exact ⟨by simpa using List.find?_some h, List.mem_of_find?_eq_some h⟩

theorem findA_map_replace_same (l : List ApidEntry) (a : Id) (y : ApidEntry) (hy : y.apid = a) :
    findA (l.map fun x => if x.apid == a then y else x) a = (findA l a).map (fun _ => y) := by
  unfold findA
  induction l with
  | nil => rfl
  | cons x t ih =>
    rw [List.map_cons]
    by_cases hx : x.apid = a
    · have h1 : (x.apid == a) = true := by simp [hx]
      rw [if_pos h1, List.find?_cons_of_pos (by simp [hy]), List.find?_cons_of_pos (by simp [hx])]
      rfl
    · have h1 : ¬ (x.apid == a) = true := by simp [hx]
      rw [if_neg h1, List.find?_cons_of_neg (by simp [hx]), List.find?_cons_of_neg (by simp [hx])]
      exact ih

theorem findA_map_replace_other (l : List ApidEntry) (a : Id) (y : ApidEntry) (hy : y.apid = a) (b : Id) (hb : b ≠ a) :
    findA (l.map fun x => if x.apid == a then y else x) b = findA l b := by
  unfold findA
  induction l with
  | nil => rfl
  | cons x t ih =>
    rw [List.map_cons]
    by_cases hx : x.apid = a
    · have h1 : (x.apid == a) = true := by simp [hx]
      rw [if_pos h1, List.find?_cons_of_neg (by simp [hy]; exact fun hc => hb hc.symm),
        List.find?_cons_of_neg (by simp [hx]; exact fun hc => hb hc.symm)]
      exact ih
    · have h1 : ¬ (x.apid == a) = true := by simp [hx]
      rw [if_neg h1]
      by_cases hxb : x.apid = b
      · rw [List.find?_cons_of_pos (by simp [hxb]), List.find?_cons_of_pos (by simp [hxb])]
      · rw [List.find?_cons_of_neg (by simp [hxb]), List.find?_cons_of_neg (by simp [hxb])]
        exact ih

theorem findA_snoc (l : List ApidEntry) (e : ApidEntry) (b : Id) :
    findA (l ++ [e]) b = match findA l b with | some x => some x | none => if e.apid = b then some e else none := by
  unfold findA
  rw [List.find?_append]
  cases List.find? (fun x => x.apid == b) l with
  | some x => rfl
  | none =>
    by_cases h : e.apid = b
    · simp [h]
    · have : (e.apid == b) = false := by simp [h]
      simp [this, h]

/-! ### one entry -/

theorem entryStep_facts (ae : ApidEntry) (c : Id) :
    (entryStep ae c).1.apid = ae.apid ∧ (entryStep ae c).1.num = ae.num ∧ rankOf (entryStep ae c).1.ctids c = some (entryStep ae c).2 ∧
    (∀ c' n, rankOf ae.ctids c' = some n → rankOf (entryStep ae c).1.ctids c' = some n) ∧
    (ae.ctids.Nodup → (entryStep ae c).1.ctids.Nodup) := by
  unfold entryStep
  cases h : rankOf ae.ctids c with
  | some n => exact ⟨rfl, rfl, h, fun _ _ h' => h', fun h' => h'⟩
  | none =>
    refine ⟨rfl, rfl, rank_snoc_new _ _ h, fun c' n h' => rank_append_stable _ _ _ _ h', ?_⟩
    intro hn
    rw [rank_none_iff] at h
    show (ae.ctids ++ [c]).Nodup
    rw [List.nodup_append]
    exact ⟨hn, by simp, by intro a ha b hb; simp only [List.mem_singleton] at hb; subst hb; exact fun hc => h (hc ▸ ha)⟩

/-! ### one APID list -/

structure WfL (l : List ApidEntry) : Prop where
  numApid : ∀ x ∈ l, ∀ y ∈ l, x.num = y.num → x.apid = y.apid
  apidNum : ∀ x ∈ l, ∀ y ∈ l, x.apid = y.apid → x.num = y.num
  numLe : ∀ x ∈ l, x.num ≤ l.length
  ctids : ∀ x ∈ l, x.ctids.Nodup

def stage1 (l : List ApidEntry) (a : Id) : List ApidEntry × ApidEntry :=
  match findA l a with
  | some e => (l, e)
  | none => (l ++ [newEntry l a], newEntry l a)

theorem apidStep_eq (l : List ApidEntry) (a c : Id) : apidStep l a c =
    ((stage1 l a).1.map (fun x => if x.apid == a then (entryStep (stage1 l a).2 c).1 else x), (stage1 l a).2.num,
     (entryStep (stage1 l a).2 c).2) := rfl

theorem findA_none (l : List ApidEntry) (a : Id) (h : findA l a = none) : ∀ x ∈ l, x.apid ≠ a := by
  unfold findA at h
  rw [List.find?_eq_none] at h
  intro x hx hc
  exact h x hx (by simp [hc])

theorem stage1_facts (l : List ApidEntry) (a : Id) :
    findA (stage1 l a).1 a = some (stage1 l a).2 ∧ (stage1 l a).2.apid = a ∧
    (∀ b x, findA l b = some x → findA (stage1 l a).1 b = some x) ∧
    (WfL l → WfL (stage1 l a).1) := by
  unfold stage1
  cases hf : findA l a with
  | some e => exact ⟨hf, (findA_some l a e hf).1, fun _ _ h => h, fun h => h⟩
  | none =>
    have hno := findA_none l a hf
    refine ⟨?_, rfl, ?_, ?_⟩
    · show findA (l ++ [newEntry l a]) a = some (newEntry l a)
      rw [findA_snoc, hf]; simp [newEntry]
    · intro b x hb
      show findA (l ++ [newEntry l a]) b = some x
      rw [findA_snoc, hb]
    · intro hw
      show WfL (l ++ [newEntry l a])
      have hmem : ∀ x, x ∈ l ++ [newEntry l a] → x ∈ l ∨ x = newEntry l a := by
        intro x hx; simpa using hx
      refine ⟨?_, ?_, ?_, ?_⟩
      · intro x hx y hy hn
        rcases hmem x hx with h1 | h1 <;> rcases hmem y hy with h2 | h2
        · exact hw.numApid x h1 y h2 hn
        · have := hw.numLe x h1; rw [h2] at hn; simp only [newEntry] at hn; omega
        · have := hw.numLe y h2; rw [h1] at hn; simp only [newEntry] at hn; omega
        · rw [h1, h2]
      · intro x hx y hy ha
        rcases hmem x hx with h1 | h1 <;> rcases hmem y hy with h2 | h2
        · exact hw.apidNum x h1 y h2 ha
        · rw [h2] at ha; exact absurd ha (hno x h1)
        · rw [h1] at ha; exact absurd ha.symm (hno y h2)
        · rw [h1, h2]
      · intro x hx
        rw [List.length_append, List.length_singleton]
        rcases hmem x hx with h1 | h1
        · have := hw.numLe x h1; omega
        · rw [h1]; simp [newEntry]
      · intro x hx
        rcases hmem x hx with h1 | h1
        · exact hw.ctids x h1
        · rw [h1]; simp [newEntry]

theorem replace_wf (l : List ApidEntry) (a : Id) (ae y : ApidEntry) (hae : ae ∈ l) (haa : ae.apid = a) (hya : y.apid = a)
    (hyn : y.num = ae.num) (hyc : y.ctids.Nodup) (hw : WfL l) : WfL (l.map fun x => if x.apid == a then y else x) := by
  have hmem : ∀ x', x' ∈ (l.map fun x => if x.apid == a then y else x) →
      ∃ x ∈ l, x'.apid = x.apid ∧ x'.num = x.num ∧ x'.ctids.Nodup := by
    intro x' hx'
    rw [List.mem_map] at hx'
    obtain ⟨x, hx, rfl⟩ := hx'
    by_cases h : x.apid = a
    · have h1 : (x.apid == a) = true := by simp [h]
      rw [if_pos h1]
      exact ⟨x, hx, by rw [hya, h], by rw [hyn]; exact hw.apidNum ae hae x hx (by rw [haa, h]), hyc⟩
    · have h1 : ¬ (x.apid == a) = true := by simp [h]
      rw [if_neg h1]
      exact ⟨x, hx, rfl, rfl, hw.ctids x hx⟩
  refine ⟨?_, ?_, ?_, ?_⟩
  · intro x' hx' z' hz' hn
    obtain ⟨x, hx, a1, n1, _⟩ := hmem x' hx'
    obtain ⟨z, hz, a2, n2, _⟩ := hmem z' hz'
    rw [a1, a2]; exact hw.numApid x hx z hz (by rw [← n1, ← n2]; exact hn)
  · intro x' hx' z' hz' ha
    obtain ⟨x, hx, a1, n1, _⟩ := hmem x' hx'
    obtain ⟨z, hz, a2, n2, _⟩ := hmem z' hz'
    rw [n1, n2]; exact hw.apidNum x hx z hz (by rw [← a1, ← a2]; exact ha)
  · intro x' hx'
    obtain ⟨x, hx, _, n1, _⟩ := hmem x' hx'
    rw [List.length_map, n1]; exact hw.numLe x hx
  · intro x' hx'
    obtain ⟨_, _, _, _, c1⟩ := hmem x' hx'
    exact c1

/-- what one APID/CTID step does to the list of its ECU -/
theorem apidStep_facts (l : List ApidEntry) (a c : Id) (hw : WfL l) :
    (∃ y, findA (apidStep l a c).1 a = some y ∧ y.num = (apidStep l a c).2.1 ∧ rankOf y.ctids c = some (apidStep l a c).2.2) ∧
    (∀ b x, findA l b = some x → ∃ x', findA (apidStep l a c).1 b = some x' ∧ x'.num = x.num ∧
        ∀ c' n, rankOf x.ctids c' = some n → rankOf x'.ctids c' = some n) ∧
    WfL (apidStep l a c).1 := by
  rw [apidStep_eq]
  obtain ⟨s1, s2, s3, s4⟩ := stage1_facts l a
  obtain ⟨e1, e2, e3, e4, e5⟩ := entryStep_facts (stage1 l a).2 c
  have hw1 := s4 hw
  have hae := (findA_some _ _ _ s1).2
  generalize stage1 l a = p at *
  generalize entryStep p.2 c = q at *
  have hya : q.1.apid = a := by rw [e1, s2]
  refine ⟨⟨q.1, ?_, e2, e3⟩, ?_, ?_⟩
  · show findA (p.1.map fun x => if x.apid == a then q.1 else x) a = some q.1
    rw [findA_map_replace_same _ _ _ hya, s1]; rfl
  · intro b x hb
    have h1 := s3 b x hb
    show ∃ x', findA (p.1.map fun x => if x.apid == a then q.1 else x) b = some x' ∧ _
    by_cases hba : b = a
    · subst hba
      rw [findA_map_replace_same _ _ _ hya, s1]
      rw [s1] at h1
      have : p.2 = x := by simpa using h1
      subst this
      exact ⟨q.1, rfl, e2, e4⟩
    · rw [findA_map_replace_other _ _ _ hya b hba, h1]
      exact ⟨x, rfl, rfl, fun _ _ h => h⟩
  · exact replace_wf p.1 a p.2 q.1 hae s2 hya e2 (e5 (hw1.ctids p.2 hae)) hw1

/-! ### whole states -/

structure Wf (s : St) : Prop where
  ecus : s.ecus.Nodup
  lists : ∀ en, WfL (getApids s en)

/-- the numbers of a message, looked up in the tables of a state -/
def Agrees (F : St) (m : Id × Option (Id × Id)) (o : Nat × Option (Nat × Nat)) : Prop :=
  rankOf F.ecus m.1 = some o.1 ∧
  match m.2, o.2 with
  | none, none => True
  | some (a, c), some (an, cn) => ∃ x, findA (getApids F o.1) a = some x ∧ x.num = an ∧ rankOf x.ctids c = some cn
  | _, _ => False

theorem getApids_ecuStep (s : St) (e : Id) (en : Nat) : getApids (ecuStep s e).1 en = getApids s en := by
  unfold getApids; rw [ecuStep_apids]

theorem wfL_nil : WfL [] :=
  ⟨(by intro x hx; cases hx), (by intro x hx; cases hx), (by intro x hx; cases hx), (by intro x hx; cases hx)⟩

theorem step_wf (s : St) (e : Id) (ac : Option (Id × Id)) (h : Wf s) : Wf (step s e ac).1 := by
  rw [step_eq]
  cases ac with
  | none => exact ⟨ecuStep_nodup s e h.ecus, fun en => by rw [getApids_ecuStep]; exact h.lists en⟩
  | some p =>
    obtain ⟨a, c⟩ := p
    refine ⟨?_, ?_⟩
    · show (setApids (ecuStep s e).1 _ _).ecus.Nodup
      have : ∀ (x : St) k l, (setApids x k l).ecus = x.ecus := by intro x k l; unfold setApids; split <;> rfl
      rw [this]; exact ecuStep_nodup s e h.ecus
    · intro en
      show WfL (getApids (setApids (ecuStep s e).1 _ _) en)
      rw [getApids_setApids]
      split
      · rw [getApids_ecuStep]; exact (apidStep_facts _ a c (h.lists _)).2.2
      · rw [getApids_ecuStep]; exact h.lists en

theorem step_agrees (s : St) (e : Id) (ac : Option (Id × Id)) (h : Wf s) : Agrees (step s e ac).1 (e, ac) (step s e ac).2 := by
  rw [step_eq]
  cases ac with
  | none => exact ⟨ecuStep_rank s e, trivial⟩
  | some p =>
    obtain ⟨a, c⟩ := p
    have hecus : ∀ (x : St) k l, (setApids x k l).ecus = x.ecus := by intro x k l; unfold setApids; split <;> rfl
    refine ⟨by show rankOf (setApids _ _ _).ecus e = _; rw [hecus]; exact ecuStep_rank s e, ?_⟩
    show ∃ x, findA (getApids (setApids (ecuStep s e).1 _ _) (ecuStep s e).2) a = some x ∧ _
    rw [getApids_setApids, if_pos rfl, getApids_ecuStep]
    obtain ⟨⟨y, y1, y2, y3⟩, _, _⟩ := apidStep_facts (getApids s (ecuStep s e).2) a c (h.lists _)
    exact ⟨y, y1, y2, y3⟩

theorem step_stable (s : St) (e : Id) (ac : Option (Id × Id)) (h : Wf s) (m : Id × Option (Id × Id)) (o : Nat × Option (Nat × Nat))
    (hm : Agrees s m o) : Agrees (step s e ac).1 m o := by
  rw [step_eq]
  obtain ⟨hm1, hm2⟩ := hm
  cases ac with
  | none =>
    refine ⟨ecuStep_stable s e m.1 o.1 hm1, ?_⟩
    obtain ⟨m1, m2⟩ := m
    obtain ⟨o1, o2⟩ := o
    cases m2 with
    | none => cases o2 <;> exact hm2
    | some p =>
      obtain ⟨a0, c0⟩ := p
      cases o2 with
      | none => exact hm2
      | some q =>
        obtain ⟨an, cn⟩ := q
        show ∃ x, findA (getApids (ecuStep s e).1 o1) a0 = some x ∧ _
        rw [getApids_ecuStep]; exact hm2
  | some p =>
    obtain ⟨a, c⟩ := p
    have hecus : ∀ (x : St) k l, (setApids x k l).ecus = x.ecus := by intro x k l; unfold setApids; split <;> rfl
    refine ⟨by show rankOf (setApids _ _ _).ecus m.1 = _; rw [hecus]; exact ecuStep_stable s e m.1 o.1 hm1, ?_⟩
    obtain ⟨m1, m2⟩ := m
    obtain ⟨o1, o2⟩ := o
    cases m2 with
    | none => cases o2 <;> exact hm2
    | some p0 =>
      obtain ⟨a0, c0⟩ := p0
      cases o2 with
      | none => exact hm2
      | some q =>
        obtain ⟨an, cn⟩ := q
        obtain ⟨x, x1, x2, x3⟩ := hm2
        show ∃ x, findA (getApids (setApids (ecuStep s e).1 _ _) o1) a0 = some x ∧ _
        rw [getApids_setApids]
        split
        · rename_i ho
          rw [getApids_ecuStep]
          rw [ho] at x1
          obtain ⟨_, st, _⟩ := apidStep_facts (getApids s (ecuStep s e).2) a c (h.lists _)
          obtain ⟨x', h1, h2, h3⟩ := st a0 x x1
          exact ⟨x', h1, h2.trans x2, h3 c0 cn x3⟩
        · rw [getApids_ecuStep]; exact ⟨x, x1, x2, x3⟩

/-- the state after the whole stream -/
def final : St → List (Id × Option (Id × Id)) → St
  | s, [] => s
  | s, (e, ac) :: t => final (step s e ac).1 t

theorem final_wf (ms : List (Id × Option (Id × Id))) : ∀ s, Wf s → Wf (final s ms) := by
  induction ms with
  | nil => intro s h; exact h
  | cons m t ih => intro s h; obtain ⟨e, ac⟩ := m; exact ih _ (step_wf s e ac h)

theorem final_stable (ms : List (Id × Option (Id × Id))) : ∀ s, Wf s → ∀ m o, Agrees s m o → Agrees (final s ms) m o := by
  induction ms with
  | nil => intro s _ m o h; exact h
  | cons x t ih =>
    intro s hw m o h
    obtain ⟨e, ac⟩ := x
    exact ih _ (step_wf s e ac hw) m o (step_stable s e ac hw m o h)

/-- every number handed out along the stream is the number found in the final tables -/
theorem run_agrees (ms : List (Id × Option (Id × Id))) : ∀ s, Wf s →
    ∀ p ∈ ms.zip (run s ms), Agrees (final s ms) p.1 p.2 := by
  induction ms with
  | nil => intro s _ p hp; simp [run] at hp
  | cons x t ih =>
    intro s hw p hp
    obtain ⟨e, ac⟩ := x
    simp only [run, List.zip_cons_cons, List.mem_cons] at hp
    rcases hp with rfl | hp
    · exact final_stable t _ (step_wf s e ac hw) _ _ (step_agrees s e ac hw)
    · exact ih _ (step_wf s e ac hw) p hp

theorem init_wf : Wf {} := ⟨(by simp), fun en => by
  have : getApids ({} : St) en = [] := rfl
  rw [this]; exact wfL_nil⟩

/-! ### the stream-level statement -/

abbrev In := Id × Option (Id × Id)
abbrev Out := Nat × Option (Nat × Nat)

/-- ECU ids: over the whole stream, equal ids get equal numbers and distinct ids distinct numbers -/
theorem stream_ecu (ms : List In) (p q : In × Out) (hp : p ∈ ms.zip (run {} ms)) (hq : q ∈ ms.zip (run {} ms)) :
    p.2.1 = q.2.1 ↔ p.1.1 = q.1.1 := by
  have hw := final_wf ms {} init_wf
  have ap := (run_agrees ms {} init_wf p hp).1
  have aq := (run_agrees ms {} init_wf q hq).1
  constructor
  · intro h
    rw [h] at ap
    exact rank_injective _ hw.ecus _ _ _ ap aq
  · intro h
    rw [h] at ap
    rw [ap] at aq
    exact Option.some.inj aq

/-- a message has APID/CTID numbers iff it has an extended header -/
theorem stream_shape (ms : List In) (p : In × Out) (hp : p ∈ ms.zip (run {} ms)) : p.2.2.isSome = p.1.2.isSome := by
  have ap := (run_agrees ms {} init_wf p hp).2
  obtain ⟨⟨m1, m2⟩, ⟨o1, o2⟩⟩ := p
  cases m2 <;> cases o2 <;> first | rfl | exact absurd ap id

/-- APIDs of one ECU: equal ids get equal numbers, distinct ids distinct numbers -/
theorem stream_apid (ms : List In) (p q : In × Out) (hp : p ∈ ms.zip (run {} ms)) (hq : q ∈ ms.zip (run {} ms))
    (hecu : p.2.1 = q.2.1) (a1 c1 a2 c2 : Id) (an1 cn1 an2 cn2 : Nat)
    (hp1 : p.1.2 = some (a1, c1)) (hp2 : p.2.2 = some (an1, cn1)) (hq1 : q.1.2 = some (a2, c2)) (hq2 : q.2.2 = some (an2, cn2)) :
    an1 = an2 ↔ a1 = a2 := by
  have hw := final_wf ms {} init_wf
  have ap := (run_agrees ms {} init_wf p hp).2
  have aq := (run_agrees ms {} init_wf q hq).2
  rw [hp1, hp2] at ap
  rw [hq1, hq2] at aq
  obtain ⟨x, x1, x2, _⟩ := ap
  obtain ⟨y, y1, y2, _⟩ := aq
  rw [hecu] at x1
  have hx := findA_some _ _ _ x1
  have hy := findA_some _ _ _ y1
  constructor
  · intro h
    have := (hw.lists q.2.1).numApid x hx.2 y hy.2 (by rw [x2, y2, h])
    rw [← hx.1, ← hy.1, this]
  · intro h
    rw [h] at x1
    rw [x1] at y1
    have : x = y := Option.some.inj y1
    rw [← x2, ← y2, this]

/-- CTIDs of one (ECU, APID): equal ids get equal numbers, distinct ids distinct numbers -/
theorem stream_ctid (ms : List In) (p q : In × Out) (hp : p ∈ ms.zip (run {} ms)) (hq : q ∈ ms.zip (run {} ms))
    (hecu : p.2.1 = q.2.1) (a c1 c2 : Id) (an1 cn1 an2 cn2 : Nat)
    (hp1 : p.1.2 = some (a, c1)) (hp2 : p.2.2 = some (an1, cn1)) (hq1 : q.1.2 = some (a, c2)) (hq2 : q.2.2 = some (an2, cn2)) :
    cn1 = cn2 ↔ c1 = c2 := by
  have hw := final_wf ms {} init_wf
  have ap := (run_agrees ms {} init_wf p hp).2
  have aq := (run_agrees ms {} init_wf q hq).2
  rw [hp1, hp2] at ap
  rw [hq1, hq2] at aq
  obtain ⟨x, x1, _, x3⟩ := ap
  obtain ⟨y, y1, _, y3⟩ := aq
  rw [hecu] at x1
  rw [x1] at y1
  have hxy : x = y := Option.some.inj y1
  subst hxy
  have hx := findA_some _ _ _ x1
  constructor
  · intro h
    rw [h] at x3
    exact rank_injective _ ((hw.lists q.2.1).ctids x hx.2) _ _ _ x3 y3
  · intro h
    rw [h] at x3
    rw [x3] at y3
    exact Option.some.inj y3

/-- every number handed out is at most the size of its final table: with at most 999 ids per table the numbers stay
    inside the range on which the pseudonym texts are distinct (`fmt_injective`) -/
theorem stream_ecu_bound (ms : List In) (p : In × Out) (hp : p ∈ ms.zip (run {} ms)) :
    1 ≤ p.2.1 ∧ p.2.1 ≤ (final {} ms).ecus.length :=
  rank_bounds _ _ _ (run_agrees ms {} init_wf p hp).1

end Anon
