import Adlt.Zip.Model
import Adlt.Util.Parse
/-! glue for archive extraction (C20, second half).
    case: `<patternhex> | <!|/> | <member>;… | <info>;… | <listing>;… | <glob table>`
      member: `<namehex>,<f|d>,<datahex>` (what the harness put into the archive)
      info:   `<namehex>,<f|d|o>,<enclosedhex|->,<index>` (what the zip crate reports per member)
      glob table: `G<pathex>:<namehex>:<0|1>`, `B<pathex>` (pattern invalid), `E<pathex>:<namehex>:<0|1>` (verdicts of the escaped pattern)
    obs: `R:<reported relative paths, sorted> F:<files found in the temporary directory path:len:hash, sorted> X:<files outside / reported outside>` or `P` (passed through) -/
namespace Zipm
open Util

def strOfHex (h : String) : String :=
  let b := hexBytes h
  match String.fromUTF8? (ByteArray.mk b.toArray) with
  | some s => s
  | none => String.ofList (b.map fun x => Char.ofNat x.toNat)

/-- where `base.join(name)` ends up, relative to `base` (the harness canonicalises what it finds) -/
def resolved (n : String) : String := "/".intercalate (resolve [] (comps n))
def hexOfStr (s : String) : String := hexOf s.toUTF8.toList
def hashBytes (b : List UInt8) : Nat := b.foldl (fun h x => (h * 31 + x.toNat + 1) % 4294967291) 7
def sortStrs (l : List String) : List String := (l.toArray.qsort (fun a b => decide (a < b))).toList

def doLine (line : String) : String :=
  let (cs, impl) := match line.splitOn "\t" with
    | [c, i] => (c, i)
    | [c] => (c, "")
    | _ => ("", "")
  match cs.splitOn " | " with
  | pH :: sep :: msS :: infoS :: listS :: tbS :: more =>
    let pat2 := strOfHex (more.headD "")
    let pat0 := strOfHex pH
    let pat := if pat0 == "" then "**/*" else pat0
    let written := (fields msS ";").map fun m => match m.splitOn "," with
      | n :: _ :: d :: _ => (strOfHex n, hexBytes d)
      | _ => ("", [])
    let ms : List Member := (fields infoS ";").map fun m => match m.splitOn "," with
      | [n, k, e, _] =>
        let name := strOfHex n
        { name := name, kind := if k == "f" then .file else if k == "d" then .dir else .other,
          enclosed := if e == "-" then none else some (strOfHex e),
          data := ((written.find? (·.1 == name)).map (·.2)).getD [] }
      | _ => { name := "", kind := .other, enclosed := none, data := [] }
    let listing := (fields listS ";").map strOfHex
    let toks := fields tbS " "
    let bad := toks.any (· == "B" ++ hexOfStr pat)
    let look (pre : String) (n : String) : Bool := toks.any (· == s!"{pre}{hexOfStr pat}:{hexOfStr n}:1")
    let g2 : String → Bool := fun n => toks.any (· == s!"G{hexOfStr pat2}:{hexOfStr n}:1")
    -- `archive_get_path_and_glob`: an invalid pattern is refused in the `/` form, escaped in the `!/` form
    let passthrough := bad && sep != "!"
    let g : String → Bool := if bad then look "E" else look "G"
    let out := land (extractArchive pat g "arch" listing ms)
    -- the second request: what exists is what the first one wrote
    let firstFiles := out.map fun (n, _) => resolved n
    let existsIn (n : String) : Bool :=
      let r := resolved n
      firstFiles.any fun f => f == r          -- only a file counts as already extracted (fix: `is_file`)
    let second : Option (List String × List (String × List UInt8)) :=
      if pat2 == "" then none else
        let r := extractArchiveInto existsIn pat2 g2 "arch" listing ms
        some (r.1, land r.2)
    let render (o : List (String × List UInt8)) : String :=
      let r := sortStrs (o.map fun (n, _) => hexOfStr (resolved n))
      let all : List (String × List UInt8) := match second with
        | some (_, w) => o ++ (w.filter fun (nd : String × List UInt8) => !(o.any fun (md : String × List UInt8) => resolved md.1 == resolved nd.1))
        | none => o
      let f := sortStrs (all.map fun (n, d) => s!"{hexOfStr (resolved n)}:{d.length}:{hashBytes d}")
      let s2 := match second with
        | some (pre, w) =>
          let names := pre ++ w.map (fun (nd : String × List UInt8) => nd.1)
          -- under the name as reported: what the file at that place holds
          let held (n : String) : List UInt8 := match all.find? (fun (md : String × List UInt8) => resolved md.1 == resolved n) with | some md => md.2 | none => []
          " S:" ++ "+".intercalate (sortStrs (names.map fun n => hexOfStr (resolved n))) ++
          " N:" ++ "+".intercalate (sortStrs (names.map fun n => s!"{hexOfStr n}:{(held n).length}:{hashBytes (held n)}"))
        | none => ""
      s!"R:{"+".intercalate r}{s2} F:{"+".intercalate f} X:0"
    let mobs := if passthrough then "P" else render out
    -- C20 on an observation: exactly the selected members are reported, with their contents, nothing outside
    -- (an archive with the single entry `data` follows the documented .gz/.bz2 rule: the entry is taken when the pattern
    --  is `data` or matches the archive stem, and is then named after the archive)
    let want := if passthrough then "P" else if listing == ["data"] then render out else
      render (land ((ms.filter (Spec.selected pat g)).map fun m => (m.enclosed.getD m.name, m.data)))
    let tok (o pre : String) : String := match (fields o " ").find? (·.startsWith pre) with | some t => (t.drop pre.length).toString | none => ""
    let orc (o : String) : String :=
      if o == "PANIC" then "C20=FAIL:panic"
      else if o == "P" || want == "P" then (if o == want then "C20=ok" else "C20=FAIL:archive-not-recognised-or-wrongly-recognised")
      else if tok o "X:" != "0" then "C20=FAIL:file-created-or-reported-outside-the-temporary-directory"
      else if tok o "R:" != tok want "R:" then "C20=FAIL:reported-members-are-not-exactly-the-matching-enclosed-ones"
      else if tok o "S:" != tok want "S:" then "C20=FAIL:second-request-reports-or-extracts-other-than-the-matching-members"
      else if tok o "F:" != tok want "F:" then "C20=FAIL:extracted-content-differs-or-extra-files"
      else if listing != ["data"] && !((fields (tok o "N:") "+").all fun e => match e.splitOn ":" with
          | [nh, l, h] => (match written.find? (·.1 == strOfHex nh) with
              | some (_, d) => toString d.length == l && toString (hashBytes d) == h
              | none => false)
          | _ => false) then "C20=FAIL:reported-member-holds-the-content-of-another-member"
      else "C20=ok"
    -- the model of `enclosed_name()` against what the crate said
    let encOk := ms.all fun m => (enclosedName m.name).isSome == m.enclosed.isSome && (m.enclosed.isNone || m.enclosed == some m.name)
    let tags : List String :=
      (if ms.any (·.enclosed.isNone) then ["hostile-name"] else []) ++ (if ms.any (·.kind == .dir) then ["dir-member"] else []) ++
      (if out.isEmpty then ["nothing-extracted"] else ["extracted"]) ++ (if out.length < (ms.filter (·.kind == .file)).length then ["subset"] else []) ++
      (if passthrough then ["invalid-pattern"] else []) ++ (if sep == "!" then ["bang-form"] else []) ++
      (if listing == ["data"] then ["single-data"] else []) ++ (if pat2 != "" then ["second-request"] else []) ++ (if !encOk then ["enclosed-model-differs"] else []) ++
      (if ms.any (fun m => m.data.isEmpty && m.kind == .file) then ["empty-member"] else [])
    let mobs' := if encOk then mobs else mobs ++ " enclosed-name-model-differs-from-crate"
    s!"{mobs'}\t{if impl == "" then "-" else orc impl}\t{orc mobs}\t{",".intercalate tags}"
  | _ => "bad\tC20=FAIL:unparsable\tC20=FAIL:unparsable\t"

end Zipm
