/-! Model of archive extraction (src/utils/unzip.rs): `extract_archives` (member selection by glob pattern, the
    single-entry "data" special case) and `extract_to_dir` (zip branch: `enclosed_name`, files filter, rename map), plus the
    path confinement argument. The glob matcher and the archive reader are parameters: `g name` = the pattern matches,
    `enclosed` of a member = what the zip crate's `enclosed_name()` returned (compared with `enclosedName` below on every run). -/
namespace Zipm

inductive Kind where | file | dir | other
deriving Repr, DecidableEq

structure Member where
  name : String              -- raw member name as stored
  kind : Kind
  enclosed : Option String   -- `enclosed_name()`
  data : List UInt8
deriving Repr, DecidableEq

/-! ### path confinement -/

inductive Comp where | root | parent | cur | normal (s : String)
deriving Repr, DecidableEq

/-- components of a unix path string (as `Path::components`: empty parts and `.` vanish, a leading `/` is the root) -/
def comps (s : String) : List Comp :=
  let parts := s.splitOn "/"
  let body := parts.filterMap fun p => if p == "" || p == "." then none else if p == ".." then some Comp.parent else some (Comp.normal p)
  if s.startsWith "/" then Comp.root :: body else body

/-- the depth walk of `enclosed_name()` / `leads_outside`: `none` = the name leads outside of the directory it is joined to -/
def depthAfter : Nat → List Comp → Option Nat
  | d, [] => some d
  | _, .root :: _ => none
  | d, .parent :: t => if d = 0 then none else depthAfter (d - 1) t
  | d, .cur :: t => depthAfter d t
  | d, .normal _ :: t => depthAfter (d + 1) t

def staysInside (cs : List Comp) : Bool := (depthAfter 0 cs).isSome

/-- `enclosed_name()` of the zip crate on a member name (names with NUL are refused; not generated) -/
def enclosedName (s : String) : Option String := if staysInside (comps s) then some s else none

/-- lexical resolution of `base.join(cs)` (what the OS does when no symlink is involved): the directory stack -/
def resolve : List String → List Comp → List String
  | st, [] => st
  | _, .root :: t => resolve [] t
  | st, .parent :: t => resolve st.dropLast t
  | st, .cur :: t => resolve st t
  | st, .normal s :: t => resolve (st ++ [s]) t

/-! ### selection -/

/-- `extract_archives`: the listed entries that get into the files filter, with the rename map (`data` -> archive stem) -/
def matching (pat : String) (g : String → Bool) (stem : String) (listing : List String) : List String × Option (String × String) :=
  if listing == ["data"] then
    if pat == "data" then (["data"], none)
    else if stem == pat || g stem then (["data"], some ("data", stem))
    else ([], none)
  else (listing.filter fun e => (e == pat || g e) && !e.endsWith "/", none)

def renamed (rm : Option (String × String)) (n : String) : String :=
  match rm with
  | some (a, b) => if n == a then b else n
  | none => n

/-- `extract_to_dir` (zip branch) into a fresh directory: the files written, in archive order: (relative name, content) -/
def extractOne (filter : List String) (rm : Option (String × String)) (m : Member) : Option (String × List UInt8) :=
  match m.enclosed with
  | none => none
  | some e => if filter.contains e && m.kind == .file then some (renamed rm e, m.data) else none

def extract (filter : List String) (rm : Option (String × String)) (ms : List Member) : List (String × List UInt8) :=
  ms.filterMap (extractOne filter rm)

/-- the whole call: `none` = nothing matches (empty result), otherwise the reported files with their contents -/
def extractArchive (pat : String) (g : String → Bool) (stem : String) (listing : List String) (ms : List Member) : List (String × List UInt8) :=
  let (f, rm) := matching pat g stem listing
  if f.isEmpty then [] else extract f rm ms

/-! ### what lands in the directory -/

/-- can a file of that name be created below the directory? Not if the name ends in a separator, `.` or `..`
    (it denotes a directory then: `sub/..`, `b/.`) -/
def creatable (n : String) : Bool :=
  match (n.splitOn "/").getLast? with
  | some s => s != "" && s != "." && s != ".."
  | none => false

/-- the members are written one after the other; a member that cannot be created is skipped, and so is one whose name
    denotes a file an earlier member of this request has produced (`a.dlt`, `./a.dlt`): nothing is overwritten -/
def landGo : List (List String) → List (String × List UInt8) → List (String × List UInt8)
  | _, [] => []
  | seen, (n, d) :: t =>
    let p := resolve [] (comps n)
    if creatable n && !seen.contains p then (n, d) :: landGo (p :: seen) t else landGo seen t

def land (l : List (String × List UInt8)) : List (String × List UInt8) := landGo [] l

/-! ### a second request into the same directory -/

/-- the pre-pass of `extract_to_dir`: entries whose (renamed) target exists already inside the directory are reported as
    extracted and leave the files filter (names leading outside are never taken for existing - fix 9584f8d) -/
def preFilter (exists_ : String → Bool) (rm : Option (String × String)) (filter : List String) : List String × List String :=
  (filter.filterMap fun f => let n := renamed rm f; if exists_ n && staysInside (comps n) then some n else none,
   filter.filter fun f => let n := renamed rm f; !(exists_ n && staysInside (comps n)))

/-- `extract_archives` into a directory that already holds `existing` (resolved relative paths of files) -/
def extractArchiveInto (existsIn : String → Bool) (pat : String) (g : String → Bool) (stem : String) (listing : List String)
    (ms : List Member) : List String × List (String × List UInt8) :=
  let (f, rm) := matching pat g stem listing
  if f.isEmpty then ([], []) else
  let (pre, f') := preFilter existsIn rm f
  (pre, extract f' rm ms)

namespace Spec
/-- C20: exactly the file members that match the pattern and whose names do not lead outside the directory -/
def selected (pat : String) (g : String → Bool) (m : Member) : Bool :=
  m.kind == .file && m.enclosed.isSome && (m.name == pat || g m.name) && !m.name.endsWith "/"
end Spec

end Zipm
