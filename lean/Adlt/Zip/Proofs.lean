import Adlt.Zip.Model
/-! Lemmas for the extraction half of C20: confinement of every written path, exactness of the selection. -/
namespace Zipm

/-- the directory stack never shrinks below `base` while the depth walk succeeds -/
theorem resolve_inside (cs : List Comp) : ∀ (base st : List String) (d' : Nat),
    depthAfter st.length cs = some d' → ∃ st', resolve (base ++ st) cs = base ++ st' ∧ st'.length = d' := by
  induction cs with
  | nil =>
    intro base st d' h
    simp only [depthAfter, Option.some.injEq] at h
    exact ⟨st, rfl, h⟩
  | cons c t ih =>
    intro base st d' h
    cases c with
    | root => simp [depthAfter] at h
    | cur => simp only [depthAfter] at h; simpa [resolve] using ih base st d' h
    | normal s =>
      simp only [depthAfter] at h
      have := ih base (st ++ [s]) d' (by simpa using h)
      simpa [resolve, List.append_assoc] using this
    | parent =>
      simp only [depthAfter] at h
      split at h
      · simp at h
      · rename_i hne
        have hlen : st.dropLast.length = st.length - 1 := by simp
        have := ih base st.dropLast d' (by rw [hlen]; exact h)
        have hst : st ≠ [] := by intro h0; simp [h0] at hne
        have hd : (base ++ st).dropLast = base ++ st.dropLast := List.dropLast_append_of_ne_nil hst
        simpa [resolve, hd] using this

/-- **confinement**: a member name accepted by the `enclosed_name` walk, joined onto any directory, resolves to a path
    below that directory -/
theorem confined (base : List String) (cs : List Comp) (h : staysInside cs = true) :
    ∃ rel, resolve base cs = base ++ rel := by
  unfold staysInside at h
  cases hd : depthAfter 0 cs with
  | none => simp [hd] at h
  | some d' =>
    obtain ⟨st', hr, _⟩ := resolve_inside cs base [] d' (by simpa using hd)
    exact ⟨st', by simpa using hr⟩

theorem enclosedName_some (s e : String) (h : enclosedName s = some e) : e = s ∧ staysInside (comps s) = true := by
  unfold enclosedName at h
  split at h
  · rename_i hs; simp only [Option.some.injEq] at h; exact ⟨h.symm, hs⟩
  · simp at h

/-- what gets written are file members with an enclosed name that is in the files filter -/
theorem mem_extract (filter : List String) (rm : Option (String × String)) (ms : List Member) (n : String) (d : List UInt8)
    (h : (n, d) ∈ extract filter rm ms) :
    ∃ m ∈ ms, ∃ e, m.enclosed = some e ∧ filter.contains e = true ∧ m.kind = .file ∧ n = renamed rm e ∧ d = m.data := by
  unfold extract at h
  simp only [List.mem_filterMap, extractOne] at h
  obtain ⟨m, hm, hx⟩ := h
  cases he : m.enclosed with
  | none => simp [he] at hx
  | some e =>
    simp only [he] at hx
    split at hx
    · rename_i hc
      simp only [Option.some.injEq, Prod.mk.injEq] at hx
      simp only [Bool.and_eq_true, beq_iff_eq] at hc
      exact ⟨m, hm, e, he, hc.1, hc.2, hx.1.symm, hx.2.symm⟩
    · simp at hx

theorem filterMap_eq_filter_map {α β} (f : α → Option β) (p : α → Bool) (h : α → β) (l : List α)
    (hp : ∀ x ∈ l, f x = if p x then some (h x) else none) : l.filterMap f = (l.filter p).map h := by
  induction l with
  | nil => rfl
  | cons x t ih =>
    have hx := hp x List.mem_cons_self
    have ht := ih (fun y hy => hp y (List.mem_cons_of_mem _ hy))
    by_cases hpx : p x = true
    · simp [hx, hpx, ht]
    · have : p x = false := by simpa using hpx
      simp [hx, this, ht]

/-- for an archive that is not the single-entry `data` case: the extracted names are exactly the names of the selected
    members, in archive order, when the listing is the list of member names and the reader hands out the stored name as
    enclosed name (or none) -/
theorem extract_exact (pat : String) (g : String → Bool) (stem : String) (ms : List Member)
    (hd : ms.map (·.name) ≠ ["data"])
    (he : ∀ m ∈ ms, m.enclosed = none ∨ m.enclosed = some m.name) :
    (extractArchive pat g stem (ms.map (·.name)) ms).map (·.1) = (ms.filter (Spec.selected pat g)).map (·.name) := by
  unfold extractArchive matching
  have hd' : ((ms.map (·.name)) == ["data"]) = false := by simpa using hd
  simp only [hd', Bool.false_eq_true, if_false]
  -- the filter list
  generalize hF : (List.filter (fun e => (e == pat || g e) && !e.endsWith "/") (List.map (fun x => x.name) ms)) = F
  have hFmem : ∀ m ∈ ms, F.contains m.name = ((m.name == pat || g m.name) && !m.name.endsWith "/") := by
    intro m hm
    rw [← hF]
    by_cases hc : ((m.name == pat || g m.name) && !m.name.endsWith "/") = true
    · rw [hc]
      simp only [List.contains_eq_mem, List.mem_filter, List.mem_map, decide_eq_true_eq]
      exact ⟨⟨m, hm, rfl⟩, hc⟩
    · have hc' : ((m.name == pat || g m.name) && !m.name.endsWith "/") = false := by simpa using hc
      rw [hc']
      simp only [List.contains_eq_mem, List.mem_filter, List.mem_map, decide_eq_false_iff_not, not_and]
      intro _; simpa using hc
  -- pointwise: a member is written iff it is selected
  have hpt : ∀ m ∈ ms, extractOne F none m = if Spec.selected pat g m then some (m.name, m.data) else none := by
    intro m hm
    unfold extractOne
    rcases he m hm with h0 | h1
    · simp [h0, Spec.selected]
    · simp only [h1, renamed, hFmem m hm, Spec.selected, Option.isSome_some, Bool.and_true]
      cases m.kind <;> simp [Bool.and_comm]
  by_cases hemp : F.isEmpty = true
  · -- nothing matches: nothing is selected either
    simp only [hemp, if_true, List.map_nil]
    have : ms.filter (Spec.selected pat g) = [] := by
      rw [List.filter_eq_nil_iff]
      intro m hm hs
      have hc := hFmem m hm
      have : F = [] := by simpa using hemp
      simp only [Spec.selected, Bool.and_eq_true] at hs
      rw [this] at hc
      simp only [List.contains_nil] at hc
      have h2 : ((m.name == pat || g m.name) && !m.name.endsWith "/") = true := by
        simp only [Bool.and_eq_true]; exact ⟨hs.1.2, hs.2⟩
      rw [h2] at hc; cases hc
    simp [this]
  · simp only [hemp, Bool.false_eq_true, if_false]
    unfold extract
    rw [filterMap_eq_filter_map _ (Spec.selected pat g) (fun m => (m.name, m.data)) ms hpt]
    simp [List.map_map, Function.comp_def]

/-! ### landing -/

theorem landGo_sub (l : List (String × List UInt8)) : ∀ seen, ∀ x ∈ landGo seen l, x ∈ l ∧ creatable x.1 = true := by
  induction l with
  | nil => intro seen x hx; cases hx
  | cons a t ih =>
    intro seen x hx
    obtain ⟨n, d⟩ := a
    simp only [landGo] at hx
    split at hx
    · rename_i hc
      rcases List.mem_cons.mp hx with rfl | h
      · simp only [Bool.and_eq_true] at hc
        exact ⟨List.mem_cons_self, hc.1⟩
      · obtain ⟨h1, h2⟩ := ih _ x h
        exact ⟨List.mem_cons_of_mem _ h1, h2⟩
    · obtain ⟨h1, h2⟩ := ih _ x hx
      exact ⟨List.mem_cons_of_mem _ h1, h2⟩

def pathOf (x : String × List UInt8) : List String := resolve [] (comps x.1)

theorem landGo_paths (l : List (String × List UInt8)) : ∀ seen,
    ((landGo seen l).map pathOf).Nodup ∧ ∀ x ∈ landGo seen l, pathOf x ∉ seen := by
  induction l with
  | nil => intro seen; exact ⟨List.nodup_nil, by intro x hx; cases hx⟩
  | cons a t ih =>
    intro seen
    obtain ⟨n, d⟩ := a
    simp only [landGo]
    split
    · rename_i hc
      simp only [Bool.and_eq_true, Bool.not_eq_true', List.contains_eq_mem, decide_eq_false_iff_not] at hc
      obtain ⟨i1, i2⟩ := ih (resolve [] (comps n) :: seen)
      constructor
      · simp only [List.map_cons, List.nodup_cons]
        refine ⟨?_, i1⟩
        intro hmem
        simp only [List.mem_map] at hmem
        obtain ⟨y, hy, hyp⟩ := hmem
        exact i2 y hy (by rw [hyp]; exact List.mem_cons_self)
      · intro x hx
        rcases List.mem_cons.mp hx with rfl | h
        · exact hc.2
        · intro hs; exact i2 x h (List.mem_cons_of_mem _ hs)
    · exact ih seen

/-- everything that lands was handed in, can be created, and no two landed files denote the same path: no member's content
    is overwritten by another's -/
theorem land_sound (l : List (String × List UInt8)) :
    (∀ x ∈ land l, x ∈ l ∧ creatable x.1 = true) ∧ ((land l).map pathOf).Nodup :=
  ⟨landGo_sub l [], (landGo_paths l []).1⟩

theorem landGo_id (l : List (String × List UInt8)) : ∀ seen, (∀ x ∈ l, creatable x.1 = true) → (l.map pathOf).Nodup →
    (∀ x ∈ l, pathOf x ∉ seen) → landGo seen l = l := by
  induction l with
  | nil => intro _ _ _ _; rfl
  | cons a t ih =>
    intro seen hc hn hs
    obtain ⟨n, d⟩ := a
    simp only [List.map_cons, List.nodup_cons] at hn
    have h1 : creatable n = true := hc (n, d) List.mem_cons_self
    have h2 : ¬ resolve [] (comps n) ∈ seen := hs (n, d) List.mem_cons_self
    simp only [landGo, h1, Bool.true_and, List.contains_eq_mem, h2, decide_false, Bool.not_false, if_true]
    rw [ih _ (fun x hx => hc x (List.mem_cons_of_mem _ hx)) hn.2]
    intro x hx hmem
    rcases List.mem_cons.mp hmem with h | h
    · apply hn.1
      simp only [List.mem_map]
      exact ⟨x, hx, h⟩
    · exact hs x (List.mem_cons_of_mem _ hx) h

/-- when every selected name can be created and no two of them denote the same path, everything lands -/
theorem land_id (l : List (String × List UInt8)) (hc : ∀ x ∈ l, creatable x.1 = true) (hn : (l.map pathOf).Nodup) : land l = l :=
  landGo_id l [] hc hn (by intro x _ h; cases h)

end Zipm
