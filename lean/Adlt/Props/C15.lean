import Adlt.Remote.Proofs
/-! # C15 — the remote server answers every command once and its state follows its replies   (partial)

`Rem.Srv.step` is the command dispatcher of `process_incoming_text_message` as a state machine over (open file, live
streams, next id); the harness plays generated command histories against the `adlt remote` binary of the working tree and
compares every reply. Liveness of the connection and of the process, "exactly one reply", and close-while-parsing are
facts about the running server: they are observed on every run (oracle clauses of `Rem.doLine`), not proved. -/
namespace Props
open Rem

/-- every command of a history gets exactly one reply -/
theorem C15_one_reply_each (files : List RMsg) (s : Srv) (cs : List Cmd) : (Srv.run files s cs).1.length = cs.length :=
  run_length files s cs

/-- a file is open exactly between an `ok:` to `open` and the next `ok:` to `close`; `open` is accepted iff nothing is open
    (and the files hold a message), `close` iff something is open -/
theorem C15_file_open_iff (s : Srv) (files : List RMsg) (c : Cmd) :
    ((s.step files c).1.file.isSome =
      (match c, (s.step files c).2 with
       | .openOk, .ok _ => true
       | .close, .ok _ => false
       | _, _ => s.file.isSome)) ∧
    ((s.step files .openOk).2 = .ok "open" ↔ (s.file.isSome = false ∧ files ≠ [])) ∧
    ((s.step files .close).2 = .ok "close" ↔ s.file.isSome) :=
  ⟨open_iff s files c, open_ok_iff s files, (close_ok_iff s files).1⟩

/-- a close that is accepted ends every stream, and a following open of the files is accepted again -/
theorem C15_close_then_open (s : Srv) (files : List RMsg) (h : s.file.isSome) (hf : files ≠ []) :
    (s.step files .close).1.streams = [] ∧ ((s.step files .close).1.step files .openOk).2 = .ok "open" :=
  ⟨(close_ok_iff s files).2 h, open_after_close s files h hf⟩

/-- a stream id is usable from its announcement … -/
theorem C15_id_usable_from_creation (s : Srv) (files ms : List RMsg) (fs : FSpec) (a b : Nat) (h : s.Inv)
    (hf : s.file = some ms) :
    (s.step files (.stream true fs a b)).2 = .ok s!"id{s.nextK}" ∧
    ((s.step files (.stream true fs a b)).1.find s.nextK).isSome := by
  have hn := find_none_of_lt s.streams s.nextK h
  simp only [Srv.step, hf, if_true, Srv.find, true_and]
  rw [find_append_fresh, hn]; simp

/-- … through every command that is not its stop, its window change, a close or an accepted open … -/
theorem C15_id_usable_until_ended (s : Srv) (files : List RMsg) (c : Cmd) (k : Nat) (h : s.Inv) (hk : k < s.nextK)
    (h1 : c ≠ .stop k) (h2 : c ≠ .close) (h3 : c ≠ .openOk) (h4 : ∀ a b, c ≠ .changeWindow k a b) :
    (s.step files c).1.find k = s.find k := find_preserved s files c k h hk h1 h2 h3 h4

/-- … and not after its stop or a close; ids below `nextK` that are not live are never handed out again
    (`C15_ids_fresh`), so an ended id stays unusable for ever -/
theorem C15_id_unusable_after_stop_close (s : Srv) (files : List RMsg) (k : Nat) (hc : s.Closed) :
    (s.step files (.stop k)).1.find k = none ∧ (s.step files .close).1.find k = none := by
  constructor
  · simp only [Srv.step]
    split
    · show List.find? _ (List.filter _ s.streams) = none
      rw [find_filter_ne]; simp
    · rename_i hno
      cases hf : s.file with
      | none => simp [Srv.find, hc hf]
      | some ms =>
        cases hk : s.find k with
        | none => rfl
        | some st => exact (hno ms st hf hk).elim
  · simp only [Srv.step]
    split
    · rfl
    · rename_i hno
      have : s.file = none := by simpa using hno
      simp [Srv.find, hc this]

/-- the id of every live stream is below the next id, in every reachable state: a new id never collides with a live or an
    ended one -/
theorem C15_ids_fresh (files : List RMsg) (cs : List Cmd) : (Srv.run files {} cs).2.Inv ∧ (Srv.run files {} cs).2.Closed :=
  ⟨run_inv files {} cs (by intro st hst; simp at hst), run_closed files {} cs (by intro _; rfl)⟩

/-- commands on a stream are accepted exactly while the id is usable (shown for `stop`; the other stream commands
    dispatch on the same lookup) -/
theorem C15_stop_accepted_iff (s : Srv) (files : List RMsg) (k : Nat) (hc : s.Closed) :
    (s.step files (.stop k)).2 = .ok "stop" ↔ (s.find k).isSome := by
  simp only [Srv.step]
  split
  · rename_i h1 h2; simp [h2]
  · rename_i hno
    cases hf : s.file with
    | none => simp [Srv.find, hc hf]
    | some ms =>
      cases hk : s.find k with
      | none => simp
      | some st => exact (hno ms st hf hk).elim

/-- non-vacuity: open, stream, stop, stop again, close, open -/
example : (Srv.run [{ index := 0, ecu := 0, recv := 1, tsDms := 1, apid := "A", ctid := "C", text := "x" }] {}
    [.openOk, .stream true [] 0 5, .stop 1, .stop 1, .close, .close, .openOk]).1
    = [.ok "open", .ok "id1", .ok "stop", .err, .ok "close", .err, .ok "open"] := by decide

end Props
