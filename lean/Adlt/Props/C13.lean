import Adlt.Net.Complete
/-! # C13 — bounded channels and slow consumers never lose or reorder messages

Model: `Net` — a pipeline of deterministic stream transducers (`Stage`: outputs caused by one more input, outputs at
end of input) connected by FIFO channels; `Step` = one atomic send / receive / end-of-input action anywhere in the
pipeline; `Steps` = any finite schedule. Channel capacities only restrict *when* a send is enabled (a full channel
delays), so safety and completeness hold for every capacity. -/
namespace Props
open Net

/-- safety, all schedules, all capacities, all stage functions: what the consumer holds at any moment is a prefix
    of the sequential composition applied to the input — nothing dropped, duplicated or reordered -/
theorem C13_safety {M : Type} (input : List M) (stages : List (Stage M)) (s' : Nat) (nodes' : List (Node M)) (got' : List M)
    (hs : Steps input true 0 (initNodes stages) [] s' nodes' got') :
    Pre got' (pipe stages input) := Net.C13_safety input stages s' nodes' got' hs

/-- completeness: once every stage has finished and drained, the consumer holds exactly the sequential result,
    i.e. the same sequence as with unbounded channels -/
theorem C13_complete {M : Type} (input : List M) (stages : List (Stage M)) (s' : Nat) (nodes' : List (Node M)) (got' : List M)
    (hs : Steps input true 0 (initNodes stages) [] s' nodes' got') (ht : Terminal input.length s' nodes' got') :
    got' = pipe stages input := Net.C13_complete input stages s' nodes' got' hs ht

/-- non-vacuity: a doubling stage followed by a stage that holds back one element; a schedule that pushes two inputs -/
example : pipe [({ inc := fun _ x => [x, x], flush := fun _ => [] } : Stage Nat),
                ({ inc := fun h x => match h.getLast? with | some y => [y] | none => [] , flush := fun h => h.getLast?.toList } : Stage Nat)]
               [1, 2] = [1, 1, 2, 2] := by decide

end Props
