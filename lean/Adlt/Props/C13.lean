import Adlt.Net.Live
import Adlt.Net.Loss
/-! # C13 — bounded channels and slow consumers never lose or reorder messages

Model: `Net` — a pipeline of deterministic stream transducers (`Stage`: outputs caused by one more input, outputs at
end of input) connected by FIFO channels; `Step` = one atomic send / receive / end-of-input action anywhere in the
pipeline; `Steps` = any finite schedule. Channel capacities only restrict *when* a send is enabled (a full channel
delays), so safety and completeness hold for every capacity. -/
namespace Props
open Net

/-- safety, all schedules, all capacities, all stage functions: what the consumer holds at any moment is a prefix
    of the sequential composition applied to the input — nothing dropped, duplicated or reordered -/
theorem C13_safety {M : Type} (input : List M) (stages : List (Stage M)) (s' : Nat) (nodes' : List (Node M)) (got' : List M)
    (hs : Steps input true 0 (initNodes stages) [] s' nodes' got') :
    Pre got' (pipe stages input) := Net.C13_safety input stages s' nodes' got' hs

/-- completeness: once every stage has finished and drained, the consumer holds exactly the sequential result,
    i.e. the same sequence as with unbounded channels -/
theorem C13_complete {M : Type} (input : List M) (stages : List (Stage M)) (s' : Nat) (nodes' : List (Node M)) (got' : List M)
    (hs : Steps input true 0 (initNodes stages) [] s' nodes' got') (ht : Terminal input.length s' nodes' got') :
    got' = pipe stages input := Net.C13_complete input stages s' nodes' got' hs ht

/-- no deadlock: with one capacity ≥ 1 per channel, under every schedule that respects the capacities (a push needs room
    in its channel), the pipeline is never stuck — either another action is enabled or every stage has ended and drained
    and the consumer holds exactly the sequential result (a rendezvous channel blocks the sender like a full one-place
    channel; it is covered by the real-thread runs) -/
theorem C13_no_deadlock {M : Type} (input : List M) (stages : List (Stage M)) (caps : List Nat)
    (hl : caps.length = stages.length + 1) (hc : ∀ c ∈ caps, 1 ≤ c)
    (s' : Nat) (nodes' : List (Node M)) (got' : List M)
    (hs : StepsC caps input true 0 (initNodes stages) [] s' nodes' got') :
    (∃ s'' nodes'' got'', StepC caps input true s' nodes' got' s'' nodes'' got'') ∨ got' = pipe stages input :=
  Net.C13_no_deadlock input stages caps hl hc s' nodes' got' hs

/-- termination (consumer present): every schedule is finite; its length is bounded by the initial amount of work, which
    depends only on the input and the stage functions — not on capacities, pacing or scheduling -/
theorem C13_terminates {M : Type} (input : List M) (stages : List (Stage M)) (k : Nat) (s' : Nat) (nodes' : List (Node M)) (got' : List M)
    (hs : StepsN k input true 0 (initNodes stages) [] s' nodes' got') :
    k ≤ work input 0 (initNodes stages) [] := Net.C13_terminates input stages k s' nodes' got' hs

/-- consumer loss, no blocking: the network in which the consumer may leave at any moment and a sender whose receiver is gone
    is stopped by its next send (`StepL`): under every capacity-respecting schedule, in every reachable state either an
    action is enabled or every stage thread has terminated - ended with everything sent, or stopped by the failed send -
    and the source has stopped or sent everything. No stage blocks forever. -/
theorem C13_loss_never_blocks {M : Type} (input : List M) (stages : List (Stage M)) (caps : List Nat)
    (hl : caps.length = stages.length + 1) (hc : ∀ c ∈ caps, 1 ≤ c)
    (k s' : Nat) (ug' : Bool) (nodes' : List (Node M × Bool)) (got' : List M) (cg' : Bool)
    (hs : StepsL k caps input true 0 false (initL stages) [] false s' ug' nodes' got' cg') :
    (∃ s'' ug'' nodes'' got'' cg'', StepL caps input true s' ug' nodes' got' cg' s'' ug'' nodes'' got'' cg'') ∨
    (AllDone nodes' ∧ (ug' = true ∨ s' = input.length)) :=
  Net.C13_loss_never_blocks input stages caps hl hc k s' ug' nodes' got' cg' hs

/-- consumer loss, termination: every schedule of that network is finite, bounded by the initial work plus the number of
    elements that can leave -/
theorem C13_loss_terminates {M : Type} (input : List M) (stages : List (Stage M)) (caps : List Nat)
    (k s' : Nat) (ug' : Bool) (nodes' : List (Node M × Bool)) (got' : List M) (cg' : Bool)
    (hs : StepsL k caps input true 0 false (initL stages) [] false s' ug' nodes' got' cg') :
    k ≤ work input 0 (initNodes stages) [] + (stages.length + 2) :=
  Net.C13_loss_terminates input stages caps k s' ug' nodes' got' cg' hs

/-- non-vacuity: the consumer leaves at once, the source pushes one item into the (still living) stage -/
example : ∃ s' ug' nodes' got' cg', StepsL 2 [1, 1] [1, 2] true 0 false
    (initL [({ inc := fun _ x => [x], flush := fun _ => [] } : Stage Nat)]) [] false s' ug' nodes' got' cg' :=
  ⟨_, _, _, _, _, .cons (.deeper 1 [1] [1, 2] true 0 false _ false [] [] false _ _ _ _ _ (.consLeave [1] _ _ _ false []))
    (.cons (.push 1 [1] [1, 2] true 0 _ [] true (by decide) rfl (by decide)) (.refl _ _ _ _ _ _ _ _))⟩

/-- non-vacuity: the identity stage on two inputs behind channels of capacity 1: the initial state has an enabled action -/
example : ∃ s' nodes' got', StepC [1, 1] [1, 2] true 0 (initNodes [({ inc := fun _ x => [x], flush := fun _ => [] } : Stage Nat)]) [] s' nodes' got' :=
  ⟨_, _, _, .push 1 [1] [1, 2] true 0 _ [] (by decide) (by decide)⟩

/-- non-vacuity: a doubling stage followed by a stage that holds back one element; a schedule that pushes two inputs -/
example : pipe [({ inc := fun _ x => [x, x], flush := fun _ => [] } : Stage Nat),
                ({ inc := fun h x => match h.getLast? with | some y => [y] | none => [] , flush := fun h => h.getLast?.toList } : Stage Nat)]
               [1, 2] = [1, 1, 2, 2] := by decide

end Props
