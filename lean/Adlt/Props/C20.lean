import Adlt.Chain.Refine
import Adlt.Zip.Proofs
/-! # C20 — archives: volumes read as one file; extraction faithful and confined

Model: `Chn.Chain` (= `SeekableChain` over readers with their own positions). Contract: `Chn.contractOk`
(the `Read`/`Seek` contract of one object holding the concatenation; short reads legal). -/
namespace Props
open Chn

/-- for every split of the data into volumes (empty volumes anywhere) and every finite sequence of
    `read k` / `seek(Start|Current|End)` operations, the answers of the chain are legal answers of a single
    file containing the concatenated volumes, position by position -/
theorem C20_chain_refines (vols : List (List Nat)) (ops : List Op) :
    contractOk vols.flatten 0 ops ((Chain.new vols).run ops) = true := by
  have := run_contract ops (Chain.new vols) (new_inv vols)
  simpa [Chain.new] using this

/-- consequence: reading to the end after any history returns exactly the rest of the concatenation,
    because a read returns no data only at/after the end (stated for one read) -/
theorem C20_read_progress (c : Chain) (hi : Inv c) (k : Nat) (hk : 0 < k) (hp : c.absPos < c.vols.flatten.length) :
    0 < (c.read k).1.length := by
  have r := read_ok c k hi
  rcases Nat.eq_zero_or_pos (c.read k).1.length with h | h
  · rcases r.nonempty h with h2 | h2 <;> omega
  · exact h

/-! ## extraction (`Zipm`: model of `extract_archives` / `extract_to_dir`; glob matcher and archive reader are parameters) -/

/-- **confinement**: whatever the member name, a name the `enclosed_name` walk accepts, joined onto any directory,
    resolves (lexically: `.`, `..`, empty parts) to a path below that directory; and only such names are ever written -/
theorem C20_extract_confined (base : List String) (name : String) (h : (Zipm.enclosedName name).isSome = true) :
    ∃ rel, Zipm.resolve base (Zipm.comps name) = base ++ rel := by
  cases he : Zipm.enclosedName name with
  | none => simp [he] at h
  | some e => exact Zipm.confined base _ (Zipm.enclosedName_some name e he).2

/-- every extracted file is a file member of the archive that has an enclosed name and is in the files filter, and its
    content is the member's content -/
theorem C20_extract_sound (filter : List String) (rm : Option (String × String)) (ms : List Zipm.Member) (n : String) (d : List UInt8)
    (h : (n, d) ∈ Zipm.extract filter rm ms) :
    ∃ m ∈ ms, ∃ e, m.enclosed = some e ∧ filter.contains e = true ∧ m.kind = .file ∧ n = Zipm.renamed rm e ∧ d = m.data :=
  Zipm.mem_extract filter rm ms n d h

/-- **exactness**: for every pattern matcher, exactly the file members that match the pattern (by name or by glob) and
    whose names do not lead outside are extracted and reported, each once, in archive order (archives other than the
    single-entry `data` case; the reader hands out the stored name as enclosed name) -/
theorem C20_extract_exact (pat : String) (g : String → Bool) (stem : String) (ms : List Zipm.Member)
    (hd : ms.map (·.name) ≠ ["data"])
    (he : ∀ m ∈ ms, m.enclosed = none ∨ m.enclosed = some m.name) :
    (Zipm.extractArchive pat g stem (ms.map (·.name)) ms).map (·.1) = (ms.filter (Zipm.Spec.selected pat g)).map (·.name) :=
  Zipm.extract_exact pat g stem ms hd he

/-- **what lands**: the members are written one after the other; whatever lands was selected, can be created as a file, and no
    two landed files denote the same path - no member's content is overwritten by another member's (`a.dlt`, `./a.dlt`) -/
theorem C20_land_faithful (l : List (String × List UInt8)) :
    (∀ x ∈ Zipm.land l, x ∈ l ∧ Zipm.creatable x.1 = true) ∧ ((Zipm.land l).map Zipm.pathOf).Nodup :=
  Zipm.land_sound l

/-- ... and when every selected name can be created as a file and no two of them denote the same path, every selected member
    lands: together with `C20_extract_exact`, exactly the matching members are extracted and reported -/
theorem C20_land_all (l : List (String × List UInt8)) (hc : ∀ x ∈ l, Zipm.creatable x.1 = true)
    (hn : (l.map Zipm.pathOf).Nodup) : Zipm.land l = l := Zipm.land_id l hc hn

/-- non-vacuity: hostile names (`../evil.dlt`, `/etc/hostname`) are refused by the walk, a harmless `..` inside
    (`dir/../x.dlt`) is accepted and stays below the directory -/
example : Zipm.staysInside [.parent, .normal "evil.dlt"] = false ∧ Zipm.staysInside [.root, .normal "etc", .normal "hostname"] = false ∧
    Zipm.staysInside [.normal "dir", .parent, .normal "x.dlt"] = true := by decide
example : Zipm.resolve ["tmp", "t1"] [.normal "dir", .parent, .normal "x.dlt"] = ["tmp", "t1", "x.dlt"] := rfl

/-- non-vacuity: the former defects (empty middle volume; seek past the end) under the fixed model -/
example : (Chain.new [[1, 2], [], [3, 4]]).run [.read 8, .read 8, .seekEnd 2, .read 1, .seekCur (-9)]
    = [.data [1, 2], .data [3, 4], .pos 6, .data [], .err] := by decide

end Props
