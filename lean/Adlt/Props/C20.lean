import Adlt.Chain.Refine
/-! # C20 — archives: volumes read as one file (chain part)

Model: `Chn.Chain` (= `SeekableChain` over readers with their own positions). Contract: `Chn.contractOk`
(the `Read`/`Seek` contract of one object holding the concatenation; short reads legal). -/
namespace Props
open Chn

/-- for every split of the data into volumes (empty volumes anywhere) and every finite sequence of
    `read k` / `seek(Start|Current|End)` operations, the answers of the chain are legal answers of a single
    file containing the concatenated volumes, position by position -/
theorem C20_chain_refines (vols : List (List Nat)) (ops : List Op) :
    contractOk vols.flatten 0 ops ((Chain.new vols).run ops) = true := by
  have := run_contract ops (Chain.new vols) (new_inv vols)
  simpa [Chain.new] using this

/-- consequence: reading to the end after any history returns exactly the rest of the concatenation,
    because a read returns no data only at/after the end (stated for one read) -/
theorem C20_read_progress (c : Chain) (hi : Inv c) (k : Nat) (hk : 0 < k) (hp : c.absPos < c.vols.flatten.length) :
    0 < (c.read k).1.length := by
  have r := read_ok c k hi
  rcases Nat.eq_zero_or_pos (c.read k).1.length with h | h
  · rcases r.nonempty h with h2 | h2 <;> omega
  · exact h

/-- non-vacuity: the former defects (empty middle volume; seek past the end) under the fixed model -/
example : (Chain.new [[1, 2], [], [3, 4]]).run [.read 8, .read 8, .seekEnd 2, .read 1, .seekCur (-9)]
    = [.data [1, 2], .data [3, 4], .pos 6, .data [], .err] := by decide

end Props
