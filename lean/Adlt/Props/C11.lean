import Adlt.Filter.Proofs
import Adlt.Filter.Front
import Adlt.Filter.RoundTrip
/-! # C11 — a filter matches exactly the conjunction of its criteria, via every front-end

Model: `Flt.matchesImpl` (= `Filter::matches`), `Flt.fromJson` / `Flt.fromDlf` / `Flt.toJson` (front-ends on an abstract
configuration). `re` = the regular-expression engines (opaque; every theorem holds for every `re`). -/
namespace Props
open Flt

/-- the sequential matcher decides exactly: enabled ∧ (conjunction of the specified criteria ≠ negated) -/
theorem C11_matches (re : Re) (f : Filter) (m : MsgView) : matchesImpl re f m = Spec.decides re f m :=
  matchesImpl_eq_spec re f m

/-- application-id, context-id, type and level criteria never hold for a message without extended header -/
theorem C11_noext (re : Re) (f : Filter) (m : MsgView) (hm : m.ext = none)
    (hc : f.apid.isSome ∨ f.ctid.isSome ∨ f.vmm.isSome ∨ f.lvlMin.isSome ∨ f.lvlMax.isSome) :
    Spec.conj re f m = false := noext_criteria_false re f m hm hc

/-- only the decision-relevant fields matter -/
theorem matchesImpl_congr (re : Re) (f g : Filter) (m : MsgView)
    (h1 : f.enabled = g.enabled) (h2 : f.negate = g.negate) (h3 : f.ecu = g.ecu) (h4 : f.apid = g.apid) (h5 : f.ctid = g.ctid)
    (h6 : f.vmm = g.vmm) (h7 : f.lvlMin = g.lvlMin) (h8 : f.lvlMax = g.lvlMax) (h9 : f.payloadRegex = g.payloadRegex)
    (h10 : f.payload = g.payload) (h11 : f.payloadCi = g.payloadCi) (h12 : f.lifecycles = g.lifecycles) :
    matchesImpl re f m = matchesImpl re g m := by
  unfold matchesImpl ecuFails apidFails ctidFails typeFails lvlMinFails lvlMaxFails payloadFails lcFails
  rw [h1, h2, h3, h4, h5, h6, h7, h8, h9, h10, h11, h12]

/-- the DLF and the JSON front-end build filters that decide identically from the same abstract filter, on the
    fragment a dlt-viewer filter can express (no negation, no lifecycle list, type = "control messages" only, literal
    ECU) whenever the JSON form loads at all -/
theorem C11_frontends_agree (reOk : String → Bool) (a : AFilter) (f : Filter) (hx : dlfExpressible a = true)
    (hj : fromJson reOk a = some f) :
    ∀ re m, matchesImpl re (fromDlf reOk a) m = matchesImpl re f m := by
  intro re m
  simp only [dlfExpressible, Bool.and_eq_true, Bool.not_eq_true', Option.isNone_iff_eq_none, Bool.or_eq_true,
    decide_eq_true_eq, beq_iff_eq] at hx
  obtain ⟨⟨⟨⟨⟨hneg, hlcs⟩, hvmm⟩, hmstp⟩, _hk⟩, hecu⟩ := hx
  unfold fromJson at hj
  split at hj
  · rename_i kind ecu apid ctid plre lmin lmax hkind hecuj hapid hctid hplre hlmin hlmax
    simp only [Option.some.injEq] at hj
    subst hj
    apply matchesImpl_congr
    · rfl
    · show false = a.negate; rw [hneg]
    · -- ecu: literal on both sides
      show (a.ecu.bind fun s => (char4 s).map IdCrit.lit) = ecu
      cases he : a.ecu with
      | none => simp [jId, he] at hecuj; simp [hecuj]
      | some s =>
        simp only [he] at hecu
        have hre : a.ecuRe = some false := by simpa using hecu
        simp only [Option.bind_some]
        have : jId reOk (some s) (some false) = some ecu := by rw [← he, ← hre]; exact hecuj
        simp only [jId, idCrit, Option.getD_some, Bool.false_eq_true, if_false] at this
        cases hc : char4 s with
        | none => simp [hc] at this
        | some b => simp [hc] at this; simp [this]
    · show (jId reOk a.apid a.apidRe).getD none = apid
      rw [hapid]; rfl
    · show (jId reOk a.ctid a.ctidRe).getD none = ctid
      rw [hctid]; rfl
    · show (if a.mstp == some 3 then some (6, 14) else none) = vmmOf a
      unfold vmmOf
      rw [hvmm]
      rcases hmstp with h | h
      · simp [h]
      · simp [h]
    · show (jLvl a.lvlMin).getD none = lmin
      rw [hlmin]; rfl
    · show (jLvl a.lvlMax).getD none = lmax
      rw [hlmax]; rfl
    · show (jPlre reOk a).getD none = plre
      rw [hplre]; rfl
    · rfl
    · rfl
    · show none = a.lifecycles; rw [hlcs]
  · cases hj

/-- non-vacuity: a dlt-viewer expressible filter that loads from JSON -/
example : dlfExpressible { apid := some "APID", apidRe := some false, payload := some "Hello" } = true ∧
    (fromJson (fun _ => true) { apid := some "APID", apidRe := some false, payload := some "Hello" }).isSome = true := by decide

theorem listId_agrees (reOk : String → Bool) (s : Option String) (flag : Option Bool) (c : Option IdCrit)
    (hx : listIdOk s flag = true) (hj : jId reOk s flag = some c) : (s.bind fun x => (char4 x).map IdCrit.lit) = c := by
  unfold listIdOk at hx
  cases s with
  | none => simp only [jId, Option.some.injEq] at hj; subst hj; rfl
  | some x =>
    cases flag with
    | none => simp at hx
    | some b =>
      cases b with
      | true => simp at hx
      | false =>
        simp only [jId, idCrit, Option.getD_some, Bool.false_eq_true, if_false] at hj
        simp only [Option.bind_some]
        cases hc : char4 x with
        | none => simp [hc] at hj
        | some v => simp [hc] at hj; simp [hj]

/-- the dlt-convert APID/CTID list front-end builds, from an entry it can express (positive, two literal ids of at most four
    ASCII bytes, nothing else), a filter that decides like the one the JSON front-end builds from the same abstract filter -/
theorem C11_list_agrees (reOk : String → Bool) (a : AFilter) (f : Filter) (hx : listExpressible a = true)
    (hj : fromJson reOk a = some f) : ∀ re m, matchesImpl re (fromList a) m = matchesImpl re f m := by
  intro re m
  simp only [listExpressible, Bool.and_eq_true, Bool.not_eq_true', Option.isNone_iff_eq_none, beq_iff_eq] at hx
  obtain ⟨⟨⟨⟨⟨⟨⟨⟨⟨⟨⟨⟨hk, hen⟩, hneg⟩, hecu⟩, hap⟩, hct⟩, hvmm⟩, hmstp⟩, hpl⟩, hplre⟩, hlmin⟩, hlmax⟩, hlcs⟩ := hx
  unfold fromJson at hj
  split at hj
  · rename_i kind ecu apid ctid plre lmin lmax hkind hecuj hapid hctid hplrej hlminj hlmaxj
    simp only [Option.some.injEq] at hj
    subst hj
    apply matchesImpl_congr
    · show true = a.enabled; rw [hen]
    · show false = a.negate; rw [hneg]
    · show none = ecu
      rw [hecu] at hecuj; simp only [jId, Option.some.injEq] at hecuj; exact hecuj
    · exact listId_agrees reOk _ _ _ hap hapid
    · exact listId_agrees reOk _ _ _ hct hctid
    · show none = vmmOf a
      unfold vmmOf; rw [hvmm, hmstp]
    · show none = lmin
      rw [hlmin] at hlminj; simp only [jLvl, Option.some.injEq] at hlminj; exact hlminj
    · show none = lmax
      rw [hlmax] at hlmaxj; simp only [jLvl, Option.some.injEq] at hlmaxj; exact hlmaxj
    · show none = plre
      unfold jPlre at hplrej; rw [hplre] at hplrej; simp only [Option.some.injEq] at hplrej; exact hplrej
    · show none = if a.payloadRegex.isSome then none else a.payload
      rw [hplre, hpl]; rfl
    · show false = (a.payloadRegex.isNone && a.payload.isSome && a.ignoreCase)
      rw [hpl]; simp
    · show none = a.lifecycles; rw [hlcs]
  · cases hj

/-- non-vacuity: an entry of the list format -/
example : listExpressible { apid := some "AP1", apidRe := some false, ctid := some "MAIN", ctidRe := some false } = true := by decide

/-- **JSON round trip**: a filter the JSON front-end produced, serialised with `to_json` and loaded again, is the same filter
    (hence decides identically on every message, with every regular-expression engine), provided its literal ids are
    printable ASCII - what `Display for DltChar4` shows faithfully -/
theorem C11_json_roundtrip (reOk : String → Bool) (a : AFilter) (f : Filter) (h : fromJson reOk a = some f)
    (hs : Showable f.ecu ∧ Showable f.apid ∧ Showable f.ctid) :
    fromJson reOk (toJson f) = some f ∧
    ∀ g, fromJson reOk (toJson f) = some g → ∀ re m, matchesImpl re g m = matchesImpl re f m := by
  have hfix := json_fixpoint reOk a f h hs
  refine ⟨hfix, ?_⟩
  intro g hg re m
  rw [hfix] at hg
  cases hg; rfl

/-- the side condition is needed: an id with a control character is shown as `-` and comes back as another id -/
example : char4 (showId [0x41, 0x01, 0x42, 0x43]) ≠ some [0x41, 0x01, 0x42, 0x43] := by decide

/-- non-vacuity: a filter with literal and regular-expression ids, a case-insensitive payload regex, a type and level bounds -/
def exA : AFilter :=
  { ecu := some "ECU1", apid := some "AP.*", apidRe := some true, payloadRegex := some "err", ignoreCase := true,
    mstp := some 0, lvlMax := some 4 }

example : (fromJson (fun _ => true) exA).isSome = true ∧ Showable (some (IdCrit.lit [0x45, 0x43, 0x55, 0x31])) := by
  refine ⟨by decide, [0x45, 0x43, 0x55, 0x31], 0, by decide, by decide, by decide⟩

end Props
