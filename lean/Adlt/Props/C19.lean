import Adlt.Plugins.Anon
import Adlt.Plugins.AnonStream
import Adlt.Lc.Rename
import Adlt.Plugins.Stage
/-! # C19 — plugins keep the stream intact; anonymisation keeps its structure   (partial)

Decoding plugins (non-verbose, SOME/IP, CAN, Muniic, rewrite) are opaque decoders; what is checked of them on every run
is the executable statement in `Plg.doLine` (same count, same order, index / reception time / ECU / payload bytes /
lifecycle untouched, timestamp only by rewrite, an existing extended header untouched) on the real plugins configured
from the repository's FIBEX / JSON files. The theorems below are about the pseudonym tables of the anonymiser - one table
(`C19_anon_table_injective`, `C19_anon_format_injective`) and the whole stream (`C19_anon_stream_*`: over any stream, the
numbers handed out by the model of `AnonymizePlugin::process_msg` are a function of the ids and injective per table). -/
namespace Props
open Anon

/-- within one pseudonym table (ids in order of first appearance, no id twice): the number is a function of the id, and
    distinct ids get distinct numbers -/
theorem C19_anon_table_injective (keys : List Id) (hnd : keys.Nodup) (a b : Id) (n : Nat)
    (ha : rankOf keys a = some n) (hb : rankOf keys b = some n) : a = b := rank_injective keys hnd a b n ha hb

/-- distinct numbers up to the pseudonym capacity (999) are rendered as distinct pseudonym texts -/
theorem C19_anon_format_injective (a b : Nat) (ha : a < 1000) (hb : b < 1000) (h : fmt 'E' a = fmt 'E' b) : a = b :=
  fmt_injective a b ha hb h

/-- the capacity bound is sharp: the 1000th id collides with the 100th -/
theorem C19_anon_capacity_sharp : fmt 'E' 1000 = fmt 'E' 100 := fmt_collides_beyond_999

/-- the plugin stage with decoders only — plugins that never veto and keep index, reception time, ECU, payload bytes,
    lifecycle and an existing extended header, whatever else they do and whatever state they keep — forwards exactly one
    message per input message, in order, with those fields untouched; for every number, order and kind of such plugins -/
theorem C19_decoders_conservative (ps : List Plg.Plugin) (hc : ∀ p ∈ ps, Plg.Conservative p) (ms : List Plg.PMsg) :
    (Plg.pluginsProcess ps ms).length = ms.length ∧
    ∀ k (h1 : k < (Plg.pluginsProcess ps ms).length) (h2 : k < ms.length), Plg.Keeps (Plg.pluginsProcess ps ms)[k] ms[k] := by
  unfold Plg.pluginsProcess
  apply Plg.stage_conservative
  intro i hi
  simp only [List.mem_map] at hi
  obtain ⟨p, hp, rfl⟩ := hi
  exact hc p hp

/-- if additionally every plugin keeps the timestamp (all decoders but rewrite), one message through the plugins keeps it -/
theorem C19_decoders_keep_timestamp (ps : List Plg.Inst) (hc : ∀ i ∈ ps, Plg.Conservative i.1) (ht : ∀ i ∈ ps, Plg.KeepsTs i.1)
    (m : Plg.PMsg) : (Plg.through ps m).2.1.ts = m.ts := Plg.through_ts ps hc ht m

/-- **over a whole stream**, ECU ids: two messages get the same ECU number iff they carry the same ECU id -/
theorem C19_anon_stream_ecu (ms : List Anon.In) (p q : Anon.In × Anon.Out) (hp : p ∈ ms.zip (run {} ms)) (hq : q ∈ ms.zip (run {} ms)) :
    p.2.1 = q.2.1 ↔ p.1.1 = q.1.1 := stream_ecu ms p q hp hq

/-- **over a whole stream**, APIDs of one ECU: the same APID number iff the same APID; and a message gets APID / CTID numbers
    iff it has an extended header -/
theorem C19_anon_stream_apid (ms : List Anon.In) (p q : Anon.In × Anon.Out) (hp : p ∈ ms.zip (run {} ms)) (hq : q ∈ ms.zip (run {} ms))
    (hecu : p.2.1 = q.2.1) (a1 c1 a2 c2 : Id) (an1 cn1 an2 cn2 : Nat)
    (hp1 : p.1.2 = some (a1, c1)) (hp2 : p.2.2 = some (an1, cn1)) (hq1 : q.1.2 = some (a2, c2)) (hq2 : q.2.2 = some (an2, cn2)) :
    (an1 = an2 ↔ a1 = a2) ∧ p.2.2.isSome = p.1.2.isSome :=
  ⟨stream_apid ms p q hp hq hecu a1 c1 a2 c2 an1 cn1 an2 cn2 hp1 hp2 hq1 hq2, stream_shape ms p hp⟩

/-- **over a whole stream**, CTIDs of one (ECU, APID): the same CTID number iff the same CTID -/
theorem C19_anon_stream_ctid (ms : List Anon.In) (p q : Anon.In × Anon.Out) (hp : p ∈ ms.zip (run {} ms)) (hq : q ∈ ms.zip (run {} ms))
    (hecu : p.2.1 = q.2.1) (a c1 c2 : Id) (an1 cn1 an2 cn2 : Nat)
    (hp1 : p.1.2 = some (a, c1)) (hp2 : p.2.2 = some (an1, cn1)) (hq1 : q.1.2 = some (a, c2)) (hq2 : q.2.2 = some (an2, cn2)) :
    cn1 = cn2 ↔ c1 = c2 := stream_ctid ms p q hp hq hecu a c1 c2 an1 cn1 an2 cn2 hp1 hp2 hq1 hq2

/-- the numbers stay within the size of the final table: as long as a table holds at most 999 ids, every number is one that
    `C19_anon_format_injective` renders as a distinct pseudonym text -/
theorem C19_anon_stream_bound (ms : List Anon.In) (p : Anon.In × Anon.Out) (hp : p ∈ ms.zip (run {} ms)) :
    1 ≤ p.2.1 ∧ p.2.1 ≤ (final {} ms).ecus.length := stream_ecu_bound ms p hp

/-- **the lifecycle detector commutes with every injective renaming of the ECU ids**: on the renamed stream the final state
    is the renamed final state -/
theorem C19_detector_commutes_with_renaming (f : Nat → Nat) (hf : ∀ a b, f a = f b → a = b) (ms : List Lcm.Msg) :
    Lcm.run (ms.map (Lcm.Msg.rn f)) = (Lcm.run ms).rn f := Lcm.run_rn hf ms

/-- **lifecycles on an anonymised trace**: a renaming of the ECU ids that is injective on the ids of the stream - which the
    anonymiser's is (`C19_anon_stream_ecu`), and times are not touched - changes nothing of what the detector reports but the
    ECU names: the delivered messages carry the same lifecycle ids, the final table has the same ids, message counts, starts
    and ends -/
theorem C19_lifecycles_of_renamed_trace (ms : List Lcm.Msg) (g : Nat → Nat)
    (hg : ∀ a ∈ ms.map (·.ecu), ∀ b ∈ ms.map (·.ecu), g a = g b → a = b) :
    ∃ f : Nat → Nat, (∀ a b, f a = f b → a = b) ∧ (∀ m ∈ ms, f m.ecu = g m.ecu) ∧
      Lcm.observe (Lcm.run (ms.map (Lcm.Msg.rn g))) =
        { out := (Lcm.observe (Lcm.run ms)).out.map (Lcm.OutObs.rn f), tbl := (Lcm.observe (Lcm.run ms)).tbl.map (Lcm.TblObs.rn f) } :=
  Lcm.observe_renamed ms g hg

/-- non-vacuity: swapping the two ECU ids of a three-message stream (three lifecycles) -/
example :
    let ms : List Lcm.Msg := [
      { index := 0, recv := 1000000, ecu := 1, tsDms := 10, hasTs := true, ctrlReq := false, lc := 0 },
      { index := 1, recv := 1100000, ecu := 2, tsDms := 20, hasTs := true, ctrlReq := false, lc := 0 },
      { index := 2, recv := 90000000, ecu := 1, tsDms := 30, hasTs := true, ctrlReq := false, lc := 0 }]
    (Lcm.observe (Lcm.run (ms.map (Lcm.Msg.rn (fun e => 3 - e))))).tbl = (Lcm.observe (Lcm.run ms)).tbl.map (Lcm.TblObs.rn (fun e => 3 - e)) ∧
    (Lcm.observe (Lcm.run ms)).tbl.map (·.ecu) = [1, 2, 1] := by decide +kernel

/-- non-vacuity: a plugin that vetoes every second message it is handed is *not* conservative, and the stage then drops -/
example : (Plg.pluginsProcess [{ proc := fun h m => (m, h.length % 2 == 0) }]
    [{ index := 0, recv := 0, ecu := [], ts := 0, lifecycle := 1, payload := [], ext := none, text := none },
     { index := 1, recv := 0, ecu := [], ts := 0, lifecycle := 1, payload := [], ext := none, text := none }]).map (·.index) = [0] := by decide

/-- non-vacuity: two ECUs, the second message without extended header -/
example : run {} [([69, 67, 85, 49], some ([65, 80, 73, 68], [67, 84, 73, 68])), ([69, 67, 85, 50], none),
                  ([69, 67, 85, 49], some ([65, 80, 73, 68], [67, 84, 50, 0]))]
    = [(1, some (1, 1)), (2, none), (1, some (1, 2))] := by decide

end Props
