import Adlt.Ft.AutoSave
import Adlt.Ft.Sound
import Adlt.Ft.Complete
/-! # C17 — embedded file transfers are reassembled bit-exactly or not at all

Model: `Ftm.Plug.run` (= `FileTransferPlugin::process_msg` over the FLST / FLDA / FLFI messages of a stream). -/
namespace Props
open Ftm

/-- soundness, for every event sequence (any interleaving of any number of transfers, any faults) and every
    transfer of the resulting plugin state: if it is reported complete then the packages it accepted are numbered
    exactly 1, 2, …, k in this order, no other (missing-number, out-of-order, wrong-size) package was counted in
    between, the stored data is the concatenation of their payloads, and for an announced transfer k is the
    announced number of packages and the recorded size is the number of bytes stored. Hence a missing, swapped or
    resized package can never lead to `complete`. -/
theorem C17_complete_sound (keep : Bool) (evs : List Ev) (t : Ft) (ht : t ∈ (Plug.run keep evs).transfers)
    (hc : t.state = .complete) :
    t.accepted.map (·.1) = List.range' 1 (t.nextPackage - 1) ∧
    t.recvdPackages = t.nextPackage - 1 ∧
    (t.keep = true → t.data = (t.accepted.map (·.2)).flatten) ∧
    (∀ n, t.nrPackages = some n → t.nextPackage = n + 1 ∧ t.fileSize = ((t.accepted.map (·.2)).flatten).length) := by
  have h := run_inv keep evs t ht
  refine ⟨h.nums, h.done hc, h.data, ?_⟩
  intro n hn
  obtain ⟨h1, h2⟩ := h.doneAnn hc n hn
  exact ⟨h1, by rw [h2, h.payl]⟩

/-- completeness: an announced transfer (`n` packages of `buf` bytes, the last one possibly shorter or empty, announced with
    its true size) whose packages arrive in order — already accepted numbers may be repeated any number of
    times with any content — is reported complete and its stored data equals the original, byte for byte -/
theorem C17_inorder_complete (serial size n buf : Nat) (keep : Bool) (pk : List (List Nat)) (evs : List (Nat × List Nat))
    (hn : pk.length = n) (hn0 : 0 < n) (hb : 0 < buf) (hs : SizesOk buf pk)
    (hsize : size = pk.flatten.length) (ho : InOrder 1 pk evs) :
    let t0 : Ft := { serial, state := .started, fileSize := size, nrPackages := some n, bufferSize := buf, keep := keep }
    (feed t0 evs).state = .complete ∧ ((feed t0 evs).keep = true → (feed t0 evs).data = pk.flatten) := by
  intro t0
  apply feed_inorder n buf pk.flatten 1 pk evs ho t0
  refine { hbuf := rfl, hbufpos := hb, hnr := rfl, hnext := rfl, hk := Nat.le_refl _, hcover := by omega, hsizes := hs,
           hdata := fun _ => by simp [t0], running := ?_, finished := ?_ }
  · intro _
    refine ⟨rfl, rfl, ?_⟩
    show size = 0 + pk.flatten.length; omega
  · intro h; subst h; simp at hn; omega

/-! ## automatic saving -/

/-- **confinement**: the file an auto-saved transfer is written to is `<dir>/<b>` where `b` - the base name of the
    announced name - contains no separator and is neither empty, `.` nor `..`: a direct child of the configured directory,
    whatever the announced name (absolute, with `..`, with directory parts); a name without base name (ending in `..`)
    is replaced by a fixed text -/
theorem C17_save_confined (n b : Ftm.Name) (h : Ftm.baseName n = some b) :
    '/' ∉ b ∧ b ≠ [] ∧ b ≠ ['.'] ∧ b ≠ ['.', '.'] := Ftm.baseName_confined n b h

/-- **no overwrite**: automatic saving never changes or removes a file that exists already (pre-existing or saved
    earlier under the same base name); it only ever adds one new file -/
theorem C17_save_never_overwrites (globOk : Ftm.Name → Bool) (s : Ftm.Saved) (serial : Nat) (name : Ftm.Name) (data : List Nat) :
    ∃ added, (Ftm.autoSave globOk s serial name data).files = s.files ++ added ∧
      (∀ f ∈ added, s.has f.1 = false) ∧ added.length ≤ 1 := by
  unfold Ftm.autoSave
  split
  · simp only []
    split
    · exact ⟨[], by simp, by simp, by simp⟩
    · rename_i hh
      refine ⟨[(Ftm.targetName serial name, data)], rfl, ?_, by simp⟩
      intro f hf
      simp only [List.mem_singleton] at hf
      subst hf
      simpa using hh
  · exact ⟨[], by simp, by simp, by simp⟩

/-- non-vacuity: `/abs/../x/f.bin` is saved as `f.bin`; a name ending in `..` has no base name -/
example : Ftm.baseName "/abs/../x/f.bin".toList = some "f.bin".toList ∧ Ftm.baseName "dir/..".toList = none := by decide

/-- non-vacuity: packages 1,1,2 of 2 (the duplicate that used to make the transfer incomplete) -/
example : InOrder 1 [[7, 7], [8]] [(1, [7, 7]), (1, [7, 7]), (2, [8])] :=
  .next 1 [7, 7] [[8]] _ (.dup 2 [[8]] _ 1 [7, 7] (by decide) (.next 2 [8] [] _ (.done 3)))

example : ((Plug.run true [.flst 5 3 2 2, .flda 5 1 [7, 7], .flda 5 1 [7, 7], .flda 5 2 [8], .flfi 5]).transfers.map
    fun t => (t.state, t.data)) = [(.complete, [7, 7, 8])] := by decide

end Props
