import Adlt.Lc.Pub
import Adlt.Lc.Spec
import Adlt.Lc.Listing
import Adlt.Lc.Table
import Adlt.Lc.Counts
import Adlt.Lc.ResumeKey
/-! # C07 — final lifecycle table consistent with delivered messages; the listing

Listing part: theorems about the model of `get_sorted_lifecycles_as_vec` for every table.
Counts part: the published table at the end is the live table (`C07_listed_once`, `C07_listed_are_live`,
`C07_live_are_listed`), its counts add up (`C07_counts_sum`), and per lifecycle (`C07_count_exact`, `C07_referenced`,
`C07_covers`, `C07_ecu`): each listed count is the number of delivered messages that carry the id, at least one; every delivered
id is listed, with the ECU of the message. Together: the executable statement `Spec.C07` holds of the model's observation for
every stream (`C07_spec`); the same `Spec.C07` is evaluated on the implementation's output on every run. -/
namespace Props
open Lcm

/-- the listing contains each lifecycle of the table exactly once (it is a permutation of the table) -/
theorem C07_listing_perm (t : List LcE) : (listing t).Perm t := isortStable_perm (keyLe t) t

theorem keyLe_totalPre (t S : List LcE) : TotalPreOn (keyLe t) S := by
  refine ⟨?_, ?_⟩
  · intro a _ b _
    simp only [keyLe, Bool.or_eq_true, decide_eq_true_eq, Bool.and_eq_true, beq_iff_eq]; omega
  · intro a _ b _ c _
    simp only [keyLe, Bool.or_eq_true, decide_eq_true_eq, Bool.and_eq_true, beq_iff_eq]; omega

/-- the listing can always be produced and is ordered by the (total) sort key, for every table -/
theorem C07_listing_sorted (t : List LcE) : (listing t).Pairwise (fun a b => keyLe t a b = true) :=
  isortStable_sorted (keyLe t) t (keyLe_totalPre t t)

theorem effStart_noresume (t : List LcE) (e : LcE) (h : e.resume = none) : effStart t e = e.start := by
  unfold effStart; simp [h]

/-- when no resume was detected, the listing is ordered by start time -/
theorem C07_listing_noresume (t : List LcE) (h : ∀ e ∈ t, e.resume = none) :
    (listing t).Pairwise (fun a b => a.start ≤ b.start) := by
  have hm : ∀ x, x ∈ listing t → x ∈ t := fun x hx => (C07_listing_perm t).mem_iff.mp hx
  refine List.Pairwise.imp_of_mem ?_ (C07_listing_sorted t)
  intro a b ha hb hab
  simp only [keyLe, effStart_noresume t a (h a (hm a ha)), effStart_noresume t b (h b (hm b hb)),
    Bool.or_eq_true, decide_eq_true_eq, Bool.and_eq_true, beq_iff_eq] at hab
  omega

theorem find_id_unique (t : List LcE) (hnd : (t.map (·.id)).Nodup) (a : LcE) (ha : a ∈ t) :
    t.find? (·.id == a.id) = some a := by
  induction t with
  | nil => cases ha
  | cons x t ih =>
    simp only [List.map_cons, List.nodup_cons] at hnd
    simp only [List.find?_cons]
    rcases List.mem_cons.mp ha with h | h
    · subst h; simp
    · have hne : x.id ≠ a.id := by
        intro he; exact hnd.1 (he ▸ List.mem_map.mpr ⟨a, h, rfl⟩)
      have : (x.id == a.id) = false := by simp [hne]
      rw [this]; exact ih hnd.2 h

/-- for every table (ids distinct, as in a map): a lifecycle `b` that resumes `a` (which has the
    smaller id) is never listed before `a` — whatever the start-time estimates are -/
theorem C07_listing_resume (t : List LcE) (hnd : (t.map (·.id)).Nodup) (a b : LcE) (ha : a ∈ t)
    (hres : b.resume = some a.id) (hid : a.id < b.id) :
    ¬ List.Sublist [b, a] (listing t) := by
  intro hsub
  have hs := (C07_listing_sorted t).sublist hsub
  simp only [List.pairwise_cons, List.mem_singleton, forall_eq, List.not_mem_nil, false_imp_iff,
    implies_true, List.Pairwise.nil, and_true] at hs
  have he : effStart t b = max b.start (effStart t a) := by
    rw [effStart]; simp [hres, find_id_unique t hnd a ha, hid]
  simp only [keyLe, he, Bool.or_eq_true, decide_eq_true_eq, Bool.and_eq_true, beq_iff_eq] at hs
  omega

/-- non-vacuity: `3` resumes `2`, its start estimate lies before both others (a table on which the
    former pairwise comparator was cyclic); the hypotheses of `C07_listing_resume` hold for it -/
example :
    let t : List LcE := [ { id := 3, start := 1699999990501000, resume := some 2 },
                          { id := 1, start := 1700000000000000, resume := none },
                          { id := 2, start := 1700000000500000, resume := none } ]
    (t.map (·.id)).Nodup ∧ ({ id := 2, start := 1700000000500000, resume := none } : LcE) ∈ t := by decide

/-! ## the published table at the end of the stream -/

theorem eraseDups_of_nodup (l : List Nat) (h : l.Nodup) : l.eraseDups = l := by
  induction l with
  | nil => simp
  | cons a t ih =>
    rw [List.eraseDups_cons]
    have hn := List.nodup_cons.mp h
    have hf : t.filter (fun b => !b == a) = t := by
      apply List.filter_eq_self.mpr
      intro b hb
      have : b ≠ a := fun hc => hn.1 (hc ▸ hb)
      simp [this]
    rw [hf, ih hn.2]

/-- every lifecycle id is listed once -/
theorem C07_listed_once (ms : List Msg) : Spec.C07listedOnce (observe (run ms)) = true := by
  obtain ⟨_, _, _, t3⟩ := run_final ms
  simp only [Spec.C07listedOnce, observe, List.map_map, beq_iff_eq]
  have : (List.map ((fun x : TblObs => x.id) ∘ fun (x : Nat × Lc) =>
      ({ id := x.1, ecu := x.2.ecu, n := x.2.nrMsgs, start := x.2.start, endT := x.2.endTime, resume := x.2.resume.isSome, key := x.2.resumeStart } : TblObs))
      (run ms).published) = keys (run ms).published := rfl
  rw [this, eraseDups_of_nodup _ t3]
  simp [keys]

/-- **no invalidated lifecycle is listed**: every listed entry is a lifecycle that is live at the end - never one that was
    merged into another -, listed under its own id with its final ECU, message count, start and end -/
theorem C07_listed_are_live (ms : List Msg) :
    ∀ t ∈ (observe (run ms)).tbl, ∃ lc, Live (run ms).ecuMap lc ∧ lc.id = t.id ∧ t.ecu = lc.ecu ∧ t.n = lc.nrMsgs ∧
      t.start = lc.start ∧ t.endT = lc.endTime := by
  obtain ⟨_, _, t2, _⟩ := run_final ms
  intro t ht
  simp only [observe, List.mem_map] at ht
  obtain ⟨kv, hkv, rfl⟩ := ht
  obtain ⟨hl, hid⟩ := t2 kv hkv
  exact ⟨kv.2, hl, hid, rfl, rfl, rfl, rfl⟩

/-- ... and every live lifecycle is listed, with its final values -/
theorem C07_live_are_listed (ms : List Msg) (lc : Lc) (hl : Live (run ms).ecuMap lc) :
    ∃ t ∈ (observe (run ms)).tbl, t.id = lc.id ∧ t.ecu = lc.ecu ∧ t.n = lc.nrMsgs := by
  obtain ⟨_, t1, _, _⟩ := run_final ms
  have := assocGet_mem _ _ _ (t1 lc hl)
  refine ⟨{ id := lc.id, ecu := lc.ecu, n := lc.nrMsgs, start := lc.start, endT := lc.endTime, resume := lc.resume.isSome, key := lc.resumeStart }, ?_, rfl, rfl, rfl⟩
  simp only [observe, List.mem_map]
  exact ⟨(lc.id, lc), this, rfl⟩

/-- **the counts add up**: the message counts of the listed lifecycles sum to the number of delivered messages -/
theorem C07_counts_sum (ms : List Msg) : Spec.C07sum (observe (run ms)) = true := by
  simp only [Spec.C07sum, observe, List.map_map, List.length_map, List.length_reverse, beq_iff_eq]
  exact table_counts_sum ms

/-! ## per lifecycle -/

theorem countLc_eq (s : St) (id : Nat) : Spec.countLc (observe s) id = cntI id s.outIds := by
  simp only [Spec.countLc, observe, cntI, St.outIds, List.filter_map, List.length_map, List.filter_reverse, List.length_reverse]
  rfl

/-- **exact counts**: the count listed for a lifecycle is the number of delivered messages carrying its id - and at least one -/
theorem C07_count_exact (ms : List Msg) :
    ∀ t ∈ (observe (run ms)).tbl, t.n = Spec.countLc (observe (run ms)) t.id ∧ 1 ≤ t.n := by
  intro t ht
  obtain ⟨lc, hl, hid, _, hn, _⟩ := C07_listed_are_live ms t ht
  have := (run_counts ms).1 lc hl
  rw [countLc_eq, ← hid, hn]
  exact this

/-- every delivered lifecycle id is listed, with the ECU of the message -/
theorem C07_delivered_listed (ms : List Msg) :
    ∀ x ∈ (observe (run ms)).out, ∃ t ∈ (observe (run ms)).tbl, t.id = x.lc ∧ t.ecu = x.m.ecu := by
  intro x hx
  simp only [observe, List.mem_map, List.mem_reverse] at hx
  obtain ⟨o, ho, rfl⟩ := hx
  have hin : (o.m.lc, o.m.ecu) ∈ (run ms).outIds := by
    unfold St.outIds
    exact List.mem_map.mpr ⟨o, ho, rfl⟩
  obtain ⟨lc, hl, h1, h2⟩ := (run_counts ms).2 _ hin
  obtain ⟨t, ht, t1, t2, _⟩ := C07_live_are_listed ms lc hl
  exact ⟨t, ht, t1.trans h1, t2.trans h2⟩

theorem C07_referenced (ms : List Msg) : Spec.C07referenced (observe (run ms)) = true := by
  simp only [Spec.C07referenced, List.all_eq_true, bne_iff_ne, ne_eq]
  intro t ht
  have := C07_count_exact ms t ht
  omega

theorem C07_exact (ms : List Msg) : Spec.C07exact (observe (run ms)) = true := by
  simp only [Spec.C07exact, List.all_eq_true, Bool.or_eq_true, beq_iff_eq]
  intro t ht
  exact .inr (C07_count_exact ms t ht).1

theorem C07_covers (ms : List Msg) : Spec.C07covers (observe (run ms)) = true := by
  simp only [Spec.C07covers, List.all_eq_true, List.any_eq_true, beq_iff_eq]
  intro x hx
  obtain ⟨t, ht, h1, _⟩ := C07_delivered_listed ms x hx
  exact ⟨t, ht, h1⟩

theorem C07_ecu (ms : List Msg) : Spec.C07ecu (observe (run ms)) = true := by
  simp only [Spec.C07ecu, List.all_eq_true, Bool.or_eq_true, bne_iff_ne, ne_eq, beq_iff_eq]
  intro x hx t ht
  by_cases hid : t.id = x.lc
  · right
    obtain ⟨t', ht', h1, h2⟩ := C07_delivered_listed ms x hx
    -- ids are listed once: `t` is `t'`
    obtain ⟨lc, hl, i1, e1, _⟩ := C07_listed_are_live ms t ht
    obtain ⟨lc', hl', i2, e2, _⟩ := C07_listed_are_live ms t' ht'
    obtain ⟨hi, _⟩ := run_final ms
    have hem : (run ms).ecuMap = (ms.foldl St.step {}).ecuMap := finish_ecuMap _
    have := hi.map.uniq lc lc' (by rw [← hem]; exact hl) (by rw [← hem]; exact hl') (by rw [i1, i2, hid, h1])
    rw [e1, this, ← e2, h2]
  · exact .inl hid

/-- **the listing `adlt remote` sends**: it is ordered by `resume_start_time`, and at the end of every stream a lifecycle that
    resumes another one finds that one live, in its own ECU, with a strictly smaller key - along whole chains of resumes, however
    the start estimates cross: a resumed lifecycle is never placed before the one it resumes -/
theorem C07_remote_key_ordered (ms : List Msg) (b : Lc) (hb : Live (run ms).ecuMap b) (r : Resume) (hr : b.resume = some r) :
    ∃ a, Live (run ms).ecuMap a ∧ a.id = r.id ∧ a.ecu = b.ecu ∧ a.resumeStart < b.resumeStart :=
  resume_key_ordered ms b hb r hr

/-- **C07, counts part, for every stream**: the executable statement that the driver evaluates on the implementation's output
    holds of the model's observation -/
theorem C07_spec (ms : List Msg) : Spec.C07 (observe (run ms)) = true := by
  simp only [Spec.C07, Bool.and_eq_true]
  exact ⟨⟨⟨⟨⟨C07_listed_once ms, C07_referenced ms⟩, C07_exact ms⟩, C07_covers ms⟩, C07_ecu ms⟩, C07_counts_sum ms⟩

/-- non-vacuity: a stream of two ECUs, evaluated -/
example : Spec.C07 (observe (run [
    { index := 0, recv := 1000000, ecu := 1, tsDms := 10, hasTs := true, ctrlReq := false, lc := 0 },
    { index := 1, recv := 1100000, ecu := 2, tsDms := 20, hasTs := true, ctrlReq := false, lc := 0 },
    { index := 2, recv := 90000000, ecu := 1, tsDms := 30, hasTs := true, ctrlReq := false, lc := 0 }])) = true := by decide

end Props
