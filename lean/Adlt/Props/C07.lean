import Adlt.Lc.Pub
import Adlt.Lc.Spec
import Adlt.Lc.Listing
/-! # C07 — final lifecycle table consistent with delivered messages; the listing

Listing part: theorems about the model of `get_sorted_lifecycles_as_vec` for every table.
Counts part: see `C07_counts_*` (strengthened incrementally; the executable statement `Spec.C07`
is evaluated on the implementation's output on every run). -/
namespace Props
open Lcm

/-- the listing contains each lifecycle of the table exactly once (it is a permutation of the table) -/
theorem C07_listing_perm (t : List LcE) : (listing t).Perm t := isortStable_perm (keyLe t) t

theorem keyLe_totalPre (t S : List LcE) : TotalPreOn (keyLe t) S := by
  refine ⟨?_, ?_⟩
  · intro a _ b _
    simp only [keyLe, Bool.or_eq_true, decide_eq_true_eq, Bool.and_eq_true, beq_iff_eq]; omega
  · intro a _ b _ c _
    simp only [keyLe, Bool.or_eq_true, decide_eq_true_eq, Bool.and_eq_true, beq_iff_eq]; omega

/-- the listing can always be produced and is ordered by the (total) sort key, for every table -/
theorem C07_listing_sorted (t : List LcE) : (listing t).Pairwise (fun a b => keyLe t a b = true) :=
  isortStable_sorted (keyLe t) t (keyLe_totalPre t t)

theorem effStart_noresume (t : List LcE) (e : LcE) (h : e.resume = none) : effStart t e = e.start := by
  unfold effStart; simp [h]

/-- when no resume was detected, the listing is ordered by start time -/
theorem C07_listing_noresume (t : List LcE) (h : ∀ e ∈ t, e.resume = none) :
    (listing t).Pairwise (fun a b => a.start ≤ b.start) := by
  have hm : ∀ x, x ∈ listing t → x ∈ t := fun x hx => (C07_listing_perm t).mem_iff.mp hx
  refine List.Pairwise.imp_of_mem ?_ (C07_listing_sorted t)
  intro a b ha hb hab
  simp only [keyLe, effStart_noresume t a (h a (hm a ha)), effStart_noresume t b (h b (hm b hb)),
    Bool.or_eq_true, decide_eq_true_eq, Bool.and_eq_true, beq_iff_eq] at hab
  omega

theorem find_id_unique (t : List LcE) (hnd : (t.map (·.id)).Nodup) (a : LcE) (ha : a ∈ t) :
    t.find? (·.id == a.id) = some a := by
  induction t with
  | nil => cases ha
  | cons x t ih =>
    simp only [List.map_cons, List.nodup_cons] at hnd
    simp only [List.find?_cons]
    rcases List.mem_cons.mp ha with h | h
    · subst h; simp
    · have hne : x.id ≠ a.id := by
        intro he; exact hnd.1 (he ▸ List.mem_map.mpr ⟨a, h, rfl⟩)
      have : (x.id == a.id) = false := by simp [hne]
      rw [this]; exact ih hnd.2 h

/-- for every table (ids distinct, as in a map): a lifecycle `b` that resumes `a` (which has the
    smaller id) is never listed before `a` — whatever the start-time estimates are -/
theorem C07_listing_resume (t : List LcE) (hnd : (t.map (·.id)).Nodup) (a b : LcE) (ha : a ∈ t)
    (hres : b.resume = some a.id) (hid : a.id < b.id) :
    ¬ List.Sublist [b, a] (listing t) := by
  intro hsub
  have hs := (C07_listing_sorted t).sublist hsub
  simp only [List.pairwise_cons, List.mem_singleton, forall_eq, List.not_mem_nil, false_imp_iff,
    implies_true, List.Pairwise.nil, and_true] at hs
  have he : effStart t b = max b.start (effStart t a) := by
    rw [effStart]; simp [hres, find_id_unique t hnd a ha, hid]
  simp only [keyLe, he, Bool.or_eq_true, decide_eq_true_eq, Bool.and_eq_true, beq_iff_eq] at hs
  omega

/-- non-vacuity: `3` resumes `2`, its start estimate lies before both others (a table on which the
    former pairwise comparator was cyclic); the hypotheses of `C07_listing_resume` hold for it -/
example :
    let t : List LcE := [ { id := 3, start := 1699999990501000, resume := some 2 },
                          { id := 1, start := 1700000000000000, resume := none },
                          { id := 2, start := 1700000000500000, resume := none } ]
    (t.map (·.id)).Nodup ∧ ({ id := 2, start := 1700000000500000, resume := none } : LcE) ∈ t := by decide

end Props
