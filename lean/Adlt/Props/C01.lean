import Adlt.Dlt.Enc
import Adlt.Gen.Consts
/-! # C01 — DLT framing: complete, faithful recovery of messages between garbage

Model: `Dp.parseStorage`, `Dp.parseSerial`, `Dp.iterAll` (= `DltMessageIterator`). -/
namespace Props
open Dp

/-- the header sizes the model hard-wires are the ones the Rust sources define now (regenerated each run) -/
theorem C01_consts : Gen.dltStorageHeaderSize = 16 ∧ Gen.dltMinStdHeaderSize = 4 ∧ Gen.dltExtHeaderSize = 10
    ∧ Gen.dltSerialHeaderSize = 4 := by decide

/-- storage framing, at a message start: every well-formed message (all 2^5 combinations of optional header
    parts, both byte orders, any payload up to the 16-bit length limit, any id/counter bytes), followed by
    anything on which the corruption heuristic does not fire, is recognised with every header field and
    payload byte intact, and exactly its bytes are consumed -/
theorem C01_storage_at_msg (i : Nat) (r : RawMsg) (hw : r.wf false = true) (rest : Bytes)
    (hh : heuristicFires storagePat (r.enc false ++ rest) (16 + r.len) = false) :
    parseStorage i (r.enc false ++ rest) = .ok ((r.enc false).length, r.msg false i) := by
  rw [enc_length_storage r (wf_facts false r hw)]
  exact parseStorage_enc i r hw rest hh

theorem C01_serial_at_msg (i : Nat) (r : RawMsg) (hw : r.wf true = true) (rest : Bytes)
    (hh : heuristicFires serialPat (r.enc true ++ rest) (4 + r.len) = false) :
    parseSerial i (r.enc true ++ rest) = .ok ((r.enc true).length, r.msg true i) := by
  rw [enc_length_serial r (wf_facts true r hw)]
  exact parseSerial_enc i r hw rest hh

/-- at a garbage offset (no marker here, a minimal message still fits) both parsers answer `invalid`,
    which makes the iterator skip exactly one byte -/
theorem C01_at_garbage (i : Nat) (d : Bytes) :
    (20 ≤ d.length → isPat storagePat d = false → parseStorage i d = .error .invalid) ∧
    (8 ≤ d.length → isPat serialPat d = false → parseSerial i d = .error .invalid) :=
  ⟨parseStorage_garbage i d, parseSerial_garbage i d⟩

/-- non-vacuity: a concrete message with ECU id, timestamp and extended header is well-formed -/
example : ({ sh := [1,0,0,0, 2,0,0,0, 65,66,67,68], htyp := 0x35, mcnt := 7,
             add := [69,67,85,49, 0,0,0,9, 0x41,1,65,80,73,68,67,84,73,68], payload := [1,2,3] } : RawMsg).wf false = true := by decide

end Props
