import Adlt.Dlt.Enc
import Adlt.Dlt.CleanB
import Adlt.Gen.Consts
/-! # C01 — DLT framing: complete, faithful recovery of messages between garbage

Model: `Dp.parseStorage`, `Dp.parseSerial`, `Dp.iterAll` (= `DltMessageIterator`). -/
namespace Props
open Dp

/-- the header sizes the model hard-wires are the ones the Rust sources define now (regenerated each run) -/
theorem C01_consts : Gen.dltStorageHeaderSize = 16 ∧ Gen.dltMinStdHeaderSize = 4 ∧ Gen.dltExtHeaderSize = 10
    ∧ Gen.dltSerialHeaderSize = 4 := by decide

/-- storage framing, at a message start: every well-formed message (all 2^5 combinations of optional header
    parts, both byte orders, any payload up to the 16-bit length limit, any id/counter bytes), followed by
    anything on which the corruption heuristic does not fire, is recognised with every header field and
    payload byte intact, and exactly its bytes are consumed -/
theorem C01_storage_at_msg (i : Nat) (r : RawMsg) (hw : r.wf false = true) (rest : Bytes)
    (hh : heuristicFires storagePat (r.enc false ++ rest) (16 + r.len) = false) :
    parseStorage i (r.enc false ++ rest) = .ok ((r.enc false).length, r.msg false i) := by
  rw [enc_length_storage r (wf_facts false r hw)]
  exact parseStorage_enc i r hw rest hh

theorem C01_serial_at_msg (i : Nat) (r : RawMsg) (hw : r.wf true = true) (rest : Bytes)
    (hh : heuristicFires serialPat (r.enc true ++ rest) (4 + r.len) = false) :
    parseSerial i (r.enc true ++ rest) = .ok ((r.enc true).length, r.msg true i) := by
  rw [enc_length_serial r (wf_facts true r hw)]
  exact parseSerial_enc i r hw rest hh

/-- at a garbage offset (no marker here, a minimal message still fits) both parsers answer `invalid`,
    which makes the iterator skip exactly one byte -/
theorem C01_at_garbage (i : Nat) (d : Bytes) :
    (20 ≤ d.length → isPat storagePat d = false → parseStorage i d = .error .invalid) ∧
    (8 ≤ d.length → isPat serialPat d = false → parseSerial i d = .error .invalid) :=
  ⟨parseStorage_garbage i d, parseSerial_garbage i d⟩

/-- **whole stream, storage-header framing.** For every stream that consists of well-formed messages and runs of other
    bytes (`items`), in which neither frame marker begins anywhere except at the start of each message (`Clean`: markers
    straddling item boundaries included), the iterator started with index `i0` yields exactly those messages, in order,
    numbered `i0, i0+1, …`, every header field and payload byte intact; the bytes counted as processed never exceed the
    input; the bytes counted as skipped are exactly the garbage except for an unconsumed tail `u` that lies within the
    garbage after the last message and is shorter than a minimal message -/
theorem C01_storage_stream (i0 : Nat) (items : List Item) (hw : allWf false items = true) (hc : Clean false items)
    (fuel : Nat) (hf : (render false items).length < fuel) :
    let r := iterAll fuel { index := i0 } (render false items)
    r.1 = expected false i0 items ∧ r.2.index = i0 + r.1.length ∧
    ∃ u, u ≤ tailGarbage items ∧ u < 20 ∧ r.2.processed + u = (render false items).length ∧
      r.2.processed ≤ (render false items).length ∧ r.2.skipped + u = garbageLen items := by
  obtain ⟨a, b, u, h1, h2, h3, h4, h5⟩ := iter_stream items fuel { index := i0 } rfl hw hc hf
  refine ⟨a, by rw [b, a], u, h1, h3, ?_, ?_, ?_⟩
  · rw [h4]; simp only []; omega
  · rw [h4]; simp only []; omega
  · simpa using h5

/-- **whole stream, serial-header framing**: the same, with an unconsumed tail shorter than a minimal serial message -/
theorem C01_serial_stream (i0 : Nat) (items : List Item) (hw : allWf true items = true) (hc : Clean true items)
    (fuel : Nat) (hf : (render true items).length < fuel) :
    let r := iterAll fuel { index := i0 } (render true items)
    r.1 = expected true i0 items ∧ r.2.index = i0 + r.1.length ∧
    ∃ u, u ≤ tailGarbage items ∧ u < 8 ∧ r.2.processed + u = (render true items).length ∧
      r.2.processed ≤ (render true items).length ∧ r.2.skipped + u = garbageLen items := by
  obtain ⟨a, b, u, h1, h2, h3, h4, h5⟩ := iter_stream_ser items fuel { index := i0 } rfl hw hc hf
  refine ⟨a, by rw [b, a], u, h1, h3, ?_, ?_, ?_⟩
  · rw [h4]; simp only []; omega
  · rw [h4]; simp only []; omega
  · simpa using h5

/-- the hypothesis the oracle evaluates on every generated stream (`Spec.inRange`: all messages well-formed and the linear
    marker scan `markerFree` over absolute offsets passes) implies the hypotheses of the two stream theorems -/
theorem C01_oracle_hypothesis (serial : Bool) (items : List Item) (h : Spec.inRange serial items = true) :
    allWf serial items = true ∧ Clean serial items := by
  simp only [Spec.inRange, Bool.and_eq_true] at h
  exact ⟨h.1, markerFree_clean serial items h.2⟩

/-- non-vacuity: garbage, a minimal message, garbage containing the bytes `D L T` but no complete marker -/
example : Clean false [.g [1, 2, 3], .m { sh := [1,0,0,0, 2,0,0,0, 65,66,67,68], htyp := 0x20, mcnt := 8, add := [], payload := [] },
                       .g [0x44, 0x4c, 0x54, 0x02]] := by
  refine ⟨?_, ?_, ?_, trivial⟩
  · have : ∀ j, j < 3 → anyMarkerAt (([1, 2, 3] ++ render false [.m { sh := [1,0,0,0, 2,0,0,0, 65,66,67,68], htyp := 0x20, mcnt := 8, add := [], payload := [] },
        .g [0x44, 0x4c, 0x54, 0x02]]).drop j) = false := by decide
    exact fun j hj => this j hj
  · have : ∀ j, j < 20 → 1 ≤ j → anyMarkerAt (((RawMsg.enc false { sh := [1,0,0,0, 2,0,0,0, 65,66,67,68], htyp := 0x20, mcnt := 8, add := [], payload := [] }) ++
        render false [.g [0x44, 0x4c, 0x54, 0x02]]).drop j) = false := by decide
    exact fun j h1 h2 => this j (by simpa [RawMsg.enc, marker, storagePat] using h2) h1
  · have : ∀ j, j < 4 → anyMarkerAt (([0x44, 0x4c, 0x54, 0x02] ++ render false []).drop j) = false := by decide
    exact fun j hj => this j hj

/-- non-vacuity: a concrete message with ECU id, timestamp and extended header is well-formed -/
example : ({ sh := [1,0,0,0, 2,0,0,0, 65,66,67,68], htyp := 0x35, mcnt := 7,
             add := [69,67,85,49, 0,0,0,9, 0x41,1,65,80,73,68,67,84,73,68], payload := [1,2,3] } : RawMsg).wf false = true := by decide

end Props
