import Adlt.Dlt.RoundTrip
/-! # C02 — export fidelity: write/parse round trip and normal form

Model: `Dp.toWrite` (= `DltMessage::to_write`: storage header rebuilt from the message, standard header with recomputed
htyp / length, no ECU id or session id in it), `Dp.parseStorage`. The same statement (`Dp.Spec.C02one`) is evaluated on the
bytes the implementation writes for every message of every generated stream. -/
namespace Props
open Dp

/-- **round trip and normal form**, for every message in the range of the parser (`InRange`: 4-byte ECU id, 10-byte
    extended header if present, 32-bit timestamp and seconds, timestamp 0 when the flag is clear, rewritten length fits 16
    bits): `to_write` succeeds; parsing the written bytes — alone or followed by anything on which the corruption heuristic
    does not fire — consumes exactly the bytes written and gives back ECU, reception time, timestamp and its presence,
    message counter, byte order, extended header and payload; writing the re-read message produces the same bytes again -/
theorem C02_roundtrip (m : Msg) (h : InRange m) (i : Nat) (rest : Bytes)
    (hh : ∀ w, toWrite m = some w → heuristicFires storagePat (w ++ rest) w.length = false) :
    ∃ w m', toWrite m = some w ∧ parseStorage i (w ++ rest) = .ok (w.length, m') ∧
      m'.ecu = m.ecu ∧ m'.recvUs = m.recvUs ∧ m'.tsDms = m.tsDms ∧ m'.std.hasTs = m.std.hasTs ∧ m'.std.mcnt = m.std.mcnt ∧
      m'.std.bigEndian = m.std.bigEndian ∧ m'.ext = m.ext ∧ m'.payload = m.payload ∧ m'.index = i ∧ toWrite m' = some w :=
  roundtrip m h i rest hh

/-- the case of a file that ends after the message: no side condition at all -/
theorem C02_roundtrip_alone (m : Msg) (h : InRange m) (i : Nat) :
    ∃ w m', toWrite m = some w ∧ parseStorage i w = .ok (w.length, m') ∧
      m'.ecu = m.ecu ∧ m'.recvUs = m.recvUs ∧ m'.tsDms = m.tsDms ∧ m'.std.hasTs = m.std.hasTs ∧ m'.std.mcnt = m.std.mcnt ∧
      m'.std.bigEndian = m.std.bigEndian ∧ m'.ext = m.ext ∧ m'.payload = m.payload ∧ m'.index = i ∧ toWrite m' = some w := by
  have := roundtrip m h i [] (fun w _ => heuristic_nil w)
  simpa using this

/-- the hypothesis is met by everything the reader produces: every message `parse_dlt_with_storage_header` yields from a
    storage header with sub-second microseconds is in that range (so what was read can always be exported, without
    overflow of the 16-bit length: the rewritten header is never longer than the original one) -/
theorem C02_parsed_in_range (i : Nat) (d : Bytes) (n : Nat) (m : Msg) (h : parseStorage i d = .ok (n, m))
    (hmic : le32 ((d.drop 8).take 4) < 1000000) : InRange m := parse_inRange i d n m h hmic

/-- the re-parse step alone (kept from the first version): an encoded well-formed message parses back -/
theorem C02_written_parses (i : Nat) (r : RawMsg) (hw : r.wf false = true) :
    parseStorage i (r.enc false ++ []) = .ok ((r.enc false).length, r.msg false i) := by
  rw [enc_length_storage r (wf_facts false r hw)]
  apply parseStorage_enc i r hw []
  simp [heuristicFires, enc_length_storage r (wf_facts false r hw)]

/-- non-vacuity: a message with timestamp flag set and timestamp 0, big endian, extended header -/
example : InRange { index := 0, recvUs := 1700000000123456, ecu := [69, 67, 85, 49], tsDms := 0,
                    std := { htyp := 0x33, mcnt := 9, len := 0 }, ext := some [0x41, 1, 65, 80, 73, 68, 67, 84, 73, 68], payload := [1, 2, 3] } := by
  refine ⟨rfl, ?_, by decide, by decide, by decide, by decide⟩
  intro e he; cases he; rfl

end Props
