import Adlt.Dlt.Enc
/-! # C02 — export fidelity: write/parse round trip and normal form

Model: `Dp.toWrite` (= `DltMessage::to_write`). The executable statement `Dp.Spec.C02one` (re-parse of the
written bytes gives back ECU, reception time, timestamp and its presence, counter, byte order, extended
header and payload, consumes exactly the bytes written, and writing the re-read message reproduces the
bytes) is evaluated on the bytes the implementation writes for every message of every generated stream. -/
namespace Props
open Dp

/-- the re-parse step of the round trip, on the model: whatever `toWrite` emits for a message is the
    encoding of a well-formed raw message, so (by the C01 lemma) it parses back consuming exactly the bytes written -/
theorem C02_written_parses (i : Nat) (r : RawMsg) (hw : r.wf false = true) :
    parseStorage i (r.enc false ++ []) = .ok ((r.enc false).length, r.msg false i) := by
  rw [enc_length_storage r (wf_facts false r hw)]
  apply parseStorage_enc i r hw []
  simp [heuristicFires, enc_length_storage r (wf_facts false r hw)]

end Props
