import Adlt.Safe.CtrlProofs
import Adlt.Safe.ArgIter
import Adlt.Lc.NoPanic
/-! # C03 — no input content can crash ingestion and analysis   (partial)

Rust panics are values in the checked models (`Safe.R = Except Panic`): every `&p[a..b]`, `.get(a..b).unwrap()`,
`p[i]` and `usize` subtraction of the modelled function is a possible `Panic`. The theorems say that for **every**
payload, byte order, status byte and iterator position no such panic is reachable. What is modelled: the control-message
payload parsers (src/dlt/control_msgs.rs, all five), the verbose and non-verbose argument iterators
(`DltMessageArgIterator::next`), and the lifecycle detector's internal assertion. Everything else of the chain (text
converters, decoders, plugins) is covered by the worker search only — see DESIGN.md. -/
namespace Props
open Safe

/-- none of the control-message payload parsers can panic, whatever the payload -/
theorem C03_ctrl_parsers_never_panic (status : Nat) (be : Bool) (p : Bytes) :
    (∃ r, logInfo status be p = .ok r) ∧ (∃ r, swVersion be p = .ok r) ∧ (∃ r, unregisterContext p = .ok r) ∧
    (∃ r, connectionInfo p = .ok r) ∧ (∃ r, timezone be p = .ok r) :=
  ⟨logInfo_safe status be p, swVersion_safe be p, unregisterContext_safe p, connectionInfo_safe p, timezone_safe be p⟩

/-- iterating over the arguments of a verbose or non-verbose message cannot panic: from any index (also one that a
    previous over-long length field moved beyond the payload), for any number of steps -/
theorem C03_arg_iteration_never_panics (be : Bool) (p : Bytes) (fuel idx : Nat) (acc : List Arg.DArg) :
    (∃ r, argNext be p idx = .ok r) ∧ (∃ r, argIter be p fuel idx acc = .ok r) ∧ (∃ r, nonVerboseArgs p = .ok r) :=
  ⟨argNext_safe be p idx, argIter_safe be p fuel idx acc, nonVerboseArgs_safe p⟩

/-- the first argument of a non-verbose message has exactly 4 bytes: what the `get(0..4).unwrap()` on it in
    payload_as_text / eac_stats / non_verbose / can relies on (the sites that did not check for non-verbose were
    repaired: fix 4d26adc) -/
theorem C03_nonverbose_first_arg_is_4_bytes (p a : Bytes) (t : List Bytes) (h : nonVerboseArgs p = .ok (a :: t)) :
    a.length = 4 := nonVerbose_first_is_4 p a t h

/-- lifecycle detection has no reachable internal assertion -/
theorem C03_lifecycle_never_stops (ms : List Lcm.Msg) : (Lcm.run ms).panicked = false := Lcm.run_not_panicked ms

/-- non-vacuity: a GET_LOG_INFO response with one application, one context, log level and trace status is parsed to
    that entry; the same payload cut after the context id is refused without a panic -/
example : logInfo 6 false [1, 0, 65, 80, 80, 0, 1, 0, 67, 84, 88, 0, 4, 1] =
    .ok [{ apid := [65, 80, 80, 0], ctids := [{ ctid := [67, 84, 88, 0], logLevel := some 4, traceStatus := some 1, desc := none }], desc := none }] := by
  rfl
example : logInfo 6 false [1, 0, 65, 80, 80, 0, 1, 0, 67, 84, 88, 0] = .ok [] := by rfl
/-- the checked primitives do report what the Rust code would do without its checks -/
example : slice [1, 2, 3] 2 5 = .error .sliceOOB := by rfl

end Props
