import Adlt.Merge.Proofs
/-! # C09 — merging message sources loses nothing and keeps per-source order

Model: the acceptor `Mrg.accepts` (every output `SortingMultiReaderIterator` may produce, whatever `BinaryHeap` does
with equal reception times, is accepted — checked on every implementation output) and `Mrg.seqChain`. -/
namespace Props
open Mrg

/-- every message of every source exactly once -/
theorem C09_perm (srcs : List (List MMsg)) (out : List MMsg) (h : accepts srcs out = true) :
    (out.map key).Perm (srcs.flatten.map key) := accepts_perm srcs out h

/-- messages from the same source keep their relative order -/
theorem C09_source_order (srcs : List (List MMsg)) (out : List MMsg) (ht : Tagged srcs) (h : accepts srcs out = true)
    (i : Nat) : (out.filter (·.src == i)).map key = ((srcs[i]?).getD []).map key := accepts_order srcs out ht h i

/-- if every source is ordered by reception time, the merged stream is -/
theorem C09_sorted (srcs : List (List MMsg)) (out : List MMsg)
    (hsort : ∀ s ∈ srcs, s.Pairwise (fun a b => a.recv ≤ b.recv)) (h : accepts srcs out = true) :
    out.Pairwise (fun a b => a.recv ≤ b.recv) := accepts_sorted srcs out hsort h

/-- chaining yields the concatenation numbered consecutively from the start index, for any number of empty sources anywhere -/
theorem C09_chain (i0 : Nat) (srcs : List (List MMsg)) :
    (seqChain i0 srcs).map key = srcs.flatten.map key ∧
    (seqChain i0 srcs).map (·.index) = List.range' i0 srcs.flatten.length := seqChain_spec i0 srcs

/-- consecutive numbering of the merged stream -/
theorem C09_index (i0 : Nat) (l : List MMsg) : (renumber i0 l).map (·.index) = List.range' i0 l.length := by
  unfold renumber; simpa using zipIdx_map_index l i0 0

/-- the `new_or_single_it` variants are the merge / the chain for every family that is not exactly one source -/
theorem C09_or_single_multi (i0 : Nat) (srcs : List (List MMsg)) (h : srcs.length ≠ 1) :
    mergeOrSingle i0 srcs = renumber i0 (merge srcs) ∧ chainOrSingle i0 srcs = seqChain i0 srcs := by
  match srcs, h with
  | [], _ => exact ⟨rfl, rfl⟩
  | [_], h => simp at h
  | _ :: _ :: _, _ => exact ⟨rfl, rfl⟩

/-- numbering of the `new_or_single_it` variants: consecutive from the start index for every family that is not exactly
    one source. **Partial**: for exactly one source the statement is false of the unchanged code
    (`C09_single_source_witness`; open known finding) -/
theorem C09_or_single_numbering_partial (i0 : Nat) (srcs : List (List MMsg)) (h : srcs.length ≠ 1) :
    (mergeOrSingle i0 srcs).map (·.index) = List.range' i0 (mergeOrSingle i0 srcs).length ∧
    (chainOrSingle i0 srcs).map (·.index) = List.range' i0 (chainOrSingle i0 srcs).length := by
  obtain ⟨e1, e2⟩ := C09_or_single_multi i0 srcs h
  rw [e1, e2]
  refine ⟨?_, ?_⟩
  · rw [C09_index]; simp [renumber]
  · unfold seqChain; rw [C09_index]; simp [renumber]

/-- the single-source shortcut: one source with own numbering 7.. and start index 5 comes back numbered 7.. -/
theorem C09_single_source_witness :
    (mergeOrSingle 5 [[{ src := 0, pos := 0, recv := 1, index := 7 }, { src := 0, pos := 1, recv := 2, index := 8 }]]).map (·.index) = [7, 8] ∧
    (chainOrSingle 5 [[{ src := 0, pos := 0, recv := 1, index := 7 }, { src := 0, pos := 1, recv := 2, index := 8 }]]).map (·.index) = [7, 8] ∧
    List.range' 5 2 = [5, 6] := by decide

/-- non-vacuity: the acceptor accepts both orders of a tie and rejects a loss -/
example : accepts [[{ src := 0, pos := 0, recv := 5 }], [{ src := 1, pos := 0, recv := 5 }]]
            [{ src := 1, pos := 0, recv := 5 }, { src := 0, pos := 0, recv := 5 }] = true ∧
          accepts [[{ src := 0, pos := 0, recv := 5 }], [{ src := 1, pos := 0, recv := 5 }]]
            [{ src := 1, pos := 0, recv := 5 }] = false := by decide

end Props
