import Adlt.Sort.Order
/-! # C10 — time sorting is a permutation, and ordered under bounded delay

Model: `Srt.runSort table windowSecs minDelay ms` (= `buffer_sort_messages` with a static lifecycle table). -/
namespace Props
open Srt

/-- for every input stream, every lifecycle table, every window size and minimum delay:
    the output is a permutation of the input (nothing lost, duplicated or altered) -/
theorem C10_perm (table : List (Nat × Nat)) (windowSecs minDelay : Nat) (ms : List SMsg) :
    (runSort table windowSecs minDelay ms).Perm ms := runSort_perm table windowSecs minDelay ms

/-- if reception times never decrease, indices increase, and no message's calculated time (lifecycle start +
    timestamp capped at reception; reception time for control requests) lies more than `minDelay` before its
    reception time, the output is ordered by calculated time, ties in original (index) order — for every
    window size (the proof uses only `threshold ≥ minDelay`) and every table, several ECUs/lifecycles in parallel -/
theorem C10_sorted (table : List (Nat × Nat)) (windowSecs minDelay : Nat) (ms : List SMsg)
    (h : Spec.orderingInRange table minDelay ms = true) :
    Spec.sortedByCalc table (runSort table windowSecs minDelay ms) = true :=
  runSort_sorted table windowSecs minDelay ms h

/-- the buffering threshold never drops below the configured minimum, whatever the window estimate does -/
theorem C10_threshold_ge_min (windowSecs minDelay : Nat) (s : SSt) (m : SMsg) (ct : Nat) (h : minDelay ≤ s.T) :
    minDelay ≤ (s.newT windowSecs minDelay m ct).2 := newT_ge windowSecs minDelay s m ct h

/-- non-vacuity: two ECUs in parallel, second message 1.5 s late but within a 2 s bound -/
example : Spec.orderingInRange [(1, 1000000000), (2, 1000500000)] 2000000
    [ { index := 0, recv := 1010000000, ecu := 0, lc := 1, tsUs := 9900000, ctrlReq := false },
      { index := 1, recv := 1010200000, ecu := 1, lc := 2, tsUs := 8200000, ctrlReq := false } ] = true := by decide

end Props
