import Adlt.Sort.Seq
/-! # C10 — time sorting is a permutation, and ordered under bounded delay

Model: `Srt.runSortSeq table windowSecs minDelay ms` (= `buffer_sort_messages` with a static lifecycle table): the messages
are numbered as they arrive (`seq`), ties of the calculated time are broken by that number; the messages' own `index` is
carried and not looked at. -/
namespace Props
open Srt

/-- for every input stream, every lifecycle table, every window size and minimum delay:
    the output is a permutation of the input (nothing lost, duplicated or altered) -/
theorem C10_perm (table : List (Nat × Nat)) (windowSecs minDelay : Nat) (ms : List SMsg) :
    ((runSortSeq table windowSecs minDelay ms).map SMsg.clearSeq).Perm (ms.map SMsg.clearSeq) :=
  runSortSeq_perm table windowSecs minDelay ms

/-- if reception times never decrease and no message's calculated time (lifecycle start + timestamp capped at
    reception; reception time for control requests) lies more than `minDelay` before its reception time, the output is
    ordered by calculated time, ties in original order (`seq` = arrival number) - for every window size (the proof uses
    only `threshold ≥ minDelay`), every table, several ECUs/lifecycles in parallel, and whatever the messages' own
    indices are (equal, decreasing, wrapped) -/
theorem C10_sorted (table : List (Nat × Nat)) (windowSecs minDelay : Nat) (ms : List SMsg)
    (h : Spec.premise table minDelay ms = true) :
    Spec.sortedByCalc table (runSortSeq table windowSecs minDelay ms) = true :=
  runSortSeq_sorted table windowSecs minDelay ms h

/-- the buffering threshold never drops below the configured minimum, whatever the window estimate does -/
theorem C10_threshold_ge_min (windowSecs minDelay : Nat) (s : SSt) (m : SMsg) (ct : Nat) (h : minDelay ≤ s.T) :
    minDelay ≤ (s.newT windowSecs minDelay m ct).2 := newT_ge windowSecs minDelay s m ct h

/-- non-vacuity: two ECUs in parallel, second message 1.5 s late but within a 2 s bound -/
example : Spec.premise [(1, 1000000000), (2, 1000500000)] 2000000
    [ { index := 7, recv := 1010000000, ecu := 0, lc := 1, tsUs := 9900000, ctrlReq := false },
      { index := 7, recv := 1010200000, ecu := 1, lc := 2, tsUs := 8200000, ctrlReq := false } ] = true := by decide

end Props
