import Adlt.Lc.Pub
import Adlt.Lc.Spec
import Adlt.Lc.NoPanic
import Adlt.Lc.IdPos
/-! # C05 — lifecycle detection forwards every message once, in order, assigned

Statements are about `Lcm.run` (model of `parse_lifecycles_buffered_from_stream`), for **every**
message list, without side condition: since the repair of the merge path (fix cf29dd5) the model has no
reachable assertion any more (`C05_never_stops`). -/
namespace Props
open Lcm

/-- every message is delivered exactly once, in the order received, unchanged except for the lifecycle field -/
theorem C05_once_in_order (ms : List Msg) :
    Spec.C05order ms (observe (run ms)) = true := by
  have h := Lcm.C05_once_in_order ms (run_not_panicked ms)
  simp only [Spec.C05order, observe, beq_iff_eq]
  have he : eraseLc = erase := rfl
  simp only [St.outSeq] at h
  simp only [he, List.map_map, List.map_reverse] at *
  simpa [Function.comp_def] using h

/-- the id a delivered message carries names, in the shared table at that moment, a lifecycle of the message's own ECU -/
theorem C05_assigned_own_ecu (ms : List Msg) : Spec.C06 (observe (run ms)) = true := by
  simp only [Spec.C06, observe, List.all_eq_true, List.mem_map, List.mem_reverse]
  rintro x ⟨o, ho, rfl⟩
  exact Lcm.C06_published_first ms o ho

/-- every delivered message carries a non-zero lifecycle id (ids are handed out from 1; merging relabels to live ids) -/
theorem C05_nonzero_id (ms : List Msg) : Spec.C05nonzero (observe (run ms)) = true := by
  simp only [Spec.C05nonzero, observe, List.all_eq_true, List.mem_map, List.mem_reverse]
  rintro x ⟨o, ho, rfl⟩
  have := Lcm.C05_nonzero ms o ho
  simp only [bne_iff_ne, ne_eq]
  omega

/-- the whole statement as the oracle evaluates it on the implementation: once, in order, unchanged but for the lifecycle
    field, id non-zero and naming a published lifecycle of the message's own ECU -/
theorem C05_full (ms : List Msg) : Spec.C05 ms (observe (run ms)) = true := by
  have h1 := C05_once_in_order ms
  have h2 := C05_assigned_own_ecu ms
  have h3 := C05_nonzero_id ms
  simp only [Spec.C05, Spec.C05order, Spec.C06, Spec.C05nonzero, Bool.and_eq_true, List.all_eq_true] at *
  exact ⟨h1, fun x hx => ⟨h3 x hx, h2 x hx⟩⟩

/-- the detector model never stops at an internal assertion, whatever the stream -/
theorem C05_never_stops (ms : List Msg) : (run ms).panicked = false := run_not_panicked ms

/-- non-vacuity: a concrete two-ECU stream with a reboot that is processed without hitting the assert -/
example : (run [ { index := 0, recv := 1000000000, ecu := 1, tsDms := 10000, hasTs := true, ctrlReq := false },
                 { index := 1, recv := 1000500000, ecu := 2, tsDms := 20000, hasTs := true, ctrlReq := false },
                 { index := 2, recv := 1200000000, ecu := 1, tsDms := 5000, hasTs := true, ctrlReq := false } ]).panicked = false := by
  decide

end Props
