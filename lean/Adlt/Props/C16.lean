import Adlt.Remote.Proofs
import Adlt.Remote.IncrProofs
import Adlt.Remote.Late
import Adlt.Remote.TimeLookup
import Adlt.Gen.Consts
/-! # C16 — streams deliver exactly the requested window of the filtered log; paging and lookups   (partial)

The model says what a client has received once the server has processed the whole file (`Srv.delivered`); that it does
so for every arrival pattern of parsed messages is observed (the harness lets the server parse while it talks to it), not
proved: the incremental index of `process_stream_new_msgs` is tied by the library-level part of the harness. -/
namespace Props
open Rem

/-- what is delivered under an id is the positions `[start, stop)` of the stream's sequence: the `i`-th delivered message
    is the `(start+i)`-th of the sequence as long as `start + i < stop`, and nothing else follows -/
theorem C16_window_exact (seq : List Nat) (a b i : Nat) :
    (window seq a b)[i]? = (if a + i < b then seq[a + i]? else none) ∧
    (window seq a b).length = min b seq.length - a :=
  ⟨window_getElem? seq a b i, window_length seq a b⟩

/-- the sequence of a stream with filters is exactly the file positions whose message passes the filters, ascending
    (so each once, in file order); without filters it is the whole file -/
theorem C16_sequence_is_filtered_log (s : Stream) (ms : List RMsg) (n : Nat) :
    ((s.seq ms n).Pairwise (· < ·)) ∧
    (s.filters.isEmpty = true → s.seq ms n = List.range ms.length) ∧
    (s.filters.isEmpty = false → s.isStream = true →
      ∀ q, q ∈ s.seq ms n ↔ ∃ m, ms[q]? = some m ∧ keeps s.filters m = true) :=
  ⟨seq_sorted s ms n, seq_unfiltered s ms n, fun hf hs q => seq_stream_mem s ms n q hf hs⟩

/-- the announcement of a stream records exactly that window for the new id, and for no id announced before -/
theorem C16_stream_delivers_window (s : Srv) (files ms : List RMsg) (fs : FSpec) (a b : Nat) (str : Bool)
    (hf : s.file = some ms) :
    (s.step files (.stream str fs a b)).1.delivered =
      s.delivered ++ [(s.nextK, window (({ k := s.nextK, isStream := str, filters := fs, start := a, stop := b } : Stream).seq ms b) a b)] := by
  simp [Srv.step, hf]

/-- search paging: the results of a page followed by all matches from the continuation position are all matches from the
    start position — no stream position is skipped or examined twice; a continuation is only offered inside the stream and
    only when the page is full -/
theorem C16_search_paging (seq : List Nat) (ms : List RMsg) (fs : FSpec) (i maxR : Nat) (hi : i ≤ seq.length) :
    (search seq ms fs i maxR).1 ++
      (match (search seq ms fs i maxR).2 with
       | some n => allHits seq ms fs n
       | none => []) = allHits seq ms fs i ∧
    (∀ n, (search seq ms fs i maxR).2 = some n → i ≤ n ∧ n < seq.length ∧ maxR ≤ (search seq ms fs i maxR).1.length) :=
  search_page seq ms fs i maxR hi

/-- index / time lookups: the returned position is that of the first stream message not before the wanted file position —
    everything before it is earlier, everything from it on is not -/
theorem C16_lookup_first_not_before (seq : List Nat) (p : Nat) (hs : seq.Pairwise (· < ·)) :
    (∀ i, i < lowerBound seq p → ∃ q, seq[i]? = some q ∧ q < p) ∧
    (∀ i q, lowerBound seq p ≤ i → seq[i]? = some q → p ≤ q) := lowerBound_spec seq p hs

/-- time lookups: the model answers with the first file position whose time - reception time for a control request, otherwise
    lifecycle start + time stamp but not later than the reception time: the key of the time sort - is not before the wanted
    one: everything in front is earlier, the message there is not; on a file ordered by that time (a file opened with `sort`)
    nothing from there on is earlier, and the position is the only one with these two properties - i.e. it is what a binary
    search (`partition_point`) over the file returns -/
theorem C16_time_lookup (ms : List RMsg) (t : Nat) :
    (∀ i m, i < timePos ms t → ms[i]? = some m → m.time < t) ∧ (∀ m, ms[timePos ms t]? = some m → t ≤ m.time) ∧
    (ms.Pairwise (fun a b => a.time ≤ b.time) → ∀ i m, timePos ms t ≤ i → ms[i]? = some m → t ≤ m.time) ∧
    (∀ p', p' ≤ ms.length → (∀ i m, i < p' → ms[i]? = some m → m.time < t) → (∀ i m, p' ≤ i → ms[i]? = some m → t ≤ m.time) →
      p' = timePos ms t) :=
  ⟨(timePos_spec ms t).1, (timePos_spec ms t).2, timePos_sorted ms t, fun p' hle h1 h2 => timePos_unique ms t p' hle h1 h2⟩

/-! ## every arrival pattern, every chunking, every window change  (`Inc`: `process_stream_new_msgs` + the sender) -/

/-- for **every** schedule of arrivals, server rounds (any chunk size) and window changes: the index is exactly the
    filtered log below the progress mark, and what has been sent under the current id is exactly the positions
    `[start, sentEnd)` of the stream — each once, in order, nothing else -/
theorem C16_any_schedule_invariant (keep : Nat → Bool) (pc : Nat) (isStream fa : Bool) (a b : Nat) (evs : List Inc.Ev) :
    let s := Inc.runEv keep pc (Inc.SC.new isStream fa a b) evs
    (s.filtersActive = true → s.filtered = Inc.matchRange keep 0 s.processed) ∧ s.processed ≤ s.allLen ∧
    s.delivered = (s.seqNow.take s.sentEnd).drop s.start := by
  have h := Inc.inv_run keep pc _ evs (Inc.inv_new keep isStream fa a b)
  exact ⟨h.idx, h.le, h.del⟩

/-- when the stream has settled (all messages indexed — or a query has all it can use — and nothing left to send) the
    client has received exactly the window `[start, stop)` of the complete filtered log, whatever the schedule was -/
theorem C16_settled_is_window (keep : Nat → Bool) (pc : Nat) (isStream fa : Bool) (a b : Nat) (evs : List Inc.Ev)
    (hs : Inc.Settled (Inc.runEv keep pc (Inc.SC.new isStream fa a b) evs)) :
    let s := Inc.runEv keep pc (Inc.SC.new isStream fa a b) evs
    s.delivered = window (Inc.fullSeq keep s.filtersActive s.allLen) s.start s.stop :=
  Inc.settled_delivered keep _ (Inc.inv_run keep pc _ evs (Inc.inv_new keep isStream fa a b)) hs

/-- and it does settle: from any reachable state, once no more messages arrive, finitely many rounds of the loop (with any
    chunk size ≥ 1) reach a settled state — so the window *is* eventually delivered -/
theorem C16_eventually_settles (keep : Nat → Bool) (pc c : Nat) (hc : 1 ≤ c) (hpc : 1 ≤ pc) (isStream fa : Bool) (a b : Nat)
    (evs : List Inc.Ev) :
    let s := Inc.runEv keep pc (Inc.SC.new isStream fa a b) evs
    ∃ k, (Inc.ticks keep pc c k s).delivered = window (Inc.fullSeq keep s.filtersActive s.allLen) s.start s.stop := by
  intro s
  have hi := Inc.inv_run keep pc _ evs (Inc.inv_new keep isStream fa a b)
  obtain ⟨k, k1, k2, k3, k4, k5, k6⟩ := Inc.ticks_settle keep pc c hc hpc _ s hi (Nat.le_refl _)
  refine ⟨k, ?_⟩
  have := Inc.settled_delivered keep _ k2 k1
  rw [this, k3, k4, k5, k6]; rfl

/-- the constants of the code satisfy the side conditions of `C16_eventually_settles` -/
theorem C16_consts : 1 ≤ Gen.remotePartChunkK * 1024 ∧ 1 ≤ Gen.remoteMaxChunk := by decide

/-- non-vacuity: 10 messages, even positions match; arrival in batches 3/7, chunk sizes 2 and 100, a window change -/
example :
    let keep : Nat → Bool := fun p => p % 2 == 0
    let s := Inc.runEv keep 4 (Inc.SC.new true true 1 3) [.arrive 3, .tick 2, .arrive 7, .tick 100, .tick 100]
    let s2 := Inc.runEv keep 4 s [.cw 0 2, .tick 1]
    s.filtered = [0, 2, 4, 6, 8] ∧ s.delivered = [2, 4] ∧ Inc.Settled s ∧ s2.delivered = [0, 2] := by decide

/-- collect mode `one_pass_streams` (messages every stream has processed are dropped): a stream created after `drained`
    messages were dropped starts behind them. With nothing dropped the round is the ordinary one; a stream without filters
    has, after a round, processed every message received so far (its progress mark is the number of messages received -
    the defect repaired by f47693d broke this); a filtered stream indexes exactly the matching positions behind the dropped
    ones up to its progress mark -/
theorem C16_late_stream_rounds (keep : Nat → Bool) (pc : Nat) (s : Inc.SC) (c drained : Nat) :
    (s.processed ≤ s.allLen → Inc.procNewD keep pc s c 0 = Inc.procNew keep pc s c) ∧
    (s.filtersActive = false → drained < s.allLen → s.processed ≤ s.allLen → (Inc.procNewD keep pc s c drained).processed = s.allLen) ∧
    (s.filtersActive = true → s.isStream = true → s.processed = 0 → s.filtered = [] → drained < s.allLen →
      (Inc.procNewD keep pc s c drained).filtered =
        Inc.matchRange keep drained ((Inc.procNewD keep pc s c drained).processed - drained) ∧
      drained ≤ (Inc.procNewD keep pc s c drained).processed ∧ (Inc.procNewD keep pc s c drained).processed ≤ s.allLen) :=
  ⟨Inc.procNewD_zero keep pc s c, Inc.procNewD_unfiltered_mark keep pc s c drained, Inc.procNewD_stream_index keep pc s c drained⟩

/-- non-vacuity: three messages, the filter keeps 0 and 2; window [1,3) of that is message 2; search pages of size 1 -/
example :
    let ms : List RMsg := [{ index := 0, ecu := 0, recv := 1, tsDms := 1, apid := "A", ctid := "C", text := "x" },
                           { index := 1, ecu := 1, recv := 2, tsDms := 2, apid := "B", ctid := "C", text := "y" },
                           { index := 2, ecu := 0, recv := 3, tsDms := 3, apid := "A", ctid := "D", text := "x" }]
    let st : Stream := { k := 1, isStream := true, filters := [(false, .ecu 0)], start := 1, stop := 3 }
    st.seq ms 3 = [0, 2] ∧ window (st.seq ms 3) 1 3 = [2] ∧
    search (List.range 3) ms [(false, .ecu 0)] 0 1 = ([0], some 1) ∧
    search (List.range 3) ms [(false, .ecu 0)] 1 1 = ([2], none) ∧ lowerBound [0, 2] 1 = 1 := by decide

end Props
