import Adlt.Filter.Proofs
/-! # C12 — filter sets: positive OR, negative veto, event AND; order and counts kept

Model: `Flt.filterAsStreams` (= `filter_as_streams`, used by convert) and `Flt.matchFilters` over `Flt.keepEnabled`
(= `match_filters` over the container built by `StreamContext::from` / search / export). `mt` is any single-filter
decision function (the theorems hold for every one, in particular for `Filter::matches`). -/
namespace Props
open Flt

/-- stream filter: the output is exactly the kept messages, unchanged and in their original order, where kept ⇔
    (no enabled positive filter or some positive matches) ∧ no enabled negative matches; disabled, marker and event
    filters have no effect; passed + filtered = received -/
theorem C12_stream (mt : Filter → MsgView → Bool) (fs : List Filter) (ms : List MsgView) :
    (filterAsStreams mt fs ms).1 = ms.filter (Spec.keepStream mt fs) ∧
    (filterAsStreams mt fs ms).2.1 + (filterAsStreams mt fs ms).2.2 = ms.length := filterAsStreams_spec mt fs ms

/-- set matcher (remote streams, searches, export): kept ⇔ positive OR ∧ no negative ∧ (no event filter or some event matches),
    over the enabled filters only -/
theorem C12_set (mt : Filter → MsgView → Bool) (fs : List Filter) (m : MsgView) :
    matchFilters mt (keepEnabled fs) m = Spec.keepSet mt fs m := matchFilters_spec mt fs m

/-- without (enabled) event filters both implementations select the same messages -/
theorem C12_agree (mt : Filter → MsgView → Bool) (fs : List Filter) (m : MsgView)
    (hev : (fs.filter fun f => f.enabled && f.kind == Kind.event) = []) :
    Spec.keepSet mt fs m = Spec.keepStream mt fs m := stream_set_agree mt fs m hev

/-- non-vacuity: a disabled positive filter does not turn "no positive filter" into "must match" -/
example : Spec.keepStream (fun _ _ => false) [{ kind := .positive, enabled := false }]
    { ecu := [], ext := none, lifecycle := 0, text := "" } = true := by decide

end Props
