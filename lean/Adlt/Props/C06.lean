import Adlt.Lc.Pub
import Adlt.Lc.Spec
/-! # C06 — a message's lifecycle is published before the message is delivered -/
namespace Props
open Lcm

/-- for every stream (no side condition) and every delivery point of the run: at the moment the
    message is handed to the downstream sender the reader-visible table (state after the last
    `refresh`) contains the message's lifecycle id, stored with the message's ECU. Consumer pacing
    cannot matter: publication and the outflow call happen in one thread, in this order. -/
theorem C06_published_first (ms : List Msg) : Spec.C06 (observe (run ms)) = true := by
  simp only [Spec.C06, observe, List.all_eq_true, List.mem_map, List.mem_reverse]
  rintro x ⟨o, ho, rfl⟩
  exact Lcm.C06_published_first ms o ho

/-- the invariant behind it, exported: between any two steps every live lifecycle that is no longer
    buffered is published with its ECU, and every queued message refers to a live lifecycle of its ECU -/
theorem C06_invariant (ms : List Msg) : LInv (ms.foldl St.step {}) := steps_inv ms {} init_inv

example : (observe (run [ { index := 0, recv := 1000000000, ecu := 1, tsDms := 10000, hasTs := true, ctrlReq := false },
                 { index := 1, recv := 1200000000, ecu := 1, tsDms := 5000, hasTs := true, ctrlReq := false } ])).out.length = 2 := by
  decide

end Props
