import Adlt.Lc.Model
import Adlt.Lc.Spec
/-! # C08 — cleanly separated power cycles are detected exactly   (partial)

What is proved here are the two facts the exactness rests on, for every lifecycle state and message:
a message of the *same* boot (its calculated start `recv - timestamp` equals the lifecycle's start) is always absorbed
without moving the start, and a message whose calculated start lies after the lifecycle's end always opens a new
lifecycle. The whole-trace statement (one lifecycle per boot per ECU with exact start / end / counts, inside the region
described in DESIGN.md) is the executable `Lcm.c08Exact`, evaluated on the implementation for every generated clean trace;
outside that region the statement is false of the code (known finding, see `C08_excluded_witness`). -/
namespace Props
open Lcm

theorem usPerSec_pos : 0 < usPerSec := by decide

/-- same boot ⇒ belongs: never "slightly overlapping", never a start move, never a resume, never a new lifecycle -/
theorem C08_same_boot_belongs (l : Lc) (m : Msg) (hc : m.ctrlReq = false) (hrecv : m.recv = l.start + m.tsUs)
    (hend : l.start ≤ l.endTime) : l.classify m = .belongs := by
  unfold Lc.classify
  have hs : m.recv - m.tsUs = l.start := by omega
  have hslight : l.slightlyOverlapping l.start = false := by
    unfold Lc.slightlyOverlapping
    have h2 : Gen.lcSlightOverlapSecs = 2 := by decide
    have h10 : Gen.lcMinLenForOverlapSecs = 10 := by decide
    have hu : usPerSec = 1000000 := by decide
    simp only [h2, h10, hu, Bool.and_eq_false_iff, decide_eq_false_iff_not]
    omega
  simp only [hc, Bool.false_eq_true, if_false, hs, hslight, Bool.not_false, Bool.true_and]
  have hle : decide (l.start ≤ l.endTime) = true := by simp [hend]
  have h10 : Gen.lcMinResumeGapSecs = 10 := by decide
  have hu : usPerSec = 1000000 := by decide
  have hnores : (decide (m.recv ≥ l.lastRecv + usPerSec * Gen.lcMinResumeGapSecs) && decide (m.tsUs ≥ l.maxTs)
      && decide (l.start ≥ l.start + usPerSec * Gen.lcMinResumeGapSecs)
      && decide (m.recv - l.lastRecv + usPerSec * Gen.lcMaxDelayOnResumeSecs > l.start - l.start)) = false := by
    have : decide (l.start ≥ l.start + usPerSec * Gen.lcMinResumeGapSecs) = false := by
      simp only [h10, hu, decide_eq_false_iff_not]; omega
    simp [this]
  simp only [hle, Bool.true_or, Nat.lt_irrefl, if_false, Nat.sub_self]
  have h0 : ¬ (0 > maxDelay) := by omega
  simp only [h0, decide_false, Bool.false_and, Bool.and_false, Bool.false_eq_true, if_false]
  have h3 : decide (l.start ≥ l.start + usPerSec * Gen.lcMinResumeGapSecs) = false := by
    simp only [h10, hu, decide_eq_false_iff_not]; omega
  simp only [h3, Bool.and_false, Bool.false_and, Bool.not_false, Bool.and_self, if_true]

/-- absorbing a message of the same boot keeps the start and tracks the largest timestamp: start = boot time + delay,
    end = start + largest timestamp -/
theorem C08_absorb_same_boot (l : Lc) (m : Msg) (hrecv : m.recv = l.start + m.tsUs) :
    (l.absorb m).start = l.start ∧ (l.absorb m).maxTs = max l.maxTs m.tsUs ∧ (l.absorb m).nrMsgs = l.nrMsgs + 1 := by
  unfold Lc.absorb
  have hs : m.recv - m.tsUs = l.start := by omega
  simp only [hs, Nat.lt_irrefl, if_false]
  refine ⟨trivial, ?_, trivial⟩
  by_cases h : l.maxTs < m.tsUs
  · simp [h]; omega
  · simp only [h, if_false]
    have : max l.maxTs m.tsUs = l.maxTs := by omega
    rw [this]
    cases l.resume with
    | none => rfl
    | some r => simp only []; split <;> rfl

/-- a message of the next boot whose calculated start lies after the end of the current lifecycle opens a new lifecycle -/
theorem C08_next_boot_fresh (l : Lc) (m : Msg) (hc : m.ctrlReq = false) (hts : m.hasTs = true)
    (hafter : l.endTime < m.recv - m.tsUs) : ∃ r, l.classify m = .fresh r := by
  unfold Lc.classify
  have hnle : decide (m.recv - m.tsUs ≤ l.endTime) = false := by
    simp only [decide_eq_false_iff_not]; omega
  have hpart : ((!l.slightlyOverlapping (m.recv - m.tsUs) && decide (m.recv - m.tsUs ≤ l.endTime)) || !m.hasTs) = false := by
    rw [hnle, hts]; simp
  simp only [hc, Bool.false_eq_true, if_false, hpart, Bool.false_and, Bool.and_false, Bool.not_false]
  exact ⟨_, rfl⟩

/-- outside the claimed region the statement of C08 is false of the detector: boot 0 = one message with timestamp 0
    received at t; boot 1 = one message received 13.7 s later with timestamp 15.05 s (the transport delay shrank by more
    than the off-time): a clean trace in the sense of the statement, yet both messages end up in one lifecycle -/
theorem C08_excluded_witness :
    ((observe (run [ { index := 0, recv := 1700000022000000, ecu := 0, tsDms := 0, hasTs := true, ctrlReq := false },
                     { index := 1, recv := 1700000035678505, ecu := 0, tsDms := 150530, hasTs := true, ctrlReq := false } ])).tbl.map (·.n)) = [2] := by
  decide

end Props
