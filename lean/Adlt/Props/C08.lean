import Adlt.Lc.Model
import Adlt.Lc.Spec
import Adlt.Lc.CleanTrace
import Adlt.Lc.Table
/-! # C08 — cleanly separated power cycles are detected exactly   (partial)

Local facts, for every lifecycle state and message: a message of the *same* boot (its calculated start `recv - timestamp`
equals the lifecycle's start) is always absorbed without moving the start, and a message whose calculated start lies after
the lifecycle's end always opens a new lifecycle. Whole trace (`C08_clean_trace_exact`, `C08_clean_trace_table`): for every
clean trace *inside the claimed region* - every next boot starts after the end of the previous one, or before it by less
than the "slightly overlapping" window while the previous boot was longer than 10 s - of any number of ECUs interleaved in
any way, the detector reports exactly one lifecycle per boot per ECU with start = boot time + delay, end = start + largest
timestamp and the boot's message count, never merges, and delivers every message labelled with the lifecycle of its boot.
The same statement (`Lcm.c08Exact`) is evaluated on the implementation for every generated clean trace; outside the region
it is false of the code (known finding, see `C08_excluded_witness`). -/
namespace Props
open Lcm

theorem usPerSec_pos : 0 < usPerSec := by decide

/-- same boot ⇒ belongs: never "slightly overlapping", never a start move, never a resume, never a new lifecycle -/
theorem C08_same_boot_belongs (l : Lc) (m : Msg) (hc : m.ctrlReq = false) (hrecv : m.recv = l.start + m.tsUs)
    (hend : l.start ≤ l.endTime) : l.classify m = .belongs := by
  unfold Lc.classify
  have hs : m.recv - m.tsUs = l.start := by omega
  have hslight : l.slightlyOverlapping l.start = false := by
    unfold Lc.slightlyOverlapping
    have h2 : Gen.lcSlightOverlapSecs = 2 := by decide
    have h10 : Gen.lcMinLenForOverlapSecs = 10 := by decide
    have hu : usPerSec = 1000000 := by decide
    simp only [h2, h10, hu, Bool.and_eq_false_iff, decide_eq_false_iff_not]
    omega
  simp only [hc, Bool.false_eq_true, if_false, hs, hslight, Bool.not_false, Bool.true_and]
  have hle : decide (l.start ≤ l.endTime) = true := by simp [hend]
  have h10 : Gen.lcMinResumeGapSecs = 10 := by decide
  have hu : usPerSec = 1000000 := by decide
  have hnores : (decide (m.recv ≥ l.lastRecv + usPerSec * Gen.lcMinResumeGapSecs) && decide (m.tsUs ≥ l.maxTs)
      && decide (l.start ≥ l.start + usPerSec * Gen.lcMinResumeGapSecs)
      && decide (m.recv - l.lastRecv + usPerSec * Gen.lcMaxDelayOnResumeSecs > l.start - l.start)) = false := by
    have : decide (l.start ≥ l.start + usPerSec * Gen.lcMinResumeGapSecs) = false := by
      simp only [h10, hu, decide_eq_false_iff_not]; omega
    simp [this]
  simp only [hle, Bool.true_or, Nat.lt_irrefl, if_false, Nat.sub_self]
  have h0 : ¬ (0 > maxDelay) := by omega
  simp only [h0, decide_false, Bool.false_and, Bool.and_false, Bool.false_eq_true, if_false]
  have h3 : decide (l.start ≥ l.start + usPerSec * Gen.lcMinResumeGapSecs) = false := by
    simp only [h10, hu, decide_eq_false_iff_not]; omega
  simp only [h3, Bool.and_false, Bool.false_and, Bool.not_false, Bool.and_self, if_true]

/-- absorbing a message of the same boot keeps the start and tracks the largest timestamp: start = boot time + delay,
    end = start + largest timestamp -/
theorem C08_absorb_same_boot (l : Lc) (m : Msg) (hrecv : m.recv = l.start + m.tsUs) :
    (l.absorb m).start = l.start ∧ (l.absorb m).maxTs = max l.maxTs m.tsUs ∧ (l.absorb m).nrMsgs = l.nrMsgs + 1 := by
  unfold Lc.absorb
  have hs : m.recv - m.tsUs = l.start := by omega
  simp only [hs, Nat.lt_irrefl, if_false]
  refine ⟨trivial, ?_, trivial⟩
  by_cases h : l.maxTs < m.tsUs
  · simp [h]; omega
  · simp only [h, if_false]
    have : max l.maxTs m.tsUs = l.maxTs := by omega
    rw [this]
    cases l.resume with
    | none => rfl
    | some r => simp only []; split <;> rfl

/-- a message of the next boot whose calculated start lies after the end of the current lifecycle opens a new lifecycle -/
theorem C08_next_boot_fresh (l : Lc) (m : Msg) (hc : m.ctrlReq = false) (hts : m.hasTs = true)
    (hafter : l.endTime < m.recv - m.tsUs) : ∃ r, l.classify m = .fresh r := by
  unfold Lc.classify
  have hnle : decide (m.recv - m.tsUs ≤ l.endTime) = false := by
    simp only [decide_eq_false_iff_not]; omega
  have hpart : ((!l.slightlyOverlapping (m.recv - m.tsUs) && decide (m.recv - m.tsUs ≤ l.endTime)) || !m.hasTs) = false := by
    rw [hnle, hts]; simp
  simp only [hc, Bool.false_eq_true, if_false, hpart, Bool.false_and, Bool.and_false, Bool.not_false]
  exact ⟨_, rfl⟩

/-- outside the claimed region the statement of C08 is false of the detector: boot 0 = one message with timestamp 0
    received at t; boot 1 = one message received 13.7 s later with timestamp 15.05 s (the transport delay shrank by more
    than the off-time): a clean trace in the sense of the statement, yet both messages end up in one lifecycle -/
theorem C08_excluded_witness :
    ((observe (run [ { index := 0, recv := 1700000022000000, ecu := 0, tsDms := 0, hasTs := true, ctrlReq := false },
                     { index := 1, recv := 1700000035678505, ecu := 0, tsDms := 150530, hasTs := true, ctrlReq := false } ])).tbl.map (·.n)) = [2] := by
  decide

/-! ## the whole trace -/

/-- **clean traces inside the claimed region are detected exactly.** `mbs` = the messages with the number of the boot they
    belong to; `FitsAll` = every message has a timestamp, is no control request, and belongs to the newest boot of its ECU
    (same calculated start) or to the next one, whose calculated start lies in the region. Then, at the end of the stream:
    (a) for every ECU the live lifecycles are its boots, one each: id, start = boot time + delay, largest timestamp, count;
    (b) every live lifecycle ends at start + largest timestamp;
    (c) the delivered messages are the input messages in order, each labelled with the id of the lifecycle of its boot;
    (d) the boots of an ECU are distinct (one record per boot). -/
theorem C08_clean_trace_exact (mbs : List (Msg × Nat)) (hF : FitsAll {} (fun _ => []) mbs) :
    (∀ e, (oldList (run (mbs.map (·.1))).ecuMap e).reverse.map Lc.sig = (finalG {} (fun _ => []) mbs e).map Rec.sig) ∧
    (∀ e, ∀ l ∈ oldList (run (mbs.map (·.1))).ecuMap e, l.endTime = l.start + l.maxTs) ∧
    ((run (mbs.map (·.1))).outL.length = mbs.length ∧
      ∀ p ∈ mbs.zip (run (mbs.map (·.1))).outL, p.2 = { p.1.1 with lc := p.2.lc } ∧
        HasRec (finalG {} (fun _ => []) mbs) p.1.1.ecu p.1.2 p.2.lc) ∧
    BootsDesc (finalG {} (fun _ => []) mbs) := by
  obtain ⟨c1, c2, c3⟩ := clean_trace mbs hF
  obtain ⟨l1, l2⟩ := labels8_spec mbs {} (fun _ => []) hF
  refine ⟨c1.sig, ?_, ⟨by rw [c2]; exact l1, by rw [c2]; exact l2⟩, c3⟩
  intro e l hl
  exact endTime_of l (c1.zero e l hl)

/-- ... and the published table lists every boot: an entry with the lifecycle id of the boot, its ECU, its message count,
    start = boot time + delay and end = start + largest timestamp -/
theorem C08_clean_trace_table (mbs : List (Msg × Nat)) (hF : FitsAll {} (fun _ => []) mbs) (e : Nat) (r : Rec)
    (hr : r ∈ finalG {} (fun _ => []) mbs e) :
    ∃ t ∈ (observe (run (mbs.map (·.1)))).tbl, t.id = r.id ∧ t.ecu = e ∧ t.n = r.n ∧ t.start = r.start ∧ t.endT = r.start + r.maxTs := by
  obtain ⟨c1, c2, _, _⟩ := C08_clean_trace_exact mbs hF
  have hmem : r.sig ∈ (oldList (run (mbs.map (·.1))).ecuMap e).reverse.map Lc.sig := by
    rw [c1 e]; exact List.mem_map.mpr ⟨r, hr, rfl⟩
  obtain ⟨l, hl, hsig⟩ := List.mem_map.mp hmem
  have hl' : l ∈ oldList (run (mbs.map (·.1))).ecuMap e := by simpa using hl
  simp only [Lc.sig, Rec.sig, Prod.mk.injEq] at hsig
  obtain ⟨hi, t1, _, _⟩ := run_final (mbs.map (·.1))
  have hem : (run (mbs.map (·.1))).ecuMap = ((mbs.map (·.1)).foldl St.step {}).ecuMap := finish_ecuMap _
  have hlive := oldList_live _ e l hl'
  have hecu : l.ecu = e := by
    rw [hem] at hl'
    exact oldList_ecu _ _ e hi.map l hl'
  have hpub := assocGet_mem _ _ _ (t1 l hlive)
  refine ⟨{ id := l.id, ecu := l.ecu, n := l.nrMsgs, start := l.start, endT := l.endTime, resume := l.resume.isSome, key := l.resumeStart }, ?_,
    hsig.1, hecu, hsig.2.2.2, hsig.2.1, ?_⟩
  · simp only [observe, List.mem_map]
    exact ⟨(l.id, l), hpub, rfl⟩
  · show l.endTime = r.start + r.maxTs
    rw [c2 e l hl', hsig.2.1, hsig.2.2.1]

/-- non-vacuity: one ECU, boot 0 with two messages (timestamps 1 s and 3 s, delay 2 s), boot 1 starting 12 s later -/
example : FitsAll {} (fun _ => [])
    [ ({ index := 0, recv := 1000003000000, ecu := 7, tsDms := 10000, hasTs := true, ctrlReq := false }, 0),
      ({ index := 1, recv := 1000005000000, ecu := 7, tsDms := 30000, hasTs := true, ctrlReq := false }, 0),
      ({ index := 2, recv := 1000017500000, ecu := 7, tsDms := 5000, hasTs := true, ctrlReq := false }, 1) ] := by
  refine ⟨⟨rfl, rfl, by decide, trivial⟩, ⟨rfl, rfl, by decide, Or.inl ⟨rfl, by decide⟩⟩, ⟨rfl, rfl, by decide, Or.inr ⟨rfl, Or.inl (by decide)⟩⟩, trivial⟩

end Props
