import Adlt.Convert.Proofs
import Adlt.Convert.Order
import Adlt.Convert.FileOrder
/-! # C14 — convert selects exactly what its options say

Model: `Cvt.convert` = input ordering (`Cvt.inputSeq`) followed by the pipeline lifecycle detection (`Lcm.run`) ->
[time sort] -> [filter stage, `filter_as_streams` over `Filter::matches`] -> output stage (lifecycle-id set, index window).
`re` = the regular-expression engines (opaque), `sorter` = the time-sort stage (any permutation, see C10). -/
namespace Props
open Cvt Flt

/-- the messages enter the selection numbered 0, 1, 2, … in processing order, every input message exactly once, unchanged -/
theorem C14_input_numbered (files : List File) :
    (stageLc (inputSeq files)).map (·.m) = inputSeq files ∧
    (stageLc (inputSeq files)).map (·.index) = List.range (inputSeq files).length := stageLc_spec _

/-- without `--sort`: the emitted messages are exactly the messages of the (unfiltered, numbered, lifecycle-assigned)
    input that satisfy **all** given selections — filter set (positive OR / negative veto over `Spec.decides`), lifecycle
    ids, index window —, in input order, each once; whatever the sorter would do -/
theorem C14_select (re : Re) (o : Opts) (files : List File) (sorter : List PMsg → List PMsg) (hs : o.sort = false) :
    convert sorter (matchesImpl re) o files = (stageLc (inputSeq files)).filter (Spec.selected re o) := by
  unfold convert pipeline
  simp only [hs, Bool.false_eq_true, if_false]
  rw [stageOut_eq, stageFilter_eq, List.filter_filter, matchesImpl_funext]
  congr 1
  funext p
  simp only [Spec.selected, Bool.and_assoc, Bool.and_comm]

/-- with `--sort`: the same messages, as a permutation (the order is C10's matter), for every sorter that permutes -/
theorem C14_select_sorted (re : Re) (o : Opts) (files : List File) (sorter : List PMsg → List PMsg)
    (hperm : ∀ l, (sorter l).Perm l) :
    (convert sorter (matchesImpl re) o files).Perm ((stageLc (inputSeq files)).filter (Spec.selected re o)) := by
  unfold convert pipeline
  rw [stageOut_eq, stageFilter_eq, List.filter_filter, matchesImpl_funext]
  have hf : (fun p => (lcSelected o p.lc && inWindow o p.index) && Flt.Spec.keepStream (Flt.Spec.decides re) o.filters (view p))
      = Spec.selected re o := by
    funext p; simp only [Spec.selected, Bool.and_assoc, Bool.and_comm]
  rw [hf]
  split
  · exact (hperm _).filter _
  · exact List.Perm.refl _

/-- no message is emitted twice (indices are those of the unfiltered input) -/
theorem C14_each_once (re : Re) (o : Opts) (files : List File) (sorter : List PMsg → List PMsg)
    (hperm : ∀ l, (sorter l).Perm l) :
    ((convert sorter (matchesImpl re) o files).map (·.index)).Nodup := by
  have hp := (C14_select_sorted re o files sorter hperm).map (·.index)
  refine hp.nodup_iff.mpr ?_
  have hsub : (((stageLc (inputSeq files)).filter (Spec.selected re o)).map (·.index)).Sublist
      ((stageLc (inputSeq files)).map (·.index)) := (List.filter_sublist).map _
  rw [(C14_input_numbered files).2] at hsub
  exact hsub.nodup List.nodup_range

/-! ## the order of the file arguments -/

/-- within one ECU set the files are read in the order of their first reception times, however they were named, when
    those times differ -/
theorem C14_files_of_a_group_order_free (l l' : List File) (hp : l.Perm l')
    (hd : ∀ a ∈ l, ∀ b ∈ l, a.firstRecv = b.firstRecv → a = b) : sortByTime l = sortByTime l' :=
  sortByTime_perm_invariant l l' hp hd

/-- the streams of the ECU sets are merged with the same ranks (hence the same result, `merge` being a function of the ranked
    list) however they were passed, when their first reception times differ -/
theorem C14_streams_order_free (ss ss' : List (List FMsg)) (hp : ss.Perm ss')
    (hd : ∀ a ∈ ss, ∀ b ∈ ss, headRecv a = headRecv b → a = b) : merge (rankStreams ss) = merge (rankStreams ss') := by
  rw [rankStreams_perm_invariant ss ss' hp hd]

/-- **file order**: naming the input files in a different order gives the same result - the same messages with the same
    indices and lifecycles, for every option set, sorter and filter matcher - when the first reception times of the (non-empty)
    files are distinct; later messages of different files may well carry equal reception times -/
theorem C14_file_order (sorter : List PMsg → List PMsg) (mt : Flt.Filter → Flt.MsgView → Bool) (o : Opts) (files files' : List File)
    (hp : files.Perm files')
    (hdist : ∀ a ∈ files, ∀ b ∈ files, a.msgs ≠ [] → b.msgs ≠ [] → a.firstRecv = b.firstRecv → a = b) :
    convert sorter mt o files' = convert sorter mt o files := by
  unfold convert
  rw [inputSeq_perm files files' hp hdist]

/-- non-vacuity: a two-message input, window [1,1] -/
example : (convert id (fun _ _ => true) { first := 1, last := some 1 }
    [{ id := 0, msgs := [{ ecu := 0, recv := 1000, ts := 0, apid := [], ctid := [], lvl := 4, text := "a", mcnt := 0 },
                         { ecu := 0, recv := 2000, ts := 10, apid := [], ctid := [], lvl := 4, text := "b", mcnt := 1 }] }]).map (·.index) = [1] := by
  decide

end Props
