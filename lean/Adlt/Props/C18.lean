import Adlt.Args.Trunc
import Adlt.Args.Corrupt
import Adlt.Args.TextProofs
/-! # C18 — verbose payloads: encode/decode agreement and canonical text

Model: `Arg.argIter` (= `DltMessageArgIterator`), `Arg.encode` (= `payload_from_args` and the serde serializer, which
produce the same bytes), `Arg.render` (= `process_msg_arg_iter`). `Val.wf`: widths match the type, floats are 32/64 bit,
strings / raw data fit the 16-bit length. -/
namespace Props
open Arg

/-- encoding a sequence of typed values and decoding it yields the same number of arguments with the same types and
    raw values, in both byte orders -/
theorem C18_roundtrip (be : Bool) (vs : List Val) (hw : ∀ v ∈ vs, v.wf = true) :
    argIter be (encode be vs) = vs.map Val.decoded := argIter_encode be vs hw

/-- every truncation of the payload decodes to a prefix of the original arguments -/
theorem C18_prefix (be : Bool) (vs : List Val) (hw : ∀ v ∈ vs, v.wf = true) (k : Nat) :
    ∃ n, argIter be ((encode be vs).take k) = (vs.map Val.decoded).take n := argIter_take be vs hw k

/-- the text rendering of the decoded arguments is the space-separated canonical form of the values (decimal numbers,
    true/false, lower-case hex bytes, strings with one trailing NUL removed and CR/LF/TAB as spaces), for every float
    formatter and every lossy decoder of non-ASCII bytes -/
theorem C18_text (op : Opaque) (be : Bool) (vs : List Val) (hw : ∀ v ∈ vs, v.wf = true) :
    render op be (argIter be (encode be vs)) = canon op be vs := by
  rw [argIter_encode be vs hw]; exact render_decoded op be vs hw

/-- malformed lists, for **every** byte string (not only corruptions of an encoded list): each argument the decoder
    yields has a supported type info - no variable-info, fixed-point, array, trace-info or structure modifier (they
    change the layout of the argument, which the decoder does not know) and no reserved length code; the decoder stops
    in front of such an argument -/
theorem C18_decoded_supported (be : Bool) (p : Bytes) : ∀ a ∈ argIter be p, unsupportedTi a.ti = false :=
  argIter_supported be p

/-- a corrupted field: whatever follows the encoding of the first `vs.length` arguments, these decode to themselves -
    the decoded list starts with the original arguments that lie in front of the corruption -/
theorem C18_corruption_keeps_prefix (be : Bool) (vs : List Val) (hw : ∀ v ∈ vs, v.wf = true) (q : Bytes) :
    (argIter be (encode be vs ++ q)).take vs.length = vs.map Val.decoded := argIter_encode_append be vs hw q

/-- the type-info constants the model uses are the ones the Rust sources define now -/
theorem C18_consts : Gen.tiBool = 0x10 ∧ Gen.tiSint = 0x20 ∧ Gen.tiUint = 0x40 ∧ Gen.tiFloa = 0x80 ∧ Gen.tiStrg = 0x200 ∧
    Gen.tiRawd = 0x400 ∧ Gen.tiVari = 0x800 ∧ Gen.tiFixp = 0x1000 ∧ Gen.scodUtf8 = 0x8000 ∧ Gen.tiAray = 0x100 ∧ Gen.tiTrai = 0x2000 ∧
    Gen.tiStru = 0x4000 ∧ Gen.tiMaskTyle = 0xf := by decide

/-- non-vacuity: the formerly broken case - an empty raw argument followed by a u8 -/
example : argIter false (encode false [.raw [], .uint 1 [7]]) = [⟨0x400, []⟩, ⟨0x41, [7]⟩] := by decide

/-- non-vacuity: the formerly broken cases - `[u8 7, u8 9]` with the array bit set in the first type info, and
    `[bool true, u8 9]` with a reserved length code - end the list instead of yielding an argument of another type -/
example : argIter false [0x41, 0x01, 0, 0, 7, 0x41, 0, 0, 0, 9] = [] ∧
          argIter false [0x17, 0, 0, 0, 1, 0x41, 0, 0, 0, 9] = [] ∧
          argIter false [0x10, 0, 0, 0, 1, 0x41, 0, 0, 0, 9] = [⟨0x10, [1]⟩, ⟨0x41, [9]⟩] := by decide

end Props
