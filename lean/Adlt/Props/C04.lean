import Adlt.Buf.Inv
import Adlt.Dlt.Window
/-! # C04 — parsing depends only on the bytes, not on read chunking or position (reader part)

Model: `Lmk.LM` (= `LowMarkBufReader` over a source with an arbitrary short-read schedule). `orig` is the
source as it was at construction; the logical position of the reader is `absPos + pos`. -/
namespace Props
open Lmk

/-- the invariant holds initially and is preserved by `fill` (every schedule of short reads, any number of
    compactions), `consume`, `read` and `seek`: the buffered bytes are the source's bytes at their absolute position -/
theorem C04_reader_invariant (orig : List Nat) (capacity lowMark : Nat) (sched : List Nat) :
    Inv orig (LM.new capacity lowMark orig sched) ∧
    (∀ s, Inv orig s → Inv orig s.fill) ∧ (∀ s n, Inv orig s → Inv orig (s.consume n)) ∧
    (∀ s k, Inv orig s → Inv orig (s.read k).2) ∧ (∀ s n, Inv orig s → Inv orig (s.seekStart n).2) :=
  ⟨new_inv capacity lowMark orig sched, fun s h => (fill_inv orig s h).1, fun s n h => consume_inv orig s n h,
   fun s k h => (read_spec orig s k h).2.2, fun s n h => (seekStart_spec orig s n h).1⟩

/-- the window handed out by `fill_buf` is exactly the source from the logical position on, `fill_buf` never
    moves the logical position and never shrinks the look-ahead -/
theorem C04_fill_hands_out_source (orig : List Nat) (s : LM) (hi : Inv orig s) :
    s.fill.window = (orig.drop (s.absPos + s.pos)).take (s.fill.cap - s.fill.pos)
      ∧ s.cap - s.pos ≤ s.fill.cap - s.fill.pos := by
  obtain ⟨f1, f2, f3⟩ := fill_inv orig s hi
  exact ⟨by rw [window_eq orig s.fill f1, f2], f3⟩

/-- `read` hands out the source's bytes at the logical position, once and in order (the position advances by
    exactly the number of bytes handed out) -/
theorem C04_read_in_order (orig : List Nat) (s : LM) (k : Nat) (hi : Inv orig s) :
    (s.read k).1 = (orig.drop (s.absPos + s.pos)).take (s.read k).1.length
      ∧ (s.read k).2.absPos + (s.read k).2.pos = s.absPos + s.pos + (s.read k).1.length :=
  ⟨(read_spec orig s k hi).1, (read_spec orig s k hi).2.1⟩

/-- an accepted seek stands exactly at the requested absolute position (so the following reads continue with
    `orig[n..]`), a refused one leaves the position untouched -/
theorem C04_seek_within_buffer (orig : List Nat) (s : LM) (n : Nat) (hi : Inv orig s) :
    if (s.seekStart n).1 then (s.seekStart n).2.absPos + (s.seekStart n).2.pos = n
    else (s.seekStart n).2.absPos + (s.seekStart n).2.pos = s.absPos + s.pos :=
  (seekStart_spec orig s n hi).2

/-- **window lemma** (why chunking cannot matter): on any window that holds at least a minimal message, the message its
    length field announces, and the four look-ahead bytes of the corruption heuristic, the storage parser answers - message,
    bytes consumed, or which error - exactly as on the whole remaining input -/
theorem C04_parse_window (i : Nat) (w rest : Dp.Bytes) (h20 : 20 ≤ w.length) (hl : 16 + Dp.lenOf w + 4 ≤ w.length) :
    Dp.parseStorage i (w ++ rest) = Dp.parseStorage i w := Dp.parse_window i w rest h20 hl

/-- hence a window of `DLT_MIN_PARSE_BUFFER_SIZE` = 16 + 65535 + look-ahead bytes - the low mark `convert` and `remote`
    hand to the reader since fix f61142c - always suffices, whatever the length field says -/
theorem C04_min_buffer_suffices (i : Nat) (w rest : Dp.Bytes) (h : 16 + 65535 + Gen.dltParseLookAhead ≤ w.length) :
    Dp.parseStorage i (w ++ rest) = Dp.parseStorage i w := by
  have hla : Gen.dltParseLookAhead = 4 := by decide
  have hlen : Dp.lenOf w ≤ 65535 := by
    unfold Dp.lenOf
    split
    · rename_i l1 l2 _ _
      have := l1.toNat_lt; have := l2.toNat_lt; omega
    · omega
  exact Dp.parse_window i w rest (by omega) (by omega)

theorem C04_consts : Gen.cacheLineSize = 4096 ∧ Gen.dltParseLookAhead = 4 := by decide

end Props
