import Adlt.Buf.Inv
import Adlt.Dlt.Window
import Adlt.Dlt.Chunked
import Adlt.Dlt.Position
/-! # C04 — parsing depends only on the bytes, not on read chunking or position (reader part)

Model: `Lmk.LM` (= `LowMarkBufReader` over a source with an arbitrary short-read schedule). `orig` is the
source as it was at construction; the logical position of the reader is `absPos + pos`. -/
namespace Props
open Lmk

/-- the invariant holds initially and is preserved by `fill` (every schedule of short reads, any number of
    compactions), `consume`, `read` and `seek`: the buffered bytes are the source's bytes at their absolute position -/
theorem C04_reader_invariant (orig : List Nat) (capacity lowMark : Nat) (sched : List Nat) :
    Inv orig (LM.new capacity lowMark orig sched) ∧
    (∀ s, Inv orig s → Inv orig s.fill) ∧ (∀ s n, Inv orig s → Inv orig (s.consume n)) ∧
    (∀ s k, Inv orig s → Inv orig (s.read k).2) ∧ (∀ s n, Inv orig s → Inv orig (s.seekStart n).2) :=
  ⟨new_inv capacity lowMark orig sched, fun s h => (fill_inv orig s h).1, fun s n h => consume_inv orig s n h,
   fun s k h => (read_spec orig s k h).2.2, fun s n h => (seekStart_spec orig s n h).1⟩

/-- the window handed out by `fill_buf` is exactly the source from the logical position on, `fill_buf` never
    moves the logical position and never shrinks the look-ahead -/
theorem C04_fill_hands_out_source (orig : List Nat) (s : LM) (hi : Inv orig s) :
    s.fill.window = (orig.drop (s.absPos + s.pos)).take (s.fill.cap - s.fill.pos)
      ∧ s.cap - s.pos ≤ s.fill.cap - s.fill.pos := by
  obtain ⟨f1, f2, f3⟩ := fill_inv orig s hi
  exact ⟨by rw [window_eq orig s.fill f1, f2], f3⟩

/-- `read` hands out the source's bytes at the logical position, once and in order (the position advances by
    exactly the number of bytes handed out) -/
theorem C04_read_in_order (orig : List Nat) (s : LM) (k : Nat) (hi : Inv orig s) :
    (s.read k).1 = (orig.drop (s.absPos + s.pos)).take (s.read k).1.length
      ∧ (s.read k).2.absPos + (s.read k).2.pos = s.absPos + s.pos + (s.read k).1.length :=
  ⟨(read_spec orig s k hi).1, (read_spec orig s k hi).2.1⟩

/-- an accepted seek stands exactly at the requested absolute position (so the following reads continue with
    `orig[n..]`), a refused one leaves the position untouched -/
theorem C04_seek_within_buffer (orig : List Nat) (s : LM) (n : Nat) (hi : Inv orig s) :
    if (s.seekStart n).1 then (s.seekStart n).2.absPos + (s.seekStart n).2.pos = n
    else (s.seekStart n).2.absPos + (s.seekStart n).2.pos = s.absPos + s.pos :=
  (seekStart_spec orig s n hi).2

/-- **window lemma** (why chunking cannot matter): on any window that holds at least a minimal message, the message its
    length field announces, and the four look-ahead bytes of the corruption heuristic, the storage parser answers - message,
    bytes consumed, or which error - exactly as on the whole remaining input -/
theorem C04_parse_window (i : Nat) (w rest : Dp.Bytes) (h20 : 20 ≤ w.length) (hl : 16 + Dp.lenOf w + 4 ≤ w.length) :
    Dp.parseStorage i (w ++ rest) = Dp.parseStorage i w := Dp.parse_window i w rest h20 hl

/-- hence a window of `DLT_MIN_PARSE_BUFFER_SIZE` = 16 + 65535 + look-ahead bytes - the low mark `convert` and `remote`
    hand to the reader since fix f61142c - always suffices, whatever the length field says -/
theorem C04_min_buffer_suffices (i : Nat) (w rest : Dp.Bytes) (h : 16 + 65535 + Gen.dltParseLookAhead ≤ w.length) :
    Dp.parseStorage i (w ++ rest) = Dp.parseStorage i w := by
  have hla : Gen.dltParseLookAhead = 4 := by decide
  have hlen : Dp.lenOf w ≤ 65535 := by
    unfold Dp.lenOf
    split
    · rename_i l1 l2 _ _
      have := l1.toNat_lt; have := l2.toNat_lt; omega
    · omega
  exact Dp.parse_window i w rest (by omega) (by omega)

/-! ## the low-water mark and the end-of-data latch -/

/-- a reader state as every operation sequence produces it from `new` with an admissible capacity -/
structure C04Ready (orig : List Nat) (s : LM) : Prop where
  inv : Inv orig s
  eofOk : EofOk s
  room : s.lowMark + cacheLine ≤ s.buf.length

/-- `new` with `capacity ≥ low mark + 4096` is ready, and `fill`, `consume`, `read` and `seek` keep it so: in particular
    the end-of-data latch is only ever set when the source is exhausted -/
theorem C04_ready_invariant (orig : List Nat) (capacity lowMark : Nat) (sched : List Nat) (hc : lowMark + Gen.cacheLineSize ≤ capacity) :
    C04Ready orig (LM.new capacity lowMark orig sched) ∧
    (∀ s, C04Ready orig s → C04Ready orig s.fill) ∧ (∀ s n, C04Ready orig s → C04Ready orig (s.consume n)) ∧
    (∀ s k, C04Ready orig s → C04Ready orig (s.read k).2) ∧ (∀ s n, C04Ready orig s → C04Ready orig (s.seekStart n).2) := by
  have hfill : ∀ s, C04Ready orig s → C04Ready orig s.fill := by
    intro s h
    obtain ⟨_, g2, g3⟩ := fill_good orig s h.inv h.eofOk h.room
    exact ⟨(fill_inv orig s h.inv).1, g2, by rw [g3, fill_buflen orig s h.inv]; exact h.room⟩
  have hcons : ∀ s n, C04Ready orig s → C04Ready orig (s.consume n) :=
    fun s n h => ⟨consume_inv orig s n h.inv, h.eofOk, h.room⟩
  have hnew : C04Ready orig (LM.new capacity lowMark orig sched) := by
    refine ⟨new_inv capacity lowMark orig sched, fun h => ?_, ?_⟩
    · cases h
    · show lowMark + cacheLine ≤ (List.replicate capacity 0).length
      simpa [cacheLine] using hc
  refine ⟨hnew, hfill, hcons, ?_, ?_⟩
  · intro s k h
    exact hcons _ _ (hfill s h)
  · intro s n h
    have hi := (seekStart_spec orig s n h.inv).1
    unfold LM.seekStart at hi ⊢
    simp only [] at hi ⊢
    have ht : C04Ready orig (if s.cap == 0 then s.fill else s) := by split; exact hfill s h; exact h
    generalize (if s.cap == 0 then s.fill else s) = t at *
    split
    · exact ht
    · split
      · exact ht
      · rename_i h1 h2
        simp only [h1, h2, if_false] at hi
        exact ⟨hi, ht.eofOk, ht.room⟩

/-- **low-water mark**: under every read schedule, `fill_buf` offers at least the low mark, or everything the source has left;
    so an empty window means the source is exhausted (end-of-data is never signalled early) -/
theorem C04_low_mark_kept (orig : List Nat) (s : LM) (h : C04Ready orig s) :
    min s.lowMark (orig.length - (s.absPos + s.pos)) ≤ s.fill.window.length ∧
    (s.fill.window = [] → 0 < s.lowMark → s.absPos + s.pos = orig.length) := by
  obtain ⟨f1, f2, _⟩ := fill_inv orig s h.inv
  obtain ⟨g1, _, g3⟩ := fill_good orig s h.inv h.eofOk h.room
  have hw := good_window orig s.fill f1 g1
  rw [f2, g3] at hw
  refine ⟨hw, ?_⟩
  intro he hl
  rw [he] at hw
  have hio := h.inv.inOrig
  have hp := h.inv.posLe
  simp only [List.length_nil] at hw
  omega

/-- `read` never signals end-of-data early either: zero bytes for a non-empty request means the source is exhausted -/
theorem C04_read_not_early (orig : List Nat) (s : LM) (k : Nat) (h : C04Ready orig s) (hk : 0 < k) (hl : 0 < s.lowMark)
    (h0 : (s.read k).1 = []) : s.absPos + s.pos = orig.length := by
  apply (C04_low_mark_kept orig s h).2 _ hl
  unfold LM.read at h0
  simp only [] at h0
  cases hw : s.fill.window with
  | nil => rfl
  | cons x t => rw [hw] at h0; cases k with
    | zero => omega
    | succ k => simp at h0

/-! ## chunking and position -/

/-- **chunking independence**: the iterator over the buffered reader - for every source, every schedule of short reads
    (down to one byte at a time), every low mark of at least `DLT_MIN_PARSE_BUFFER_SIZE`, every capacity of at least low mark
    + 4096, every start index - yields exactly the messages, byte counters and framing latches of the iterator over the
    whole byte string (`fuel` = the same number of loop passes on both sides) -/
theorem C04_chunking_independent (orig : List Nat) (capacity lowMark : Nat) (sched : List Nat) (fuel : Nat) (s : Dp.ItSt)
    (hl : 16 + 65535 + Gen.dltParseLookAhead ≤ lowMark) (hc : lowMark + Gen.cacheLineSize ≤ capacity) :
    Dp.iterLM fuel s (LM.new capacity lowMark orig sched) = Dp.iterAll fuel s (Dp.bytesOf orig) := by
  have hr := (C04_ready_invariant orig capacity lowMark sched hc).1
  have := Dp.iterLM_eq orig fuel s (LM.new capacity lowMark orig sched) ⟨hr.inv, hr.eofOk, hl, hr.room⟩
  rw [this]
  show Dp.iterAll fuel s (Dp.bytesOf (orig.drop (0 + 0))) = _
  simp

/-- ... and from every state the reader can be in (after any fills, consumes, reads and accepted seeks): the iterator
    continues with the source from the logical position on -/
theorem C04_chunking_independent_from (orig : List Nat) (r : LM) (fuel : Nat) (s : Dp.ItSt) (h : C04Ready orig r)
    (hl : 16 + 65535 + Gen.dltParseLookAhead ≤ r.lowMark) :
    Dp.iterLM fuel s r = Dp.iterAll fuel s (Dp.bytesOf (orig.drop (r.absPos + r.pos))) :=
  Dp.iterLM_eq orig fuel s r ⟨h.inv, h.eofOk, hl, h.room⟩

/-- **position independence, for one or more messages in front** (partial: the statement of C04 also compares with *no*
    message in front, where it is false of the code - see `C04_position_unlatched_witness` below): behind any number ≥ 1 of
    complete messages (well-formed, accepted where they stand) the iterator continues on the suffix - arbitrary bytes -
    exactly like an iterator started on the suffix alone with storage framing latched; the messages found there are the
    same up to renumbering by the number of messages in front. In particular the result does not depend on *how many*
    messages are in front, as long as there is one. -/
theorem C04_position_independent_partial (rs : List Dp.RawMsg) (fuel : Nat) (s : Dp.ItSt) (d : Dp.Bytes)
    (hs : s.detSerial = false) (hp : Dp.PrefixOk rs d) (hne : rs ≠ []) :
    (Dp.iterAll (fuel + rs.length) s (Dp.encAll rs ++ d)).1 =
      Dp.msgsOf s.index rs ++ (Dp.iterAll fuel { s with detStorage := true } d).1.map (Dp.Msg.shift rs.length) ∧
    (Dp.iterAll (fuel + rs.length) s (Dp.encAll rs ++ d)).2 =
      (Dp.iterAll fuel { s with detStorage := true } d).2.shift rs.length (Dp.encAll rs).length := by
  have h1 := Dp.iter_prefix rs fuel s d hs hp
  obtain ⟨a, b, c, e, f⟩ := Dp.after_fields rs s d hp
  have hst : Dp.after s rs = ({ s with detStorage := true } : Dp.ItSt).shift rs.length (Dp.encAll rs).length := by
    have hne' : rs.isEmpty = false := by cases rs with | nil => exact absurd rfl hne | cons _ _ => rfl
    rw [hne'] at f
    cases hA : Dp.after s rs
    rw [hA] at a b c e f
    simp only [Dp.ItSt.shift, Dp.ItSt.mk.injEq]
    simp only [] at a b c e f
    exact ⟨a, b, c, by simpa using f, e⟩
  rw [h1, hst, Dp.iterAll_shift]
  exact ⟨rfl, rfl⟩

/-! ### the position clause without a message in front

    The framing is latched by the first message that parses. A suffix read with nothing in front is read unlatched; the same
    suffix behind a message is read latched - and the two readings differ on suffixes that hold a frame marker inside a
    truncated or rejected message. This is the behaviour of the unchanged code (the harness replays both witnesses on it: area
    `pos`); it is recorded as the known finding `C04-position-before-latch`. -/

/-- a truncated storage message (announces 204 bytes, 24 follow) that embeds a complete message -/
def posWitness1 : Dp.Bytes :=
  [68,76,84,1, 1,0,0,0, 0,0,0,0, 84,82,85,78, 0x20,1,0,204,
   68,76,84,1, 1,0,0,0, 0,0,0,0, 69,77,66,68, 0x20,7,0,8, 1,2,3,4]

/-- a serial message (counter 10) that the corrupt-message heuristic rejects - not followed by a marker, contains one - and
    embeds a storage message (counter 5) and a serial message (11); two more serial messages (12, 13) follow -/
def posWitness2 : Dp.Bytes :=
  [68,76,83,1,32,10,0,35,68,76,84,1,1,0,0,0,0,0,0,0,83,84,79,82,32,5,0,6,170,187,68,76,83,1,32,11,0,5,1,0,0,0,0,
   68,76,83,1,32,12,0,6,2,2,68,76,83,1,32,13,0,7,3,3,3]

/-- **the statement of C04 for "no message in front" is false of the iterator**: read alone, the first suffix yields its embedded
    message, read with storage framing latched (= behind a message, by `C04_position_independent_partial`) it yields nothing;
    read alone, the second suffix yields only the embedded storage message, read with serial framing latched the three serial
    messages -/
theorem C04_position_unlatched_witness :
    ((Dp.iterAll 100 { index := 0 } posWitness1).1.length = 1 ∧
     (Dp.iterAll 100 { index := 0, detStorage := true } posWitness1).1.length = 0) ∧
    ((Dp.iterAll 200 { index := 0 } posWitness2).1.map (·.std.mcnt) = [5] ∧
     (Dp.iterAll 200 { index := 0, detSerial := true } posWitness2).1.map (·.std.mcnt) = [11, 12, 13]) := by
  decide +kernel

/-- non-vacuity: a minimal well-formed message is a complete prefix of a stream that continues with garbage -/
example : Dp.PrefixOk [{ sh := [0,0,0,0,0,0,0,0,69,67,85,49], htyp := 0x20, mcnt := 0, add := [], payload := [] }] [1, 2, 3, 4, 5] := by
  refine ⟨by decide, by decide, trivial⟩

theorem C04_consts : Gen.cacheLineSize = 4096 ∧ Gen.dltParseLookAhead = 4 := by decide

end Props
