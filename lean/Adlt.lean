import Adlt.Lc.Pub
